(* Driver for the extracted model: one request per line "<id> <sexpr>", one answer per line.
   Integers are converted between decimal text and the extracted inductive Z by hand. *)
open Model

let rec pos_of_int (n : int) : positive =
  if n = 1 then XH
  else if n land 1 = 0 then XO (pos_of_int (n lsr 1))
  else XI (pos_of_int (n lsr 1))

let z_of_int (n : int) : z =
  if n = 0 then Z0 else if n > 0 then Zpos (pos_of_int n) else Zneg (pos_of_int (- n))

let z10 = z_of_int 10

(* arbitrary precision fallback through the extracted arithmetic *)
let z_of_string (s : string) : z =
  let len = String.length s in
  let neg = len > 0 && s.[0] = '-' in
  let start = if neg then 1 else 0 in
  if len - start <= 17 then z_of_int (int_of_string s)
  else begin
    let acc = ref Z0 in
    for i = start to len - 1 do
      acc := Z.add (Z.mul !acc z10) (z_of_int (Char.code s.[i] - 48))
    done;
    if neg then Z.opp !acc else !acc
  end

let rec pos_bits (p : positive) : int = match p with XH -> 1 | XO q | XI q -> 1 + pos_bits q
let rec int_of_pos (p : positive) : int =
  match p with XH -> 1 | XO q -> 2 * int_of_pos q | XI q -> 2 * int_of_pos q + 1

let rec string_of_pos_slow (p : positive) : string =
  (* p > 0 *)
  let zp = Zpos p in
  let q = Z.div zp z10 and r = Z.modulo zp z10 in
  let d = match r with Z0 -> 0 | Zpos x -> int_of_pos x | Zneg _ -> 0 in
  (match q with Zpos q' -> string_of_pos_slow q' | _ -> "") ^ string_of_int d

let string_of_pos p = if pos_bits p <= 61 then string_of_int (int_of_pos p) else string_of_pos_slow p

let string_of_z (x : z) : string =
  match x with Z0 -> "0" | Zpos p -> string_of_pos p | Zneg p -> "-" ^ string_of_pos p

(* ---- s-expression reader ------------------------------------------------ *)
let parse (s : string) (pos : int ref) : sx =
  let n = String.length s in
  let rec skip () = if !pos < n && (s.[!pos] = ' ' || s.[!pos] = '\t') then (incr pos; skip ()) in
  let rec item () : sx =
    skip ();
    if !pos >= n then failwith "eof"
    else if s.[!pos] = '(' then begin
      incr pos;
      let rec items acc =
        skip ();
        if !pos >= n then failwith "eof in list"
        else if s.[!pos] = ')' then (incr pos; List.rev acc)
        else let x = item () in items (x :: acc) in
      L (items [])
    end else begin
      let st = !pos in
      while !pos < n && s.[!pos] <> ' ' && s.[!pos] <> '(' && s.[!pos] <> ')' do incr pos done;
      A (z_of_string (String.sub s st (!pos - st)))
    end in
  item ()

let rec print (b : Buffer.t) (x : sx) : unit =
  match x with
  | A z -> Buffer.add_string b (string_of_z z)
  | L l ->
      Buffer.add_char b '(';
      List.iteri (fun i y -> if i > 0 then Buffer.add_char b ' '; print b y) l;
      Buffer.add_char b ')'

let () =
  let b = Buffer.create 65536 in
  (try
     while true do
       let line = Stdlib.input_line Stdlib.stdin in
       if String.length line > 0 then begin
         let pos = ref 0 in
         let idx = (match parse line pos with A z -> z | L _ -> Z0) in
         let arg = parse line pos in
         Buffer.clear b;
         (try print b (run_model idx arg) with Stack_overflow -> Buffer.add_string b "-997");
         Buffer.add_char b '\n';
         Stdlib.print_string (Buffer.contents b)
       end
     done
   with End_of_file -> ());
  Stdlib.flush Stdlib.stdout
