"""F15 replay: with randomize_placement_order=True the placement states shuffled the PREVIOUS
episode's order (self.agents was overwritten with the shuffled dict), so a seeded reset on a used
state object differed from the same seeded reset on a newly built one.
Run: PYTHONPATH=/repo /venv/bin/python findings/C08-shuffle-order-persists.py   (exit 1 = defect present)"""
import random
import sys
import numpy as np
from abmarl.sim.gridworld.agent import GridWorldAgent
from abmarl.sim.gridworld.grid import Grid
from abmarl.sim.gridworld.state import PositionState


def build():
    agents = {f"a{i}": GridWorldAgent(id=f"a{i}", encoding=1) for i in range(4)}
    grid = Grid(3, 3)
    return PositionState(grid=grid, agents=agents, randomize_placement_order=True), agents


def seeded_reset(state, seed):
    random.seed(seed)
    np.random.seed(seed)
    state.reset()


bad = 0
for s1 in range(5):
    used, ua = build()
    seeded_reset(used, 100 + s1)          # an earlier episode
    seeded_reset(used, 7)                 # the follow-up episode
    fresh, fa = build()
    seeded_reset(fresh, 7)                # the same seeded episode on a new copy
    pu = {k: a.position.tolist() for k, a in sorted(ua.items())}
    pf = {k: a.position.tolist() for k, a in sorted(fa.items())}
    if pu != pf or list(used.agents) != list(fresh.agents):
        bad += 1
        print(f"earlier seed {100 + s1}: used {pu} order {list(used.agents)}\n"
              f"                 fresh {pf} order {list(fresh.agents)}")
print("C08 violated in", bad, "of 5 histories" if bad else "ok: used == fresh")
sys.exit(1 if bad else 0)
