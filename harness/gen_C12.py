"""C12: MoveActor / CrossMoveActor / DriftMoveActor of abmarl.sim.gridworld.actor vs Grid/Move.v."""
from . import envshim  # noqa: F401
import itertools
import numpy as np
from .runner import Component, exc_code
from . import gridsim as G

PROP = "C12"
RULE = ("a case is (rows, cols, overlap table as supplied, agents with encodings / start cells / "
        "orientations, a sequence of move operations (actor kind, agent, action)); exhaustive: every "
        "position x every action of the three action spaces on grids up to 3x3 with 0-2 other agents; "
        "random: grids 1x1..6x6 incl. single row/column, up to 6 agents, random one-sided overlap "
        "tables, move ranges 0..FULL, sequences of up to 30 moves; after every operation the result, "
        "every agent's state and every cell dictionary are compared; non-trivial = some move is "
        "refused or lands on an occupied cell; distinct = distinct inputs")
ASSUMPTIONS = [
    "moves are issued for agents that are placed in the grid (what every manager and example does); "
    "a move by an agent without a cell raises KeyError in the implementation and MKeyErr in the model",
    "the in-place overwrite `action_dict[key] = orientation` of the drift actor (caller-owned dict) "
    "is outside the model",
]


def impl(inp):
    from abmarl.sim.gridworld.actor import MoveActor, CrossMoveActor, DriftMoveActor
    rows, cols, wov, wags, ops = inp
    agents = G.build_agents(wags, move_range=max(rows, cols))
    grid = G.build_grid(rows, cols, wov, ov_ints=bool(len(wags) % 2))
    actors = {}
    # MoveActor's constructor assigns action spaces from move_range; build each actor once.
    # Half of the cases: the actors are built on another grid (other size, everything overlaps) and
    # get THE grid through the public `grid` setter afterwards: bounds and occupancy must follow it
    first = grid
    if (rows * 3 + cols + len(wags)) % 2:
        first = G.build_grid(rows + 2, max(1, cols - 1), [[1, [1, 2, 3]], [2, [2, 3]], [3, [3]]])
    actors[0] = MoveActor(grid=first, agents=agents)
    actors[1] = CrossMoveActor(grid=first, agents=agents)
    actors[2] = DriftMoveActor(grid=first, agents=agents)
    for a_ in actors.values():
        a_.grid = grid
    G.place_initial(grid, agents, wags)
    out = [G.snapshot(grid, agents), []]
    for op in ops:
        kind, i = op[0], op[1]
        a = agents[G.aid(i)]
        try:
            if kind == 0:
                mv = np.array([op[2], op[3]])
                res = actors[0].process_action(a, {"move": mv})
                mv += 1000                      # the caller's array is the caller's: scribble on it
            else:
                # a caller that looks an offset up through the public grid_action and then
                # computes with the array it was handed (in place): the table must not change
                for k in (0, 1, 2, 3, 4):
                    off = actors[kind].grid_action(k)
                    try:
                        off *= 7
                        off += 3
                    except (ValueError, TypeError):
                        pass                    # handed out read-only: nothing to scribble on
                res = actors[kind].process_action(a, {"move": op[2]})
            r = 1 if res else 0
        except TimeoutError:
            raise
        except Exception as e:
            r = [-1, exc_code(e)]
        out[1].append([r, G.snapshot(grid, agents)])
    return out


def wagent(enc, pos, orient=None):
    return [enc, list(pos) if pos is not None else [], G.HD, 1, [], [orient] if orient else [], 0]


def rand_ov(rng, encs):
    ov = []
    for e in encs:
        if rng.random() < 0.6:
            vs = [x for x in encs if rng.random() < 0.5]
            if vs:
                ov.append([e, vs])
    return ov


def sym_closure(ov):
    t = {k: set(v) for k, v in ov}
    for k, v in ov:
        for o in v:
            t.setdefault(o, set()).add(k)
    return t


def legalise(ov, ags):
    """Agents whose start cell is not available to them (in placement order) get no cell and are
    marked inactive; no operation is issued for them."""
    t = sym_closure(ov)
    occ = {}
    ok = []
    for a in ags:
        pos = tuple(a[1]) if a[1] else None
        if pos is None:
            a[3] = 0
            ok.append(False)
            continue
        here = occ.setdefault(pos, [])
        if all(e in t.get(a[0], ()) for e in here):
            here.append(a[0])
            ok.append(True)
        else:
            a[1] = []
            a[3] = 0
            ok.append(False)
    return ok


def gen_far(tier, rng):
    """Very long corridors: coordinates beyond 100000, where a comparison of positions with a
    relative tolerance (np.isclose / np.allclose, rtol 1e-5) takes neighbouring cells for equal.
    Three agents only; every snapshot lists every cell, so just a few cases."""
    for k in range(3 if tier != "thorough" else 12):
        n = 100003 + rng.randint(0, 40)
        c = n - 2 - rng.randint(0, 3)
        horizontal = k % 2 == 0
        at = (lambda x: (0, x)) if horizontal else (lambda x: (x, 0))
        ags = [wagent(1, at(c), 3 if horizontal else 2), wagent(2, at(c - 1)), wagent(3, at(c + 1))]
        ov = [[1, [3]]]          # the mover may step onto the agent ahead, not onto the one behind
        fwd, back = (3, 1) if horizontal else (2, 4)
        ops = [[1, 0, back], [1, 0, fwd], [2, 0, 0], [0, 0] + list(at(-1)), [0, 0] + list(at(1)), [2, 0, back]]
        rng.shuffle(ops)
        yield [1 if horizontal else n, n if horizontal else 1, ov, ags, ops[:4]]


def gen(tier, rng):
    for case in gen_raw(tier, rng):
        rows, cols, ov, ags, ops = case
        ok = legalise(ov, ags)
        ops = [o for o in ops if ok[o[1]]]
        if ops:
            yield [rows, cols, ov, ags, ops]


def gen_raw(tier, rng):
    quick = tier != "thorough"
    # exhaustive small scope: one mover at every position, 0..2 others, every action
    sizes = [(1, 1), (1, 3), (3, 1), (2, 2), (2, 3), (3, 3)] if quick else \
        [(1, 1), (1, 4), (4, 1), (2, 2), (2, 3), (3, 3), (3, 4), (4, 4)]
    ovs = [[], [[1, [1]]], [[1, [2]]], [[2, [1]]], [[1, [1, 2]], [2, [2]]]]
    for rows, cols in sizes:
        cells = [(r, c) for r in range(rows) for c in range(cols)]
        others_sets = [()] + [(p,) for p in cells] + \
            ([(p, q) for p in cells for q in cells] if rows * cols <= (6 if quick else 9) else
             [tuple(rng.sample(cells, 2)) for _ in range(12)])
        for pos in cells:
            for others in others_sets:
                ov = rng.choice(ovs)
                ags = [wagent(1, pos, rng.randint(1, 4))] + \
                      [wagent(rng.choice([1, 2]), p, rng.randint(1, 4)) for p in others]
                ops = [[1, 0, a] for a in range(5)] + [[2, 0, a] for a in range(5)] + \
                      [[0, 0, dr, dc] for dr in (-1, 0, 1) for dc in (-1, 0, 1)]
                # each op from the same start: one case per op keeps the start state fixed
                for op in ops:
                    yield [rows, cols, ov, ags, [op]]
    # free moves of FULL range: every position x every offset that stays inside a non-square grid
    # (and a few that leave it), with 0-1 other agents
    for rows, cols in ([(2, 4), (4, 2), (2, 3), (3, 5)] if quick else [(2, 4), (4, 2), (2, 3), (3, 5), (5, 3), (2, 6), (4, 6)]):
        cells = [(r, c) for r in range(rows) for c in range(cols)]
        for pos in cells:
            other = rng.choice(cells)
            ov = rng.choice(ovs)
            ags = [wagent(1, pos, rng.randint(1, 4))] + ([wagent(rng.choice([1, 2]), other)] if rng.random() < 0.6 else [])
            for dr in range(-rows, rows + 1):
                for dc in range(-cols, cols + 1):
                    yield [rows, cols, ov, ags, [[0, 0, dr, dc]]]
    # pile-ups of agents that may overlap their own kind: arrive, leave one by one, somebody else
    # tries to enter (the cell dictionaries and any derived bookkeeping must follow every step)
    for _ in range(300 if quick else 6000):
        rows, cols = rng.choice([(1, 3), (2, 2), (2, 3), (3, 3)])
        ov = rng.choice([[[1, [1]]], [[1, [1, 2]]], [[1, [1]], [2, [2]]], [[1, [1]], [2, [3]]]])
        home = (rng.randrange(rows), rng.randrange(cols))
        others = [(r, c) for r in range(rows) for c in range(cols) if (r, c) != home]
        pile = rng.randint(2, 3)
        ags = [wagent(1, home, rng.randint(1, 4)) for _ in range(pile)]
        for _ in range(rng.randint(1, 2)):
            ags.append(wagent(rng.choice([2, 2, 3, 1]), rng.choice(others), rng.randint(1, 4)))
        n = len(ags)
        ops = [[rng.choice([0, 1]), rng.randrange(n)] for _ in range(rng.randint(4, 20))]
        ops = [[0, i, rng.randint(-1, 1), rng.randint(-1, 1)] if k == 0 else [1, i, rng.randint(0, 4)] for k, i in ops]
        yield [rows, cols, ov, ags, ops]
    # random sequences
    n_rand = 1500 if quick else 30000
    for _ in range(n_rand):
        rows, cols = rng.choice([(1, rng.randint(1, 6)), (rng.randint(1, 6), 1),
                                 (rng.randint(2, 6), rng.randint(2, 6)), (rng.randint(2, 4), rng.randint(2, 4))])
        # a quarter of the cases use 4-5 encodings: only then can two keys have different partners that
        # appear only as values (1 -> 3, 2 -> 4), where a closure that shares one reverse set leaks pairs
        nenc = rng.randint(1, 3) if rng.random() < 0.75 else rng.randint(4, 5)
        encs = list(range(1, nenc + 1))
        ov = rand_ov(rng, encs) if rng.random() < 0.8 else []
        n = rng.randint(1, 6)
        ags = []
        for i in range(n):
            pos = (rng.randrange(rows), rng.randrange(cols))
            ags.append(wagent(rng.choice(encs), pos, rng.randint(1, 4) if rng.random() < 0.8 else None))
        mr = max(rows, cols)
        ops = []
        for _ in range(rng.randint(1, 30)):
            i = rng.randrange(n)
            k = rng.choice([0, 1, 2, 2])
            if k == 2 and not ags[i][5]:
                k = 1
            if k == 0:
                rg = rng.choice([0, 1, 1, 2, mr])
                ops.append([0, i, rng.randint(-rg, rg), rng.randint(-rg, rg)])
            else:
                ops.append([k, i, rng.choice([0, 1, 2, 3, 4, 4, 3, 2, 1, rng.choice([5, -1])
                                              if rng.random() < 0.05 else 0])])
        yield [rows, cols, ov, ags, ops]


def nontrivial(inp, out):
    o = out if isinstance(out, str) else str(out)
    return "(0 ((" in o or len(inp[3]) > 1


def classify(inp, out):
    kinds = {0: "free", 1: "cross", 2: "drift"}
    ks = sorted({kinds[o[0]] for o in inp[4]})
    tag = "+".join(ks) if len(ks) < 3 else "mixed"
    shape = "1xN" if inp[0] == 1 else "Nx1" if inp[1] == 1 else "NxM"
    refused = "refused" if "(0 ((" in out else "allok"
    return f"{tag}/{shape}/{refused}"


def shrink(inp):
    rows, cols, ov, ags, ops = inp
    for i in range(len(ops) - 1, 0, -1):
        yield [rows, cols, ov, ags, ops[:i]]
    for i in range(len(ops)):
        yield [rows, cols, ov, ags, ops[:i] + ops[i + 1:]]
    if ov:
        yield [rows, cols, [], ags, ops]


COMPONENTS = [
    Component(1201, "move_actors", impl, gen, chk=1202, nontrivial=nontrivial, classify=classify,
              shrink=shrink),
]


# very long corridors (coordinates beyond 100000): compared with the model only -- the extracted
# checker walks every cell for every clause and would take minutes on 10^5 cells
COMPONENTS.append(Component(1201, "far_corridor", impl, gen_far, chk=None,
                            nontrivial=lambda i, o: True, classify=lambda i, o: "far/" + ("row" if i[0] == 1 else "column"),
                            timeout=60))
