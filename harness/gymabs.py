"""GymABS (abmarl/external/gym_env_wrapper.py) over a scripted gym environment vs the cache model
of coq/Ctl/Adapters.v (run_gymabs = 1505, checker chk_gymabs = 1506, model of the code before the
repair of finding F5 = 1515).  Built with C15; meant to be listed among the components of the
C08 check (reset starts a fresh episode): `from .gymabs import COMPONENT_GYMABS`.

input  = [[obs0, info0, rows[[obs, reward, terminated, truncated, info]...]], calls]
         call = [0] reset | [1, [[agent index, action]...]] step(action dict; agent 0 = 'agent')
output = [[ok, get_obs, get_reward, get_done, get_all_done, get_info] ...]: the snapshot of the new
         object, then one per call; None is [], a value v is [v].
"""
from . import envshim  # noqa: F401
from .runner import Component


def _env_class():
    import gymnasium as gym

    class ScriptEnv(gym.Env):
        observation_space = gym.spaces.Discrete(1000)
        action_space = gym.spaces.Discrete(10)

        def __init__(self, gs):
            self.gs = gs
            self.t = 0

        def reset(self, **kw):
            self.t = 0
            return self.gs[0], self.gs[1]

        def step(self, action):
            rows = self.gs[2]
            r = rows[min(self.t, len(rows) - 1)]
            self.t += 1
            return r[0] + int(action), r[1], bool(r[2]), bool(r[3]), r[4]
    return ScriptEnv


def _opt(v, f=int):
    return [] if v is None else [f(v)]


def _snap(ok, g):
    b = lambda x: 1 if x else 0   # noqa: E731
    return [1 if ok else 0, _opt(g.get_obs()), _opt(g.get_reward()), _opt(g.get_done(), b),
            _opt(g.get_all_done(), b), _opt(g.get_info())]


def impl(inp):
    from abmarl.external.gym_env_wrapper import GymABS
    gs, calls = inp
    g = GymABS(_env_class()(gs), 0, 0)
    out = [_snap(True, g)]
    for c in calls:
        ok = True
        try:
            if c[0] == 0:
                g.reset()
            else:
                g.step({("agent" if a == 0 else f"x{a}"): v for a, v in c[1]})
        except TimeoutError:
            raise
        except BaseException:
            ok = False
        out.append(_snap(ok, g))
    return out


def gen(tier, rng):
    n = 400 if tier != "thorough" else 8000
    # the replay of finding F5: a finished episode, then reset
    yield [[0, 0, [[1, 3, 1, 0, 0]]], [[0], [1, [[0, 1]]], [0]]]
    for _ in range(n):
        rows = [[rng.randint(0, 50), rng.randint(-5, 5), 1 if rng.random() < 0.3 else 0,
                 1 if rng.random() < 0.2 else 0, rng.randint(0, 9)] for _ in range(rng.randint(1, 5))]
        calls = []
        for _c in range(rng.randint(1, 10)):
            r = rng.random()
            if r < 0.35:
                calls.append([0])
            elif r < 0.93:
                calls.append([1, [[0, rng.randrange(10)]]])
            else:
                calls.append([1, [[1, rng.randrange(10)]]])   # no entry for 'agent': KeyError
        yield [[rng.randint(0, 50), rng.randint(0, 9), rows], calls]


def nontrivial(inp, out):
    calls = inp[1]
    return any(c[0] == 0 and any(d[0] == 1 for d in calls[:j]) for j, c in enumerate(calls))


def classify(inp, out):
    calls = inp[1]
    used = any(c[0] == 0 and any(d[0] == 1 for d in calls[:j]) for j, c in enumerate(calls))
    return "reset-after-steps" if used else "fresh-only"


COMPONENT_GYMABS = Component(1505, "gymabs", impl, gen, chk=1506, nontrivial=nontrivial,
                             classify=classify, timeout=20)
