"""Simulations, actor scenes and value codecs for the C06 twin correspondence.

Everything here is harness code (trusted-base item 4): a scripted simulation with arbitrary nested
spaces, builders for two real simulations (MultiCorridor, a small grid simulation assembled from
abmarl.sim.gridworld components), scenes for the actor wrappers, state snapshots, the structural
dump of a simulation's agents and spaces, and the conversion between Python values (with their
numpy kind) and the model's wire format.
"""
from . import envshim  # noqa: F401
import numpy as np
from gymnasium.spaces import Discrete, MultiBinary, MultiDiscrete, Dict, Tuple
from gymnasium.spaces import Box as GymBox
from abmarl.sim import Agent, PrincipleAgent, AgentBasedSimulation, is_agent
from . import spaces as S
from .gen_C05 import kind_of, vals  # noqa: F401

TICK = S.TICK


# ------------------------------------------------------------------ values

def upoint_to_sx(space, u):
    """Python value -> wire upoint (values and numpy kinds); Dict values are read by key, the
    order of the keys of a Python dict carries no meaning"""
    if isinstance(space, Discrete):
        assert np.asarray(u).shape == ()
        return [0, kind_of(u), vals(u)[0]]
    if isinstance(space, (MultiBinary, MultiDiscrete)):
        assert np.asarray(u).ndim == 1
        return [1, kind_of(u)] + vals(u)
    if isinstance(space, GymBox):
        assert np.asarray(u).shape == space.shape, "value of a Box has the wrong shape"
        return [1, kind_of(u)] + vals(u)
    if isinstance(space, Tuple):
        assert isinstance(u, tuple) and len(u) == len(space.spaces)
        return [3] + [upoint_to_sx(s, q) for s, q in zip(space.spaces, u)]
    if isinstance(space, Dict):
        assert set(u.keys()) == set(space.spaces.keys())
        return [3] + [upoint_to_sx(s, u[k]) for k, s in space.spaces.items()]
    raise TypeError(space)


def sx_to_val(space, x):
    """wire upoint -> Python value carrying the numpy kind the wire value names"""
    if x == [9]:
        raise ValueError("model produced the error value")
    if isinstance(space, Discrete):
        assert x[0] == 0
        return np.float64(x[2] / TICK) if x[1] else int(x[2])
    if isinstance(space, (MultiBinary, MultiDiscrete)):
        assert x[0] == 1
        if x[1]:
            return np.array([v / TICK for v in x[2:]], dtype=np.float64)
        return np.array(x[2:], dtype=np.int64)
    if isinstance(space, GymBox):
        assert x[0] == 1
        if x[1]:
            return np.array([v / TICK for v in x[2:]], dtype=np.float64).reshape(space.shape)
        return np.array(x[2:], dtype=np.int64).reshape(space.shape)
    if isinstance(space, Tuple):
        assert x[0] == 3 and len(x) - 1 == len(space.spaces)
        return tuple(sx_to_val(s, q) for s, q in zip(space.spaces, x[1:]))
    if isinstance(space, Dict):
        assert x[0] == 3 and len(x) - 1 == len(space.spaces)
        return {k: sx_to_val(s, q) for (k, s), q in zip(space.spaces.items(), x[1:])}
    raise TypeError(space)


def point_as_upoint_sx(spec, p):
    """wire point of a spec -> wire upoint with the natural kinds"""
    t = spec[0]
    if t == 0:
        return [0, 0, p[1]]
    if t in (1, 2, 3):
        return [1, 0] + list(p[1:])
    if t == 4:
        return [1, 1] + list(p[1:])
    return [3] + [point_as_upoint_sx(s, q) for s, q in zip(spec[1:], p[1:])]


def space_shapes(space, path=()):
    out = []
    if isinstance(space, GymBox):
        out.append([list(path), list(space.shape)])
    elif isinstance(space, Tuple):
        for i, s in enumerate(space.spaces):
            out += space_shapes(s, path + (i,))
    elif isinstance(space, Dict):
        for i, s in enumerate(space.spaces.values()):
            out += space_shapes(s, path + (i,))
    return out


def null_sx(space, value):
    """wire form of a null point: [] when the agent has none (the empty dict), else [value]"""
    if isinstance(value, dict) and len(value) == 0:
        return []
    try:
        return [upoint_to_sx(space, value)]
    except Exception:
        return [[9]]       # not a value of the space at all (e.g. left unconverted)


def dump_space(space):
    """structure, bounds, dtype, shapes and keys of a space"""
    if isinstance(space, Dict):
        return ["Dict", [[str(k), dump_space(s)] for k, s in space.spaces.items()]]
    if isinstance(space, Tuple):
        return ["Tuple", [dump_space(s) for s in space.spaces]]
    if isinstance(space, GymBox):
        return [type(space).__name__, str(space.dtype), list(space.shape),
                space.low.flatten().tolist(), space.high.flatten().tolist()]
    if isinstance(space, Discrete):
        return ["Discrete", int(space.n), int(space.start)]
    if isinstance(space, MultiDiscrete):
        return ["MultiDiscrete", np.asarray(space.nvec).tolist()]
    if isinstance(space, MultiBinary):
        return ["MultiBinary", space.n if isinstance(space.n, int) else list(space.n)]
    return ["?", repr(space)]


def dump_value(v):
    if isinstance(v, dict):
        return ["dict", [[str(k), dump_value(x)] for k, x in v.items()]]
    if isinstance(v, (tuple, list)):
        return [type(v).__name__, [dump_value(x) for x in v]]
    if isinstance(v, np.ndarray):
        return ["nd", str(v.dtype), list(v.shape), v.flatten().tolist()]
    return [type(v).__name__, repr(v)]


def flat_numbers(v):
    """the numbers of a (nested) value, in a fixed order, without their types"""
    if isinstance(v, dict):
        out = []
        for k in sorted(v, key=str):
            out += flat_numbers(v[k])
        return out
    if isinstance(v, (tuple, list)):
        out = []
        for x in v:
            out += flat_numbers(x)
        return out
    return [float(x) for x in np.asarray(v).flatten()]


def dump_agents(sim):
    """deep structural dump of a simulation's own agents and spaces (no addresses)"""
    out = []
    for aid, ag in sim.agents.items():
        d = [str(aid), type(ag).__name__, bool(is_agent(ag))]
        if hasattr(ag, "observation_space"):
            d.append(["obs", dump_space(ag.observation_space), dump_value(ag.null_observation)])
        if hasattr(ag, "action_space"):
            d.append(["act", dump_space(ag.action_space), dump_value(ag.null_action)])
        out.append(d)
    return out


def agent_objects(sim):
    """the objects whose identity must not change by wrapping"""
    out = []
    for ag in sim.agents.values():
        out.append(ag)
        out.append(getattr(ag, "observation_space", None))
        out.append(getattr(ag, "action_space", None))
    return out


# ------------------------------------------------------------------ scripted simulation

def aid(i):
    return f"a{i}"


class ScriptedSpaceSim(AgentBasedSimulation):
    """agents: [0] | [1, obs_spec, obs_shapes, act_spec, act_shapes, null_obs, null_act]
    (null: [] | [wire point]);
    table[t % len(table)][i] is the observation (wire point) of agent i when the counter is t.
    Logs every action dictionary it is stepped with (values with their numpy kinds)."""

    def __init__(self, agents, table):
        self.table = table
        ags = {}
        for i, a in enumerate(agents):
            if a[0] == 0:
                ags[aid(i)] = PrincipleAgent(id=aid(i))
            else:
                osh = {tuple(p): tuple(sh) for p, sh in a[2]}
                ash = {tuple(p): tuple(sh) for p, sh in a[4]}
                osp, asp = S.build_space(a[1], osh), S.build_space(a[3], ash)
                ags[aid(i)] = Agent(
                    id=aid(i), observation_space=osp, action_space=asp,
                    null_observation=S.sx_to_point(osp, a[5][0]) if a[5] else None,
                    null_action=S.sx_to_point(asp, a[6][0]) if a[6] else None)
        self.agents = ags
        self.order = list(ags)
        self.t = 0
        self.log = []
        self.finalize()

    def reset(self, **kwargs):
        self.t = 0
        self.log = []

    def step(self, action_dict, **kwargs):
        entry = []
        for k, v in action_dict.items():
            entry.append([self.order.index(k), upoint_to_sx(self.agents[k].action_space, v)])
        self.log.append(entry)
        self.t += 1

    def render(self, **kwargs):
        pass

    def get_obs(self, agent_id, **kwargs):
        i = self.order.index(agent_id)
        row = self.table[self.t % len(self.table)]
        # the same logical observation, sometimes in a non-C-contiguous memory layout and with
        # dict keys in another order (deterministic in (t, agent) so that twins agree)
        import random as _random
        return S.sx_to_point(self.agents[agent_id].observation_space, row[i],
                             _random.Random(self.t * 7919 + i))

    def get_reward(self, agent_id, **kwargs):
        return self.t * 10 + self.order.index(agent_id)

    def get_done(self, agent_id, **kwargs):
        return self.t >= 1000

    def get_all_done(self, **kwargs):
        return self.t >= 1000

    def get_info(self, agent_id, **kwargs):
        return {"t": self.t}


# ------------------------------------------------------------------ real simulations

def make_corridor(end, n):
    from abmarl.examples.sim.multi_corridor import MultiCorridor
    return MultiCorridor(end=end, num_agents=n)


def _grid_classes():
    from abmarl.sim.gridworld.base import GridWorldSimulation
    from abmarl.sim.gridworld.agent import GridObservingAgent, MovingAgent, AttackingAgent, \
        GridWorldAgent
    from abmarl.sim.gridworld.state import PositionState, HealthState
    from abmarl.sim.gridworld.actor import MoveActor, BinaryAttackActor, EncodingBasedAttackActor
    from abmarl.sim.gridworld.observer import PositionCenteredEncodingObserver
    from abmarl.sim.gridworld.done import ActiveDone

    class Fighter(GridObservingAgent, MovingAgent, AttackingAgent):
        pass

    class TwinGridSim(GridWorldSimulation):
        """Small grid simulation: positions, healths, an attack actor, a move actor, a
        position-centered encoding observer; attacks are processed before moves."""

        def __init__(self, attack_kind=0, attack_mapping=None, **kwargs):
            super().__init__(**kwargs)
            self.position_state = PositionState(**kwargs)
            self.health_state = HealthState(**kwargs)
            self.move_actor = MoveActor(**kwargs)
            if attack_kind == 0:
                self.attack_actor = BinaryAttackActor(attack_mapping=attack_mapping, **kwargs)
            else:
                self.attack_actor = EncodingBasedAttackActor(attack_mapping=attack_mapping, **kwargs)
            self.observer = PositionCenteredEncodingObserver(**kwargs)
            self.done = ActiveDone(**kwargs)
            self.finalize()

        def reset(self, **kwargs):
            self.position_state.reset(**kwargs)
            self.health_state.reset(**kwargs)
            self.rewards = {k: 0 for k in self.agents}

        def step(self, action_dict, **kwargs):
            for agent_id, action in action_dict.items():
                agent = self.agents[agent_id]
                if agent.active:
                    status, hit = self.attack_actor.process_action(agent, action, **kwargs)
                    if status:
                        self.rewards[agent_id] += len(hit) * 4 - 1
            for agent_id, action in action_dict.items():
                agent = self.agents[agent_id]
                if agent.active:
                    if not self.move_actor.process_action(agent, action, **kwargs):
                        self.rewards[agent_id] -= 2

        def get_obs(self, agent_id, **kwargs):
            return self.observer.get_obs(self.agents[agent_id], **kwargs)

        def get_reward(self, agent_id, **kwargs):
            r = self.rewards[agent_id]
            self.rewards[agent_id] = 0
            return r

        def get_done(self, agent_id, **kwargs):
            return self.done.get_done(self.agents[agent_id])

        def get_all_done(self, **kwargs):
            return self.done.get_all_done(**kwargs)

        def get_info(self, agent_id, **kwargs):
            return {}

    return Fighter, GridWorldAgent, TwinGridSim


def make_grid(rows, cols, attack_kind, view_range, agents):
    """agents: [r, c, encoding, move_range, attack_range, simultaneous_attacks] (a fighter) or
    [r, c, encoding] (an inert grid agent: a non-learning entity)"""
    Fighter, GridWorldAgent, TwinGridSim = _grid_classes()
    ags = {}
    encs = sorted({a[2] for a in agents})
    for i, a in enumerate(agents):
        if len(a) == 3:
            ags[aid(i)] = GridWorldAgent(id=aid(i), encoding=a[2], initial_health=0.5,
                                         initial_position=np.array([a[0], a[1]]))
        else:
            ags[aid(i)] = Fighter(id=aid(i), encoding=a[2], initial_health=0.75,
                                  initial_position=np.array([a[0], a[1]]),
                                  move_range=a[3], attack_range=a[4], attack_strength=0.25,
                                  attack_accuracy=0.75, simultaneous_attacks=a[5],
                                  view_range=view_range)
    mapping = {e: set(x for x in encs if x != e) or {e} for e in encs}
    return TwinGridSim.build_sim(rows, cols, agents=ags, attack_kind=attack_kind,
                                 attack_mapping=mapping, overlapping={e: set(encs) for e in encs})


def build_sim(meta):
    kind = meta[0]
    if kind == 0:
        return ScriptedSpaceSim(meta[1], meta[2])
    if kind == 1:
        return make_corridor(meta[1], meta[2])
    if kind == 2:
        return make_grid(meta[1], meta[2], meta[4], meta[5], meta[6])
    raise ValueError(meta)


def sim_seed(meta):
    return 0 if meta[0] == 0 else meta[3]


def snapshot(meta, sim):
    """full state of a simulation as plain data"""
    kind = meta[0]
    if kind == 0:
        return [sim.t, sim.log]
    if kind == 1:
        return [[int(a.position) for a in sim.agents.values()],
                [None if c is None else c.id for c in sim.corridor],
                [float(sim.reward[k]) for k in sim.agents]]
    if kind == 2:
        ags = []
        for a in sim.agents.values():
            ags.append([None if a.position is None else [int(a.position[0]), int(a.position[1])],
                        float(a.health), bool(a.active)])
        cells = []
        for r in range(sim.grid.rows):
            for c in range(sim.grid.cols):
                cells.append(sorted(sim.grid[r, c].keys()) if sim.grid[r, c] else [])
        return [ags, cells, [float(sim.rewards[k]) for k in sim.agents]]
    raise ValueError(meta)


def getters(sim):
    """the forwarded getters (read after the observations; get_reward resets the accrual)"""
    out = []
    for k, a in sim.agents.items():
        if is_agent(a):
            out.append([k, repr(sim.get_reward(k)), bool(sim.get_done(k)), repr(sim.get_info(k))])
    out.append(bool(sim.get_all_done()))
    return out


# ------------------------------------------------------------------ actor scenes

def make_log_actor_class():
    from abmarl.sim.gridworld.actor import ActorBaseComponent
    from abmarl.sim.gridworld.agent import MovingAgent

    class LogActor(ActorBaseComponent):
        """An actor whose channel spaces are arbitrary: it records the action it is given and
        moves the agent by a displacement derived from the action's values."""

        def __init__(self, channel_spaces=None, channel_nulls=None, **kwargs):
            super().__init__(**kwargs)
            self.seen = []
            for agent in self.agents.values():
                if self._supported_agent(agent):
                    agent.action_space[self.key] = channel_spaces[agent.id]
                    agent.null_action[self.key] = channel_nulls[agent.id]

        @property
        def key(self):
            return "log"

        def _supported_agent(self, agent):
            return isinstance(agent, MovingAgent)

        def process_action(self, agent, action_dict, **kwargs):
            if self._supported_agent(agent):
                action = action_dict[self.key]
                nums = flat_numbers(action)
                self.seen.append([agent.id, nums])
                h = sum((j + 1) * int(round(x * 1024)) for j, x in enumerate(nums)) % 1009
                new = np.array([(agent.position[0] + h) % self.rows,
                                (agent.position[1] + h // 7) % self.cols])
                if self.grid.query(agent, tuple(new)):
                    self.grid.remove(agent, tuple(agent.position))
                    self.grid.place(agent, tuple(new))
                    return True
                return False

    return LogActor


class ActorScene:
    """grid + agents + states + one actor; meta =
    [rows, cols, seed, actor_kind, agents, extra]
      actor_kind 0 MoveActor, 1 BinaryAttackActor, 2 EncodingBasedAttackActor,
                 3 RestrictedSelectiveAttackActor, 4 SelectiveAttackActor, 5 CrossMoveActor,
                 6 LogActor (extra = per agent [] | [spec, shapes])
      agents: [r, c, encoding, move_range, attack_range, simultaneous_attacks, fighter?]"""

    def __init__(self, meta):
        from abmarl.sim.gridworld.grid import Grid
        from abmarl.sim.gridworld.agent import MovingAgent, AttackingAgent, GridWorldAgent
        from abmarl.sim.gridworld.state import PositionState, HealthState
        from abmarl.sim.gridworld import actor as AC
        rows, cols, seed, kind, agents, extra = meta
        self.meta = meta

        class Fighter(MovingAgent, AttackingAgent):
            pass

        self.grid = Grid(rows, cols, overlapping={e: set(range(1, 6)) for e in range(1, 6)})
        ags = {}
        for i, a in enumerate(agents):
            if a[6]:
                ags[aid(i)] = Fighter(id=aid(i), encoding=a[2], initial_health=0.75,
                                      initial_position=np.array([a[0], a[1]]),
                                      move_range=a[3], attack_range=a[4], attack_strength=0.25,
                                      attack_accuracy=0.75, simultaneous_attacks=a[5])
            else:
                ags[aid(i)] = GridWorldAgent(id=aid(i), encoding=a[2], initial_health=0.5,
                                             initial_position=np.array([a[0], a[1]]))
        self.agents = ags
        self.order = list(ags)
        self.position_state = PositionState(grid=self.grid, agents=ags)
        self.health_state = HealthState(grid=self.grid, agents=ags)
        encs = sorted({a[2] for a in agents})
        mapping = {e: set(x for x in encs if x != e) or {e} for e in encs}
        if kind == 0:
            self.actor = AC.MoveActor(grid=self.grid, agents=ags)
        elif kind == 1:
            self.actor = AC.BinaryAttackActor(grid=self.grid, agents=ags, attack_mapping=mapping)
        elif kind == 2:
            self.actor = AC.EncodingBasedAttackActor(grid=self.grid, agents=ags,
                                                     attack_mapping=mapping)
        elif kind == 3:
            self.actor = AC.RestrictedSelectiveAttackActor(grid=self.grid, agents=ags,
                                                           attack_mapping=mapping)
        elif kind == 4:
            self.actor = AC.SelectiveAttackActor(grid=self.grid, agents=ags,
                                                 attack_mapping=mapping)
        elif kind == 5:
            self.actor = AC.CrossMoveActor(grid=self.grid, agents=ags)
        elif kind == 6:
            chs, nulls = {}, {}
            for i, e in enumerate(extra):
                if e:
                    chs[aid(i)] = S.build_space(e[0], {tuple(p): tuple(sh) for p, sh in e[1]})
                    nulls[aid(i)] = S.sx_to_point(chs[aid(i)], S.spec_unrank(e[0], 0))
            self.actor = make_log_actor_class()(grid=self.grid, agents=ags, channel_spaces=chs,
                                                channel_nulls=nulls)
        else:
            raise ValueError(kind)
        self.key = self.actor.key

    def reset(self, seed):
        np.random.seed(seed)
        self.position_state.reset()
        self.health_state.reset()

    def channel(self, i):
        ag = self.agents[aid(i)]
        sp = getattr(ag, "action_space", None)
        if sp is None or self.key not in sp.keys():        # the actor gave this agent no channel
            return None
        return sp[self.key]

    def snapshot(self):
        ags = []
        for a in self.agents.values():
            ags.append([None if a.position is None else [int(a.position[0]), int(a.position[1])],
                        float(a.health), bool(a.active)])
        cells = []
        for r in range(self.grid.rows):
            for c in range(self.grid.cols):
                cells.append(sorted(self.grid[r, c].keys()) if self.grid[r, c] else [])
        return [ags, cells]


def canon_result(r):
    """process_action results: None, bool, or (bool, [agents])"""
    if r is None or isinstance(r, (bool, np.bool_)):
        return repr(None if r is None else bool(r))
    st, hit = r
    return repr([bool(st), [a.id for a in hit]])
