"""S-expressions over integers: nested Python lists of ints <-> '(1 (2 3) -4)'."""


def dumps(x):
    if isinstance(x, bool):
        return "1" if x else "0"
    if isinstance(x, int):
        return str(x)
    if isinstance(x, (list, tuple)):
        return "(" + " ".join(dumps(y) for y in x) + ")"
    # numpy integers and the like
    try:
        import numpy as np
        if isinstance(x, np.bool_):
            return "1" if x else "0"
        if isinstance(x, np.integer):
            return str(int(x))
        if isinstance(x, np.ndarray):
            return dumps(x.tolist())
    except ImportError:
        pass
    raise TypeError(f"cannot encode {type(x)}: {x!r}")


def loads(s):
    pos = 0
    n = len(s)
    stack = [[]]
    while pos < n:
        c = s[pos]
        if c == "(":
            stack.append([])
            pos += 1
        elif c == ")":
            top = stack.pop()
            stack[-1].append(top)
            pos += 1
        elif c in " \t\r\n":
            pos += 1
        else:
            st = pos
            while pos < n and s[pos] not in " ()\t\r\n":
                pos += 1
            stack[-1].append(int(s[st:pos]))
    assert len(stack) == 1 and len(stack[0]) == 1, s[:200]
    return stack[0][0]
