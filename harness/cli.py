import os
import sys
from . import runner


def main(argv):
    if not argv:
        print("usage: check <Cxx> {quick|thorough} | --replay <file> | --setup")
        return 2
    if argv[0] == "--setup":
        okp, okm, log = runner.build_all(verbose=True)
        print("proofs build:", okp, " model build:", okm)
        hits = runner.forbidden_scan()
        if hits:
            print("forbidden constructs:", hits)
        return 0 if (okp and okm and not hits) else 1
    if argv[0] == "--replay":
        return runner.replay(argv[1])
    prop = argv[0]
    tier = argv[1] if len(argv) > 1 else os.environ.get("VERIF_TIER", "quick")
    if tier not in ("quick", "thorough"):
        tier = "quick"
    seed = int(os.environ.get("VERIF_SEED", "0"))
    return runner.main_check(f"harness.gen_{prop}", prop, tier, seed)


if __name__ == "__main__":
    sys.exit(main(sys.argv[1:]))
