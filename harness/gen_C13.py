"""C13: PositionState / TargetBarriersFreePlacementState / MazePlacementState .reset of
abmarl.sim.gridworld.state (and generate_maze of abmarl.sim.gridworld.utils) vs Grid/Place.v,
Grid/Maze.v.

The implementation is run on the REAL classes with an RNG spy installed inside this process:
random.shuffle, numpy.random.choice and numpy.random.randint are wrapped (the real generator still
produces the values), every draw is recorded and checked to be admissible for its candidate set,
and the recorded draws are the oracle input of the model.  For generate_maze the spy reads the
caller's `unvisited_walls` through the frame to record the chosen CELL (the list order comes
from list(set(..)) and is not modelled).  Grid.place is wrapped to record the trace of successful
placements, generate_maze to record the maze.
"""
from . import envshim  # noqa: F401
import itertools
import random as pyrandom
import sys

import numpy as np

from .runner import Component, exc_code

PROP = "C13"
RULE = ("a case is (configuration = state class, rows, cols, overlap table, agents (encoding, optional "
        "initial position), options no_overlap/randomize/cluster/scatter, target, barrier/free encodings; "
        "construction style; number of resets; seed): the real state object is reset that many times, "
        "every random draw recorded; non-trivial = at least one reset places two or more agents or "
        "fails; distinct = distinct (configuration, recorded draws)")
ASSUMPTIONS = [
    "encodings are positive; initial positions are integer cells inside the grid; at least one agent",
    "barrier_encodings and free_encodings are disjoint (the classes do not check this)",
    "the sort key np.linalg.norm is modelled by the squared integer distance (monotone, exact on these sizes)",
    "random draws satisfy their contracts: choice returns an element of the list, randint a value in "
    "range, shuffle a permutation (each recorded draw is checked against its candidate set)",
    "agent.position left over from an earlier reset is not part of the behaviour of a failed reset",
]

KINDS = ["PositionState", "TargetBarriersFreePlacementState", "MazePlacementState"]


class Inadmissible(Exception):
    pass


def build(cfg, style):
    from abmarl.sim.gridworld.agent import GridWorldAgent
    from abmarl.sim.gridworld.grid import Grid
    from abmarl.sim.gridworld import state as st
    kind, rows, cols, ov, ags, flags, target, barrier, free = cfg
    agents = {}
    for i, a in enumerate(ags):
        ip = np.array([a[1], a[2]]) if len(a) == 3 else None
        agents[f"a{i}"] = GridWorldAgent(id=f"a{i}", encoding=a[0], initial_position=ip)
    ovd = {}
    for k, vs in ov:
        ovd[k] = vs[0] if (len(vs) == 1 and style & 4) else set(vs)
    grid = Grid(rows, cols, overlapping=ovd if (ov or style & 8) else None)
    common = dict(grid=grid, agents=agents, no_overlap_at_reset=bool(flags[0]),
                  randomize_placement_order=bool(flags[1]))
    if kind == 0:
        s = st.PositionState(**common)
    else:
        b = barrier[0] if (len(barrier) == 1 and style & 1) else (set(barrier) if (barrier or style & 16) else None)
        f = free[0] if (len(free) == 1 and style & 2) else (set(free) if (free or style & 16) else None)
        tgt = agents[f"a{target}"] if style & 32 else f"a{target}"
        cls = st.TargetBarriersFreePlacementState if kind == 1 else st.MazePlacementState
        s = cls(target_agent=tgt, barrier_encodings=b, free_encodings=f,
                cluster_barriers=bool(flags[2]), scatter_free_agents=bool(flags[3]), **common)
    return s, grid, agents


class ResetSpy:
    """The RNG / trace spies of one placement-state reset, usable around any code that resets a
    placement state (this module's run_resets, the end-to-end run of gen_E2E3): random.shuffle,
    numpy.random.choice and numpy.random.randint are wrapped (whatever generator is installed
    underneath still produces the values), every draw is recorded in `rec` and checked to be
    admissible for its candidate set; Grid.place is wrapped to record the trace of successful
    placements, generate_maze to record the maze.  `idx` maps agent ids to indices."""

    def __init__(self, rows, cols, idx):
        self.rows, self.cols, self.idx = rows, cols, idx
        self.n = len(idx)
        self.rec = {}
        self._saved = None
        self.clear()

    def clear(self):
        self.rec.clear()
        self.rec.update(shuffle=[], start=[], maze=[], choice=[-1] * self.n, log=[], mazeout=None)

    def draws(self):
        rec = self.rec
        return [rec["shuffle"], rec["start"], rec["maze"], rec["choice"]]

    def install(self):
        import abmarl.sim.gridworld.utils as gu
        from abmarl.sim.gridworld.grid import Grid
        assert self._saved is None
        rec, idx, rows, cols = self.rec, self.idx, self.rows, self.cols
        o_shuffle, o_choice, o_randint = pyrandom.shuffle, np.random.choice, np.random.randint
        o_maze, o_place = gu.generate_maze, Grid.place
        self._saved = (o_shuffle, o_choice, o_randint, o_maze, o_place)

        def spy_shuffle(x, *a, **k):
            before = [p[0] for p in x]
            o_shuffle(x, *a, **k)
            after = [p[0] for p in x]
            if sorted(before) != sorted(after):
                raise Inadmissible("shuffle")
            rec["shuffle"] = [idx[i] for i in after]

        def spy_choice(a, size=None, *args, **k):
            res = o_choice(a, size, *args, **k)
            fr = sys._getframe(1)
            ag = fr.f_locals["var_agent_to_place"]
            v = int(res.item())
            if v not in [int(x) for x in a]:
                raise Inadmissible("choice")
            rec["choice"][idx[ag.id]] = v
            return res

        def spy_randint(low, high=None, *args, **k):
            res = o_randint(low, high, *args, **k)
            fr = sys._getframe(1)
            if fr.f_code.co_name == "generate_maze":
                walls = fr.f_locals["unvisited_walls"]
                if not (low == 0 and 0 <= int(res) < len(walls)):
                    raise Inadmissible("randint maze")
                c = walls[int(res)]
                rec["maze"].append([int(c[0]), int(c[1])])
            else:
                r = [int(res[0]), int(res[1])]
                if not (0 <= r[0] < rows and 0 <= r[1] < cols):
                    raise Inadmissible("randint start")
                rec["start"] = r
            return res

        def spy_maze(*a, **k):
            m = o_maze(*a, **k)
            rec["mazeout"] = [[int(v) for v in row] for row in m]
            return m

        def spy_place(self_, agent, ndx):
            ok = o_place(self_, agent, ndx)
            if ok:
                t = tuple(ndx)
                rec["log"].append([idx[agent.id], int(t[0]), int(t[1])])
            return ok

        pyrandom.shuffle, np.random.choice, np.random.randint = spy_shuffle, spy_choice, spy_randint
        gu.generate_maze, Grid.place = spy_maze, spy_place

    def restore(self):
        import abmarl.sim.gridworld.utils as gu
        from abmarl.sim.gridworld.grid import Grid
        if self._saved is not None:
            (pyrandom.shuffle, np.random.choice, np.random.randint,
             gu.generate_maze, Grid.place) = self._saved
            self._saved = None

    def __enter__(self):
        self.install()
        return self

    def __exit__(self, *exc):
        self.restore()
        return False


def run_resets(cfg, style, nres, seed):
    """Returns (draws per reset, outcome per reset)."""
    state, grid, agents = build(cfg, style)
    rows, cols = cfg[1], cfg[2]
    n = len(agents)
    idx = {f"a{i}": i for i in range(n)}
    spy = ResetSpy(rows, cols, idx)
    rec = spy.rec

    draws, outs = [], []
    pyrandom.seed(seed)
    np.random.seed(seed % (2 ** 32))
    with spy:
        for _ in range(nres):
            spy.clear()
            try:
                state.reset()
                kind = 0
            except Inadmissible:
                raise
            except Exception as e:  # the behaviour of a failed reset is its exception kind
                kind = exc_code(e)
            cells = [[idx[i] for i in grid[r, c].keys()] for r in range(rows) for c in range(cols)]
            pos = [[int(a.position[0]), int(a.position[1])] for a in
                   (agents[f"a{i}"] for i in range(n))] if kind == 0 else []
            order = [idx[i] for i in state.agents.keys()]
            draws.append(spy.draws())
            outs.append([kind, rec["log"], cells, pos,
                         [] if rec["mazeout"] is None else [rec["mazeout"]], order])
    return draws, outs


def impl(inp):
    cfg, style, nres, seed = inp
    draws, outs = run_resets(cfg, style, nres, seed)
    return [draws, outs]


def split(inp, out):
    cfg = inp[0]
    order0 = list(range(len(cfg[4])))
    if out[0] == -1:
        return [cfg, order0, []], out
    return [cfg, order0, out[0]], out[1]


# ------------------------------------------------------------------------------ generator

def rand_overlap(rng, encs):
    keys = [e for e in encs + [max(encs) + 1] if rng.random() < 0.6]
    rng.shuffle(keys)
    mode = rng.random()
    out = []
    for k in keys:
        pool = encs + [max(encs) + 1]
        if mode < 0.25:
            vs = pool[:]                      # everybody may overlap
        elif mode < 0.4:
            vs = [rng.choice(pool)]
        else:
            vs = [e for e in pool if rng.random() < 0.45]
        rng.shuffle(vs)
        out.append([k, vs])
    return out


def rand_cfg(rng, kind=None, rows=None, cols=None, flags=None):
    kind = rng.choice([0, 1, 2]) if kind is None else kind
    rows = rng.choice([1, 1, 2, 2, 3, 3, 4, 5, 6, 7, 8]) if rows is None else rows
    cols = rng.choice([1, 2, 2, 3, 3, 4, 5, 6, 7, 8]) if cols is None else cols
    ncell = rows * cols
    E = rng.choice([1, 2, 2, 3, 3, 4])
    encs = list(range(1, E + 1))
    fill = rng.random()
    if fill < 0.15:
        n = ncell + rng.randint(0, 3)          # at and beyond capacity
    elif fill < 0.3:
        n = max(1, ncell - rng.randint(0, 2))
    else:
        n = rng.randint(1, max(1, min(ncell + 2, 14)))
    n = min(n, 70)
    p_init = rng.choice([0, 0, 0.15, 0.4, 1])
    ags = []
    for _ in range(n):
        a = [rng.choice(encs)]
        if rng.random() < p_init:
            a += [rng.randrange(rows), rng.randrange(cols)]
        ags.append(a)
    present = sorted({a[0] for a in ags})
    ov = rand_overlap(rng, encs) if rng.random() < 0.8 else []
    flags = [rng.randint(0, 1) for _ in range(4)] if flags is None else list(flags)
    target, barrier, free = 0, [], []
    if kind != 0:
        target = rng.randrange(n)
        r = rng.random()
        if r < 0.5 and len(ags[target]) == 3:
            ags[target] = ags[target][:1]
        elif r >= 0.5 and len(ags[target]) == 1:
            ags[target] = ags[target] + [rng.randrange(rows), rng.randrange(cols)]
        for e in present:
            r = rng.random()
            if r < 0.47:
                barrier.append(e)
            elif r < 0.96:
                free.append(e)               # else: uncovered -> the reset must reject
        rng.shuffle(barrier)
        rng.shuffle(free)
    return [kind, rows, cols, ov, ags, flags, target, barrier, free]


def gen(tier, rng):
    quick = tier != "thorough"
    # small scopes, every option combination
    for kind in (0, 1, 2):
        for rows, cols in ((1, 1), (1, 2), (2, 1), (2, 2), (1, 3), (3, 3)):
            for flags in itertools.product([0, 1], repeat=4):
                if kind == 0 and (flags[2] or flags[3]):
                    continue
                for _ in range(2 if quick else 8):
                    yield [rand_cfg(rng, kind, rows, cols, flags), rng.randrange(64),
                           rng.choice([1, 2, 3]), rng.getrandbits(30)]
    n_rand = 9000 if quick else 60000
    for _ in range(n_rand):
        yield [rand_cfg(rng), rng.randrange(64), rng.choice([1, 1, 2, 3, 4]), rng.getrandbits(30)]
    # long strips, clustered / scattered: distances beyond 5, where different squared distances have
    # nearly equal roots (sqrt(100) and sqrt(101)): the order must be that of the exact distance
    for _ in range(400 if quick else 4000):
        rows, cols = rng.choice([(1, 12), (2, 11), (2, 13), (3, 12), (11, 2), (12, 3), (2, 14)])
        cfg = rand_cfg(rng, rng.choice([1, 1, 2]), rows, cols,
                       [rng.randint(0, 1), rng.randint(0, 1), rng.choice([0, 1, 1, 1]), rng.choice([0, 1, 1, 1])])
        yield [cfg, rng.randrange(64), rng.choice([1, 2]), rng.getrandbits(30)]
    # mazes on the larger grids, clustered / scattered, few fixed agents
    for _ in range(1500 if quick else 12000):
        cfg = rand_cfg(rng, rng.choice([1, 2, 2]), rng.randint(4, 8), rng.randint(4, 8),
                       [rng.randint(0, 1), rng.randint(0, 1), rng.choice([0, 1, 1]), rng.choice([0, 1, 1])])
        yield [cfg, rng.randrange(64), rng.choice([1, 2]), rng.getrandbits(30)]


def _outs(out):
    from . import sx
    o = sx.loads(out) if isinstance(out, str) else out
    return o


def nontrivial(inp, out):
    o = _outs(out)
    if not o or o[0] == -1:
        return False
    return any(r[0] != 0 or len(r[1]) >= 2 for r in o)


def classify(inp, out):
    cfg = inp[0]
    o = _outs(out)
    kinds = "".join(str(r[0]) for r in o) if o and o[0] != -1 else "x"
    fl = cfg[5]
    tags = [KINDS[cfg[0]][:6]]
    tags.append("Ok" if set(kinds) <= {"0"} else "Reject" if "1" in kinds else "Runtime" if "2" in kinds else "Other")
    if fl[0]:
        tags.append("noov")
    if cfg[0] and (fl[2] or fl[3]):
        tags.append("sorted")
    if any(len(a) == 3 for a in cfg[4]):
        tags.append("init")
    if len(cfg[4]) >= cfg[1] * cfg[2]:
        tags.append("full")
    return "/".join(tags)


def shrink(inp):
    cfg, style, nres, seed = inp
    kind, rows, cols, ov, ags, flags, target, barrier, free = cfg
    if nres > 1:
        yield [cfg, style, nres - 1, seed]
    for i in range(len(ags) - 1, -1, -1):
        if len(ags) > 1 and (kind == 0 or i != target):
            t = target - 1 if i < target else target
            yield [[kind, rows, cols, ov, ags[:i] + ags[i + 1:], flags, t, barrier, free], style, nres, seed]
    for i in range(len(ov)):
        yield [[kind, rows, cols, ov[:i] + ov[i + 1:], ags, flags, target, barrier, free], style, nres, seed]
    for i in range(len(ags)):
        if len(ags[i]) == 3 and (kind == 0 or i != target):
            yield [[kind, rows, cols, ov, ags[:i] + [ags[i][:1]] + ags[i + 1:], flags, target, barrier, free],
                   style, nres, seed]


def repro(inp):
    from . import sx
    return ("PYTHONPATH=/verif:/repo /venv/bin/python -c \"from harness import gen_C13, sx; "
            "print(gen_C13.impl(sx.loads('%s')))\"  # builds the real placement state "
            "(cfg=[class 0/1/2, rows, cols, overlapping, agents [enc(,r,c)], [no_overlap, randomize, "
            "cluster, scatter], target, barrier, free], style, resets, seed), resets it with the RNG spy; "
            "prints [draws, outcomes=[kind 0 ok/1 AssertionError/2 RuntimeError, placements, cells, "
            "positions, maze, key order]]" % sx.dumps(inp))


# ------------------------------------------------------------------------------ generate_maze alone

def impl_maze(inp):
    import abmarl.sim.gridworld.utils as gu
    rows, cols, start, seed = inp
    chosen = []
    o_randint = np.random.randint

    def spy_randint(low, high=None, *args, **k):
        res = o_randint(low, high, *args, **k)
        fr = sys._getframe(1)
        walls = fr.f_locals["unvisited_walls"]
        if not (fr.f_code.co_name == "generate_maze" and low == 0 and 0 <= int(res) < len(walls)):
            raise Inadmissible("randint maze")
        c = walls[int(res)]
        chosen.append([int(c[0]), int(c[1])])
        return res

    np.random.seed(seed % (2 ** 32))
    np.random.randint = spy_randint
    try:
        m = gu.generate_maze(rows, cols, np.array(start))
    finally:
        np.random.randint = o_randint
    return [chosen, [0, [[int(v) for v in row] for row in m], 1]]


def split_maze(inp, out):
    if out[0] == -1:
        return [inp[0], inp[1], inp[2], []], out
    return [inp[0], inp[1], inp[2], out[0]], out[1]


def gen_maze(tier, rng):
    quick = tier != "thorough"
    for rows in range(1, 9):
        for cols in range(1, 9):
            starts = [(r, c) for r in range(rows) for c in range(cols)]
            if len(starts) > 6:
                starts = rng.sample(starts, 6) + [(0, 0), (rows - 1, cols - 1)]
            for st in starts:
                for _ in range(2 if quick else 12):
                    yield [rows, cols, list(st), rng.getrandbits(30)]
    for _ in range(150 if quick else 3000):
        rows, cols = rng.randint(6, 12), rng.randint(6, 12)
        yield [rows, cols, [rng.randrange(rows), rng.randrange(cols)], rng.getrandbits(30)]


COMPONENTS = [
    Component(1301, "placement", impl, gen, chk=1302, nontrivial=nontrivial, classify=classify,
              shrink=shrink, repro=repro),
    Component(1303, "generate_maze", impl_maze, gen_maze, chk=1304,
              nontrivial=lambda i, o: i[0] * i[1] > 2,
              classify=lambda i, o: "maze/%s" % ("1xN" if min(i[0], i[1]) == 1 else
                                                 "small" if i[0] * i[1] <= 16 else "large")),
]
COMPONENTS[0].split = split
COMPONENTS[1].split = split_maze
