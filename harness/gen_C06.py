"""C06: space-converting wrappers commute with the wrapped simulation.

Three components, all on /repo's real code:
  twin   (601/602)  RavelDiscreteWrapper / FlattenWrapper / FlattenActionWrapper, stacks of depth
                    <= 3, over twin simulations (scripted nested-space simulation, MultiCorridor,
                    a small grid simulation); the bare twin is stepped with the MODEL's decoding
  actor  (603/604)  RavelActionWrapper / ExclusiveChannelActionWrapper (and stacks) around real
                    gridworld actors, wrapped twin vs bare twin on the MODEL's decoding
  excl   (605/606)  the exclusive-channel encoding itself, whole range for small spaces
"""
from . import envshim  # noqa: F401
import numpy as np
from .runner import Component
from . import runner, sx
from . import spaces as S

PROP = "C06"
RULE = ("twin: (simulation, wrapper stack, action dictionaries); actor: (grid scene, actor, actor-"
        "wrapper stack, calls); excl: (Dict space, codes). Non-trivial = a stack the constructors "
        "accept with at least one wrapper and at least one action; distinct = distinct canonical "
        "input. All actions of every wrapped Discrete space with n <= 300 are submitted, sampled "
        "otherwise; the exclusive encoding is enumerated over its whole range for n <= 2000.")
ASSUMPTIONS = [
    "the bare twin is stepped with the decoding computed by the extracted model (model binary is "
    "called from the implementation runner); twins are built from the same description and "
    "numpy's global RNG is re-seeded identically before every twin call",
    "'wrapping never alters the inner agents and spaces' is an aliasing fact about Python objects: "
    "it is decided by the structural dump and identity comparison of the inner simulation's agents "
    "before/after wrapping and after the run, alone; the functional model cannot express it",
    "float leaves are dyadic rationals k/1024; Discrete(start != 0) and multi-dimensional "
    "MultiBinary/MultiDiscrete are outside the model; spaces have far fewer than 2^62 points",
    "off-image actions of float Boxes (non-integral values for integer leaves) are not submitted",
]
TICK = S.TICK
KNAMES = {0: "Ravel", 1: "Flatten", 2: "FlattenAct"}


# ------------------------------------------------------------------ generator-side space algebra

def flat_leaves(spec, out):
    t = spec[0]
    if t == 0:
        out.append((0, spec[1] - 1, False))
    elif t == 1:
        out.extend([(0, 1, False)] * spec[1])
    elif t == 2:
        out.extend((0, d - 1, False) for d in spec[1:])
    elif t == 3:
        out.extend((lo, hi, False) for lo, hi in spec[1:])
    elif t == 4:
        out.extend((lo, hi, True) for lo, hi in spec[1:])
    else:
        for s in spec[1:]:
            flat_leaves(s, out)
    return out


def flat_spec(spec):
    lv = flat_leaves(spec, [])
    if any(f for _, _, f in lv):
        return [4] + [[lo if f else lo * TICK, hi if f else hi * TICK] for lo, hi, f in lv]
    return [3] + [[lo, hi] for lo, hi, _ in lv]


def flat_point(spec, p, out):
    t = spec[0]
    if t == 0:
        out.append((p[1], False))
    elif t in (1, 2, 3):
        out.extend((v, False) for v in p[1:])
    elif t == 4:
        out.extend((v, True) for v in p[1:])
    else:
        for s, q in zip(spec[1:], p[1:]):
            flat_point(s, q, out)
    return out


def flat_image(spec, p):
    """the flattened vector of a point, as a wire upoint of the flat Box"""
    lv = flat_point(spec, p, [])
    if any(f for _, f in lv):
        return [1, 1] + [v if f else v * TICK for v, f in lv]
    return [1, 0] + [v for v, _ in lv]


def wrap_specs(kind, obs, act):
    """(obs, act) specs of the wrapper's agents, or None when the constructor refuses"""
    if kind == 0:
        if S.spec_has_float(obs) or S.spec_has_float(act):
            return None
        return [0, S.spec_size(obs)], [0, S.spec_size(act)]
    if kind == 1:
        return flat_spec(obs), flat_spec(act)
    return obs, flat_spec(act)


def top_specs(stack, obs, act):
    for kind in reversed(stack):
        r = wrap_specs(kind, obs, act)
        if r is None:
            return None
        obs, act = r
    return obs, act


def top_action(stack, base_act, top_act, rng, k=None):
    """a wire upoint of the top-level action space"""
    t = top_act[0]
    if t == 0:
        return [0, 0, rng.randrange(top_act[1]) if k is None else k % top_act[1]]
    if t == 4 and stack:
        # float Box: only flatten-kind wrappers below; take the image of a point of the base space
        return flat_image(base_act, S.random_point(base_act, rng))
    return S_point_as_upoint(top_act, S.random_point(top_act, rng))


def S_point_as_upoint(spec, p):
    from .c06_sims import point_as_upoint_sx
    return point_as_upoint_sx(spec, p)


# ------------------------------------------------------------------ twin component

def wrap_sim(sim, stack):
    from abmarl.sim.wrappers import RavelDiscreteWrapper, FlattenWrapper, FlattenActionWrapper
    cls = {0: RavelDiscreteWrapper, 1: FlattenWrapper, 2: FlattenActionWrapper}
    w = sim
    for kind in reversed(stack):
        w = cls[kind](w)
    return w


def agents_sx(sim):
    from abmarl.sim import is_agent
    from .c06_sims import null_sx
    out = []
    for a in sim.agents.values():
        if is_agent(a):
            out.append([1, S.space_to_sx(a.observation_space), S.space_to_sx(a.action_space),
                        null_sx(a.observation_space, a.null_observation),
                        null_sx(a.action_space, a.null_action)])
        else:
            out.append([0])
    return out


def impl_twin(inp):
    from . import c06_sims as C
    from abmarl.sim import is_agent
    meta, stack, steps = inp
    seed = C.sim_seed(meta)
    A = C.build_sim(meta)
    B = C.build_sim(meta)
    order = list(A.agents)
    base_sx = agents_sx(B)
    dump0 = C.dump_agents(A)
    objs0 = C.agent_objects(A)
    try:
        W = wrap_sim(A, stack)
    except AssertionError:
        return [[meta, base_sx, stack, steps, []], [0]]
    except ValueError:
        return [[meta, base_sx, stack, steps, []], [2]]
    alias = (C.dump_agents(A) == dump0 and all(x is y for x, y in zip(C.agent_objects(A), objs0))
             and (not stack or all(W.agents[k] is not A.agents[k] for k in order)))
    unwrapped = (W.unwrapped is A) if stack else (not hasattr(W, "unwrapped"))
    # the model's decoding of every submitted action
    ans = sx.loads(runner.run_model(607, [sx.dumps([base_sx, stack, steps])])[0])
    assert ans[0] == 1, ("model refuses a stack the implementation accepts", ans)
    dec_steps = ans[1]
    # spy on what reaches the inner simulation of the wrapped twin
    reached = []
    inner_step = A.step

    def spy(action_dict, **kw):
        reached.append([[order.index(k), C.upoint_to_sx(A.agents[k].action_space, v)]
                        for k, v in action_dict.items()])
        return inner_step(action_dict, **kw)
    A.step = spy
    learners = [i for i, k in enumerate(order) if is_agent(A.agents[k])]
    states_ok = True
    obslog, encoded = [], []

    def observe():
        nonlocal states_ok
        row_b, row_w = [], []
        for i in learners:
            k = order[i]
            np.random.seed(seed + 977 * len(obslog) + i)
            ob = B.get_obs(k)
            np.random.seed(seed + 977 * len(obslog) + i)
            ow = W.get_obs(k)
            wsp = W.agents[k].observation_space
            row_b.append([i, C.upoint_to_sx(B.agents[k].observation_space, ob)])
            row_w.append([i, C.upoint_to_sx(wsp, ow), bool(wsp.contains(ow)) and bool(ow in wsp)])
        obslog.append(row_b)
        encoded.append(row_w)
        if C.snapshot(meta, A) != C.snapshot(meta, B) or C.getters(W) != C.getters(B):
            states_ok = False

    np.random.seed(seed)
    W.reset()
    np.random.seed(seed)
    B.reset()
    observe()
    done_steps = []
    for t, (step, dstep) in enumerate(zip(steps, dec_steps)):
        # agents that are done do not act (as under a manager); the same filter on both twins
        live = [not B.get_done(order[i]) for i, _ in step]
        step = [e for e, ok in zip(step, live) if ok]
        dstep = [e for e, ok in zip(dstep, live) if ok]
        if not step:
            continue
        done_steps.append(step)
        wact = {order[i]: C.sx_to_val(W.agents[order[i]].action_space, u) for i, u in step}
        bact = {order[i]: C.sx_to_val(B.agents[order[i]].action_space, u) for i, u in dstep}
        np.random.seed(seed + 1 + t)
        W.step(wact)
        np.random.seed(seed + 1 + t)
        B.step(bact)
        observe()
    alias = alias and C.dump_agents(A) == dump0 and \
        all(x is y for x, y in zip(C.agent_objects(A), objs0))
    wrapped_agents = agents_sx(W)
    return [[meta, base_sx, stack, done_steps, obslog],
            [1, [int(alias), int(unwrapped), int(states_ok)], wrapped_agents, reached, encoded]]


def split_twin(inp, out):
    if out and out[0] == -1:
        return inp, out
    return out[0], out[1]


def random_scripted(rng, stack, want_reject):
    """agents description and observation table of a scripted simulation fitting the stack"""
    ravel = 0 in stack
    n = rng.randint(1, 3)
    agents = []
    for i in range(n):
        if n > 1 and rng.random() < 0.2:
            agents.append([0])
            continue
        allow_float = (not ravel and rng.random() < 0.5) or (want_reject and ravel)
        depth = rng.choice([0, 1, 1, 2, 2])
        obs = S.random_spec(rng, depth, allow_float=allow_float)
        act = S.random_spec(rng, rng.choice([0, 1, 1, 2]), allow_float=allow_float)
        if ravel and not want_reject:
            # keep the ravelled sizes enumerable
            for _ in range(20):
                if (S.spec_size(act) or 10 ** 9) <= 5000 and (S.spec_size(obs) or 10 ** 9) <= 10 ** 6:
                    break
                obs = S.random_spec(rng, depth, allow_float=False)
                act = S.random_spec(rng, rng.choice([0, 1]), allow_float=False)
            else:
                obs, act = [5, [0, 5], [1, 2]], [2, 3, 2]
        osh = sorted([list(p), list(sh)] for p, sh in S.box_shapes(obs, rng).items())
        ash = sorted([list(p), list(sh)] for p, sh in S.box_shapes(act, rng).items())
        # null points: Agent.finalize itself asks for the truth value of the null point, so a
        # simulation can only exist when that is defined (no bare array with several elements)
        def nullable(spec):
            return spec[0] in (0, 5, 6) or (spec[0] in (2, 3, 4) and len(spec) == 2) or spec == [1, 1]
        nobs = [S.random_point(obs, rng)] if nullable(obs) and rng.random() < 0.6 else []
        nact = [S.random_point(act, rng)] if nullable(act) and rng.random() < 0.6 else []
        if nact and not S.spec_has_float(act) and rng.random() < 0.3:
            nact = [S.spec_unrank(act, 0)]          # the all-lowest point (0 for a Discrete)
        agents.append([1, obs, osh, act, ash, nobs, nact])
    if all(a[0] == 0 for a in agents):
        agents[0] = [1, [0, 3], [], [0, 2], [], [], [[0, 0]]]
    table = []
    for _ in range(rng.randint(1, 5)):
        table.append([S.random_point(a[1], rng) if a[0] else [] for a in agents])
    return agents, table


def make_steps(rng, stack, base, n_max=300, sampled=10, turn=False):
    """base: per agent None | (obs_spec, act_spec).  Returns None when a constructor refuses."""
    tops = []
    for b in base:
        if b is None:
            tops.append(None)
            continue
        t = top_specs(stack, b[0], b[1])
        if t is None:
            return None
        tops.append(t)
    sizes = [t[1][1] if t[1][0] == 0 else None for t in tops if t is not None]
    if sizes and all(s is not None and s <= n_max for s in sizes):
        n_steps = max(sizes)          # every action of every agent appears
    else:
        n_steps = sampled
    learners = [i for i, t in enumerate(tops) if t is not None]
    steps = []
    for t in range(n_steps):
        who = learners if not turn else [learners[t % len(learners)]]
        step = []
        for i in who:
            enumerated = tops[i][1][0] == 0 and tops[i][1][1] <= n_max
            step.append([i, top_action(stack, base[i][1], tops[i][1], rng,
                                       k=(t + 3 * i) if enumerated else None)])
        if rng.random() < 0.3:
            rng.shuffle(step)
        steps.append(step)
    return steps


STACKS = [[0], [1], [2], [0, 1], [1, 0], [0, 2], [2, 0], [1, 2], [2, 1], [1, 1], [0, 0], [2, 2],
          [0, 1, 2], [1, 0, 1], [0, 2, 1], [2, 1, 0], [1, 1, 0], [0, 0, 1], [2, 0, 2], [1, 2, 1],
          [0, 1, 0], [2, 2, 1]]


def base_of_sim(sim):
    from abmarl.sim import is_agent
    return [(S.space_to_sx(a.observation_space), S.space_to_sx(a.action_space)) if is_agent(a)
            else None for a in sim.agents.values()]


def gen_twin(tier, rng):
    from . import c06_sims as C
    quick = tier != "thorough"
    n_script, n_corr, n_grid = (520, 90, 70) if quick else (7000, 1500, 1500)
    # fixed cases first
    fixed_agents = [[1, [6, [0, 3], [5, [2, 2, 2], [3, [-1, 1], [0, 1]]]], [[[1, 1], [2]]],
                     [6, [3, [-1, 1], [-1, 1]], [0, 2]], [[[0], [2]]],
                     [[3, [0, 0], [3, [1, 0, 0], [1, -1, 0]]]], [[3, [1, 0, 0], [0, 0]]]],
                    [0],
                    [1, [5, [1, 2], [0, 4]], [], [2, 3, 2], [], [[3, [1, 0, 1], [0, 2]]], []]]
    fixed_table = [[S.random_point(a[1], rng) if a[0] else [] for a in fixed_agents] for _ in range(3)]
    for stack in [[]] + STACKS:
        meta = [0, fixed_agents, fixed_table]
        base = [(a[1], a[3]) if a[0] else None for a in fixed_agents]
        steps = make_steps(rng, stack, base)
        yield [meta, stack, steps if steps is not None else []]
    for j in range(n_script):
        stack = rng.choice(STACKS) if rng.random() < 0.97 else []
        want_reject = (0 in stack) and rng.random() < 0.06
        agents, table = random_scripted(rng, stack, want_reject)
        base = [(a[1], a[3]) if a[0] else None for a in agents]
        steps = make_steps(rng, stack, base, turn=(rng.random() < 0.2))
        yield [[0, agents, table], stack, steps if steps is not None else []]
    for j in range(n_corr):
        end = rng.randint(4, 9)
        meta = [1, end, rng.randint(1, min(4, end - 1)), rng.randrange(10 ** 6)]
        stack = rng.choice(STACKS)
        base = base_of_sim(C.build_sim(meta))
        steps = make_steps(rng, stack, base, sampled=12)
        more = make_steps(rng, stack, base, sampled=12, turn=True) if rng.random() < 0.5 else []
        yield [meta, stack, (steps or []) + (more or [])]
    for j in range(n_grid):
        rows, cols = rng.randint(3, 5), rng.randint(3, 5)
        cells = rng.sample([(r, c) for r in range(rows) for c in range(cols)], rng.randint(2, 4))
        ags = []
        for idx, (r, c) in enumerate(cells):
            if idx >= 2 and rng.random() < 0.4:
                ags.append([r, c, rng.randint(1, 3)])
            else:
                ags.append([r, c, rng.randint(1, 3), rng.randint(1, 2), rng.randint(1, 2),
                            rng.randint(1, 2)])
        meta = [2, rows, cols, rng.randrange(10 ** 6), rng.randint(0, 1), 1, ags]
        stack = rng.choice([s for s in STACKS if len(s) <= 2] + [[0], [1], [0, 1]])
        base = base_of_sim(C.build_sim(meta))
        steps = make_steps(rng, stack, base, n_max=300, sampled=15)
        if steps is not None and len(steps) > 120:
            steps = steps[:120]
        yield [meta, stack, steps if steps is not None else []]


def nontrivial_twin(inp, out):
    return len(inp[1]) >= 1 and len(inp[2]) >= 1


def classify_twin(inp, out):
    meta, stack = inp[0], inp[1]
    kind = {0: "scripted", 1: "corridor", 2: "grid"}[meta[0]]
    st = "+".join(KNAMES[k] for k in stack) or "bare"
    fl = ""
    if meta[0] == 0 and any(a[0] and (S.spec_has_float(a[1]) or S.spec_has_float(a[3])) for a in meta[1]):
        fl = "/float"
    rej = "/rejected" if out == "(0)" else ""
    return f"{kind}/{st}{fl}{rej}"


def shrink_twin(inp):
    meta, stack, steps = inp
    n = len(steps)
    if n > 1:
        yield [meta, stack, steps[:n // 2]]
        yield [meta, stack, steps[n // 2:]]
        for i in range(min(n, 20)):
            yield [meta, stack, steps[:i] + steps[i + 1:]]
    for si, st in enumerate(steps[:10]):
        if len(st) > 1:
            for j in range(len(st)):
                yield [meta, stack, steps[:si] + [st[:j] + st[j + 1:]] + steps[si + 1:]]


def repro_twin(inp):
    return ("from harness import gen_C06 as g; print(g.impl_twin(%r))  # [model input, behaviour]; "
            "behaviour = (1 (alias unwrapped states) wrapped_agents reached_inner encoded_obs)" % (inp,))


# ------------------------------------------------------------------ actor component

def wrap_actor(actor, stack):
    from abmarl.sim.gridworld.wrapper import RavelActionWrapper, ExclusiveChannelActionWrapper
    cls = {0: RavelActionWrapper, 1: ExclusiveChannelActionWrapper}
    w = actor
    for kind in reversed(stack):
        w = cls[kind](w)
    return w


def impl_actor(inp):
    from . import c06_sims as C
    meta, stack, calls = inp
    seed = meta[2]
    SA, SB = C.ActorScene(meta), C.ActorScene(meta)
    n = len(SA.order)
    chans_py = [SA.channel(i) for i in range(n)]
    chans = [[] if c is None else [S.space_to_sx(c)] for c in chans_py]
    model_in = [meta, chans, stack, calls]
    try:
        WA = wrap_actor(SA.actor, stack)
    except AssertionError:
        return [model_in, [0]]
    unwrapped = (WA.unwrapped is SA.actor) if stack else (not hasattr(WA, "unwrapped"))
    key = SA.key
    sizes = []
    for i in range(n):
        if chans_py[i] is None:
            sizes.append([])
        else:
            sp = SA.agents[C.aid(i)].action_space[key]
            sizes.append([int(sp.n)] if hasattr(sp, "n") and not hasattr(sp, "nvec") and
                         type(sp).__name__ == "Discrete" else [-1])
    ans = sx.loads(runner.run_model(603, [sx.dumps(model_in)])[0])
    assert ans[0] == 1, ("model refuses a stack the implementation accepts", ans)
    decoded_by_model = [r[1] for r in ans[3]]
    seen = []
    inner = SA.actor.process_action

    def spy(agent, action_dict, **kw):
        seen.append(action_dict[key])
        return inner(agent, action_dict, **kw)
    SA.actor.process_action = spy
    results = []
    for j, ((i, k), dm) in enumerate(zip(calls, decoded_by_model)):
        if j % 8 == 0:
            SA.reset(seed + j)
            SB.reset(seed + j)
        agA, agB = SA.agents[C.aid(i)], SB.agents[C.aid(i)]
        del seen[:]
        np.random.seed(seed + 7 * j + 1)
        sent = {key: k}
        rA = WA.process_action(agA, sent)
        # the action dictionary is the caller's (a trainer records it after the step, a driver may
        # send it again): the wrapper must hand the DECODED action on in a dictionary of its own
        untouched = list(sent) == [key] and type(sent[key]) is type(k) and sent[key] == k
        if chans_py[i] is None:
            ret_eq = rA is None and not seen and untouched
            results.append([0, [9], int(ret_eq), int(SA.snapshot() == SB.snapshot())])
            continue
        np.random.seed(seed + 7 * j + 1)
        rB = SB.actor.process_action(agB, {key: C.sx_to_val(chans_py[i], dm)})
        got = C.upoint_to_sx(chans_py[i], seen[0]) if len(seen) == 1 else [9]
        results.append([1, got, int(C.canon_result(rA) == C.canon_result(rB) and untouched),
                        int(SA.snapshot() == SB.snapshot())])
    return [model_in, [1, int(unwrapped), sizes, results]]


def chan_top_size(stack, spec):
    """size of the wrapped Discrete space, or None when a constructor refuses"""
    for kind in reversed(stack):
        if S.spec_has_float(spec):
            return None
        if kind == 0:
            spec = [0, S.spec_size(spec)]
        else:
            if spec[0] != 6:
                return None
            spec = [0, 1 + sum(S.spec_size(c) - 1 for c in spec[1:])]
    return spec[1] if spec[0] == 0 else None


ASTACKS = [[0], [1], [0, 1], [0, 0], [1, 1], [0, 0, 1], [1, 0]]


def gen_actor(tier, rng):
    from . import c06_sims as C
    quick = tier != "thorough"
    n_cases = 220 if quick else 3000
    for j in range(n_cases):
        rows, cols = rng.randint(3, 5), rng.randint(3, 5)
        cells = [(rng.randrange(rows), rng.randrange(cols)) for _ in range(rng.randint(2, 4))]
        kind = rng.choice([0, 1, 2, 2, 2, 3, 4, 5, 6, 6, 6])
        ags = []
        for idx, (r, c) in enumerate(cells):
            fighter = 1 if idx == 0 or rng.random() < 0.7 else 0
            ags.append([r, c, rng.randint(1, 3), rng.randint(1, 2), 1,
                        rng.randint(1, 2), fighter])
        if kind == 2 and len({a[2] for a in ags}) < 2:
            ags[-1][2] = ags[0][2] % 3 + 1
        extra = []
        if kind == 6:
            for a in ags:
                if not a[6]:
                    extra.append([])
                    continue
                if rng.random() < 0.7:
                    spec = [6] + [S.random_spec(rng, rng.choice([0, 0, 1])) for _ in range(rng.randint(1, 3))]
                else:
                    spec = S.random_spec(rng, rng.choice([0, 1, 2]))
                for _ in range(20):
                    if S.spec_size(spec) <= 3000:
                        break
                    spec = [6] + [S.random_leaf(rng) for _ in range(2)]
                sh = sorted([list(p), list(s)] for p, s in S.box_shapes(spec, rng).items())
                extra.append([spec, sh])
        meta = [rows, cols, rng.randrange(10 ** 6), kind, ags, extra]
        stack = rng.choice(ASTACKS if kind in (2, 6) else [[0], [0], [0, 0], [1], [0, 1]])
        scene = C.ActorScene(meta)
        calls = []
        for i in range(len(ags)):
            ch = scene.channel(i)
            if ch is None:
                calls.append([i, rng.randrange(3)])
                continue
            ntop = chan_top_size(stack, S.space_to_sx(ch))
            if ntop is None:
                continue
            ks = list(range(ntop)) if ntop <= 300 else \
                [0, ntop - 1] + [rng.randrange(ntop) for _ in range(38)]
            calls += [[i, k] for k in ks]
        rng.shuffle(calls)
        yield [meta, stack, calls]


def classify_actor(inp, out):
    kind = {0: "Move", 1: "BinaryAttack", 2: "EncodingAttack", 3: "RestrictedSelective",
            4: "SelectiveAttack", 5: "CrossMove", 6: "LogActor"}[inp[0][3]]
    st = "+".join({0: "Ravel", 1: "Excl"}[k] for k in inp[1])
    rej = "/rejected" if out == "(0)" else ""
    return f"{kind}/{st}{rej}"


def nontrivial_actor(inp, out):
    return len(inp[2]) >= 1


def shrink_actor(inp):
    meta, stack, calls = inp
    n = len(calls)
    if n > 1:
        yield [meta, stack, calls[:n // 2]]
        yield [meta, stack, calls[n // 2:]]
        for i in range(min(n, 30)):
            yield [meta, stack, calls[:i] + calls[i + 1:]]


def repro_actor(inp):
    return ("from harness import gen_C06 as g; print(g.impl_actor(%r))  # [model input, (1 "
            "unwrapped sizes ((supported reached_inner ret_equal state_equal) ...))]" % (inp,))


# ------------------------------------------------------------------ exclusive encoding component

def impl_excl(inp):
    from abmarl.sim.gridworld.wrapper import ExclusiveChannelActionWrapper as E
    spec, shapes, whole, ks = inp
    space = S.build_space(spec, {tuple(p): tuple(sh) for p, sh in shapes})
    try:
        if not E.check_space(None, space):
            return [0]
    except AssertionError:
        return [0]
    n = int(E.wrap_space(None, space).n)
    out = []
    for k in ks:
        p = E.wrap_point(None, space, k)
        e = E.unwrap_point(None, space, p)
        out.append([S.point_to_sx(space, p), int(e)])
    return [1, n, out]


def gen_excl(tier, rng):
    quick = tier != "thorough"
    n_cases = 700 if quick else 8000
    fixed = [[6, [0, 3]], [6, [0, 1]], [6, [0, 1], [0, 1]], [6, [0, 3], [0, 1], [0, 2]],
             [6, [0, 2], [2, 2, 2], [0, 1]], [6, [3, [-1, 1], [0, 1]], [1, 2]],
             [6, [6, [0, 2], [0, 3]], [5, [1, 1], [0, 2]]], [5, [0, 2], [0, 2]], [0, 4],
             [6, [0, 2], [4, [0, 1024]]]]
    specs = list(fixed)
    while len(specs) < n_cases:
        r = rng.random()
        if r < 0.06:
            specs.append(S.random_spec(rng, rng.choice([0, 1])))          # often not a Dict
        elif r < 0.12:
            specs.append([6] + [S.random_spec(rng, 1, allow_float=True) for _ in range(rng.randint(1, 3))])
        else:
            ch = []
            for _ in range(rng.randint(1, 4)):
                c = S.random_spec(rng, rng.choice([0, 0, 0, 1, 2]), big=(rng.random() < 0.1))
                if rng.random() < 0.12:
                    c = [0, 1]
                ch.append(c)
            specs.append([6] + ch)
    for spec in specs:
        shapes = sorted([list(p), list(sh)] for p, sh in S.box_shapes(spec, rng).items())
        ok = spec[0] == 6 and not S.spec_has_float(spec)
        if not ok:
            yield [spec, shapes, 0, []]
            continue
        sizes = [S.spec_size(c) for c in spec[1:]]
        if max(sizes) >= 2 ** 40:
            continue
        n = 1 + sum(s - 1 for s in sizes)
        if n <= 2000:
            yield [spec, shapes, 1, list(range(n))]
        else:
            ks = {0, n - 1}
            off = 0
            for s in sizes:                     # the borders between channels
                for d in (0, 1, 2):
                    for k in (off + d, off + s - 1 - d):
                        if 0 <= k < n:
                            ks.add(k)
                off += s - 1
            while len(ks) < 60:
                ks.add(rng.randrange(n))
            yield [spec, shapes, 0, sorted(ks)]


def classify_excl(inp, out):
    spec = inp[0]
    if out == "(0)":
        return "rejected/" + ("float" if S.spec_has_float(spec) else "not-a-Dict" if spec[0] != 6 else "?")
    nch = len(spec) - 1
    ones = sum(1 for c in spec[1:] if S.spec_size(c) == 1)
    return f"channels{nch}/" + ("whole" if inp[2] else "sampled") + (f"/size1x{ones}" if ones else "") + \
        ("/nested" if any(c[0] in (5, 6) for c in spec[1:]) else "")


def nontrivial_excl(inp, out):
    return len(inp[3]) >= 2


def shrink_excl(inp):
    spec, shapes, whole, ks = inp
    n = len(ks)
    if n > 1:
        yield [spec, shapes, 0, ks[:n // 2]]
        yield [spec, shapes, 0, ks[n // 2:]]
        for i in range(min(n, 30)):
            yield [spec, shapes, 0, ks[:i] + ks[i + 1:]]


COMPONENTS = [
    Component(601, "twin", impl_twin, gen_twin, chk=602, nontrivial=nontrivial_twin,
              classify=classify_twin, shrink=shrink_twin, timeout=120, repro=repro_twin),
    Component(603, "actor", impl_actor, gen_actor, chk=604, nontrivial=nontrivial_actor,
              classify=classify_actor, shrink=shrink_actor, timeout=120, repro=repro_actor),
    Component(605, "excl", impl_excl, gen_excl, chk=606, nontrivial=nontrivial_excl,
              classify=classify_excl, shrink=shrink_excl),
]
COMPONENTS[0].split = split_twin
COMPONENTS[1].split = split_twin
