"""C09: the five observers of abmarl.sim.gridworld.observer (and the local-window copy of
utils.create_grid_and_mask) vs Grid/Observe.v."""
from . import envshim  # noqa: F401
import itertools
import numpy as np
from .runner import Component, exc_code
from . import gridsim as G
from .rngspy import Spy, HD
from .gen_C12 import legalise, rand_ov

PROP = "C09"
RULE = ("a case is a layout (rows, cols, overlap table, agents with encodings / cells / ammunition / "
        "per-agent view_range incl. FULL, agents killed after placement) plus a list of observation "
        "requests (viewer, observer kind: absolute, centred with observe_self, centred without, "
        "stacked, position, ammo, local window of create_grid_and_mask); exhaustive part: every "
        "viewer position x every range 0..FULL x every position of one other agent on all grids up to "
        "5x5 (1xN and Nx1 included) and of two other agents on the small grids (sampled on the "
        "larger ones in the quick tier), i.e. every border/corner clipping; random part: grids up "
        "to 9x11 with pile-ups through random overlap tables, dead agents (dead viewers included), "
        "agents with and without ammunition; every np.random.choice of the implementation is "
        "recorded by a spy and replayed by the model; an observation = one request; non-trivial = "
        "the window of some grid-view request is clipped by a border or holds another agent; "
        "distinct = distinct inputs")
ASSUMPTIONS = [
    "the viewer has a position inside the grid and a view_range >= 0 or FULL (Grid.place and the "
    "view_range setter admit nothing else)",
    "the executable models use C10's mask specification as visibility function (Grid/Vis.v); the "
    "theorems hold for every visibility function",
]

USE_BLOCKERS = True
KIND_NAMES = {0: "absolute", 1: "centred_self", 2: "centred_noself", 3: "stacked", 4: "position",
              5: "ammo", 6: "window"}
OBSERVATIONS = {"n": 0}


def build(inp):
    from abmarl.sim.gridworld import observer as O
    rows, cols, wov, wags, kills, reqs, (ranges, seed) = inp

    def extra(i):
        return dict(view_range=("FULL" if ranges[i] < 0 else ranges[i]))
    agents = G.build_agents(wags, extra=extra)
    grid = G.build_grid(rows, cols, wov)
    obs = {
        0: O.AbsoluteEncodingObserver(grid=grid, agents=agents),
        1: O.PositionCenteredEncodingObserver(grid=grid, agents=agents, observe_self=True),
        2: O.PositionCenteredEncodingObserver(grid=grid, agents=agents, observe_self=False),
        3: O.StackedPositionCenteredEncodingObserver(grid=grid, agents=agents),
        4: O.AbsolutePositionObserver(grid=grid, agents=agents),
        5: O.AmmoObserver(grid=grid, agents=agents),
    }
    if (rows + cols + len(wags) + seed) % 2:
        # the option reaches its value through the public setter after construction
        obs[1] = O.PositionCenteredEncodingObserver(grid=grid, agents=agents, observe_self=False)
        obs[1].observe_self = True
        obs[2] = O.PositionCenteredEncodingObserver(grid=grid, agents=agents, observe_self=True)
        obs[2].observe_self = False
    G.place_initial(grid, agents, wags)
    for k in kills:
        a = agents[G.aid(k)]
        a.health = 0                       # the real setter: active := False
        grid.remove(a, a.position)         # as the attack actor does; the position is kept
    return grid, agents, obs


def tolist(x):
    return np.asarray(x).astype(int).tolist()


def impl(inp):
    import abmarl.sim.gridworld.utils as gu
    rows, cols, wov, wags, kills, reqs, (ranges, seed) = inp
    grid, agents, obs = build(inp)
    mreqs, out = [], []
    for n, (i, kind) in enumerate(reqs):
        a = agents[G.aid(i)]
        with Spy(seed * 7919 + n) as spy:
            try:
                if kind == 6:
                    R = a.view_range        # resolved from FULL by the observers' constructors
                    lg, _ = gu.create_grid_and_mask(a, grid, R, agents)
                    r = [[-1 if lg[x, y] is None else [G.aidx(k) for k in lg[x, y].keys()]
                          for y in range(2 * R + 1)] for x in range(2 * R + 1)]
                else:
                    o = obs[kind].get_obs(a)
                    if kind == 5:
                        r = [int(o["ammo"])] if o else []
                    elif kind == 4:
                        p = o["position"]
                        r = [int(p[0]), int(p[1])] if p is not None else []
                    else:
                        (v,) = o.values()
                        r = tolist(v)
            except TimeoutError:
                raise
            except Exception as e:
                r = [-1, exc_code(e)]
        assert not spy.unif
        mreqs.append([i, kind, ranges[i], [c[0] for c in spy.choices]])
        out.append(r)
    return [mreqs, [G.snapshot(grid, agents), out]]


def split(inp, out):
    rows, cols, wov, wags, kills, reqs, meta = inp
    if out[0] == -1:
        return [rows, cols, wov, wags, [kills]], out
    return [rows, cols, wov, wags, [kills] + out[0]], out[1]


def wagent(enc, pos, ammo=None, blocking=0):
    return [enc, list(pos) if pos is not None else [], HD, 1, [ammo] if ammo is not None else [],
            [], blocking]


ALL_OV = [[1, [1, 2, 3]], [2, [2, 3]], [3, [3]]]
GRID_KINDS = [0, 1, 2, 3, 6]


def count(case):
    OBSERVATIONS["n"] += len(case[5])
    return case


def small_cases(tier, rng):
    """Viewer 0 at every cell x every range x one / two other agents at every cell."""
    quick = tier != "thorough"
    sizes = [(r, c) for r in range(1, 6) for c in range(1, 6)]
    n = 0
    for rows, cols in sizes:
        cells = [(r, c) for r in range(rows) for c in range(cols)]
        full = max(rows, cols) - 1
        for pos in cells:
            for rg in list(range(full + 1)) + [-1, full + 1 + (pos[0] + pos[1]) % 2]:
                if rg >= full and rng.random() < 0.5:
                    continue          # FULL / beyond the grid show the same cells; keep half of them
                # one other agent
                for q in cells:
                    n += 1
                    ags = [wagent(1, pos, ammo=n % 3), wagent(1 + n % 2, q)]
                    kinds = GRID_KINDS if (not quick or rows * cols <= 9) else \
                        [GRID_KINDS[n % 5], GRID_KINDS[(n // 5 + 1 + n) % 5]]
                    reqs = [[0, k] for k in dict.fromkeys(kinds)]
                    if n % 7 == 0:
                        reqs += [[0, 4], [0, 5], [1, 5]]
                    yield [rows, cols, ALL_OV, ags, [], reqs, [[rg, n % 2], n]]
                # two other agents
                exhaustive = rows * cols <= (6 if quick else 25)
                pairs = [(q1, q2) for q1 in cells for q2 in cells] if exhaustive else \
                    [(rng.choice(cells), rng.choice(cells)) for _ in range(4 if quick else 40)]
                for q1, q2 in pairs:
                    n += 1
                    ags = [wagent(1 + n % 3, pos), wagent(1 + (n // 3) % 3, q1, ammo=2),
                           wagent(1 + (n // 9) % 3, q2)]
                    kills = [[], [], [1], [2], [0], [0, 2]][n % 6]
                    kinds = GRID_KINDS if not quick else [GRID_KINDS[n % 5], GRID_KINDS[(n // 5 + 1 + n) % 5]]
                    reqs = [[0, k] for k in dict.fromkeys(kinds)]
                    yield [rows, cols, ALL_OV, ags, kills, reqs, [[rg, 0, -1], n]]


def random_layout(rng):
    rows, cols = rng.choice([(1, rng.randint(2, 9)), (rng.randint(2, 9), 1), (2, 5), (5, 2), (3, 7),
                             (rng.randint(2, 9), rng.randint(2, 11)),
                             (rng.randint(3, 7), rng.randint(3, 7))])
    nenc = rng.randint(1, 4)
    encs = rng.sample(range(1, 7), nenc)       # not necessarily 1..n: the stacked view has gaps
    if rng.random() < 0.12:
        encs.append(rng.choice([-3, -5]))      # legal for the encoding setter (only -2, -1, 0 are not)
    ov = rand_ov(rng, encs) if rng.random() < 0.85 else []
    if ov and rng.random() < 0.5:
        ov = [[e, list(encs)] for e in encs]   # everything overlaps: big pile-ups
    n = rng.randint(1, 9)
    ags = []
    hot = [(rng.randrange(rows), rng.randrange(cols)) for _ in range(2)]
    for i in range(n):
        u = rng.random()
        if u < 0.45:
            pos = rng.choice(hot)                               # pile-ups
        elif u < 0.6:
            pos = (rng.choice([0, rows - 1]), rng.choice([0, cols - 1]))   # corners
        else:
            pos = (rng.randrange(rows), rng.randrange(cols))
        ammo = rng.choice([None, None, 0, 1, 3, 7])
        blocking = 1 if (USE_BLOCKERS and rng.random() < 0.25) else 0
        ags.append(wagent(rng.choice(encs), pos, ammo, blocking))
    if max(a[0] for a in ags) <= 0:
        ags[0][0] = encs[0]        # the observers' Boxes need one positive encoding in the simulation
    return rows, cols, ov, ags


def random_cases(tier, rng):
    quick = tier != "thorough"
    for _ in range(4000 if quick else 100000):
        rows, cols, ov, ags = random_layout(rng)
        ok = legalise(ov, ags)
        for a, o in zip(ags, ok):
            if not o:
                a[2] = 0
        live = [i for i, o in enumerate(ok) if o]
        if not live:
            continue
        full = max(rows, cols) - 1
        ranges = [rng.choice([0, 1, 1, 2, 3, -1, rng.randint(0, full + 2)]) for _ in ags]
        kills = [i for i in live if rng.random() < 0.2]
        reqs = []
        for i in rng.sample(live, min(len(live), rng.randint(1, 3))):
            reqs += [[i, k] for k in (0, 1, 2, 3, 4, 5, 6) if rng.random() < 0.8]
        if not reqs:
            continue
        yield [rows, cols, ov, ags, kills, reqs, [ranges, rng.getrandbits(30)]]


def gen(tier, rng):
    OBSERVATIONS["n"] = 0
    for c in small_cases(tier, rng):
        yield count(c)
    for c in random_cases(tier, rng):
        yield count(c)


def _resolved(inp, i):
    rg = inp[6][0][i]
    return max(inp[0], inp[1]) - 1 if rg < 0 else rg


def nontrivial(inp, out):
    rows, cols, wov, wags, kills, reqs, meta = inp
    for i, kind in reqs:
        if kind in (4, 5) or not wags[i][1]:
            continue
        R = _resolved(inp, i)
        r, c = wags[i][1]
        if r - R < 0 or c - R < 0 or r + R >= rows or c + R >= cols:
            return True
        for j, w in enumerate(wags):
            if j != i and w[1] and abs(w[1][0] - r) <= R and abs(w[1][1] - c) <= R:
                return True
    return False


def classify(inp, out):
    rows, cols, wov, wags, kills, reqs, meta = inp
    shape = "1x1" if rows == cols == 1 else "1xN" if rows == 1 else "Nx1" if cols == 1 else "NxM"
    i = reqs[0][0]
    R = _resolved(inp, i)
    rg = "R0" if R == 0 else "FULL" if meta[0][i] < 0 else "R>=grid" if R >= max(rows, cols) else "Rmid"
    loc = "?"
    if wags[i][1]:
        r, c = wags[i][1]
        er, ec = r in (0, rows - 1), c in (0, cols - 1)
        loc = "corner" if er and ec else "border" if er or ec else "interior"
    cellsets = {}
    for j, w in enumerate(wags):
        if w[1] and j not in kills:
            cellsets.setdefault(tuple(w[1]), set()).add(w[0])
    pile = "pile" if any(len(v) > 1 for v in cellsets.values()) else "flat"
    dead = "deadviewer" if i in kills else "dead" if kills else "alive"
    return f"{shape}/{loc}/{rg}/{pile}/{dead}"


def shrink(inp):
    rows, cols, ov, ags, kills, reqs, meta = inp
    for i in range(len(reqs)):
        if len(reqs) > 1:
            yield [rows, cols, ov, ags, kills, reqs[i:i + 1], meta]
    for k in range(len(kills)):
        yield [rows, cols, ov, ags, kills[:k] + kills[k + 1:], reqs, meta]
    used = {r[0] for r in reqs}
    for j in range(len(ags) - 1, -1, -1):
        if j not in used and j not in kills and all(u < j for u in used) and all(k < j for k in kills):
            yield [rows, cols, ov, ags[:j], kills, reqs, [meta[0][:j], meta[1]]]


# ---- histories: the SAME observer objects observe while the viewer walks around -----------------
def impl_hist(inp):
    rows, cols, wov, wags, steps, (ranges, seed) = inp
    grid, agents, obs = build([rows, cols, wov, wags, [], [], [ranges, seed]])
    viewer = agents[G.aid(0)]
    cases, behs = [], []
    cur = [list(w) for w in wags]
    for n, (pos, kind) in enumerate(steps):
        pos = tuple(pos)
        # the viewer walks to an EMPTY cell (so that every cell dictionary keeps the order a fresh
        # placement would give it)
        if grid[pos] == {} and tuple(viewer.position) != pos:
            grid.remove(viewer, viewer.position)
            assert grid.place(viewer, pos)
            cur[0] = list(cur[0])
            cur[0][1] = list(pos)
        with Spy(seed * 7919 + n) as spy:
            try:
                o = obs[kind].get_obs(viewer)
                if kind == 5:
                    r = [int(o["ammo"])] if o else []
                elif kind == 4:
                    p = o["position"]
                    r = [int(p[0]), int(p[1])] if p is not None else []
                else:
                    (v,) = o.values()
                    r = tolist(v)
            except TimeoutError:
                raise
            except Exception as e:
                r = [-1, exc_code(e)]
        cases.append([rows, cols, wov, [list(w) for w in cur],
                      [[]] + [[0, kind, ranges[0], [c[0] for c in spy.choices]]]])
        behs.append([G.snapshot(grid, agents), [r]])
    return [cases, behs]


def split_hist(inp, out):
    if out[0] == -1:
        return [], out
    return out[0], out[1]


def gen_hist(tier, rng):
    quick = tier != "thorough"
    for _ in range(250 if quick else 6000):
        rows, cols = rng.randint(2, 7), rng.randint(2, 7)
        cells = [(r, c) for r in range(rows) for c in range(cols)]
        rng.shuffle(cells)
        n = rng.randint(1, min(6, len(cells) - 1))
        wags = [wagent(rng.randint(1, 3), cells[i], rng.choice([None, 2]),
                       1 if (USE_BLOCKERS and i and rng.random() < 0.3) else 0) for i in range(n)]
        free = cells[n:]
        steps = [[list(rng.choice(free + [cells[0]])), rng.choice([0, 0, 0, 1, 2, 3, 4])]
                 for _ in range(rng.randint(2, 8))]
        ranges = [rng.choice([0, 1, 1, 2, 3, -1])] + [1] * (n - 1)
        yield [rows, cols, [], wags, steps, [ranges, rng.getrandbits(30)]]


def extra(rep, tier, rng):
    rep.extra_cov["observations"] = OBSERVATIONS["n"]


COMPONENTS = [
    Component(903, "observer_history", impl_hist, gen_hist, chk=904,
              nontrivial=lambda i, o: len(i[4]) > 1, classify=lambda i, o: f"hist/steps{min(len(i[4]), 5)}"),
    Component(901, "observers", impl, gen, chk=902, nontrivial=nontrivial, classify=classify,
              shrink=shrink),
]
COMPONENTS[0].split = split_hist
COMPONENTS[1].split = split
