"""Static fingerprint of the anchored sources of every property (properties.jsonl: anchors.files).

The correspondence run is what ties a model to /repo; this is only an aid for the reader of an
evidence file: it says which anchored files differ (up to comments and formatting: the hash is taken
over ast.dump of the parsed file) from the revision the models were last reconciled with
(harness/anchors_baseline.json, refreshed with `python -m harness.anchors --update`).  A difference is
NOT an alarm: a harmless rewrite changes the hash; a behavioural change shows up in the correspondence."""
import ast
import glob
import hashlib
import json
import os
import sys

VERIF = os.path.dirname(os.path.dirname(os.path.abspath(__file__)))
REPO = os.environ.get("VERIF_REPO", "/repo")
BASE = os.path.join(VERIF, "harness", "anchors_baseline.json")


def files_of(prop):
    for l in open(os.path.join(VERIF, "properties.jsonl")):
        d = json.loads(l)
        if d["id"] == prop:
            out = []
            for f in d.get("anchors", {}).get("files", []):
                p = os.path.join(REPO, f)
                if os.path.isdir(p):
                    out += sorted(os.path.relpath(x, REPO) for x in glob.glob(os.path.join(p, "*.py")))
                else:
                    out.append(f)
            return out
    return []


def fingerprint(relpath):
    p = os.path.join(REPO, relpath)
    try:
        return hashlib.sha1(ast.dump(ast.parse(open(p).read())).encode()).hexdigest()[:16]
    except Exception as e:  # unreadable / does not parse
        return "unreadable:" + type(e).__name__


def report(prop):
    base = json.load(open(BASE)) if os.path.exists(BASE) else {}
    fs = files_of(prop)
    cur = {f: fingerprint(f) for f in fs}
    changed = sorted(f for f in fs if base.get(f) != cur[f])
    return {"files": len(fs), "changed_since_models_were_reconciled": changed,
            "note": "informational: ast-level fingerprint of the anchored files against "
                    "harness/anchors_baseline.json; not an alarm"}


if __name__ == "__main__":
    if "--update" in sys.argv:
        allf = set()
        for i in range(1, 21):
            allf.update(files_of(f"C{i:02d}"))
        json.dump({f: fingerprint(f) for f in sorted(allf)}, open(BASE, "w"), indent=1)
        print("baseline written for", len(allf), "files")
    else:
        for i in range(1, 21):
            print(f"C{i:02d}", report(f"C{i:02d}")["changed_since_models_were_reconciled"])
