"""C17: the done components of abmarl.sim.gridworld.done and SmartGridWorldSimulation
(abmarl.sim.gridworld.smart, registry) vs Grid/Done.v and Grid/Smart.v."""
from . import envshim  # noqa: F401
import itertools
import numpy as np
from .runner import Component, exc_code
from . import pubapi

PROP = "C17"
RULE = ("done components: (population = per agent encoding/active/position-or-None, component with "
        "its target mapping and any/all flag) -> get_done of every agent and get_all_done; "
        "exhaustive populations of <=3 agents over 2 encodings/2 cells plus random ones (<=6 agents, "
        "<=4 encodings, partial and total target mappings, int and set targets); "
        "smart simulation: (agents with initial values and dirty episode state, overlapping table, "
        "states/observers/dones as sets of classes or registry names incl. a registered custom done "
        "component and observer, unregistered names, wrong-kind classes, shared target_mapping "
        "keyword, operations reset/step/get_reward/get_done/get_all_done/get_obs interleaved); "
        "non-trivial = a target/encoding component, or a smart run with >= 2 components of a kind "
        "or a reward read after an accrual; distinct = distinct canonical input")
ASSUMPTIONS = [
    "positions are pairs of ints or None; np.array_equal on other shapes is outside the model",
    "the state components are modelled for agents that carry initial position/health/ammo/"
    "orientation (random placement and random health are C13); health values are k/1024",
    "TargetAgent* components raise KeyError for an agent without a target: get_done of a smart "
    "simulation is only queried for agents every component is defined on (otherwise the outcome "
    "depends on the hash order of the component set; the checker leaves such answers "
    "unconstrained)",
    "a configuration contains at most one unresolvable component reference (with several, which "
    "error is raised depends on set iteration order)",
    "the per-observer channel dictionaries are taken from the real observers (their content is "
    "C09); the model merges them in the iteration order the implementation used",
    "the subclass's step is the scripted one of this file (accrue, set active, set position)",
]

KEYS = {"absolute_encoding": 1, "position_centered_encoding": 2,
        "stacked_position_centered_encoding": 3, "position": 4, "ammo": 5, "custom": 6}

_classes = {}


def _lib():
    """Import abmarl lazily (inside the worker) and define the harness's own components once."""
    if _classes:
        return _classes
    from abmarl.sim.gridworld import done as D, state as S, observer as O
    from abmarl.sim.gridworld.smart import SmartGridWorldSimulation
    from abmarl.sim.gridworld import registry as R
    from abmarl.sim.gridworld import agent as AG
    from abmarl.sim.agent_based_simulation import is_agent
    from abmarl.sim.gridworld.grid import Grid

    class TopRowDone(D.DoneBaseComponent):
        """Custom component: an agent is done when it stands in row `custom_row`; the simulation
        is done when every active agent does."""
        def __init__(self, custom_row=0, **kwargs):
            super().__init__(**kwargs)
            self.custom_row = custom_row

        def get_done(self, agent, **kwargs):
            return agent.position is not None and int(agent.position[0]) == self.custom_row

        def get_all_done(self, **kwargs):
            return all(self.get_done(a) for a in self.agents.values() if a.active)

    class CustomObserver(O.ObserverBaseComponent):
        """Custom observer: emits one channel whose key is configurable (so that it can clash
        with the built-in 'position' channel)."""
        def __init__(self, custom_key="custom", **kwargs):
            super().__init__(**kwargs)
            self._key = custom_key

        @property
        def key(self):
            return self._key

        def _supported_agent(self, agent):
            return True

        def get_obs(self, agent, **kwargs):
            return {self.key: np.array([agent.encoding, 7])}

    class ScriptedSmartSim(SmartGridWorldSimulation):
        def __init__(self, **kwargs):
            super().__init__(**kwargs)
            self.finalize()

        def step(self, action_dict, **kwargs):
            if not hasattr(self, "rewards"):
                raise RuntimeError("step before reset")
            for aid, (amt, act, pos) in action_dict.items():
                agent = self.agents[aid]
                if is_agent(agent):
                    self.rewards[aid] += amt
                agent.active = act
                agent.position = pos

    _classes.update(
        D=D, S=S, O=O, R=R, AG=AG, Grid=Grid, is_agent=is_agent,
        TopRowDone=TopRowDone, CustomObserver=CustomObserver, Sim=ScriptedSmartSim,
        done={0: D.ActiveDone, 1: D.TargetAgentOverlapDone, 2: D.TargetAgentInactiveDone,
              3: D.TargetEncodingInactiveDone, 4: D.OneTeamRemainingDone, 5: TopRowDone},
        state={10: S.PositionState, 11: S.HealthState, 12: S.AmmoState, 13: S.OrientationState},
        observer={20: O.AbsoluteEncodingObserver, 21: O.PositionCenteredEncodingObserver,
                  22: O.StackedPositionCenteredEncodingObserver, 23: O.AbsolutePositionObserver,
                  24: O.AmmoObserver, 25: CustomObserver},
        agent_classes={})
    return _classes


def aid(i):
    return f"a{i}"


def ob(v):
    return 1 if v else 0


# ------------------------------------------------------------------------------ done components

def impl_done(inp):
    lib = _lib()
    pop, comp = inp
    agents = {}
    for i, (enc, act, hp, r, c) in enumerate(pop):
        a = lib["AG"].GridWorldAgent(id=aid(i), encoding=enc)
        a.active = bool(act)
        a.position = np.array([r, c]) if hp else None
        agents[aid(i)] = a
    grid = lib["Grid"](4, 4)
    kind = comp[0]
    kw = dict(agents=agents, grid=grid)
    D = lib["D"]
    if kind == 0:
        d = D.ActiveDone(**kw)
    elif kind in (1, 2):
        tm = {aid(i): aid(t) for i, t in comp[1]}
        d = (D.TargetAgentOverlapDone if kind == 1 else D.TargetAgentInactiveDone)(target_mapping=tm, **kw)
    elif kind == 3:
        tm = {}
        for e in comp[2]:
            tm[e[0]] = e[2] if e[1] == 0 else set(e[2:])
        want = bool(comp[1])
        if len(comp[2]) % 2:
            # the option reaches its value through the public setter after construction
            # (None = "the default", which is True): the rule must follow the attribute
            d = D.TargetEncodingInactiveDone(target_mapping=tm, sim_ends_if_one_done=not want, **kw)
            if want:
                d.sim_ends_if_one_done = None
            else:
                d.sim_ends_if_one_done = True
                d.sim_ends_if_one_done = False
        else:
            d = D.TargetEncodingInactiveDone(target_mapping=tm, sim_ends_if_one_done=want, **kw)
    elif kind == 4:
        d = D.OneTeamRemainingDone(**kw)
    else:
        d = lib["TopRowDone"](custom_row=comp[1], **kw)
    res = []
    for a in agents.values():
        try:
            res.append(ob(d.get_done(a)))
        except KeyError:
            res.append(-5)
    try:
        al = ob(d.get_all_done())
    except KeyError:
        al = -5
    return [res, al]


def _rand_pop(rng, n, encs, cells, none_p=0.1):
    pop = []
    for _ in range(n):
        hp = 0 if rng.random() < none_p else 1
        r, c = rng.choice(cells) if hp else (0, 0)
        pop.append([rng.choice(encs), rng.randint(0, 1), hp, r, c])
    return pop


def _rand_etm(rng, present):
    keys = rng.sample(present, rng.randint(0, len(present)))
    tm = []
    for e in keys:
        others = [x for x in present if x != e]
        if not others:
            continue
        if rng.random() < 0.35:
            tm.append([e, 0, rng.choice(others)])
        else:
            ts = rng.sample(others, rng.randint(0, len(others)))
            tm.append([e, 1] + ts)
    return tm


def _rand_atm(rng, n, total=False):
    keys = list(range(n)) if total else rng.sample(range(n), rng.randint(0, n))
    rng.shuffle(keys)
    return [[i, rng.randrange(n)] for i in keys]


def _comps_for(rng, pop):
    n = len(pop)
    present = sorted({a[0] for a in pop})
    yield [0]
    yield [4]
    yield [5, rng.randint(0, 1)]
    yield [1, _rand_atm(rng, n)]
    yield [2, _rand_atm(rng, n)]
    yield [1, _rand_atm(rng, n, True)]
    yield [2, _rand_atm(rng, n, True)]
    for one in (0, 1):
        yield [3, one, _rand_etm(rng, present)]


def gen_done(tier, rng):
    quick = tier != "thorough"
    # exhaustive: up to 3 agents, encodings {1,2}, active, two cells
    cells = [(0, 0), (0, 1)]
    per = [[e, a, 1, r, c] for e in (1, 2) for a in (0, 1) for (r, c) in cells]
    for n in (1, 2, 3):
        pops = list(itertools.product(per, repeat=n))
        if quick and n == 3:
            pops = rng.sample(pops, 150)
        for pop in pops:
            pop = [list(a) for a in pop]
            for comp in _comps_for(rng, pop):
                yield [pop, comp]
    # all encoding mappings over {1,2,3} on small populations
    for _ in range(300 if quick else 3000):
        pop = _rand_pop(rng, rng.randint(1, 4), [1, 2, 3], cells)
        present = sorted({a[0] for a in pop})
        for one in (0, 1):
            yield [pop, [3, one, _rand_etm(rng, present)]]
    for _ in range(2000 if quick else 20000):
        n = rng.randint(1, 6)
        encs = rng.sample([1, 2, 3, 4, 7], rng.randint(1, 4))
        cs = [(rng.randint(0, 3), rng.randint(0, 3)) for _ in range(rng.randint(1, 3))]
        pop = _rand_pop(rng, n, encs, cs, none_p=rng.choice([0, 0.2]))
        if rng.random() < 0.3:       # nearly everybody inactive: the interesting corner
            for a in pop:
                a[1] = 1 if rng.random() < 0.15 else 0
        for comp in _comps_for(rng, pop):
            yield [pop, comp]


def nontrivial_done(inp, out):
    return inp[1][0] in (1, 2, 3, 4) and len(inp[0]) >= 2


def classify_done(inp, out):
    names = {0: "ActiveDone", 1: "TargetAgentOverlapDone", 2: "TargetAgentInactiveDone",
             3: "TargetEncodingInactiveDone", 4: "OneTeamRemainingDone", 5: "custom"}
    comp = inp[1]
    o = out if isinstance(out, str) else str(out)
    lab = names[comp[0]]
    if comp[0] == 3:
        lab += "/any" if comp[1] else "/all"
        if any(e[1] == 0 for e in comp[2]):
            lab += "/int-target"
        if not comp[2]:
            lab += "/empty-map"
    if comp[0] in (1, 2):
        lab += "/partial" if len(comp[1]) < len(inp[0]) else "/total"
    return lab + ("/all-done" if o.rstrip(")").endswith(" 1") else "/not-all-done")


def shrink_done(inp):
    pop, comp = inp
    if comp[0] in (1, 2):
        return
    for i in range(len(pop)):
        if len(pop) > 1:
            yield [pop[:i] + pop[i + 1:], comp]


# ------------------------------------------------------------------------------ smart simulation

def _agent_class(lib, learn, variant, ammo, orient):
    key = (learn, variant, ammo, orient)
    cache = lib["agent_classes"]
    if key not in cache:
        AG = lib["AG"]
        bases = []
        if learn or variant == 1:
            bases.append(AG.GridObservingAgent)
        if learn or variant == 2:
            bases.append(AG.MovingAgent)
        if ammo:
            bases.append(AG.AmmoAgent)
        if orient:
            bases.append(AG.OrientationAgent)
        if not bases:
            bases.append(AG.GridWorldAgent)
        cache[key] = type("HAgent_%d%d%d%d" % (learn, variant, ammo, orient), tuple(bases), {})
    return cache[key]


def _set_registration(lib, custom):
    R = lib["R"]
    for kind, cls in (("done", lib["TopRowDone"]), ("observer", lib["CustomObserver"])):
        if custom:
            # an earlier version of the component, registered first under the SAME class name:
            # the later registration replaces it (the registry maps names to the latest class)
            stale = type(cls.__name__, (cls,), {"get_done": lambda self, agent, **kw: True,
                                                "get_all_done": lambda self, **kw: True,
                                                "get_obs": lambda self, agent, **kw: {self.key: np.array([-9, -9])}})
            R.registry[kind].pop(cls.__name__, None)
            R.register(stale)
            R.register(cls)
        else:
            R.registry[kind].pop(cls.__name__, None)
            getattr(R, "_registered_components", {}).get(kind, set()).discard(cls)


def _ref(lib, kind_tables, ref):
    byclass, cid = ref
    if byclass:
        for t in ("done", "state", "observer"):
            if cid in lib[t]:
                return lib[t][cid]
        return int          # class id outside every table: not a component class at all
    for t in ("done", "state", "observer"):
        if cid in lib[t]:
            return lib[t][cid].__name__
    return "NoSuchComponent%d" % cid


def _enc_obs(d):
    return [[KEYS[k], [int(x) for x in np.asarray(v).ravel().tolist()]] for k, v in d.items()]


def impl_smart(inp):
    lib = _lib()
    agents_in, table, rows, cols, spec, ops = inp
    custom, s_refs, o_refs, d_refs, kw_in = spec
    _set_registration(lib, bool(custom))
    agents = {}
    for i, a in enumerate(agents_in):
        enc, learn, ir, ic, ih, iam, ior, act, hp, r, c, hl, am, orr = a
        cls = _agent_class(lib, learn, i % 3, 1 if iam else 0, 1 if ior else 0)
        kw = dict(id=aid(i), encoding=enc, initial_position=np.array([ir, ic]),
                  initial_health=ih / 1024)
        if learn or i % 3 == 1:
            kw["view_range"] = 1
        if learn or i % 3 == 2:
            kw["move_range"] = 1
        if iam:
            kw["initial_ammo"] = iam[0]
        if ior:
            kw["initial_orientation"] = ior[0]
        ag = cls(**kw)
        ag.health = hl / 1024
        ag.active = bool(act)
        ag.position = np.array([r, c]) if hp else None
        if iam:
            ag.ammo = am
        if ior:
            ag.orientation = orr
        agents[aid(i)] = ag
    build_kw = dict(agents=agents, overlapping={k: set(v) for k, v in table})
    if s_refs:
        build_kw["states"] = {_ref(lib, None, x) for x in s_refs}
    if o_refs:
        build_kw["observers"] = {_ref(lib, None, x) for x in o_refs}
    if d_refs:
        build_kw["dones"] = {_ref(lib, None, x) for x in d_refs}
    tmap, one, row = kw_in
    if tmap[0] == 1:
        build_kw["target_mapping"] = {aid(i): aid(t) for i, t in tmap[1]}
    elif tmap[0] == 2:
        tm = {}
        for e in tmap[1]:
            tm[e[0]] = e[2] if e[1] == 0 else set(e[2:])
            # a user who writes one table for two purposes: where a target set equals an overlap
            # set it IS that object (a component that edits the sets it was given in place would
            # change the other configuration with it)
            for ov_set in build_kw["overlapping"].values():
                if isinstance(tm[e[0]], set) and ov_set == tm[e[0]]:
                    tm[e[0]] = ov_set
                    break
        build_kw["target_mapping"] = tm
    if one:
        build_kw["sim_ends_if_one_done"] = bool(one[0])
    build_kw["custom_row"] = row
    build_kw["custom_key"] = "position" if row % 2 else "custom"
    try:
        sim = lib["Sim"].build_sim(rows, cols, **build_kw)
    except Exception as e:
        return [[], [-1, exc_code(e)]]
    is_agent = lib["is_agent"]

    def snapshot():
        out = []
        for i, ag in enumerate(agents.values()):
            p = ag.position
            out.append([ob(ag.active)] + ([1, int(p[0]), int(p[1])] if p is not None else [0, 0, 0])
                       + [int(round(ag.health * 1024)),
                          ag.ammo if agents_in[i][5] else agents_in[i][12],
                          ag.orientation if agents_in[i][6] else agents_in[i][13]])
        return out

    conc, outs = [], []
    grid_ready = False
    from abmarl.sim.gridworld.smart import SmartGridWorldSimulation
    smart = isinstance(sim, SmartGridWorldSimulation)
    for o in ops:
        tag = o[0]
        try:
            if tag == 0:
                try:
                    sim.reset()
                except AssertionError as e:
                    conc.append(o)
                    outs.append([-1, exc_code(e)])
                    if smart:
                        break           # a placement was refused: partial state, stop here
                    continue
                if any(type(s).__name__ == "PositionState" for s in pubapi.components(sim, "states")):
                    grid_ready = True
                conc.append(o)
                outs.append([0, snapshot(), [[int(k[1:]), int(v)] for k, v in sim.rewards.items()]])
            elif tag == 1:
                ad = {aid(i): (amt, bool(act), np.array([r, c]) if hp else None)
                      for i, amt, act, hp, r, c in o[1]}
                conc.append(o)
                sim.step(ad)
                outs.append([1])
            elif tag == 2:
                conc.append(o)
                outs.append([2, int(sim.get_reward(aid(o[1])))])
            elif tag == 3:
                conc.append(o)
                outs.append([3, ob(sim.get_done(aid(o[1])))])
            elif tag == 4:
                conc.append(o)
                outs.append([4, ob(sim.get_all_done())])
            else:
                ag = agents[aid(o[1])]
                if smart:
                    p = ag.position
                    if not grid_ready or p is None or not (0 <= p[0] < rows and 0 <= p[1] < cols):
                        continue        # the grid observers cannot run: operation not applicable
                    # observers pick a random occupant of a shared cell: same stream both times
                    np.random.seed(len(conc))
                    per = [_enc_obs(ob_.get_obs(ag)) for ob_ in pubapi.components(sim, "observers")]
                else:
                    per = []
                conc.append([5, o[1], per])
                np.random.seed(len(conc) - 1)
                outs.append([5, _enc_obs(sim.get_obs(aid(o[1])))])
        except Exception as e:
            outs.append([-1, exc_code(e)])
    return [conc, [0, outs]]


def split_smart(inp, out):
    if out[0] == -1:                       # the runner itself failed (timeout, harness bug)
        return inp[:5] + [[]], out
    conc, beh = out
    return inp[:5] + [conc], beh


def _rand_agents(rng, n, rows, cols, encs, distinct_ipos):
    cells = [(r, c) for r in range(rows) for c in range(cols)]
    ip = rng.sample(cells, n) if distinct_ipos else [rng.choice(cells) for _ in range(n)]
    out = []
    for i in range(n):
        learn = 1 if rng.random() < 0.6 else 0
        iam = [rng.randint(0, 9)] if rng.random() < 0.5 else []
        ior = [rng.randint(1, 4)] if rng.random() < 0.4 else []
        hp = 0 if rng.random() < 0.1 else 1
        r, c = rng.choice(cells) if hp else (0, 0)
        out.append([rng.choice(encs), learn, ip[i][0], ip[i][1], rng.choice([1, 256, 512, 1000, 1024]),
                    iam, ior, rng.randint(0, 1), hp, r, c, rng.choice([0, 100, 512, 1024]),
                    rng.randint(0, 9) if iam else 0, rng.randint(1, 4) if ior else 0])
    return out


def _rand_refs(rng, ids, allow_bad, kind_base):
    """non-empty subset of the ids, each by class or by name (sometimes both)"""
    k = rng.randint(1, len(ids))
    chosen = rng.sample(ids, k)
    refs = [[rng.randint(0, 1), c] for c in chosen]
    if rng.random() < 0.15:
        c = rng.choice(chosen)
        refs.append([0, c])
        refs.append([1, c])
        refs = [list(x) for x in {tuple(r) for r in refs}]
    bad = None
    if allow_bad and rng.random() < 0.5:
        bad = rng.choice(["name", "kind"])
        if bad == "name":
            refs.append([0, 99])
        else:
            other = [b for b in (0, 10, 20) if b != kind_base]
            refs.append([1, rng.choice(other) + rng.randint(0, 3)])
    return sorted(refs)


def gen_smart(tier, rng):
    quick = tier != "thorough"
    N = 6000 if quick else 40000
    for case in range(N):
        rows, cols = rng.randint(1, 4), rng.randint(2, 4)
        n = rng.randint(1, min(5, rows * cols))
        encs = rng.sample([1, 2, 3, 4], rng.randint(1, 3))
        conflict_case = rng.random() < 0.25
        agents = _rand_agents(rng, n, rows, cols, encs, not conflict_case)
        present = sorted({a[0] for a in agents})
        table = []
        if rng.random() < 0.6:
            for e in rng.sample(present, rng.randint(0, len(present))):
                table.append([e, rng.sample([1, 2, 3, 4], rng.randint(0, 3))])
        custom = 1 if rng.random() < 0.7 else 0
        bad_slot = rng.choice([None, None, None, None, "s", "o", "d"])
        # states
        if rng.random() < 0.08:
            s_refs = []
        else:
            s_refs = _rand_refs(rng, [10, 11, 12, 13], bad_slot == "s", 10)
            if rng.random() < 0.6 and not any(c == 10 for _, c in s_refs):
                s_refs = sorted(s_refs + [[rng.randint(0, 1), 10]])
        # observers
        if rng.random() < 0.1:
            o_refs = []
        else:
            o_refs = _rand_refs(rng, [20, 21, 22, 23, 24, 25], bad_slot == "o", 20)
        # dones + the shared target_mapping keyword
        mode = rng.choice(["agent", "agent", "enc", "enc", "empty", "none", "plain"])
        if mode == "agent":
            pool = [0, 1, 2, 4, 5]
            tmap = [1, _rand_atm(rng, n, total=rng.random() < 0.7)]
        elif mode == "enc":
            pool = [0, 3, 4, 5]
            tmap = [2, _rand_etm(rng, present)]
        elif mode == "empty":
            pool = [0, 1, 2, 3, 4, 5]
            tmap = rng.choice([[1, []], [2, []]])
        elif mode == "none":
            pool = [0, 4, 5]
            tmap = [0]
        else:
            pool = [0, 4, 5]
            tmap = rng.choice([[0], [1, _rand_atm(rng, n)], [2, _rand_etm(rng, present)]])
        if rng.random() < 0.06:
            d_refs = []
        else:
            d_refs = _rand_refs(rng, pool, bad_slot == "d", 0)
            if bad_slot != "d" and rng.random() < 0.05:   # wrong kind of mapping for a target component
                d_refs = sorted(d_refs + [[1, rng.choice([1, 2, 3])]])
        if not custom:
            # a by-name reference to an unregistered custom component must be refused; keep it
            # rare, and never together with a second unresolvable reference of the same kind
            if bad_slot == "d" or rng.random() < 0.5:
                d_refs = [r for r in d_refs if not (r[0] == 0 and r[1] == 5)]
            if bad_slot == "o" or rng.random() < 0.5:
                o_refs = [r for r in o_refs if not (r[0] == 0 and r[1] == 25)]
        one = rng.choice([[], [0], [1]])
        kw = [tmap, one, rng.randint(0, 3)]
        # operations
        ops = []
        if rng.random() < 0.85:
            ops.append([0])
        else:
            ops.append(rng.choice([[2, rng.randrange(n)], [1, []], [4]]))
        cells = [(r, c) for r in range(rows) for c in range(cols)]
        defined_for_all = list(range(n))
        if any(c in (1, 2) for _, c in d_refs):
            keys = {i for i, _ in tmap[1]} if tmap[0] == 1 else set()
            defined_for_all = [i for i in range(n) if i in keys]
        for _ in range(rng.randint(2, 14)):
            k = rng.choice([0, 1, 1, 1, 2, 2, 2, 3, 3, 4, 5, 5])
            if k == 0:
                ops.append([0])
            elif k == 1:
                who = rng.sample(range(n), rng.randint(0, n))
                acts = []
                for i in who:
                    hp = 0 if rng.random() < 0.08 else 1
                    r, c = rng.choice(cells) if hp else (0, 0)
                    acts.append([i, rng.randint(-3, 9), 1 if rng.random() < 0.6 else 0, hp, r, c])
                ops.append([1, acts])
            elif k == 2:
                i = rng.randrange(n)
                ops.append([2, i])
                if rng.random() < 0.4:
                    ops.append([2, i])      # the second read in a row
            elif k == 3:
                if defined_for_all:
                    ops.append([3, rng.choice(defined_for_all)])
            elif k == 4:
                ops.append([4])
            else:
                ops.append([5, rng.randrange(n), []])
        yield [agents, table, rows, cols, [custom, s_refs, o_refs, d_refs, kw], ops]


def nontrivial_smart(inp, out):
    spec = inp[4]
    o = out if isinstance(out, str) else str(out)
    if o.startswith("(-1"):
        return False
    multi = max(len(spec[1]), len(spec[2]), len(spec[3])) >= 2
    ops = inp[5]
    read_after_accrual = False
    seen = set()
    for op in ops:
        if op[0] == 1:
            seen |= {a[0] for a in op[1] if a[1] != 0}
        if op[0] == 2 and op[1] in seen:
            read_after_accrual = True
    return multi or read_after_accrual


def classify_smart(inp, out):
    o = out if isinstance(out, str) else str(out)
    spec = inp[4]
    if o.startswith("(-1"):
        return "constructor-refused/" + o.split()[1].rstrip(")")
    tags = []
    if any(r[0] == 0 for grp in spec[1:4] for r in grp):
        tags.append("by-name")
    if any(r[0] == 1 for grp in spec[1:4] for r in grp):
        tags.append("by-class")
    if any(r[1] in (5, 25) for grp in spec[1:4] for r in grp):
        tags.append("custom")
    if "(-1 1)" in o:
        tags.append("assert")
    if "(5 (" in o:
        tags.append("obs")
    if "(2 " in o:
        tags.append("reward")
    return "run/" + "+".join(tags)


def shrink_smart(inp):
    agents, table, rows, cols, spec, ops = inp
    for i in range(len(ops) - 1, 0, -1):
        yield [agents, table, rows, cols, spec, ops[:i] + ops[i + 1:]]
    custom, s, o, d, kw = spec
    for grp_i, grp in ((1, s), (2, o), (3, d)):
        for j in range(len(grp)):
            if len(grp) > 1:
                ns = list(spec)
                ns[grp_i] = grp[:j] + grp[j + 1:]
                yield [agents, table, rows, cols, ns, ops]


def repro_done(inp):
    from . import sx
    return ("PYTHONPATH=<verif>:/repo PYTHONHASHSEED=0 /venv/bin/python -c \"from harness import "
            "gen_C17, sx; print(gen_C17.impl_done(sx.loads('%s')))\"  # [population (enc active "
            "haspos r c), component] -> [get_done per agent, get_all_done]" % sx.dumps(inp))


def repro_smart(inp):
    from . import sx
    return ("PYTHONPATH=<verif>:/repo PYTHONHASHSEED=0 /venv/bin/python -c \"from harness import "
            "gen_C17, sx; print(gen_C17.impl_smart(sx.loads('%s')))\"  # builds a real "
            "SmartGridWorldSimulation subclass and plays the operations" % sx.dumps(inp))


COMPONENTS = [
    Component(1701, "done_components", impl_done, gen_done, chk=1702, nontrivial=nontrivial_done,
              classify=classify_done, shrink=shrink_done, repro=repro_done),
    Component(1703, "smart_simulation", impl_smart, gen_smart, chk=1704, nontrivial=nontrivial_smart,
              classify=classify_smart, shrink=shrink_smart, repro=repro_smart),
]
COMPONENTS[1].split = split_smart
