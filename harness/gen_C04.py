"""C04: ravel/unravel of abmarl.sim.wrappers.ravel_discrete_wrapper vs Spaces/Ravel.v."""
from . import envshim  # noqa: F401
import random
import numpy as np
from .runner import Component
from . import spaces as S

PROP = "C04"
RULE = ("inputs are (space, box shapes, point, k): every space of a depth<=2 grammar sample plus "
        "random nested spaces; for small spaces ALL points and all k in 0..n-1 (paired), for large "
        "ones sampled; a case is non-trivial when the space has more than one point and is nested "
        "or multi-component; distinct = distinct (space, point, k)")
ASSUMPTIONS = [
    "numpy int64 overflow for spaces with >= 2^62 points is outside the model (DESIGN 9)",
    "Discrete(start != 0) and multi-dimensional MultiBinary/MultiDiscrete are outside the model",
    "Dict points are compared in space.spaces key order",
]


_KEPT = {}


def _edited_in_place(space, k):
    """A user may edit a Dict space after it has been used (gymnasium's Dict.__setitem__): what the
    library computes must follow the space as it is NOW.  For Dict spaces, every other case reuses the
    Dict object of an earlier case with the same keys, its children replaced one by one."""
    from gymnasium.spaces import Dict
    if not isinstance(space, Dict) or k % 2:
        return space
    sig = tuple(space.spaces.keys())
    old = _KEPT.get(sig)
    if old is None:
        _KEPT[sig] = space
        return space
    for key, child in space.spaces.items():
        old[key] = child
    return old


def impl_ravel(inp):
    from abmarl.sim.wrappers.ravel_discrete_wrapper import ravel, unravel, ravel_space, check_space
    spec, shapes, xp, k = inp
    shapes = {tuple(p): tuple(sh) for p, sh in shapes}
    S.NARROW_MD = True
    try:
        space = S.build_space(spec, shapes)
    finally:
        S.NARROW_MD = False
    if not check_space(space):
        return [0]
    space = _edited_in_place(space, k)
    rng = random.Random(k)
    p = S.sx_to_point(space, xp, rng)
    rp = ravel(space, p)
    uk = unravel(space, k)
    ruk = ravel(space, uk)
    urp = unravel(space, rp)
    n = ravel_space(space).n
    return [1, int(n), int(rp), S.point_to_sx(space, uk), int(ruk), S.point_to_sx(space, urp)]


def to_model(inp):
    spec, shapes, xp, k = inp
    return [spec, xp, k]


def gen(tier, rng):
    quick = tier != "thorough"
    n_spaces = 900 if quick else 9000
    n_big = 300 if quick else 3000
    per_space_cap = 160 if quick else 600
    seen = set()
    # fixed corner spaces first
    fixed = [[0, 1], [0, 5], [1, 1], [1, 3], [2, 1], [2, 3, 1, 2], [3, [-2, -2]], [3, [-1, 1], [0, 2]],
             [5, [0, 3]], [6, [0, 2], [0, 3]], [6, [0, 3], [5, [2, 2, 2], [3, [-1, 1], [0, 1]]]],
             [5, [6, [1, 2], [0, 3]], [6, [5, [0, 2]], [3, [5, 7]]]],
             [4, [0, 1024]], [6, [0, 2], [4, [-512, 512]]], [7, 0, [0, 3], [0, 3]], [7, 2, [0, 3]],
             [6, [0, 2], [7, 1, [-2, 2]]], [6, [0, 3], [0, 2]], [6, [1, 1], [0, 3], [2, 2, 3]],
             [2, 20, 13], [6, [2, 20, 13], [0, 3]], [5, [0, 2], [2, 20, 14]], [2, 16, 16, 2]]
    specs = list(fixed)
    while len(specs) < n_spaces:
        specs.append(S.random_spec(rng, rng.choice([0, 1, 2, 2, 3]), allow_float=(rng.random() < 0.05),
                                   narrow=(rng.random() < 0.08)))
    for spec in specs:
        key = repr(spec)
        if key in seen:
            continue
        seen.add(key)
        shapes = sorted([list(p), list(sh)] for p, sh in S.box_shapes(spec, rng).items())
        if S.spec_has_float(spec):
            yield [spec, shapes, S.random_point(spec, rng), 0]
            continue
        n = S.spec_size(spec)
        if n <= per_space_cap:
            ks = list(range(n))
            perm = ks[:]
            rng.shuffle(perm)
            for k, j in zip(ks, perm):
                yield [spec, shapes, S.spec_unrank(spec, j), k]
        else:
            for _ in range(per_space_cap // 4):
                yield [spec, shapes, S.random_point(spec, rng), rng.randrange(n)]
            yield [spec, shapes, S.spec_unrank(spec, 0), n - 1]
            yield [spec, shapes, S.spec_unrank(spec, n - 1), 0]
    # large spaces (n < 2^62), sampled
    made = 0
    while made < n_big:
        spec = S.random_spec(rng, rng.choice([1, 2, 3]), big=True)
        n = S.spec_size(spec)
        if n >= 2 ** 62 or n < 10 ** 4:
            continue
        made += 1
        shapes = sorted([list(p), list(sh)] for p, sh in S.box_shapes(spec, rng).items())
        for _ in range(12 if quick else 50):
            yield [spec, shapes, S.random_point(spec, rng), rng.randrange(n)]
        yield [spec, shapes, S.random_point(spec, rng), n - 1]


def nontrivial(inp, out):
    spec = inp[0]
    return (not S.spec_has_float(spec)) and S.spec_size(spec) > 1 and \
        (spec[0] in (5, 6) or len(spec) > 2)


def classify(inp, out):
    spec = inp[0]
    if S.spec_has_float(spec):
        return "rejected-by-check_space"
    n = S.spec_size(spec)
    kind = {0: "Discrete", 1: "MultiBinary", 2: "MultiDiscrete", 3: "Box", 5: "Tuple", 6: "Dict"}[spec[0]]
    return f"{kind}/depth{S.spec_depth(spec)}/" + ("n<=160" if n <= 160 else "n<=1e4" if n <= 10 ** 4 else "n>1e4")


class RavelComponent(Component):
    pass


def _impl(inp):
    return impl_ravel(inp)


COMPONENTS = [
    Component(401, "ravel_unravel", _impl, gen, chk=402, nontrivial=nontrivial, classify=classify),
]
