"""C14: the real SuperAgentWrapper over the scripted simulation vs Ctl/Super.v.

input  = [script, mapping, nulls, drive]
  script  = [kind, n, learning bits, rows[done bits, all, nominated, accruals]]   (stubsim)
  mapping = [[covered agent, ...], ...]        super agent j covers mapping[j], in this order
  nulls   = per agent [] (no null observation declared) or [v]
  drive   = [0, calls]                         a direct call sequence on the wrapper
          | [m, nsteps, seed, episodes]        m = 1 AllStep, 2 TurnBased, 3 DynamicOrder manager
                                               drives the wrapper; the calls it makes are recorded
  calls   : [0] reset | [1, entries] step | [2, id] get_obs | [3, id] get_reward | [4, id] get_done
            | [5, id] get_info | [6] get_all_done
  id      : [0, j] super agent j | [1, a] agent a of the wrapped simulation
  entries : [0, j, [[c, v], ...]] action of super agent j | [1, a, v] action of agent a
behaviour = [init, [[response, inner log segment], ...]]
  init     0 | 1 (the mapping was rejected by the constructor)
  response [0] ok | [1, entries, mask, member] super obs | [2, o, member] plain obs | [3, r]
           | [4, b] | [5, [[c, i], ...]] super info | [6, i] | [7, b] | [9, code] exception
  inner log: see harness/wrapstub.py
The model gets (script mapping nulls calls) with the concrete call list (Component.split).
"""
from . import envshim  # noqa: F401
import itertools
import numpy as np
import random
from .runner import Component
from . import stubsim, wrapstub
from .stubsim import aid, aidx

PROP = "C14"
RULE = ("a case is (script = agents/learning flags/done table (also non-monotone)/accruals, mapping "
        "= ordered cover lists, declared null observations, call sequence); call sequences are "
        "direct (reset/step/getters in any order and repetition, also for covered ids) or recorded "
        "under the real AllStep/TurnBased/DynamicOrder managers; all partitions of n<=4 agents into "
        "super agents, uncovered and non-learning agents are enumerated; non-trivial = a covered "
        "agent is done at some super-agent call; distinct = distinct model inputs")
ASSUMPTIONS = [
    "get_done/get_all_done/get_info of the wrapped simulation are observationally pure (done_stable)",
    "the wrapper is used after its first reset (before it the flag dicts do not exist)",
    "'declared' null observation = truthy null_observation attribute (library-wide convention)",
    "reward clauses of the checker: the scripted simulation follows accumulate-and-reset",
]


def sid(j):
    return f"s{j}"


class Codec:
    def __init__(self, mapping, shift=0):
        self.mapping = mapping
        self.shift = shift      # observations come through an intermediate wrapper adding `shift`

    def enc_id(self, w, agent_id):
        return [0, int(agent_id[1:])] if agent_id[0] == "s" else [1, aidx(agent_id)]

    def enc_actions(self, w, action_dict):
        out = []
        for k, v in action_dict.items():
            if k[0] == "s":
                out.append([0, int(k[1:]), [[aidx(c), int(x)] for c, x in v.items()]])
            else:
                out.append([1, aidx(k), int(v)])
        return out

    def enc_resp(self, w, kind, agent_id, val, arg=None):
        if kind in (0, 1):
            return [0]
        sup = agent_id is not None and agent_id[0] == "s"
        if kind == 2:
            sp = getattr(w.agents.get(agent_id), "observation_space", None)
            member = 1 if (sp is None or sp.contains(val)) else 0
            if sup:
                ents = [[aidx(c), int(o) - self.shift] for c, o in val.items() if c != "mask"]
                mask = [[aidx(c), (1 if m[0] else 0) if (type(m) is list and len(m) == 1
                                                         and type(m[0]) is bool) else -1]
                        for c, m in val["mask"].items()]
                return [1, ents, mask, member]
            return [2, int(val) - self.shift, member]
        if kind == 3:
            return [3, int(val)]
        if kind == 4:
            # an uncovered agent's flag is the simulation's own answer (possibly a numpy boolean)
            return [4, 1 if val else 0] if isinstance(val, (bool, np.bool_)) else [4, -1]
        if kind == 5:
            if sup:
                return [5, [[aidx(c), int(i)] for c, i in val.items()]]
            return [6, int(val)]
        return [7, 1 if val else 0]

    def lift_next(self, w, nxt):
        cov = {aid(c): sid(j) for j, l in enumerate(self.mapping) for c in l}
        out = []
        for a in nxt:
            b = cov.get(a, a)
            if b not in out:
                out.append(b)
        return out


def dec_id(x):
    return sid(x[1]) if x[0] == 0 else aid(x[1])


def build(script, mapping, nulls, dyn=False, mid=False):
    from abmarl.sim.wrappers import SuperAgentWrapper
    # half of the cases without intermediate wrapper: the null observations are declared (through
    # the agents' public attribute) only AFTER the wrapper exists; it must hand out what is declared now
    late = (not mid) and (len(mapping) + len(script[3])) % 2 == 1
    inner = (wrapstub.DynWStub if dyn else wrapstub.WStub)(script, None if late else nulls)
    below = wrapstub.shift_obs_wrapper(inner) if (mid and not dyn) else inner
    w = SuperAgentWrapper(below, super_agent_mapping={sid(j): [aid(c) for c in l]
                                                      for j, l in enumerate(mapping)})
    if late and nulls:
        for i, v in enumerate(nulls):
            if v and hasattr(inner.agents[aid(i)], "null_observation"):
                inner.agents[aid(i)].null_observation = int(v[0])
    return inner, w


def play_direct(rec, calls):
    for c in calls:
        try:
            if c[0] == 0:
                rec.reset()
            elif c[0] == 1:
                ad = {}
                for e in c[1]:
                    if e[0] == 0:
                        ad[sid(e[1])] = {aid(k): v for k, v in e[2]}
                    else:
                        ad[aid(e[1])] = e[2]
                rec.step(ad)
            elif c[0] == 6:
                rec.get_all_done()
            else:
                getattr(rec, {2: "get_obs", 3: "get_reward", 4: "get_done", 5: "get_info"}[c[0]])(
                    dec_id(c[1]))
        except TimeoutError:
            raise
        except Exception:
            pass     # recorded by the proxy


def play_manager(rec, m, nsteps, seed, episodes, mapping):
    from abmarl.managers import AllStepManager, TurnBasedManager, DynamicOrderManager
    rng = random.Random(seed)
    mgr = {1: AllStepManager, 2: TurnBasedManager, 3: DynamicOrderManager}[m](rec)

    def act_for(k):
        if k[0] == "s":
            cov = mapping[int(k[1:])]
            if rng.random() < 0.15:
                cov = [c for c in cov if rng.random() < 0.6]
            return {aid(c): rng.randrange(10) for c in cov}
        return rng.randrange(10)
    for _ in range(episodes):
        try:
            obs = mgr.reset()
        except TimeoutError:
            raise
        except Exception:
            return
        live = list(obs.keys())
        for _ in range(nsteps):
            if not live:
                break
            try:
                obs, rew, done, info = mgr.step({k: act_for(k) for k in live})
            except TimeoutError:
                raise
            except Exception:
                break
            if done["__all__"]:
                break
            live = [k for k, v in done.items() if k != "__all__" and not v]


def impl(inp):
    script, mapping, nulls, drive = inp[:4]
    mid = bool(inp[4]) if len(inp) > 4 else False      # an observation-shifting wrapper in between
    mid = mid and drive[0] != 3
    try:
        inner, w = build(script, mapping, nulls, dyn=(drive[0] == 3), mid=mid)
    except AssertionError:
        return [[], [1, []]]
    cls = wrapstub.DynRecorder if drive[0] == 3 else wrapstub.Recorder
    rec = cls(w, inner, Codec(mapping, wrapstub.SHIFT if mid else 0))
    if drive[0] != 3 and (len(drive[1]) if drive[0] == 0 else drive[2]) % 2 == 0:
        # half of the cases: a second wrapper instance over its own simulation is used in between
        _, w2 = build(script, mapping, nulls, dyn=False, mid=mid)

        def act(wr, k):
            if k[0] == "s":
                return {aid(c): 3 for c in mapping[int(k[1:])]}
            return 3
        rec.decoy = wrapstub.Decoy(w2, act)
    if drive[0] == 0:
        play_direct(rec, drive[1])
    else:
        play_manager(rec, drive[0], drive[1], drive[2], drive[3], mapping)
    return [rec.calls, [0, rec.resps]]


def split(inp, out):
    if out[0] == -1:
        return [inp[0], inp[1], inp[2], []], out
    return [inp[0], inp[1], inp[2], out[0]], out[1]


# ------------------------------------------------------------------------------ generation

def set_partitions(items):
    if not items:
        yield []
        return
    first, rest = items[0], items[1:]
    for p in set_partitions(rest):
        for i in range(len(p)):
            yield p[:i] + [[first] + p[i]] + p[i + 1:]
        yield [[first]] + p


def layouts(n):
    """every way to make each of n agents non-learning (0), uncovered (1) or covered (2), and every
    partition of the covered ones into super agents"""
    for roles in itertools.product([0, 1, 2], repeat=n):
        cov = [i for i in range(n) if roles[i] == 2]
        learn = [0 if r == 0 else 1 for r in roles]
        for p in set_partitions(cov):
            yield learn, p


def done_rows(rng, n, T, mode):
    never = T + 5
    if mode == "nonmono":
        return [[rng.randint(0, 1) for _ in range(n)] for _ in range(T + 1)]
    if mode == "simul":
        d = rng.randint(0, T)
        dts = [d] * n
    elif mode == "none":
        dts = [never] * n
    elif mode == "all0":
        dts = [0] * n
    else:
        dts = [rng.choice([rng.randint(0, T), rng.randint(1, T), never]) for _ in range(n)]
    return [[1 if t >= dts[i] else 0 for i in range(n)] for t in range(T + 1)]


def make_script(rng, n, learn, T=None, mode=None):
    T = T if T is not None else rng.randint(1, 6)
    mode = mode or rng.choice(["random", "random", "nonmono", "nonmono", "simul", "none", "all0"])
    dr = done_rows(rng, n, T, mode)
    ft = rng.choice([T + 5, T + 5, rng.randint(1, T), T])
    rows = []
    for t in range(T + 1):
        k = rng.randint(1, n)
        nx = rng.sample(range(n), k)
        acc = [rng.randint(-3, 5) if rng.random() < 0.8 else 0 for _ in range(n)]
        rows.append([dr[t], 1 if t >= ft else 0, nx, acc])
    return [0, n, list(learn), rows]


def make_nulls(rng, n, learn):
    mode = rng.choice(["all", "none", "mixed", "mixed"])
    out = []
    for i in range(n):
        has = learn[i] and (mode == "all" or (mode == "mixed" and rng.random() < 0.5))
        out.append([wrapstub.NULL_BASE + i] if has else [])
    return out


def random_calls(rng, n, mapping, L):
    k = len(mapping)
    covered = [c for l in mapping for c in l]
    unc = [i for i in range(n) if i not in covered]

    def rid():
        r = rng.random()
        if k and r < 0.6:
            return [0, rng.randrange(k)]
        if unc and r < 0.9:
            return [1, rng.choice(unc)]
        return [1, rng.randrange(n)]        # possibly a covered agent: rejected
    calls = [[0]]
    for _ in range(L):
        r = rng.random()
        if r < 0.05:
            calls.append([0])
        elif r < 0.35:
            ents = []
            for j in range(k):
                if rng.random() < 0.8:
                    cov = mapping[j] if rng.random() < 0.8 else [c for c in mapping[j] if rng.random() < 0.5]
                    ents.append([0, j, [[c, rng.randrange(10)] for c in cov]])
            for a in unc:
                if rng.random() < 0.7:
                    ents.append([1, a, rng.randrange(10)])
            if covered and rng.random() < 0.07:
                ents.insert(rng.randint(0, len(ents)), [1, rng.choice(covered), rng.randrange(10)])
            rng.shuffle(ents)
            calls.append([1, ents])
        elif r < 0.60:
            c = [2, rid()]
            calls.append(c)
            if rng.random() < 0.4:
                calls.append(c)             # repeated getter call
        elif r < 0.80:
            c = [3, rid()]
            calls.append(c)
            if rng.random() < 0.4:
                calls.append(c)
        elif r < 0.90:
            calls.append([4, rid()])
        elif r < 0.96:
            calls.append([5, rid()])
        else:
            calls.append([6])
    return calls


def shuffled(rng, mapping):
    m = [list(l) for l in mapping]
    for l in m:
        rng.shuffle(l)
    rng.shuffle(m)
    return m


def gen(tier, rng):
    """every case with probability 0.3 over an intermediate observation-shifting wrapper"""
    for case in gen_plain(tier, rng):
        yield case + [1 if rng.random() < 0.3 else 0]


def gen_plain(tier, rng):
    quick = tier != "thorough"
    # 1. every layout of n <= 4 agents: direct sequences and the three managers
    for n in (1, 2, 3, 4):
        for learn, part in layouts(n):
            for _ in range(2 if quick else 6):
                mapping = shuffled(rng, part)
                sc = make_script(rng, n, learn)
                nulls = make_nulls(rng, n, learn)
                yield [sc, mapping, nulls, [0, random_calls(rng, n, mapping, rng.randint(4, 30))]]
                if any(learn):
                    m = rng.choice([1, 2, 3])
                    yield [sc, mapping, nulls, [m, rng.randint(2, 8), rng.getrandbits(30), rng.randint(1, 3)]]
    # 2. invalid mappings (constructor rejects): duplicate cover, non-learning cover, unknown agent
    for _ in range(30 if quick else 300):
        n = rng.randint(1, 4)
        learn = [rng.randint(0, 1) for _ in range(n)]
        sc = make_script(rng, n, learn)
        mapping = [[rng.randrange(n + 1) for _ in range(rng.randint(0, 3))] for _ in range(rng.randint(1, 3))]
        yield [sc, mapping, make_nulls(rng, n, learn), [0, random_calls(rng, n, [], 4)]]
    # 3. random larger cases
    for _ in range(4000 if quick else 40000):
        n = rng.randint(1, 6 if quick else 8)
        roles = [rng.choice([0, 1, 2, 2, 2]) for _ in range(n)]
        learn = [0 if r == 0 else 1 for r in roles]
        cov = [i for i in range(n) if roles[i] == 2]
        rng.shuffle(cov)
        part = []
        for c in cov:
            if part and rng.random() < 0.6:
                rng.choice(part).append(c)
            else:
                part.append([c])
        if rng.random() < 0.1:
            part.append([])                    # a super agent that covers nobody
        mapping = shuffled(rng, part)
        sc = make_script(rng, n, learn, T=rng.randint(1, 8))
        nulls = make_nulls(rng, n, learn)
        if rng.random() < 0.6 or not any(learn):
            yield [sc, mapping, nulls, [0, random_calls(rng, n, mapping, rng.randint(5, 60))]]
        else:
            yield [sc, mapping, nulls, [rng.choice([1, 2, 3]), rng.randint(2, 12), rng.getrandbits(30),
                                        rng.randint(1, 3)]]


def nontrivial(inp, out):
    # some covered agent is done in some row
    cov = [c for l in inp[1] for c in l]
    return any(r[0][c] for r in inp[0][3] for c in cov if c < len(r[0]))


def classify(inp, out):
    d = inp[3][0]
    tag = {0: "direct", 1: "allstep", 2: "turn", 3: "dyn"}[d]
    if len(inp) > 4 and inp[4] and d != 3:
        tag += "-over-wrapper"
    o = out if isinstance(out, str) else str(out)
    if o.startswith("(1"):
        return tag + "/init-reject"
    extra = []
    if "(9 1)" in o:
        extra.append("reject")
    if str(wrapstub.NULL_BASE)[:4] in o:
        extra.append("null")
    if any(not all(a <= b for a, b in zip(r0[0], r1[0])) for r0, r1 in zip(inp[0][3], inp[0][3][1:])):
        extra.append("nonmono")
    return tag + "/" + "+".join(extra or ["plain"])


def shrink(inp):
    for c in shrink_plain(inp[:4]):
        yield c + inp[4:]


def shrink_plain(inp):
    script, mapping, nulls, drive = inp
    if drive[0] == 0:
        calls = drive[1]
        for i in range(len(calls) - 1, 0, -1):
            yield [script, mapping, nulls, [0, calls[:i] + calls[i + 1:]]]
    else:
        if drive[1] > 1:
            yield [script, mapping, nulls, [drive[0], drive[1] - 1, drive[2], drive[3]]]
        if drive[3] > 1:
            yield [script, mapping, nulls, [drive[0], drive[1], drive[2], drive[3] - 1]]
    kind, n, learn, rows = script
    if len(rows) > 1:
        yield [[kind, n, learn, rows[:-1]], mapping, nulls, drive]


def repro(inp):
    from . import sx
    return ("PYTHONHASHSEED=0 PYTHONPATH=/verif:/repo /venv/bin/python -c \"from harness import gen_C14, sx; "
            "print(gen_C14.impl(sx.loads('%s')))\"  # real SuperAgentWrapper over the scripted "
            "simulation; see the module docstring for the input layout" % sx.dumps(inp))


COMPONENTS = [
    Component(1401, "super", impl, gen, chk=1402, nontrivial=nontrivial, classify=classify,
              shrink=shrink, repro=repro),
]
COMPONENTS[0].split = split
