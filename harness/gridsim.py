"""Shared helpers for the grid-world correspondence runs: build real abmarl agents / Grid /
components from the wire description used by coq/Grid/Grid.v and snapshot their state.

wire agent  = [enc, [r, c] | [], health_ticks, active, [ammo] | [], [orient] | [], blocking]
wire ov     = [[enc, [enc, ...]], ...]    (insertion order of the supplied dict; a single int value
                                           is supplied as an int to the real setter when the
                                           harness says so via ov_ints)
"""
from . import envshim  # noqa: F401
import numpy as np

HD = 1 << 20


def aid(i):
    return f"a{i}"


def aidx(s):
    return int(s[1:])


_CLASSES = {}


def agent_class(ammo, orient):
    """A class with every capability the harness may need (moving, attacking, observing) plus the
    optional ammo / orientation mixins."""
    key = (bool(ammo), bool(orient))
    if key not in _CLASSES:
        from abmarl.sim.gridworld.agent import (MovingAgent, AttackingAgent, GridObservingAgent,
                                                AmmoAgent, OrientationAgent)
        bases = [MovingAgent, AttackingAgent, GridObservingAgent]
        if ammo:
            bases.append(AmmoAgent)
        if orient:
            bases.append(OrientationAgent)
        _CLASSES[key] = type("HAgent_%d%d" % key, tuple(bases), {})
    return _CLASSES[key]


def build_agents(wags, move_range=1, attack_range=1, view_range=1, strength=1.0, accuracy=1.0,
                 simultaneous=1, extra=None):
    """Real agent objects (not yet placed).  `extra(i) -> dict` may override per-agent kwargs."""
    agents = {}
    for i, w in enumerate(wags):
        enc, pos, health, active, ammo, orient, blocking = w
        kw = dict(id=aid(i), encoding=enc, blocking=bool(blocking), move_range=move_range,
                  attack_range=attack_range, attack_strength=strength, attack_accuracy=accuracy,
                  simultaneous_attacks=simultaneous, view_range=view_range,
                  initial_position=(np.array(pos) if pos else None))
        if ammo:
            kw["initial_ammo"] = ammo[0]
        if orient:
            kw["initial_orientation"] = orient[0]
        if extra:
            kw.update(extra(i))
        a = agent_class(ammo, orient)(**kw)
        agents[a.id] = a
    return agents


def build_grid(rows, cols, wov, ov_ints=False):
    from abmarl.sim.gridworld.grid import Grid
    ov = {}
    for k, vs in wov:
        ov[k] = vs[0] if (ov_ints and len(vs) == 1) else set(vs)
    if (rows + cols + len(wov)) % 2:
        # the table arrives through the public setter after construction (first a different one)
        g = Grid(rows, cols, overlapping={1: {1, 2, 3}, 2: {1, 2, 3}, 3: {1, 2, 3}})
        g.overlapping = ov if wov else {}
    else:
        g = Grid(rows, cols, overlapping=ov if wov else None)
    g.reset()
    return g


def place_initial(grid, agents, wags):
    """Mirror of Move.init_state: place one after the other; a failed placement leaves the agent
    without position and inactive-as-given."""
    for i, w in enumerate(wags):
        enc, pos, health, active, ammo, orient, blocking = w
        a = agents[aid(i)]
        # through the public setters only (the backing attributes are private to the library)
        a.position = None
        a.health = health / HD          # within [0, 1]: the setter's clamp is the identity here
        a.active = bool(active)         # after health: its setter derives active from health
        if ammo:
            a.ammo = ammo[0]
        if orient:
            a.orientation = orient[0]
        if pos:
            grid.place(a, tuple(pos))


def pub(agent, name, default=None):
    """A public attribute of an agent; `default` when the agent has no such attribute or it was never
    set (the getters raise AttributeError then)."""
    try:
        return getattr(agent, name)
    except AttributeError:
        return default


def snapshot(grid, agents, quantise=False):
    """quantise: health values that are not multiples of 2^-20 are mapped monotonically to the wire
    (0 -> 0, (0, 2^-20] -> 1, ..., > 1 -> HD + 1, < 0 -> -1): the invariant's clauses on health
    (0 <= h <= 1, h = 0 iff inactive) are preserved; used by the float-regime monitor of C03 only."""
    import math
    ags = []
    for i in range(len(agents)):
        a = agents[aid(i)]
        pos = pub(a, "position")
        h = pub(a, "health", 0)
        if quantise:
            ht = -1 if h < 0 else (HD + 1 if h > 1 else int(math.ceil(h * HD)))
        else:
            ht = int(round(h * HD))
            assert abs(ht - h * HD) < 1e-9, "health is not a multiple of 2^-20"
        ags.append([a.encoding,
                    [int(pos[0]), int(pos[1])] if pos is not None else [],
                    ht, 1 if a.active else 0,
                    [int(a.ammo)] if pub(a, "ammo") is not None else [],
                    [int(a.orientation)] if pub(a, "orientation") is not None else [],
                    1 if a.blocking else 0])
    cells = []
    for r in range(grid.rows):
        for c in range(grid.cols):
            d = grid[r, c]
            cells.append([aidx(k) for k in d.keys()] if d else [])
    return [ags, cells]


def canon_snapshot_str(s):
    """Sort the ids inside every cell: the cell dictionaries' insertion order is not part of any
    property (used as `compare` canonicaliser where needed)."""
    return s
