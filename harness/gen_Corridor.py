"""Fourth end-to-end correspondence (supports C01, C07, C08, C14, C16, C20): the REAL MultiCorridor of
/repo/abmarl/examples/sim/multi_corridor.py -- the simulation the library's own tests run under
every manager and wrapper -- under the REAL AllStepManager / TurnBasedManager, bare
(`corridor_managers`, ids 2501/2502) and inside the REAL SuperAgentWrapper /
CommunicationHandshakeWrapper / RavelDiscreteWrapper / FlattenWrapper / Flatten(Ravel)
(`corridor_wrapped`, ids 2503/2504), against the extracted compositions of coq/Ctl/Corridor.v:
`run (corridor_sim end n) k ...` and `run (super_sim | comm_sim | sar_sim over the corridor) k ...`
(coq/Ctl/Stack.v, coq/Ctl/Managers.v).

`np.random.choice` (the reset draw) is replaced by a recording generator of admissible draws
(clustered near the end of the corridor half of the time, so that agents bump and arrive);
`random.shuffle` of the all-step manager is recorded.  Compared after every manager call: the
complete output (observations, rewards, done flags, info keys, `__all__`, rejections) and the
simulation's positions, occupancy array, reward table.  Agents are named by their index."""
from . import envshim  # noqa: F401
import random
import numpy as np
from .runner import Component

KINDS = {0: "all", 1: "turn"}
SIM_ERRORS = (IndexError, ValueError, KeyError, AttributeError, TypeError)


def aidx(k):
    return int(k[5:])           # 'agent3' -> 3


class ChoiceSpy:
    """np.random.choice(a, size, False) -> a recorded admissible draw; an impossible draw raises as
    numpy does and is recorded as [-1]"""

    def __init__(self, rng):
        self.rng, self.draws = rng, []

    def __call__(self, a, size=None, replace=True, p=None):
        assert replace is False and p is None and size is not None
        a, size = int(a), int(size)
        if a <= 0 or size > a:
            self.draws.append([-1])
            raise ValueError("Cannot take a larger sample than population when 'replace=False'")
        if self.rng.random() < 0.5:
            lo = self.rng.randint(max(0, a - size - 1), a - size)     # a block near the end
            d = list(range(lo, lo + size))
            self.rng.shuffle(d)
        else:
            d = self.rng.sample(range(a), size)
        self.draws.append([int(c) for c in d])
        return np.array(d)

    def __enter__(self):
        self._orig = np.random.choice
        np.random.choice = self
        return self

    def __exit__(self, *a):
        np.random.choice = self._orig
        return False


def snapshot(sim, bad):
    """positions, occupancy array (-1 = None), reward table, flag; empty before the first reset"""
    if not hasattr(sim, "corridor"):
        return [[], [], [], bad]
    idx = {id(a): aidx(k) for k, a in sim.agents.items()}
    return [[int(a.position) for a in sim.agents.values()],
            [-1 if c is None else idx[id(c)] for c in sim.corridor],
            [int(sim.reward[k]) for k in sim.agents], bad]


def enc_cobs(ob):
    assert set(ob) == {"position", "left", "right"}
    for v in ob.values():
        assert np.asarray(v).shape == (1,)
    return [int(ob["position"][0]), int(ob["left"][0]), int(ob["right"][0])]


def sample_action(rng):
    return rng.choice([0, 1, 2, 2, 2, 2])       # LEFT, STAY, RIGHT (mostly towards the end)


def play(sim, mgr, key_of, enc_obs, enc_info, make_action, wire_action, pols, rng, spy, shuffles):
    """Drive a real manager by gen_C01's policies; returns (calls, records).  key_of: agent id ->
    index of the manager-level agent; make_action(id) -> an action of that agent's space;
    wire_action(id, action) -> its wire form."""
    calls, recs = [], []
    last_live, ended = None, True
    for pol in pols:
        if last_live is None or pol == 5 or ended:
            calls.append([0])
            try:
                obs = mgr.reset()
            except SIM_ERRORS:
                recs.append([[3], snapshot(sim, 1)])
                break
            recs.append([[0, [[key_of(k)] + enc_obs(k, v) for k, v in obs.items()]], snapshot(sim, 0)])
            last_live, ended = list(obs.keys()), False
            continue
        done_set = [k for k in mgr.agents if k in mgr.done_agents]
        acts = [(k, make_action(k)) for k in last_live]
        if pol in (1, 2) and done_set:
            ex = rng.choice(done_set)
            ex = (ex, make_action(ex))
            acts = acts + [ex] if pol == 1 else [ex] + acts
        elif pol == 3:
            acts = acts[:1]
        elif pol == 4:
            acts = []
        elif pol == 6:
            cand = [k for k in mgr.agents if k not in mgr.done_agents]
            acts = [(k, make_action(k)) for k in cand if rng.random() < 0.6]
        ad = dict(acts)
        sub = [[key_of(k)] + wire_action(k, a) for k, a in ad.items()]
        nsh = len(shuffles)
        bad = 0
        try:
            obs, rew, done, info = mgr.step(ad)
            assert all(float(v) == int(v) for v in rew.values())
            r = [1, [[key_of(k)] + enc_obs(k, v) for k, v in obs.items()],
                 [[key_of(k), int(v)] for k, v in rew.items()],
                 [[key_of(k), 1 if v else 0] for k, v in done.items() if k != "__all__"],
                 [key_of(k) for k, v in info.items() if enc_info(k, v)],
                 1 if done["__all__"] else 0]
            last_live = [k for k, v in done.items() if k != "__all__" and not v]
            ended = bool(done["__all__"])
        except AssertionError as e:
            if "already done" not in str(e) and "covered by a super agent" not in str(e):
                raise
            r = [2]
        except StopIteration:
            r = [3]
        except SIM_ERRORS:
            r, bad = [3], 1
        sh = ([[key_of(k)] + wire_action(k, a) for k, a in shuffles[nsh]] if len(shuffles) > nsh else sub)
        calls.append([1, sub, sh])
        recs.append([r, snapshot(sim, bad)])
        if bad:
            break
    return calls, recs


class ShuffleSpy:
    def __init__(self):
        self.log = []

    def __enter__(self):
        self._orig = random.shuffle

        def spy(lst):
            self._orig(lst)
            self.log.append(list(lst))
        random.shuffle = spy
        return self

    def __exit__(self, *a):
        random.shuffle = self._orig
        return False


# ------------------------------------------------------------------ (a) bare corridor under managers

def drive(inp):
    from abmarl.examples.sim.multi_corridor import MultiCorridor
    from abmarl.managers import AllStepManager, TurnBasedManager
    cend, n, kind, randomize, pols, seed = inp
    rng = random.Random(seed)
    random.seed(seed)
    sim = MultiCorridor(end=cend, num_agents=n)
    mgr = AllStepManager(sim, randomize_action_input=bool(randomize)) if kind == 0 else TurnBasedManager(sim)
    with ChoiceSpy(rng) as spy, ShuffleSpy() as sh:
        calls, recs = play(sim, mgr, aidx, lambda k, v: enc_cobs(v), lambda k, v: v == {},
                           lambda k: sample_action(rng), lambda k, a: [int(a)], pols, rng, spy, sh.log)
    return [cend, n, spy.draws, kind, calls], recs


def impl(inp):
    minp, beh = drive(inp)
    return [minp, beh]


def split(inp, out):
    if out[0] == -1:
        return [inp[0], inp[1], [], inp[2], []], out
    return out[0], out[1]


POLS = [0, 0, 0, 0, 0, 0, 1, 2, 3, 4, 5, 6, 6]


def gen(tier, rng):
    quick = tier != "thorough"
    for _ in range(800 if quick else 20000):
        cend = rng.choice([2, 3, 3, 4, 4, 5, 5, 6, 7, 8, 10])
        n = rng.randint(1, max(1, min(5, cend - 1)))
        if rng.random() < 0.02:
            n = cend + rng.randint(0, 1)            # reset cannot place the agents: ValueError
        kind = rng.choice([0, 1])
        L = rng.randint(4, 45)
        style = rng.random()
        if style < 0.35:
            pols = [0] * L                          # straight episodes: arrivals, __all__, next episode
        elif style < 0.5:
            pols = [rng.choice([0, 0, 0, 6]) for _ in range(L)]
        else:
            pols = [rng.choice(POLS) for _ in range(L)]
        yield [cend, n, kind, 1 if (kind == 0 and rng.random() < 0.4) else 0, pols, rng.getrandbits(30)]


def tags(beh):
    t = set()
    for r, snap in beh:
        if snap[3]:
            t.add("flag")
        if r[0] == 2:
            t.add("reject")
        if r[0] == 1:
            if any(d[1] for d in r[3]):
                t.add("arrive")
            if r[5]:
                t.add("alldone")
            if any(v[1] <= -2 for v in r[2]):
                t.add("penalty")
    return t


def classify(inp, out):
    from . import sx
    try:
        beh = sx.loads(out) if isinstance(out, str) else out
        t = tags(beh)
    except Exception:
        t = set()
    if inp[3]:
        t.add("shuffle")
    return KINDS[inp[2]] + "/" + "+".join(sorted(t) or ["plain"])


def nontrivial(inp, out):
    from . import sx
    try:
        t = tags(sx.loads(out) if isinstance(out, str) else out)
    except Exception:
        return False
    return bool(t & {"arrive", "reject", "penalty", "flag"})


def shrink(inp):
    pols = inp[4]
    for i in range(len(pols) - 1, 0, -1):
        yield inp[:4] + [pols[:i]] + inp[5:]


def repro(inp):
    from . import sx
    return ("PYTHONPATH=/verif:/repo PYTHONHASHSEED=0 /venv/bin/python -c \"from harness import gen_Corridor, sx; "
            "print(gen_Corridor.impl(sx.loads('%s')))\"  # drives the real manager over the real MultiCorridor; "
            "input = end n manager(0 all,1 turn) randomize policies seed" % sx.dumps(inp))


COMPONENT_MANAGERS = Component(2501, "corridor_managers", impl, gen, chk=2502, nontrivial=nontrivial,
                               classify=classify, shrink=shrink, repro=repro, timeout=30)
COMPONENT_MANAGERS.split = split



# ------------------------------------------------------------------ (b) wrapper stacks under managers
WK = {0: "super", 1: "comm", 2: "ravel", 3: "flatten", 4: "flatten-ravel"}


def build_stack(cend, n, wk, mapping):
    """the real wrapper over the real MultiCorridor, and the codecs between its dictionaries and the
    wire format of coq/Ctl/Corridor.v (2503)"""
    from abmarl.examples.sim.multi_corridor import MultiCorridor
    from abmarl.sim.wrappers import (SuperAgentWrapper, CommunicationHandshakeWrapper,
                                     RavelDiscreteWrapper, FlattenWrapper)
    from . import c06_sims as C
    inner = MultiCorridor(end=cend, num_agents=n)
    if wk == 0:
        names = {f"super{j}": [f"agent{c}" for c in cv] for j, cv in enumerate(mapping)}
        w = SuperAgentWrapper(inner, super_agent_mapping=names)
        covered = {c for cv in mapping for c in cv}
        unc = [a for a in range(n) if a not in covered]
        keys = list(w.agents.keys())
        # position in the wrapper's agent dictionary -> index of the packaged simulation
        ord_ = [int(k[5:]) if k.startswith("super") else len(mapping) + unc.index(aidx(k)) for k in keys]
        key_of = keys.index

        def enc_obs(k, v):
            if k in names:
                assert set(v) == set(names[k]) | {"mask"} and set(v["mask"]) == set(names[k])
                for c in names[k]:
                    assert np.asarray(v["mask"][c]).shape == (1,)
                return [[1, [[aidx(c)] + enc_cobs(v[c]) for c in names[k]],
                         [[aidx(c), 1 if v["mask"][c][0] else 0] for c in names[k]]]]
            return [[2] + enc_cobs(v)]

        def enc_info(k, v):
            return v == ({c: {} for c in names[k]} if k in names else {})

        def make_action(k, rng):
            if k in names:
                return {c: sample_action(rng) for c in names[k]}
            return sample_action(rng)

        def wire_action(k, a):
            if k in names:
                return [[0, [[aidx(c), int(x)] for c, x in a.items()]]]
            return [[1, int(a)]]
        return inner, w, key_of, enc_obs, enc_info, make_action, wire_action, [mapping, ord_]
    if wk == 1:
        w = CommunicationHandshakeWrapper(inner)

        def enc_obs(k, v):
            assert set(v) == {"obs", "message_buffer"}
            return [[1, enc_cobs(v["obs"]), [[aidx(o), 1 if m else 0] for o, m in v["message_buffer"].items()]]]

        def make_action(k, rng):
            others = [o for o in w.agents if o != k]
            act = {"action": sample_action(rng),
                   "send": {o: rng.choice([0, 0, 1]) for o in others},
                   "receive": {o: rng.choice([0, 1, 1]) for o in others}}
            assert w.agents[k].action_space.contains(act)
            return act

        def wire_action(k, a):
            return [int(a["action"]), [[aidx(o), int(x)] for o, x in a["send"].items()],
                    [[aidx(o), int(x)] for o, x in a["receive"].items()]]
        return inner, w, aidx, enc_obs, (lambda k, v: v == {}), make_action, wire_action, [[], []]
    w = {2: lambda: RavelDiscreteWrapper(inner), 3: lambda: FlattenWrapper(inner),
         4: lambda: FlattenWrapper(RavelDiscreteWrapper(inner))}[wk]()

    def enc_obs(k, v):
        sp = w.agents[k].observation_space
        assert sp.contains(v), (sp, v)
        return [C.upoint_to_sx(sp, v)]

    def make_action(k, rng):
        sp = w.agents[k].action_space
        a = sample_action(rng)
        act = a if wk == 2 else np.array([a], dtype=sp.dtype)
        assert sp.contains(act), (sp, act)
        return act

    def wire_action(k, a):
        return [C.upoint_to_sx(w.agents[k].action_space, a)]
    return inner, w, aidx, enc_obs, (lambda k, v: v == {}), make_action, wire_action, [[], []]


def drive_wrapped(inp):
    from abmarl.managers import AllStepManager, TurnBasedManager
    cend, n, kind, wk, mapping, randomize, pols, seed = inp
    rng = random.Random(seed)
    random.seed(seed)
    inner, w, key_of, enc_obs, enc_info, make_action, wire_action, extra = build_stack(cend, n, wk, mapping)
    mgr = AllStepManager(w, randomize_action_input=bool(randomize)) if kind == 0 else TurnBasedManager(w)
    with ChoiceSpy(rng) as spy, ShuffleSpy() as sh:
        calls, recs = play(inner, mgr, key_of, enc_obs, enc_info, lambda k: make_action(k, rng),
                           wire_action, pols, rng, spy, sh.log)
    return [cend, n, spy.draws, kind, wk, extra, calls], recs


def impl_wrapped(inp):
    minp, beh = drive_wrapped(inp)
    return [minp, beh]


def split_wrapped(inp, out):
    if out[0] == -1:
        return [inp[0], inp[1], [], inp[2], inp[3], [[], []], []], out
    return out[0], out[1]


def gen_wrapped(tier, rng):
    quick = tier != "thorough"
    for _ in range(700 if quick else 20000):
        wk = rng.choice([0, 0, 1, 1, 2, 3, 4])
        cend = rng.choice([3, 4, 4, 5, 5, 6, 7, 8])
        n = rng.randint(1 if wk >= 2 else 2, max(2, min(5, cend - 1)))
        n = min(n, cend - 1)
        if n < 2 and wk < 2:
            cend, n = 4, 2
        mapping = []
        if wk == 0:
            ags = list(range(n))
            rng.shuffle(ags)
            ncov = rng.randint(1, n)
            cov = ags[:ncov]
            if ncov >= 2 and rng.random() < 0.5:
                cut = rng.randint(1, ncov - 1)
                mapping = [cov[:cut], cov[cut:]]
            else:
                mapping = [cov]
        kind = rng.choice([0, 1])
        L = rng.randint(4, 40)
        style = rng.random()
        if style < 0.4:
            pols = [0] * L
        elif style < 0.55:
            pols = [rng.choice([0, 0, 0, 6]) for _ in range(L)]
        else:
            pols = [rng.choice(POLS) for _ in range(L)]
        yield [cend, n, kind, wk, mapping, 1 if (kind == 0 and rng.random() < 0.4) else 0, pols,
               rng.getrandbits(30)]


def classify_wrapped(inp, out):
    from . import sx
    try:
        t = tags(sx.loads(out) if isinstance(out, str) else out)
    except Exception:
        t = set()
    return WK[inp[3]] + "/" + KINDS[inp[2]] + "/" + "+".join(sorted(t) or ["plain"])


def shrink_wrapped(inp):
    pols = inp[6]
    for i in range(len(pols) - 1, 0, -1):
        yield inp[:6] + [pols[:i]] + inp[7:]


def repro_wrapped(inp):
    from . import sx
    return ("PYTHONPATH=/verif:/repo PYTHONHASHSEED=0 /venv/bin/python -c \"from harness import gen_Corridor, sx; "
            "print(gen_Corridor.impl_wrapped(sx.loads('%s')))\"  # drives the real manager over the real wrapper "
            "over the real MultiCorridor; input = end n manager(0 all,1 turn) wrapper(0 super,1 comm,2 ravel,"
            "3 flatten,4 flatten(ravel)) mapping randomize policies seed" % sx.dumps(inp))


COMPONENT_WRAPPED = Component(2503, "corridor_wrapped", impl_wrapped, gen_wrapped, chk=2504,
                              nontrivial=nontrivial, classify=classify_wrapped, shrink=shrink_wrapped,
                              repro=repro_wrapped, timeout=30)
COMPONENT_WRAPPED.split = split_wrapped

COMPONENTS = [COMPONENT_MANAGERS, COMPONENT_WRAPPED]
