"""Conversion between gymnasium spaces/points and the model's wire format; space generators."""
from . import envshim  # noqa: F401
import numpy as np
from gymnasium.spaces import Discrete, MultiBinary, MultiDiscrete, Dict, Tuple
from gymnasium.spaces import Box as GymBox

TICK = 1024  # float leaves: dyadic rationals k/1024
NARROW = {0: np.int32, 1: np.int8, 2: np.uint8, 3: np.int16}


def space_to_sx(space):
    if isinstance(space, Discrete):
        return [0, int(space.n)]
    if isinstance(space, MultiBinary):
        return [1, int(space.n)]
    if isinstance(space, MultiDiscrete):
        return [2] + [int(x) for x in space.nvec]
    if isinstance(space, GymBox):
        lo, hi = space.low.flatten(), space.high.flatten()
        if np.issubdtype(space.dtype, np.integer):
            return [3] + [[int(a), int(b)] for a, b in zip(lo, hi)]
        return [4] + [[int(round(float(a) * TICK)), int(round(float(b) * TICK))]
                      for a, b in zip(lo, hi)]
    if isinstance(space, Tuple):
        return [5] + [space_to_sx(s) for s in space.spaces]
    if isinstance(space, Dict):
        return [6] + [space_to_sx(s) for s in space.spaces.values()]
    raise TypeError(space)


NARROW_MD = False     # set by gen_C04: MultiDiscrete spaces of a narrow integer dtype


def build_space(spec, shapes=None, path=()):
    """spec: wire-format space; Dict children get keys k0, k1, ... inserted in reverse order
    (gymnasium sorts them back); Box shape: flat unless shapes[path] is given."""
    t = spec[0]
    if t == 0:
        return Discrete(spec[1])
    if t == 1:
        return MultiBinary(spec[1])
    if t == 2:
        if NARROW_MD and max(spec[1:]) <= 100:
            # narrow dtypes whose product of sizes may overflow the dtype itself: the size and the
            # encoding must not depend on the dtype the space happens to be stored in
            k = (sum(spec[1:]) + len(path)) % 3
            if k:
                return MultiDiscrete(spec[1:], dtype=(np.int8 if k == 1 else np.int16))
        return MultiDiscrete(spec[1:])
    if t in (3, 4):
        shape = tuple((shapes or {}).get(path, (len(spec) - 1,)))
        # half of the leaves are the package's own Box (abmarl.tools.Box, a subclass with its own
        # `contains`), the others gymnasium's: simulations use both
        from abmarl.tools import Box as AbmBox
        cls = AbmBox if (len(path) + len(spec)) % 2 == 0 else GymBox
        if t == 3:
            lo = np.array([b[0] for b in spec[1:]], dtype=int).reshape(shape)
            hi = np.array([b[1] for b in spec[1:]], dtype=int).reshape(shape)
            return cls(lo, hi, dtype=int)
        lo = np.array([b[0] / TICK for b in spec[1:]], dtype=float).reshape(shape)
        hi = np.array([b[1] / TICK for b in spec[1:]], dtype=float).reshape(shape)
        return cls(lo, hi, dtype=float)
    if t == 5:
        return Tuple(tuple(build_space(s, shapes, path + (i,)) for i, s in enumerate(spec[1:])))
    if t == 7:
        # bounded integer Box of a dtype other than int64 (check_space does not admit these)
        dt = NARROW[spec[1]]
        shape = (shapes or {}).get(path, (len(spec) - 2,))
        lo = np.array([b[0] for b in spec[2:]], dtype=dt).reshape(shape)
        hi = np.array([b[1] for b in spec[2:]], dtype=dt).reshape(shape)
        return GymBox(lo, hi, dtype=dt)
    if t == 6:
        kids = [build_space(s, shapes, path + (i,)) for i, s in enumerate(spec[1:])]
        # three key schemes, chosen by the shape of the spec: string keys that gymnasium sorts
        # (stored order = sorted order), string keys given as a sequence of pairs (stored order =
        # insertion order, which is NOT the sorted order), integer keys (numeric order differs
        # from the order of their string forms)
        scheme = (len(repr(spec)) + len(path)) % 3
        if scheme == 0:
            items = [(f"k{i}", k) for i, k in enumerate(kids)]
            d = Dict(dict(reversed(items)))
        elif scheme == 1:
            items = [(f"{chr(122 - i)}{i}", k) for i, k in enumerate(kids)]
            d = Dict(items)
        else:
            keys = [2, 10, 33, 104, 1000, 20000]
            items = [(keys[i], k) for i, k in enumerate(kids)]
            d = Dict(dict(reversed(items)))
        assert list(d.spaces.keys()) == [k for k, _ in items]
        return d
    raise ValueError(spec)


def point_to_sx(space, p):
    if isinstance(space, Discrete):
        return [0, int(p)]
    if isinstance(space, (MultiBinary, MultiDiscrete)):
        return [1] + [int(x) for x in np.asarray(p).flatten()]
    if isinstance(space, GymBox):
        a = np.asarray(p)
        if np.issubdtype(space.dtype, np.integer):
            return [1] + [int(x) for x in a.flatten()]
        return [2] + [int(round(float(x) * TICK)) for x in a.flatten()]
    if isinstance(space, Tuple):
        assert len(p) == len(space.spaces)
        return [3] + [point_to_sx(s, q) for s, q in zip(space.spaces, p)]
    if isinstance(space, Dict):
        assert set(p.keys()) == set(space.spaces.keys())
        return [3] + [point_to_sx(s, p[k]) for k, s in space.spaces.items()]
    raise TypeError(space)


def sx_to_point(space, x, rng=None):
    """Build a Python point of [space] from wire format.  Dict points are built with keys in a
    shuffled order when rng is given (lookup is by key, order must not matter)."""
    if isinstance(space, Discrete):
        return int(x[1])
    if isinstance(space, MultiBinary):
        return np.array(x[1:], dtype=np.int8)
    if isinstance(space, MultiDiscrete):
        return np.array(x[1:], dtype=np.int64)
    if isinstance(space, GymBox):
        if x[0] == 1:
            arr = np.array(x[1:], dtype=space.dtype).reshape(space.shape)
        else:
            arr = np.array([v / TICK for v in x[1:]], dtype=space.dtype).reshape(space.shape)
        if rng is not None and arr.ndim >= 2 and rng.random() < 0.5:
            # the same point in a non-C-contiguous memory layout (a transposed view, an observer
            # that rotates its window): the logical content is what counts
            arr = np.asfortranarray(arr)
        return arr
    if isinstance(space, Tuple):
        return tuple(sx_to_point(s, q, rng) for s, q in zip(space.spaces, x[1:]))
    if isinstance(space, Dict):
        items = [(k, sx_to_point(s, q, rng)) for (k, s), q in zip(space.spaces.items(), x[1:])]
        if rng is not None:
            rng.shuffle(items)
        return dict(items)
    raise TypeError(space)


# ------------------------------------------------------------------ spec-level helpers

def spec_size(spec):
    t = spec[0]
    if t == 0:
        return spec[1]
    if t == 1:
        return 2 ** spec[1]
    if t == 2:
        n = 1
        for d in spec[1:]:
            n *= d
        return n
    if t == 3:
        n = 1
        for lo, hi in spec[1:]:
            n *= hi + 1 - lo
        return n
    if t in (4, 7):
        return None
    n = 1
    for s in spec[1:]:
        k = spec_size(s)
        if k is None:
            return None
        n *= k
    return n


def spec_has_float(spec):
    """float leaves or integer Boxes of a narrow dtype: not ravel-able"""
    t = spec[0]
    if t in (4, 7):
        return True
    if t in (5, 6):
        return any(spec_has_float(s) for s in spec[1:])
    return False


def spec_depth(spec):
    if spec[0] in (5, 6):
        return 1 + max(spec_depth(s) for s in spec[1:])
    return 0


def spec_unrank(spec, k):
    """k-th point (any fixed bijection; NOT the code's: used only to enumerate points)."""
    t = spec[0]
    if t == 0:
        return [0, k]
    if t == 1:
        return [1] + [(k >> i) & 1 for i in range(spec[1])]
    if t == 2:
        out = []
        for d in spec[1:]:
            out.append(k % d)
            k //= d
        return [1] + out
    if t == 3:
        out = []
        for lo, hi in spec[1:]:
            d = hi + 1 - lo
            out.append(lo + k % d)
            k //= d
        return [1] + out
    out = []
    for s in spec[1:]:
        d = spec_size(s)
        out.append(spec_unrank(s, k % d))
        k //= d
    return [3] + out


def random_point(spec, rng):
    t = spec[0]
    if t == 0:
        return [0, rng.randrange(spec[1])]
    if t == 1:
        return [1] + [rng.randrange(2) for _ in range(spec[1])]
    if t == 2:
        return [1] + [rng.randrange(d) for d in spec[1:]]
    if t == 3:
        return [1] + [rng.choice([lo, hi, rng.randint(lo, hi)]) for lo, hi in spec[1:]]
    if t == 4:
        return [2] + [rng.choice([lo, hi, rng.randint(lo, hi)]) for lo, hi in spec[1:]]
    if t == 7:
        return [1] + [rng.choice([lo, hi, rng.randint(lo, hi)]) for lo, hi in spec[2:]]
    return [3] + [random_point(s, rng) for s in spec[1:]]


def random_leaf(rng, allow_float=False, big=False, narrow=False):
    kinds = [0, 1, 2, 3] + ([4, 4] if allow_float else []) + ([7, 7] if narrow else [])
    t = rng.choice(kinds)
    if t == 7:
        code = rng.choice(sorted(NARROW))
        out = [7, code]
        for _ in range(rng.randint(1, 3)):
            lo = rng.randint(0, 3) if code == 2 else rng.randint(-3, 3)
            out.append([lo, lo + rng.randint(0, 3)])
        return out
    m = 40 if big else 4
    if t == 0:
        return [0, rng.randint(1, m)]
    if t == 1:
        # big: up to 12 bits (points are int8 arrays: 8 bits and more overflow an int8 accumulator)
        return [1, rng.randint(1, 3) if not big else rng.choice([2, 5, 7, 8, 9, 10, 12])]
    if t == 2:
        return [2] + [rng.randint(1, m) for _ in range(rng.randint(1, 3))]
    if t == 3:
        out = [3]
        for _ in range(rng.randint(1, 4)):
            lo = rng.randint(-3, 3) if not big else rng.randint(-50, 50)
            out.append([lo, lo + rng.randint(0, 3 if not big else 30)])
        return out
    out = [4]
    for _ in range(rng.randint(1, 3)):
        lo = rng.randint(-3 * TICK, 3 * TICK)
        out.append([lo, lo + rng.randint(0, 4 * TICK)])
    return out


def random_spec(rng, depth, allow_float=False, big=False, narrow=False):
    if depth == 0 or rng.random() < 0.3:
        return random_leaf(rng, allow_float, big, narrow)
    t = rng.choice([5, 6])
    return [t] + [random_spec(rng, depth - 1, allow_float, big, narrow)
                  for _ in range(rng.randint(1, 3))]


def box_shapes(spec, rng, path=()):
    """Choose a random multi-dimensional shape for every Box leaf."""
    out = {}
    t = spec[0]
    if t in (3, 4, 7):
        n = len(spec) - (2 if t == 7 else 1)
        opts = [(n,)]
        if n % 2 == 0 and n >= 2:
            opts += [(2, n // 2), (n // 2, 2)]
        if n >= 1:
            opts += [(1, n), (n, 1)]
        if n == 1:
            opts += [(), ()]             # a scalar Box (shape ()) is a legal one-component leaf
        out[path] = rng.choice(opts)
    elif t in (5, 6):
        for i, s in enumerate(spec[1:]):
            out.update(box_shapes(s, rng, path + (i,)))
    return out
