"""Process-local spy on numpy.random used by the grid components: draws come from a private
random.Random (so a case replays exactly) and every draw is recorded for the model's oracle.

uniform() -> k / 2^20 with k recorded;  choice(seq, size, replace) -> recorded as the list of the
chosen elements (mapped through `key`)."""
import random
import numpy as np

HD = 1 << 20


class Spy:
    def __init__(self, seed, key=lambda x: x):
        self.rng = random.Random(seed)
        self.key = key
        self.unif = []
        self.choices = []
        self._saved = {}

    # -- replacements
    def uniform(self, low=0.0, high=1.0, size=None):
        assert size is None and low == 0.0 and high == 1.0
        k = self.rng.choice([0, 1, HD // 4, HD // 2, HD // 2 + 1, HD - 1, self.rng.randrange(HD)])
        self.unif.append(k)
        return k / HD

    def choice(self, a, size=None, replace=True, p=None):
        assert p is None
        seq = list(a)
        if size is None:
            x = seq[self.rng.randrange(len(seq))]
            self.choices.append([self.key(x)])
            return x
        n = int(size)
        if replace:
            idx = [self.rng.randrange(len(seq)) for _ in range(n)]
        else:
            if n > len(seq):
                raise ValueError("Cannot take a larger sample than population when 'replace=False'")
            idx = self.rng.sample(range(len(seq)), n)
        out = np.empty(n, dtype=object)
        for j, i in enumerate(idx):
            out[j] = seq[i]
        self.choices.append([self.key(seq[i]) for i in idx])
        return out

    def __enter__(self):
        for name in ("uniform", "choice"):
            self._saved[name] = getattr(np.random, name)
            setattr(np.random, name, getattr(self, name))
        return self

    def __exit__(self, *exc):
        for name, f in self._saved.items():
            setattr(np.random, name, f)
        return False
