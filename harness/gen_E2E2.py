"""Second end-to-end correspondence (supports C01, C03, C07, C08, C16): the REAL ReachTheTargetSim of
/repo/abmarl/examples/sim/reach_the_target.py (a plain GridWorldSimulation: PositionState +
HealthState, MoveActor, SelectiveAttackActor, PositionCenteredEncodingObserver, ActiveDone and the
example's own TargetDone / OnlyAgentLeftDone, BarrierAgent / TargetAgent / RunningAgent) under the
REAL AllStepManager (with and without randomize_action_input) and TurnBasedManager, played with
actions of the agents' action spaces, against the extracted composition
`run (reach_sim cfg) k (init s0) calls` of coq/Grid/ReachSim.v and coq/Ctl/Managers.v.

Compared after every manager call: the complete manager output (observation arrays, rewards in
units of 1/100, done flags, `__all__`, rejections) and the complete grid snapshot.  numpy draws of
the attack actor and of the observer are recorded by a spy and handed to the model as its oracle
streams; the state after every `sim.reset()` is recorded and handed to the model as its start-state
stream (placement itself is C13).  Agents are named by their index in sim.agents."""
from . import envshim  # noqa: F401
import os
import random
import numpy as np
from .runner import Component
from . import gridsim as G
from .gen_E2E import Spy as _Spy, cents, KINDS

HD = G.HD

# On the tree as found the second loop of ReachTheTargetSim.step tests "reached the target" also for
# a runner that is no longer active: (a) a runner that stands on the target's cell (possible right
# after reset only) and is shot dead by the target in the first loop of the same step, (b) a runner
# that finished (reached the target or died there) and submits again before the turn-based manager
# has reported it -- it is "rewarded" again and Grid.remove raises KeyError
# (findings/C02-reach-dead-runner.md).  False: the target's action spares its own cell in a step of
# kind (a) and the subset policy offers no action for inactive agents, so that the check is green on
# the tree as found.  Set to True (or VERIF_E2E2_DEAD_RUNNER=1) once the repair is in /repo; the model
# is the repaired code.
DEAD_RUNNER_ON_TARGET = os.environ.get("VERIF_E2E2_DEAD_RUNNER", "1") == "1"      # on since the repair (F16)


class Spy(_Spy):
    """as gen_E2E.Spy; the attack actor's choices are recorded as indices in sim.agents"""
    idx = None

    def choice(self, a, size=None, replace=True, p=None):
        assert p is None
        seq = list(a)
        if size is None:
            x = seq[self.rng.randrange(len(seq))]
            if self.mode == "run":
                self.obs.append(int(x))
            return x
        n = int(size)
        if replace:
            idx = [self.rng.randrange(len(seq)) for _ in range(n)]
        else:
            if n > len(seq):
                raise ValueError("Cannot take a larger sample than population when 'replace=False'")
            idx = self.rng.sample(range(len(seq)), n)
        if self.mode == "run":
            out = np.empty(n, dtype=object)
            for j, i in enumerate(idx):
                out[j] = seq[i]
            self.choices.append([self.idx[seq[i].id] for i in idx])
            return out
        return np.array([seq[i] for i in idx])


def snapshot(sim):
    ags = []
    for a in sim.agents.values():
        pos = G.pub(a, "position")
        h = G.pub(a, "health", 0)
        ht = int(round(h * HD))
        assert abs(ht - h * HD) < 1e-9, "health is not a multiple of 2^-20"
        ags.append([a.encoding, [int(pos[0]), int(pos[1])] if pos is not None else [], ht,
                    1 if a.active else 0, [], [], 1 if a.blocking else 0])
    idx = {k: i for i, k in enumerate(sim.agents)}
    cells = []
    for r in range(sim.grid.rows):
        for c in range(sim.grid.cols):
            d = sim.grid[r, c]
            cells.append([idx[k] for k in d.keys()] if d else [])
    return [ags, cells]


def build(inp):
    """-> (sim, mgr, cfg wire, idx).  The simulation class is the packaged ReachTheTargetSim; only
    its reset is wrapped to record the state the state components produced."""
    from abmarl.examples.sim.reach_the_target import (ReachTheTargetSim, RunningAgent, TargetAgent,
                                                      BarrierAgent)
    from abmarl.managers import AllStepManager, TurnBasedManager
    rows, cols, wov, wags, tpar, obs_self, kind, randomize, pols, seed = inp

    class RecSim(ReachTheTargetSim):
        spy = None
        starts = None

        def reset(self, **kwargs):
            self.spy.mode = "reset"
            try:
                super().reset(**kwargs)
            finally:
                self.spy.mode = "run"
            self.starts.append(snapshot(self))

    ar, st, acc, simul, stacked, mapping = tpar
    agents = {}
    for i, (k, pos, vr, ih, mr) in enumerate(wags):
        kw = dict(initial_position=(np.array(pos) if pos else None),
                  initial_health=(ih / HD if ih else None))
        if k == 0:
            a = BarrierAgent(id="b%d" % i, **kw)
        elif k == 1:
            a = TargetAgent(view_range=("FULL" if vr < 0 else vr), attack_range=("FULL" if ar < 0 else ar),
                            attack_strength=st / HD, attack_accuracy=acc / HD,
                            simultaneous_attacks=simul, **kw)
        else:
            a = RunningAgent(id="r%d" % i, view_range=("FULL" if vr < 0 else vr), move_range=mr, **kw)
        agents[a.id] = a
    sim = RecSim.build_sim(rows, cols, agents=agents,
                           overlapping={k: set(v) for k, v in wov} if wov else None,
                           attack_mapping={2: set(mapping)}, stacked_attacks=bool(stacked),
                           observe_self=bool(obs_self))
    assert list(sim.agents) == list(agents)
    idx = {k: i for i, k in enumerate(sim.agents)}
    mgr = (AllStepManager(sim, randomize_action_input=bool(randomize)) if kind == 0
           else TurnBasedManager(sim))
    wcfg = []
    for (k, pos, vr, ih, mr), a in zip(wags, sim.agents.values()):
        if k == 0:
            wcfg.append([0, 0])
        elif k == 1:
            wcfg.append([1, int(a.view_range), [int(a.attack_range), st, acc, simul, sorted(mapping),
                                                1 if stacked else 0]])
        else:
            wcfg.append([2, int(a.view_range)])
    cfg = [wcfg, idx["target"], 1 if obs_self else 0]
    return sim, mgr, cfg, idx


def enc_obs(d, idx):
    out = []
    for k, v in d.items():
        assert list(v.keys()) == ["position_centered_encoding"]
        out.append([idx[k], v["position_centered_encoding"].tolist()])
    return out


def drive(inp):
    from abmarl.examples.sim.reach_the_target import RunningAgent, TargetAgent
    rows, cols, wov, wags, tpar, obs_self, kind, randomize, pols, seed = inp
    rng = random.Random(seed)
    spy = Spy(seed ^ 0x5EED)
    sim, mgr, cfg, idx = build(inp)
    spy.idx = idx
    sim.spy, sim.starts = spy, []
    calls, recs, shuffles = [], [], []
    import random as pyrandom
    orig_shuffle = pyrandom.shuffle

    def shuffle_spy(lst):
        rng.shuffle(lst)
        shuffles.append(list(lst))
    pyrandom.shuffle = shuffle_spy

    def wact(k, a):
        if "move" in a:
            return [idx[k], 0, int(a["move"][0]), int(a["move"][1])]
        return [idx[k], 1, [int(x) for x in a["attack"].reshape(-1)]]

    def sample(k):
        ag = sim.agents[k]
        if isinstance(ag, TargetAgent):
            R, sa = int(ag.attack_range), int(ag.simultaneous_attacks)
            att = np.zeros((2 * R + 1, 2 * R + 1), dtype=int)
            mode = rng.random()
            if mode < 0.15:
                pass
            elif mode < 0.55:      # aim at the runners in reach
                for o in sim.agents.values():
                    if isinstance(o, RunningAgent) and o.active and rng.random() < 0.7:
                        d = o.position - ag.position
                        if abs(int(d[0])) <= R and abs(int(d[1])) <= R:
                            att[int(d[0]) + R, int(d[1]) + R] = rng.randint(1, sa)
            else:
                for r in range(2 * R + 1):
                    for c in range(2 * R + 1):
                        if rng.random() < 0.35:
                            att[r, c] = rng.randint(1, sa)
            act = {"attack": att}
            assert ag.action_space.contains(act), act
            return act
        if isinstance(ag, RunningAgent):
            mr = int(ag.move_range)
            if rng.random() < 0.4:      # head for the target
                d = sim.target.position - ag.position
                mv = (max(-mr, min(mr, int(d[0]))), max(-mr, min(mr, int(d[1]))))
            elif rng.random() < 0.15:
                mv = (0, 0)
            else:
                mv = (rng.randint(-mr, mr), rng.randint(-mr, mr))
            act = {"move": np.array(mv, dtype=int)}
            assert ag.action_space.contains(act), act
            return act
        return {"move": np.array([0, 0], dtype=int)}      # a barrier: never reaches the simulation

    last_live, ended, bad = None, True, 0
    try:
        with spy:
            for pol in pols:
                if last_live is None or pol == 5 or ended:
                    obs = mgr.reset()
                    calls.append([0])
                    recs.append([[0, enc_obs(obs, idx)], snapshot(sim)])
                    last_live, ended = list(obs.keys()), False
                    continue
                done_set = [k for k in sim.agents if k in mgr.done_agents]
                acts = [(k, sample(k)) for k in last_live]
                if pol in (1, 2) and done_set:
                    ex = rng.choice(done_set)
                    ex = (ex, sample(ex))
                    acts = acts + [ex] if pol == 1 else [ex] + acts
                elif pol == 3:
                    acts = acts[:1]
                elif pol == 4:
                    acts = []
                elif pol == 6:
                    cand = [k for k in sim.agents if k not in mgr.done_agents]
                    if not DEAD_RUNNER_ON_TARGET:
                        # the turn-based manager has not yet reported a runner that finished on
                        # its own turn: on the tree as found its action raises as well
                        cand = [k for k in cand if sim.agents[k].active]
                    acts = [(k, sample(k)) for k in cand if rng.random() < 0.6]
                ad = dict(acts)
                if not DEAD_RUNNER_ON_TARGET and "target" in ad:
                    tp = sim.target.position
                    if any(isinstance(sim.agents[k], RunningAgent) and sim.agents[k].active
                           and np.array_equal(sim.agents[k].position, tp) for k in ad):
                        R = int(sim.target.attack_range)
                        ad["target"]["attack"][R, R] = 0
                sub = [wact(k, a) for k, a in ad.items()]
                nsh = len(shuffles)
                stop = False
                try:
                    obs, rew, done, info = mgr.step(ad)
                    assert all(v == {} for v in info.values())
                    assert list(obs) == list(rew) == [k for k in done if k != "__all__"] == list(info)
                    r = [1, enc_obs(obs, idx), [[idx[k], cents(v)] for k, v in rew.items()],
                         [[idx[k], 1 if v else 0] for k, v in done.items() if k != "__all__"],
                         1 if done["__all__"] else 0]
                    last_live = [k for k, v in done.items() if k != "__all__" and not v]
                    ended = bool(done["__all__"])
                except AssertionError as e:
                    if "already done" not in str(e):
                        raise
                    r = [2]
                except StopIteration:
                    r = [3]
                except KeyError:
                    # an exception escaped from sim.step: the flag of the behaviour (clause 308)
                    r, bad, stop = [3], 1, True
                sh = [wact(k, a) for k, a in shuffles[nsh]] if len(shuffles) > nsh else sub
                calls.append([1, sub, sh])
                recs.append([r, snapshot(sim)])
                if stop:
                    break
    finally:
        pyrandom.shuffle = orig_shuffle
    minp = [rows, cols, wov, cfg, sim.starts, spy.unif, spy.choices, spy.obs, kind, calls]
    return minp, [bad, recs]


def impl(inp):
    minp, beh = drive(inp)
    return [minp, beh]


def split(inp, out):
    if out[0] == -1:
        rows, cols, wov = inp[0], inp[1], inp[2]
        return [rows, cols, wov, [[], 0, 0], [], [], [], [], inp[6], []], out
    return out[0], out[1]


def layout(rng, rows, cols, nb, nr, ov_sym, start_on_target):
    """kinds in listing order (target anywhere), fixed or random initial positions that the
    placement state can realise"""
    kinds = [0] * nb + [2] * nr
    rng.shuffle(kinds) if rng.random() < 0.5 else None
    kinds.insert(rng.choice([0, len(kinds), rng.randint(0, len(kinds))]), 1)
    enc = {0: 1, 1: 2, 2: 3}
    used = {}
    tpos = (rng.randrange(rows), rng.randrange(cols))
    out = []
    for k in kinds:
        pos = []
        if k == 1:
            if rng.random() < 0.8:
                pos = list(tpos)
        elif rng.random() < 0.65:
            if k == 2 and start_on_target and rng.random() < 0.5:
                p = tpos
            elif k == 2 and rng.random() < 0.4:      # next to the target
                p = (min(rows - 1, max(0, tpos[0] + rng.randint(-1, 1))),
                     min(cols - 1, max(0, tpos[1] + rng.randint(-1, 1))))
            else:
                p = (rng.randrange(rows), rng.randrange(cols))
            if p != tpos or (k == 2 and 2 in ov_sym[3]):
                pos = list(p)
        if pos:
            p = tuple(pos)
            if all(e2 in ov_sym[enc[k]] for e2 in used.get(p, [])):
                used.setdefault(p, []).append(enc[k])
            else:
                pos = []
        out.append((k, pos))
    return out


def gen(tier, rng):
    quick = tier != "thorough"
    n_cases = 1000 if quick else 20000
    for _ in range(n_cases):
        rows, cols = rng.choice([(1, 4), (1, 5), (2, 2), (2, 3), (3, 3), (3, 3), (3, 4), (4, 4), (5, 3), (5, 5)])
        cap = rows * cols
        nr = rng.randint(1, min(4, max(1, cap // 2)))
        nb = rng.randint(0, max(0, min(3, cap // 2 - nr)))
        ov = rng.choice([[[2, [3]], [3, [1, 2, 3]]], [[2, [3]], [3, [1, 2, 3]]], [[2, [3]], [3, [2, 3]]],
                         [[3, [2]]], [[2, [3]], [3, [1]]], [[3, [3]]], []])
        sym = {1: set(), 2: set(), 3: set()}
        for e, vs in ov:
            for v in vs:
                sym[e].add(v)
                sym[v].add(e)
        lay = layout(rng, rows, cols, nb, nr, sym, rng.random() < 0.3)
        wags = []
        for k, pos in lay:
            wags.append([k, pos, rng.choice([1, 1, 2, 3, -1]),                        # view range
                         rng.choice([0, HD, HD, HD // 2, 5 * HD // 8]),               # initial health (0: drawn)
                         rng.choice([1, 1, 2])])                                      # move range
        tpar = [rng.choice([0, 1, 1, 1, 2, -1]),                                      # attack range
                rng.choice([HD, HD, HD // 2, HD // 4, 3 * HD // 8]),                  # strength
                rng.choice([HD, HD, HD, HD // 2, HD - 1, 0]),                         # accuracy
                rng.choice([1, 1, 2, 3]),                                             # simultaneous attacks
                1 if rng.random() < 0.3 else 0,                                       # stacked
                rng.choice([[3], [3], [3], [2, 3], [2], []])]                         # attack_mapping[2]
        kind = rng.choice([0, 0, 1])
        n_pol = rng.randint(4, 22 if kind == 0 else 40)
        pols = [rng.choice([0, 0, 0, 0, 0, 0, 0, 0, 1, 2, 3, 5, 6]) for _ in range(n_pol)]
        yield [rows, cols, ov, wags, tpar, 1 if rng.random() < 0.7 else 0, kind,
               1 if (kind == 0 and rng.random() < 0.4) else 0, pols, rng.getrandbits(30)]


_LAST = [None, None]


def _recs(out):
    from . import sx
    if _LAST[0] is out:
        return _LAST[1]
    o = sx.loads(out) if isinstance(out, str) else out
    r = o[1] if (isinstance(o, list) and len(o) == 2 and isinstance(o[1], list)) else []
    _LAST[0], _LAST[1] = out, r
    return r


def _tags(inp, recs):
    runner = [i for i, w in enumerate(inp[3]) if w[0] == 2]
    tgt = [i for i, w in enumerate(inp[3]) if w[0] == 1]
    tags = set()
    for r in recs:
        ags = r[1][0]
        if r[0][0] == 0 and tgt and tgt[0] < len(ags):
            if any(i < len(ags) and ags[i][3] == 1 and ags[i][1] == ags[tgt[0]][1] for i in runner):
                tags.add("onstart")      # reset put an active runner on the target's cell
        for i in runner:
            if i < len(ags):
                if ags[i][3] == 0 and ags[i][2] > 0:
                    tags.add("reach")
                if ags[i][2] == 0:
                    tags.add("death")
        if r[0][0] == 2:
            tags.add("reject")
        if r[0][0] == 1 and any(v in (-11, 89, -111, -21) for _, v in r[0][2]):
            tags.add("refused")
        if r[0][0] in (0, 1) and any(-2 in row for _, arr in r[0][1] for row in arr):
            tags.add("masked")
    return tags


def nontrivial(inp, out):
    t = _tags(inp, _recs(out))
    return bool(t & {"reach", "death", "reject"})


def classify(inp, out):
    t = _tags(inp, _recs(out))
    if inp[7]:
        t.add("shuffle")
    return KINDS[inp[6]] + "/" + "+".join(sorted(t) or ["plain"])


def shrink(inp):
    pols = inp[8]
    for i in range(len(pols) - 1, 0, -1):
        yield inp[:8] + [pols[:i]] + inp[9:]


def repro(inp):
    from . import sx
    return ("PYTHONPATH=/verif:/repo PYTHONHASHSEED=0 /venv/bin/python -c \"from harness import gen_E2E2, sx; "
            "print(gen_E2E2.impl(sx.loads('%s')))\"  # drives the real manager over the real ReachTheTargetSim; "
            "input = rows cols overlapping agents(kind 0 barrier/1 target/2 runner, position, view, health, "
            "move range) target(attack range, strength, accuracy, simultaneous, stacked, mapping) observe_self "
            "manager(0 all,1 turn) randomize policies seed" % sx.dumps(inp))


COMPONENT_E2E2 = Component(2301, "e2e_reach_the_target", impl, gen, chk=2302, nontrivial=nontrivial,
                           classify=classify, shrink=shrink, repro=repro, timeout=30)
COMPONENT_E2E2.split = split
