"""C03: interleaved moves, attacks and deaths on the real grid components vs Grid/Play.v, with the
consistency invariant ginvb evaluated on every recorded snapshot; plus real resets and seeded play
of a complete simulation built from the built-in state components (invariant only)."""
from . import envshim  # noqa: F401
import numpy as np
from .runner import Component, exc_code, run_model
from . import gridsim as G
from . import sx
from .rngspy import Spy, HD
from .gen_C12 import legalise
from . import gen_C11

PROP = "C03"
RULE = ("a case is a grid layout (as C11: asymmetric, pile-ups, random one-sided overlap tables, "
        "health/ammo/orientation mixes) and a sequence of up to 40 interleaved operations by any "
        "agents: free/cross/drift moves and attacks of one of the four attack actors, including "
        "operations by agents that have died; after every operation the complete state (every "
        "agent's position, health, active, ammo, orientation and every cell dictionary) is compared "
        "with the model and the invariant ginvb is evaluated on the implementation's snapshot; "
        "non-trivial = at least one death or one refused move; distinct = distinct inputs")
ASSUMPTIONS = [
    "health and strength are multiples of 2^-20",
    "the second stage (real PositionState/HealthState/AmmoState/OrientationState resets and seeded "
    "random play of a complete simulation) evaluates the invariant on the implementation only; the "
    "placement logic itself is modelled and proved in C13",
]


# float regime (monitor): strengths and initial healths that are NOT multiples of 2^-20, chosen so
# that repeated subtraction leaves tiny positive residues (0.9 - 3 * 0.3 = 1.1e-16) or overshoots
F_STRENGTH = [0.3, 0.1, 0.2, 0.7, 1 / 3, 0.15, 0.45, 0.05]
F_HEALTH = [0.9, 0.4, 1.0, 0.6, 0.3, 0.7, 0.8, 0.2]


def impl(inp, floats=False):
    from abmarl.sim.gridworld.actor import MoveActor, CrossMoveActor, DriftMoveActor
    rows, cols, wov, wags, ops, meta = inp
    kind, mapping, stacked, params, seed = meta[:5]
    fspec = meta[5] if len(meta) > 5 else None      # float regime: per agent [h_num, h_den, s_num, s_den]

    def extra(i):
        rg, st, acc, sim = params[i]
        if floats:
            st = (fspec[i][2] / fspec[i][3] if fspec else F_STRENGTH[(st + i) % len(F_STRENGTH)]) * HD
        return dict(attack_range=("FULL" if rg < 0 else rg), attack_strength=st / HD,
                    attack_accuracy=acc / HD, simultaneous_attacks=sim, move_range=max(rows, cols))
    agents = G.build_agents(wags, extra=extra)
    grid = G.build_grid(rows, cols, wov)
    movers = {0: MoveActor(grid=grid, agents=agents), 1: CrossMoveActor(grid=grid, agents=agents),
              2: DriftMoveActor(grid=grid, agents=agents)}
    attacker = gen_C11.make_actor(kind, grid, agents, mapping, stacked)
    G.place_initial(grid, agents, wags)
    if floats:
        for i, w in enumerate(wags):
            if w[3] and w[2] > 0:       # active with positive health: a non-dyadic health instead
                agents[G.aid(i)].health = (fspec[i][0] / fspec[i][1] if fspec
                                           else F_HEALTH[(w[2] + i + seed) % len(F_HEALTH)])
    full = max(rows, cols) - 1
    mp = {k: v for k, v in mapping}
    out_ops, recs = [], []
    snap0 = G.snapshot(grid, agents, quantise=floats)
    for n, op in enumerate(ops):
        if op[0] == 0:
            _, mk, i = op[:3]
            a = agents[G.aid(i)]
            try:
                if mk == 0:
                    res = movers[0].process_action(a, {"move": np.array([op[3], op[4]])})
                else:
                    res = movers[mk].process_action(a, {"move": op[3]})
                r = 1 if res else 0
            except TimeoutError:
                raise
            except Exception as e:
                r = [-1, exc_code(e)]
            out_ops.append([0, [mk, i] + list(op[3:])])
        else:
            _, i, act = op
            a = agents[G.aid(i)]
            rg, st, acc, sim = params[i]
            R = full if rg < 0 else rg
            if kind == 0:
                action, wact = act, [0, act]
            elif kind == 1:
                action, wact = {e: k for e, k in act}, [1, act]
            elif kind == 2:
                action, wact = np.array(act, dtype=int).reshape(2 * R + 1, 2 * R + 1), [2, act]
            else:
                action, wact = np.array(act, dtype=int), [3, 0, act]
            with Spy(seed * 7919 + n, key=lambda ag: G.aidx(ag.id)) as spy:
                try:
                    status, hits = attacker.process_action(a, {"attack": action})
                    r = [1 if status else 0, [G.aidx(h.id) for h in hits]]
                except TimeoutError:
                    raise
                except Exception as e:
                    r = [-1, exc_code(e)]
            cfg = [R, st, acc, sim, sorted(mp.get(wags[i][0], [])), 1 if stacked else 0]
            out_ops.append([1, [i, cfg, wact, [spy.unif, spy.choices]]])
        recs.append([r, G.snapshot(grid, agents, quantise=floats)])
    return [out_ops, [snap0, recs]]


def impl_float(inp):
    return impl(inp, floats=True)


def split(inp, out):
    rows, cols, wov, wags, ops, meta = inp
    if out[0] == -1:
        return [rows, cols, wov, wags, []], out
    return [rows, cols, wov, wags, out[0]], out[1]


def compare(impl_s, model_s):
    try:
        a, b = sx.loads(impl_s), sx.loads(model_s)
        if a[0] != b[0] or len(a[1]) != len(b[1]):
            return False
        for (ra, sa), (rb, sb) in zip(a[1], b[1]):
            if sa != sb:
                return False
            if isinstance(rb, list) and len(rb) == 4 and rb[0] in (0, 1) and isinstance(rb[1], list):
                if rb[2:] != [0, 0] or ra != rb[:2]:
                    return False
            elif ra != rb:
                return False
        return True
    except Exception:
        return False


def pileup_layout(rng):
    """Two or three agents of a self-overlapping encoding share a cell, an agent of an encoding that
    may NOT join them stands next to it: one of the sharers leaves (or dies), then the outsider tries
    to step in while another sharer is still there."""
    rows, cols = rng.randint(2, 4), rng.randint(3, 4)
    P = (rng.randrange(rows), rng.randint(1, cols - 2))
    ov = [[1, [1]], [2, [2]]] if rng.random() < 0.7 else [[1, [1]], [2, [2]], [3, [1, 2, 3]]]
    ags = [gen_C11.wagent(1, P, HD, rng.choice([None, 2])) for _ in range(rng.choice([2, 2, 3]))]
    ags.append(gen_C11.wagent(2, (P[0], P[1] - 1), HD, rng.choice([None, 3])))
    if rng.random() < 0.5:
        ags.append(gen_C11.wagent(rng.choice([2, 3]) if len(ov) == 3 else 2, (P[0], P[1] + 1)))
    rng.shuffle(ags)
    return rows, cols, ov, [1, 2, 3][:len(ov)], ags, P


def crossed_layout(rng):
    """Four or five encodings and a one-sided table with several keys whose partners appear only as
    values (1 -> 3, 2 -> 4, ...): the symmetric closure must give every such partner its OWN reverse
    entry (3 -> 1 only, 4 -> 2 only); on a crowded small grid random moves then try the crossed pairs
    (3 onto 2, 4 onto 1), which the configured table forbids."""
    rows, cols = rng.randint(2, 3), rng.randint(2, 3)
    nenc = rng.choice([4, 4, 5])
    ov = [[1, [3]], [2, [4]]]
    if nenc == 5 and rng.random() < 0.5:
        ov = [[1, [3, 5]], [2, [4]]]
    if rng.random() < 0.3:                       # a self/cross entry, merged into the key's one row
        k, v = rng.choice([1, 2]), rng.choice([1, 2])
        for row in ov:
            if row[0] == k and v not in row[1]:
                row[1] = sorted(row[1] + [v])
    rng.shuffle(ov)
    cells = [(r, c) for r in range(rows) for c in range(cols)]
    rng.shuffle(cells)
    encs = list(range(1, nenc + 1))
    want = [1, 2, 3, 4] + [rng.choice(encs) for _ in range(rng.randint(0, 2))]
    ags = [gen_C11.wagent(e, cells[i], HD, rng.choice([None, 2])) for i, e in enumerate(want[:len(cells)])]
    rng.shuffle(ags)
    return rows, cols, ov, encs, ags


def gen(tier, rng):
    quick = tier != "thorough"
    n_layouts = 700 if quick else 15000
    for _ in range(n_layouts):
        directed = None
        u = rng.random()
        if u < 0.12:
            rows, cols, ov, encs, ags, directed = pileup_layout(rng)
        elif u < 0.22:
            rows, cols, ov, encs, ags = crossed_layout(rng)
        else:
            rows, cols, ov, encs, ags = gen_C11.random_layout(rng, quick)
        for a in ags:
            if rng.random() < 0.6:
                a[5] = [rng.randint(1, 4)]
        ok = legalise(ov, ags)
        for a, o in zip(ags, ok):
            if not o:
                a[2] = 0
        live = [i for i, o in enumerate(ok) if o]
        if len(live) < 2:
            continue
        kind = rng.choice([0, 1, 2, 3])
        encs = sorted({a[0] for a in ags})
        mapping = [[e, sorted(x for x in encs if rng.random() < 0.7)] for e in encs]
        stacked = rng.random() < 0.4
        params = []
        for i in range(len(ags)):
            rg = rng.choice([0, 1, 1, 2, -1]) if (kind < 2 or max(rows, cols) <= 3) else rng.choice([0, 1, 1, 2])
            params.append([rg, rng.choice([HD, HD, HD // 2, HD // 4, 1, 3 * HD // 8]),
                           rng.choice([HD, HD, HD, HD // 2, HD - 1]), rng.choice([1, 1, 2, 3])])
        ops = []
        if directed is not None:
            sharers = [i for i in live if ags[i][0] == 1 and tuple(ags[i][1]) == directed]
            outsiders = [i for i in live if ags[i][0] != 1]
            if sharers and outsiders:
                lv = rng.choice(sharers)
                ops.append([0, 0, lv, rng.choice([-1, 1]) if rows > 1 else 0, 0])      # one sharer leaves
                for o in outsiders:                                                  # outsiders step in
                    ops.append([0, 0, o, directed[0] - ags[o][1][0], directed[1] - ags[o][1][1]])
        for _ in range(rng.randint(3, 40)):
            i = rng.choice(live)
            if rng.random() < 0.5:
                mk = rng.choice([0, 1, 2])
                if mk == 2 and not ags[i][5]:
                    mk = 1
                if mk == 0:
                    rg = rng.choice([0, 1, 1, 2])
                    ops.append([0, 0, i, rng.randint(-rg, rg), rng.randint(-rg, rg)])
                else:
                    ops.append([0, mk, i, rng.randint(0, 4)])
            else:
                rg, _, _, sim = params[i]
                R = (max(rows, cols) - 1) if rg < 0 else rg
                e2 = sorted(dict(mapping)[ags[i][0]])
                ops.append([1, i, rng.choice(gen_C11.action_space_points(kind, R, sim, e2, rng, 4))])
        yield [rows, cols, ov, ags, ops, [kind, mapping, 1 if stacked else 0, params, rng.getrandbits(30)]]


def nontrivial(inp, out):
    return " 0 0 (" in out or "(0 ((" in out


def classify(inp, out):
    death = "death" if " 0 0 (" in out else "nodeath"
    return f"{gen_C11.KINDS[inp[5][0]]}/{death}"


def shrink(inp):
    rows, cols, ov, ags, ops, meta = inp
    for i in range(len(ops) - 1, 0, -1):
        yield [rows, cols, ov, ags, ops[:i], meta]


def duel(rng):
    """One attacker wearing one victim down with a strength that does not divide the victim's health
    in binary64 (0.9 - 3 * 0.3 = 1.1e-16 > 0; 0.3 - 3 * 0.1 < 0), bystanders moving about."""
    rows, cols = rng.choice([(1, 3), (2, 2), (2, 3), (3, 3), (3, 4)])
    cells = [(r, c) for r in range(rows) for c in range(cols)]
    a = rng.choice(cells)
    near = [p for p in cells if p != a and abs(p[0] - a[0]) <= 1 and abs(p[1] - a[1]) <= 1]
    v = rng.choice(near)
    ags = [gen_C11.wagent(1, a), gen_C11.wagent(2, v)]
    for p in rng.sample([c for c in cells if c not in (a, v)], rng.randint(0, min(2, len(cells) - 2))):
        ags.append(gen_C11.wagent(rng.choice([2, 3]), p))
    if rng.random() < 0.5:
        ags[0], ags[1] = ags[1], ags[0]
    att = 0 if ags[0][0] == 1 else 1
    den = rng.choice([10, 10, 10, 20, 3, 7])
    hn = rng.randint(1, den)
    sn = rng.randint(1, max(1, den - 1))
    fspec = [[hn if i != att else den, den, sn, den] for i in range(len(ags))]
    kind = rng.choice([0, 0, 1, 2, 3])
    encs = sorted({x[0] for x in ags})
    mapping = [[e, ([x for x in (2, 3) if x in encs] if e == 1 else [])] for e in encs]
    params = [[1, HD, HD, 1] for _ in ags]
    hits = -(-hn // sn) + 1
    ops = []
    e2 = [x for x in (2, 3) if x in encs]
    for _ in range(hits + rng.randint(0, 2)):
        if kind == 0:
            act = 1
        elif kind == 1:
            act = [[e, 1] for e in e2]
        elif kind == 2:
            act = [1] * 9
        else:
            act = [(v[0] - a[0] + 1) * 3 + (v[1] - a[1] + 1) + 1]
        ops.append([1, att, act])
        if len(ags) > 2 and rng.random() < 0.4:
            ops.append([0, 0, rng.randrange(2, len(ags)), rng.randint(-1, 1), rng.randint(-1, 1)])
    return [rows, cols, [], ags, ops, [kind, mapping, 0, params, rng.getrandbits(30), fspec]]


def gen_float(tier, rng):
    """float-regime monitor: duels with non-dyadic health/strength, and random attack-heavy histories"""
    quick = tier != "thorough"
    for _ in range(600 if quick else 12000):
        yield duel(rng)
    for inp in gen(tier, rng):
        if rng.random() < 0.4:
            yield inp


COMPONENTS = [
    Component(301, "interleaved_play", impl, gen, chk=302, nontrivial=nontrivial, classify=classify,
              shrink=shrink, compare=compare),
    # invariant monitor outside the model's arithmetic: the model's answer (exact dyadic arithmetic on
    # other numbers) is not compared; only the extracted invariant checker ginvb decides
    Component(301, "float_regime_invariant", impl_float, gen_float, chk=302, nontrivial=nontrivial,
              classify=classify, shrink=shrink, compare=lambda a, b: True),
]
COMPONENTS[0].split = split
COMPONENTS[1].split = split


from .gen_E2E import COMPONENT_E2E  # noqa: E402  end-to-end instance (design/E2E.md)
COMPONENTS.append(COMPONENT_E2E)


from .gen_E2E2 import COMPONENT_E2E2  # noqa: E402  second end-to-end instance (design/E2E.md)
COMPONENTS.append(COMPONENT_E2E2)
from .gen_E2E3 import COMPONENT_E2E3  # noqa: E402  third end-to-end instance (design/E2E.md)
COMPONENTS.append(COMPONENT_E2E3)
from .gen_E2E5 import COMPONENT_E2E5  # noqa: E402  fifth end-to-end instance (design/E2E.md)
COMPONENTS.append(COMPONENT_E2E5)
