"""C20: the real CommunicationHandshakeWrapper over the scripted simulation vs Ctl/Comms.v.

input  = [script, drive]
  script = [kind, n, learning bits, rows[done bits, all, nominated, accruals]]   (stubsim)
  drive  = [0, calls]                       a direct call sequence on the wrapper
         | [m, nsteps, seed, episodes]      m = 1 AllStep, 2 TurnBased, 3 DynamicOrder manager
  calls  : [0] reset | [1, [[a, action, send, receive], ...]] step | [2, a] get_obs
           | [3, a] get_reward | [4, a] get_done | [5, a] get_info | [6] get_all_done
           send / receive = [[other agent, bit], ...] in the dict's own order
behaviour = [[response, inner log segment, message_buffer, received_message], ...]
  response [0, inspace] ok (steps: every submitted action is in its augmented action space)
           | [1, o, message_buffer[a], member] | [3, r] | [4, b] | [6, i] | [7, b] | [9, code]
  inner log: [0] reset | [1, acts] step | [2, a, fusion matrix] get_obs | [3, a] get_reward
  the two tables are the wrapper's attributes after the call: [[r, [[s, bit], ...]], ...]
The model gets (script calls) with the concrete call list (Component.split).
"""
from . import envshim  # noqa: F401
import itertools
import random
from .runner import Component
from . import wrapstub
from .stubsim import aid, aidx

PROP = "C20"
RULE = ("a case is (script, call sequence); the call sequence is direct (reset, steps with any "
        "subset of agents acting and any send/receive bits, getters in any order, several episodes, "
        "a few ill-formed dicts) or recorded under the real AllStep/TurnBased/DynamicOrder managers; "
        "n = 2 with both agents acting: all 16^3 send/receive bit patterns over 3 steps; "
        "non-trivial = some message is pending or fused; distinct = distinct model inputs")
ASSUMPTIONS = [
    "the wrapper is used after its first reset (before it the two tables do not exist)",
    "send/receive entries are bits (the augmented action space is Dict of Discrete(2))",
    "an agent that does not act in a step keeps its latest receive choice (DESIGN C20 reading)",
    "an exception inside step (ill-formed dict) leaves the checker without claims until the next reset",
]


def bits(d):
    return [[aidx(k), 1 if v else 0] for k, v in d.items()]


def table(t):
    return [[aidx(r), bits(row)] for r, row in t.items()]


class Codec:
    def enc_id(self, w, agent_id):
        return aidx(agent_id)

    def enc_actions(self, w, action_dict):
        return [[aidx(k), int(v["action"]), bits(v["send"]), bits(v["receive"])]
                for k, v in action_dict.items()]

    def enc_resp(self, w, kind, agent_id, val, arg=None):
        if kind == 0:
            return [0, 1]
        if kind == 1:
            ok = all(hasattr(w.agents[k], "action_space") and w.agents[k].action_space.contains(v)
                     for k, v in arg.items())
            return [0, 1 if ok else 0]
        if kind == 2:
            # the augmented spaces exist for agents (observing AND acting) only; an observing-only
            # entity keeps its own space and is nobody's communication partner
            ag = w.agents.get(agent_id)
            sp = getattr(ag, "observation_space", None) if hasattr(ag, "action_space") else None
            member = 1 if (sp is None or sp.contains(val)) else 0
            return [1, int(val["obs"]), bits(val["message_buffer"]), member]
        if kind == 3:
            return [3, int(val)]
        if kind == 4:
            return [4, 1 if val else 0]
        if kind == 5:
            return [6, int(val)]
        return [7, 1 if val else 0]

    def snapshot(self, w):
        return [table(getattr(w, "message_buffer", {})), table(getattr(w, "received_message", {}))]

    def lift_next(self, w, nxt):
        return list(nxt)


def build(script, dyn=False):
    from abmarl.sim.wrappers import CommunicationHandshakeWrapper
    inner = (wrapstub.DynWStub if dyn else wrapstub.WStub)(script)
    return inner, CommunicationHandshakeWrapper(inner)


def play_direct(rec, calls):
    for c in calls:
        try:
            if c[0] == 0:
                rec.reset()
            elif c[0] == 1:
                rec.step({aid(a): {"action": v, "send": {aid(k): b for k, b in sd},
                                   "receive": {aid(k): b for k, b in rc}}
                          for a, v, sd, rc in c[1]})
            elif c[0] == 6:
                rec.get_all_done()
            else:
                getattr(rec, {2: "get_obs", 3: "get_reward", 4: "get_done", 5: "get_info"}[c[0]])(aid(c[1]))
        except TimeoutError:
            raise
        except Exception:
            pass


def play_manager(rec, m, nsteps, seed, episodes, n):
    from abmarl.managers import AllStepManager, TurnBasedManager, DynamicOrderManager
    rng = random.Random(seed)
    mgr = {1: AllStepManager, 2: TurnBasedManager, 3: DynamicOrderManager}[m](rec)
    p = rng.choice([0.3, 0.5, 0.8])

    def act_for(k):
        oth = [aid(i) for i in range(n) if aid(i) != k]
        return {"action": rng.randrange(10), "send": {o: int(rng.random() < p) for o in oth},
                "receive": {o: int(rng.random() < p) for o in oth}}
    for _ in range(episodes):
        try:
            obs = mgr.reset()
        except TimeoutError:
            raise
        except Exception:
            return
        live = list(obs.keys())
        for _ in range(nsteps):
            if not live:
                break
            try:
                obs, rew, done, info = mgr.step({k: act_for(k) for k in live})
            except TimeoutError:
                raise
            except Exception:
                break
            if done["__all__"]:
                break
            live = [k for k, v in done.items() if k != "__all__" and not v]


def impl(inp):
    script, drive = inp
    inner, w = build(script, dyn=(drive[0] == 3))
    cls = wrapstub.DynRecorder if drive[0] == 3 else wrapstub.Recorder
    rec = cls(w, inner, Codec())
    if drive[0] != 3 and (len(drive[1]) if drive[0] == 0 else drive[2]) % 2 == 0:
        # half of the cases: a second wrapper instance is used in between (everybody sends to and
        # receives from everybody); instances must not influence each other
        _, w2 = build(script)

        def chatty(wr, k):
            oth = [o for o in wr.agents if o != k and hasattr(wr.agents[o], "action_space")
                   and hasattr(wr.agents[o], "observation_space")]
            return {"action": 1, "send": {o: 1 for o in oth}, "receive": {o: 1 for o in oth}}
        rec.decoy = wrapstub.Decoy(w2, chatty)
    if drive[0] == 0:
        play_direct(rec, drive[1])
    else:
        play_manager(rec, drive[0], drive[1], drive[2], drive[3], script[1])
    return [rec.calls, rec.resps]


def split(inp, out):
    if out[0] == -1:
        return [inp[0], []], out
    return [inp[0], out[0]], out[1]


# ------------------------------------------------------------------------------ generation

def flat_script(n, learn=None, T=4):
    rows = [[[0] * n, 0, [0], [t + i for i in range(n)]] for t in range(T + 1)]
    return [0, n, learn or [1] * n, rows]


def random_script(rng, n, learn=None):
    T = rng.randint(1, 6)
    never = T + 5
    dts = [rng.choice([rng.randint(1, T), never, never]) for _ in range(n)]
    ft = rng.choice([never, never, rng.randint(1, T)])
    rows = []
    for t in range(T + 1):
        done = [1 if t >= dts[i] else 0 for i in range(n)]
        nx = rng.sample(range(n), rng.randint(1, n))
        rows.append([done, 1 if t >= ft else 0, nx, [rng.randint(-3, 5) for _ in range(n)]])
    learn = learn or [1 if rng.random() < 0.85 else 0 for _ in range(n)]
    if not any(learn):
        learn[rng.randrange(n)] = 1
    return [0, n, learn, rows]


def wact(rng, n, a, p, order=None):
    oth = [i for i in range(n) if i != a]
    if order == "shuffle":
        rng.shuffle(oth)
    sd = [[o, int(rng.random() < p)] for o in oth]
    oth2 = list(oth)
    if order == "shuffle":
        rng.shuffle(oth2)
    rc = [[o, int(rng.random() < p)] for o in oth2]
    return [a, rng.randrange(10), sd, rc]


def random_calls(rng, n, learn, L, p, bad_rate=0.0):
    calls = [[0]]
    actors = [i for i in range(n) if learn[i]] or [0]
    for _ in range(L):
        r = rng.random()
        if r < 0.06:
            calls.append([0])
        elif r < 0.5:
            mode = rng.random()
            if mode < 0.4:
                who = list(actors)
            elif mode < 0.5:
                who = []
            else:
                who = [a for a in actors if rng.random() < 0.6]
            if rng.random() < 0.3:
                rng.shuffle(who)
            acts = [wact(rng, n, a, p, rng.choice([None, "shuffle"])) for a in who]
            if acts and rng.random() < bad_rate:
                k = rng.randrange(len(acts))
                kind = rng.randrange(4)
                if kind == 0 and acts[k][3]:
                    acts[k][3] = acts[k][3][:-1]                 # 'receive' lacks an agent
                elif kind == 1:
                    acts[k][2] = acts[k][2] + [[n + 1, 1]]        # send to an unknown agent
                elif kind == 2:
                    acts[k][2] = acts[k][2] + [[acts[k][0], 1]]   # send to itself
                else:
                    acts[k][0] = n + 2                           # unknown agent acts
            if rng.random() < 0.05:
                nl = [i for i in range(n) if not learn[i]]
                if nl:
                    acts.append(wact(rng, n, rng.choice(nl), p))  # a non-learning agent acts
            calls.append([1, acts])
        elif r < 0.85:
            c = [2, rng.randrange(n)]
            calls.append(c)
            if rng.random() < 0.3:
                calls.append(c)
        elif r < 0.92:
            calls.append([3, rng.randrange(n)])
        elif r < 0.95:
            calls.append([4, rng.randrange(n)])
        elif r < 0.98:
            calls.append([5, rng.randrange(n)])
        else:
            calls.append([6])
    return calls


def gen(tier, rng):
    quick = tier != "thorough"
    # 1. n = 2, both act, every send/receive bit pattern over 3 steps (16^3 cases)
    sc2 = flat_script(2)
    pats = list(itertools.product([0, 1], repeat=4))
    for p1 in pats:
        for p2 in pats:
            for p3 in pats:
                calls = [[0]]
                for (s0, r0, s1, r1) in (p1, p2, p3):
                    calls.append([1, [[0, 1, [[1, s0]], [[1, r0]]], [1, 2, [[0, s1]], [[0, r1]]]]])
                    calls += [[2, 0], [2, 1]]
                yield [sc2, [0, calls]]
    # 2. n = 2, 3 steps, every acting subset x a sample of bit patterns; second episode
    subsets = [[], [0], [1], [0, 1], [1, 0]]
    for _ in range(600 if quick else 6000):
        calls = [[0]]
        for ep in range(2):
            for _ in range(3):
                who = rng.choice(subsets)
                calls.append([1, [[a, rng.randrange(10), [[1 - a, rng.randint(0, 1)]],
                                   [[1 - a, rng.randint(0, 1)]]] for a in who]])
                calls += [[2, 0], [2, 1]]
            if ep == 0:
                calls.append([0])
                calls += [[2, 0], [2, 1]]
        yield [sc2, [0, calls]]
    # 3. random: n <= 4 (quick) / 6, direct and under the three managers
    for _ in range(2500 if quick else 30000):
        n = rng.randint(1, 4 if quick else 6)
        sc = random_script(rng, n)
        p = rng.choice([0.2, 0.5, 0.8, 1.0])
        if rng.random() < 0.6:
            yield [sc, [0, random_calls(rng, n, sc[2], rng.randint(4, 40), p,
                                        bad_rate=rng.choice([0, 0, 0.1]))]]
        else:
            yield [sc, [rng.choice([1, 2, 3]), rng.randint(2, 10), rng.getrandbits(30), rng.randint(1, 3)]]


def nontrivial(inp, out):
    o = out if isinstance(out, str) else str(out)
    return " 1)" in o


def classify(inp, out):
    d = inp[1][0]
    tag = {0: "direct", 1: "allstep", 2: "turn", 3: "dyn"}[d]
    o = out if isinstance(out, str) else str(out)
    extra = []
    if "(9 " in o:
        extra.append("error")
    if inp[0][1] == 2 and d == 0 and len(inp[0][3]) == 5:
        extra.append("n2")
    return tag + "/" + "+".join(extra or ["plain"])


def shrink(inp):
    script, drive = inp
    if drive[0] == 0:
        calls = drive[1]
        for i in range(len(calls) - 1, 0, -1):
            yield [script, [0, calls[:i] + calls[i + 1:]]]
    else:
        if drive[1] > 1:
            yield [script, [drive[0], drive[1] - 1, drive[2], drive[3]]]
        if drive[3] > 1:
            yield [script, [drive[0], drive[1], drive[2], drive[3] - 1]]


def repro(inp):
    from . import sx
    return ("PYTHONHASHSEED=0 PYTHONPATH=/verif:/repo /venv/bin/python -c \"from harness import gen_C20, sx; "
            "print(gen_C20.impl(sx.loads('%s')))\"  # real CommunicationHandshakeWrapper over the "
            "scripted simulation; see the module docstring for the input layout" % sx.dumps(inp))


COMPONENTS = [
    Component(2001, "comms", impl, gen, chk=2002, nontrivial=nontrivial, classify=classify,
              shrink=shrink, repro=repro),
]
COMPONENTS[0].split = split
