"""Regenerates /verif/MANIFEST.json from harness/claims/Cxx.json (run: python -m harness.mkmanifest).

A claim file has the keys  text, design, technique, note  (optionally category, default "proof").
A property without a claim file is listed under not_applicable with the reason given in
harness/claims/not_applicable.json (or the default 'not built yet' text)."""
import json
import os

VERIF = os.path.dirname(os.path.dirname(os.path.abspath(__file__)))
ALL = [f"C{i:02d}" for i in range(1, 21)]
CDIR = os.path.join(VERIF, "harness", "claims")

BASE_NOTE = ("Trusted: Coq 8.16.1 kernel; extraction with ExtrOcamlBasic only + OCaml driver; the "
             "hand-written Gallina model is tied to /repo by the differential correspondence run of "
             "this same command (generator quality bounds it); numpy/gymnasium semantics taken as "
             "given. ")


def main():
    claimed = {}
    for pid in ALL:
        p = os.path.join(CDIR, pid + ".json")
        if os.path.exists(p):
            claimed[pid] = json.load(open(p))
    na_path = os.path.join(CDIR, "not_applicable.json")
    na = json.load(open(na_path)) if os.path.exists(na_path) else {}
    kf = json.load(open(os.path.join(VERIF, "known_findings.json")))
    fixed = {}
    for f in kf.get("findings", []):
        if f.get("status") == "fixed":
            fixed.setdefault(f["property"], []).append(f"{f['id']} ({f.get('commit')})")
    checks = []
    for pid in ALL:
        if pid not in claimed:
            continue
        c = claimed[pid]
        note = c["note"]
        if not note.startswith("Trusted:"):
            note = BASE_NOTE + note
        if pid in fixed:
            note += (" Findings of this property repaired by fix: commits in /repo: " + ", ".join(fixed[pid]) +
                     " (DESIGN.md section 6); where the text above speaks of a patch or a patched tree, that "
                     "repair is now part of /repo and the evidence comes from /repo itself.")
        checks.append({
            "property_id": pid,
            "quick_cmd": f"./check {pid} quick",
            "thorough_cmd": f"./check {pid} thorough",
            "evidence_file": f"/verif/evidence/{pid}.json",
            "replay_cmd_template": "./check --replay {path}",
            "engine": "coq-extract-diff",
            "level_claimed": {"category": c.get("category", "proof"), "text": c["text"],
                              "design_ref": "DESIGN.md section " + c["design"]},
            "level_note": note,
            "technique": c["technique"],
        })
    man = {
        "version": 1,
        "setup_cmd": "./check --setup",
        "hooks": {
            "guard": "ABMARL_VERIF",
            "enable": "no hooks are installed in /repo: recording is done by monkeypatching inside "
                      "the harness process (the guard name is reserved)",
            "baseline_off_cmd": "cd /repo && /venv/bin/python -m pytest -ra -q -p no:cacheprovider "
                                "--timeout=900 --continue-on-collection-errors",
            "source_commits": [],
            "add_only": True,
        },
        "engines": [{
            "name": "coq-extract-diff",
            "path": "/verif/check",
            "serves_properties": sorted(claimed),
            "kind_free_text": "Coq 8.16.1 theorems about hand-written Gallina models; models "
                              "extracted to OCaml and run differentially against /repo's Python on "
                              "generated inputs; extracted boolean property checkers applied to the "
                              "implementation's behaviour as the failing-input search",
        }],
        "checks": checks,
        "notes": "See DESIGN.md. known_findings.json lists recorded findings and fixed defects.",
        "not_applicable": [{"property_id": p,
                            "reason": na.get(p, "check not built yet in this revision (planned, see "
                                                "DESIGN.md section 5)")}
                           for p in ALL if p not in claimed],
    }
    with open(os.path.join(VERIF, "MANIFEST.json"), "w") as f:
        json.dump(man, f, indent=1)
    print("claimed:", sorted(claimed))


if __name__ == "__main__":
    main()
