"""Regenerates /verif/MANIFEST.json from the table below (run: python -m harness.mkmanifest)."""
import json
import os

VERIF = os.path.dirname(os.path.dirname(os.path.abspath(__file__)))
ALL = [f"C{i:02d}" for i in range(1, 21)]

BASE_NOTE = ("Trusted: Coq 8.16.1 kernel; extraction with ExtrOcamlBasic only + OCaml driver; the "
             "hand-written Gallina model is tied to /repo by the differential correspondence run of "
             "this same command (generator quality bounds it); numpy/gymnasium semantics taken as "
             "given. All theorems of the property file are 'Closed under the global context'.")

CLAIMED = {
    "C04": dict(
        text=("Proof: ravel/unravel/size/check_space are modelled in Gallina (Spaces/Ravel.v) and the "
              "bijection (range, both round trips, injectivity, surjectivity, helper dimension = size) "
              "is proved by structural induction for every nesting and every point "
              "(Props/P_C04.v, 11 theorems, no axioms). Every run re-checks the theorems and runs the "
              "extracted model against /repo's ravel/unravel/ravel_space/check_space on all points "
              "of hundreds of small spaces and sampled points of large ones; the extracted checker "
              "chk_C04 (proved true of the model) is applied to the implementation's answers."),
        design="5 C04",
        technique="Coq proof by structural induction (mixed-radix bijection) + extracted-model differential correspondence",
        note=BASE_NOTE + " Outside the model: int64 overflow for >= 2^62 points, Discrete(start != 0)."),
    "C05": dict(
        text=("Proof: flatdim/flatten/unflatten/flatten_space are modelled in Gallina "
              "(Spaces/Flatten.v, including numpy's upcast of integer parts when concatenated with "
              "float parts and the np.split offsets) and length, Box membership, value-preserving "
              "round trip (also under upcast), 'integer exactly when every leaf is' and exact round "
              "trip for all-integer spaces are proved by structural induction over every nesting "
              "(Props/P_C05.v, 9 theorems, no axioms). Each run re-checks them and runs the extracted "
              "model and the extracted checker chk_C05 against /repo's functions (gymnasium's "
              "contains() as membership oracle) on all points of small spaces and sampled dyadic "
              "points otherwise."),
        design="5 C05",
        technique="Coq proof by structural induction over nested spaces + extracted-model differential correspondence",
        note=BASE_NOTE + " Float leaves are dyadic rationals k/1024; float32 narrowing is outside the model."),
}


def main():
    checks = []
    for pid in ALL:
        if pid not in CLAIMED:
            continue
        c = CLAIMED[pid]
        checks.append({
            "property_id": pid,
            "quick_cmd": f"./check {pid} quick",
            "thorough_cmd": f"./check {pid} thorough",
            "evidence_file": f"/verif/evidence/{pid}.json",
            "replay_cmd_template": "./check --replay {path}",
            "engine": "coq-extract-diff",
            "level_claimed": {"category": "proof", "text": c["text"],
                              "design_ref": "DESIGN.md section " + c["design"]},
            "level_note": c["note"],
            "technique": c["technique"],
        })
    man = {
        "version": 1,
        "setup_cmd": "./check --setup",
        "hooks": {
            "guard": "ABMARL_VERIF",
            "enable": "no hooks are installed in /repo: recording is done by monkeypatching inside "
                      "the harness process (the guard name is reserved)",
            "baseline_off_cmd": "cd /repo && /venv/bin/python -m pytest -ra -q -p no:cacheprovider "
                                "--timeout=900 --continue-on-collection-errors",
            "source_commits": [],
            "add_only": True,
        },
        "engines": [{
            "name": "coq-extract-diff",
            "path": "/verif/check",
            "serves_properties": sorted(CLAIMED),
            "kind_free_text": "Coq 8.16.1 theorems about hand-written Gallina models; models "
                              "extracted to OCaml and run differentially against /repo's Python on "
                              "generated inputs; extracted boolean property checkers applied to the "
                              "implementation's behaviour as the failing-input search",
        }],
        "checks": checks,
        "notes": "See DESIGN.md. known_findings.json lists recorded findings and fixed defects.",
        "not_applicable": [{"property_id": p,
                            "reason": "check not built yet in this revision (planned, see DESIGN.md section 5)"}
                           for p in ALL if p not in CLAIMED],
    }
    with open(os.path.join(VERIF, "MANIFEST.json"), "w") as f:
        json.dump(man, f, indent=1)
    print("claimed:", sorted(CLAIMED))


if __name__ == "__main__":
    main()
