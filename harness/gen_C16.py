"""C16: the real MultiPolicyTrainer / SinglePolicyTrainer / DebugTrainer.generate_episode with
recording policies and a recording manager proxy over the scripted simulation vs
coq/Ctl/Trainer.v."""
from . import envshim  # noqa: F401
import copy
import itertools
import os
import random
from .runner import Component, exc_code, ERR_REJECT, ERR_KEY, BUILD
from . import stubsim, sx
from .stubsim import aid, aidx
from .mgrproxy import Recorder, make_manager, enc_dict
from .gen_C15 import monotone_script, exhaustive_scripts

PROP = "C16"
RULE = ("a case is (manager kind all/turn/dyn, script = agents/learning flags/done table/finish "
        "time/nominations/accruals, horizon, agent->policy mapping, space ids of agents and policies, "
        "trainer class multi/single/debug/debug-default); exhaustive small scripts (n<=3) with "
        "horizons shorter than, equal to and longer than the episode, plus random ones (n<=5); "
        "non-trivial = some agent is reported done while the episode continues, or the horizon "
        "cuts the episode, or the constructor refuses a misaligned policy")
ASSUMPTIONS = [
    "the simulation's get_done/get_all_done/get_info are observationally pure (hypothesis "
    "done_stable of C16_one_done / C16_records_aligned for the turn-based and dynamic-order managers)",
    "dynamic-order simulations nominate duplicate-free lists of existing agents",
    "policies are arbitrary stateful oracles; a space is represented by an identifier and space "
    "equality by equality of identifiers",
]

TRAINERS = {0: "multi", 1: "single", 2: "debug", 3: "debug-default"}
_DEBUG_DIR = os.path.join(BUILD, "c16_debug")


def _policy_class():
    from abmarl.policies.policy import Policy

    class RecPolicy(Policy):
        def __init__(self, pid, shared, **kw):
            super().__init__(**kw)
            self.pid, self.shared = pid, shared

        def compute_action(self, obs, **kw):
            sh = self.shared
            c = sh["count"]
            sh["count"] += 1
            act = (sh["seed"] + 3 * c + int(obs) + 5 * self.pid) % 10
            sh["log"].append([int(obs) % 100, self.pid, int(obs), act])
            return act

        def update(self, *a, **kw):
            pass

        def reset(self):
            self.shared["resets"] += 1
    return RecPolicy


def enc_rec(d, f=int):
    return [[aidx(k), [f(x) for x in v]] for k, v in d.items() if k != "__all__"]


def impl(inp):
    from gymnasium.spaces import Discrete
    from abmarl.trainers.base import MultiPolicyTrainer
    from abmarl.trainers.monte_carlo import OnPolicyMonteCarloTrainer
    from abmarl.trainers.debug import DebugTrainer
    script, horizon, pmap, asp, psp, seed, tkind = inp
    RecPolicy = _policy_class()
    sim, mgr = make_manager(script)
    sim.np_bools = bool(seed & 1)        # half of the cases: numpy booleans from the simulation
    n = script[1]
    for i in range(n):
        if script[2][i]:
            sim.agents[aid(i)].observation_space = Discrete(100000 + asp[i][0])
            sim.agents[aid(i)].action_space = Discrete(10 + asp[i][1])
    shared = {"count": 0, "seed": seed, "log": [], "resets": 0}
    policies = {f"p{j}": RecPolicy(j, shared, observation_space=Discrete(100000 + psp[j][0]),
                                   action_space=Discrete(10 + psp[j][1])) for j in range(len(psp))}

    class Multi(MultiPolicyTrainer):
        def train(self, **kw):
            pass

    rec = Recorder(mgr)

    def debug_trainer(**kw):
        # DebugTrainer creates <output_dir>/abmarl_results/DEBUG_<minute>; parallel workers race on
        # "if not exists: makedirs" -- retry, the directory then exists
        for attempt in range(5):
            try:
                return DebugTrainer(output_dir=_DEBUG_DIR, **kw)
            except FileExistsError:
                continue
        return DebugTrainer(output_dir=_DEBUG_DIR, **kw)
    try:
        if tkind == 0:
            tr = Multi(sim=mgr, policies=policies, policy_mapping_fn=lambda a: f"p{pmap[aidx(a)]}")
        elif tkind == 1:
            tr = OnPolicyMonteCarloTrainer(sim=mgr, policy=policies["p0"])
        elif tkind == 2:
            tr = debug_trainer(sim=mgr, policies=policies,
                               policy_mapping_fn=lambda a: f"p{pmap[aidx(a)]}")
        else:
            tr = debug_trainer(sim=mgr)
            # the default policies are random ones, one per learning agent, named by the agent
            # id; put recording policies with the same names and spaces in their place
            assert sorted(tr.policies) == sorted(aid(i) for i in range(n) if script[2][i])
            tr.policies = {k: RecPolicy(aidx(k), shared, observation_space=v.observation_space,
                                        action_space=v.action_space)
                           for k, v in tr.policies.items()}
    except AssertionError:
        return [2, [], [], [[], [], [], [], []]]
    except KeyError:
        return [3, [], [], [[], [], [], [], []]]
    iters = []

    def pre_step(ad):
        iters.append([shared["log"][:], [[aidx(k), int(v)] for k, v in ad.items()]])
        del shared["log"][:]
    rec.pre_step = pre_step
    status = 0
    try:
        observations, actions, rewards, dones = tr.generate_episode(horizon=horizon)
        ep = [enc_rec(observations), enc_rec(actions), enc_rec(rewards),
              enc_rec(dones, lambda b: 1 if b else 0),
              [1 if b else 0 for b in dones.get("__all__", [])]]
    except TimeoutError:
        raise
    except BaseException:
        status = 4
        ep = [[], [], [], [], []]
    log = rec.take()
    reset = [log[0][1]] if log and log[0][0] == [0] else []
    steps = [l for l in log[1:]] if reset else log
    its = [[iters[j][0], iters[j][1], steps[j][1]] for j in range(len(steps))]
    if shared["log"] and status == 0:
        status = 5       # a policy was asked without a manager step following
    return [status, reset, its, ep]


def model_input(inp):
    return inp[:6]


def split(inp, out):
    return model_input(inp), out


def mk_case(rng, sc, horizon, tkind=None):
    n = sc[1]
    if tkind is None:
        tkind = rng.choice([0, 0, 0, 1, 2, 3])
    if tkind == 3 and sc[0] == 2 and any(not sc[2][a] for row in sc[3] for a in row[2]):
        # the default policies of DebugTrainer exist for learning agents only; a dynamic-order
        # simulation that nominates other entities needs an explicit mapping
        tkind = 0
    npol = rng.randint(1, 3)
    if tkind == 1:
        pmap, psp = [0] * n, [[rng.randint(0, 1), rng.randint(0, 1)]]
        asp = [list(psp[0]) for _ in range(n)]
    elif tkind == 3:
        pmap = list(range(n))
        asp = [[rng.randint(0, 2), rng.randint(0, 2)] for _ in range(n)]
        psp = [list(a) for a in asp]
    else:
        pmap = [rng.randrange(npol) for _ in range(n)]
        psp = [[rng.randint(0, 2), rng.randint(0, 2)] for _ in range(npol)]
        asp = [list(psp[pmap[i]]) for i in range(n)]
    r = rng.random()
    if tkind in (0, 1, 2) and r < 0.06:        # a misaligned learning agent
        i = rng.randrange(n)
        asp[i][rng.randrange(2)] += 1
    elif tkind in (0, 2) and r < 0.09:         # an agent mapped to a policy that does not exist
        pmap[rng.choice([i for i in range(n) if sc[2][i]])] = npol + 1
    return [sc, horizon, pmap, asp, psp, rng.getrandbits(20), tkind]


def gen(tier, rng):
    quick = tier != "thorough"
    for kind in (0, 1, 2):
        scripts = list(exhaustive_scripts(kind, 3, 4))
        if quick:
            scripts = scripts[::3] + rng.sample(scripts, 200)
        for sc in scripts:
            sc = copy.deepcopy(sc)       # the sample may contain the same script object twice
            if kind == 2 and rng.random() < 0.5:
                n = sc[1]
                for row in sc[3]:
                    row[2] = rng.sample(range(n), rng.randint(1, n))
            yield mk_case(rng, sc, rng.choice([0, 1, 2, 3, 4, 5, 8]))
    for _ in range(3000 if quick else 80000):
        kind = rng.choice([0, 1, 2])
        sc = stubsim.random_script(rng, kind, nmax=5 if quick else 6, tmax=8 if quick else 12,
                                   monotone=rng.random() < 0.85)
        T = len(sc[3])
        yield mk_case(rng, sc, rng.choice([0, 1, 2, T - 1, T, T + 1, 2 * T + 3]))


def _beh(out):
    return sx.loads(out) if isinstance(out, str) else out


def _done_mid(its):
    return any(r[0] == 1 and not r[5] and any(d for _, d in r[3]) for _, _, r in its)


def nontrivial(inp, out):
    b = _beh(out)
    if not b or b[0] == -1:
        return False
    if b[0] in (2, 3):
        return True
    its = b[2]
    cut = bool(its) and len(its) == inp[1] and not (its[-1][2][0] == 1 and its[-1][2][5])
    return _done_mid(its) or cut


def classify(inp, out):
    b = _beh(out)
    k = {0: "all", 1: "turn", 2: "dyn"}[inp[0][0]] + "/" + TRAINERS[inp[6]]
    if not b or b[0] == -1:
        return k + "/exception"
    if b[0] == 2:
        return k + "/misaligned"
    if b[0] == 3:
        return k + "/no-such-policy"
    if b[0] != 0:
        return k + "/raised"
    its = b[2]
    tags = []
    if inp[1] == 0:
        tags.append("h0")
    elif its and its[-1][2][0] == 1 and its[-1][2][5]:
        tags.append("all-at-horizon" if len(its) == inp[1] else "all-before-horizon")
    else:
        tags.append("horizon-cut")
    if _done_mid(its):
        tags.append("done-mid")
    if any(not q for q, _, _ in its):
        tags.append("empty-send")
    return k + "/" + "+".join(tags)


def shrink(inp):
    script, horizon, pmap, asp, psp, seed, tkind = inp
    if horizon > 0:
        yield [script, horizon - 1, pmap, asp, psp, seed, tkind]
    kind, n, learn, rows = script
    if len(rows) > 2:
        yield [[kind, n, learn, rows[:-1]], horizon, pmap, asp, psp, seed, tkind]


def repro(inp):
    return ("PYTHONPATH=/verif:$VERIF_REPO /venv/bin/python -c \"from harness import gen_C16, sx; "
            "print(gen_C16.impl(sx.loads('%s')))\"  # real trainer.generate_episode over the real "
            "manager over the scripted simulation; input = [script=[kind(0 all,1 turn,2 dyn), n, "
            "learning, rows], horizon, agent->policy, agent space ids, policy space ids, seed, "
            "trainer(0 multi,1 single,2 debug,3 debug with default policies)]; output = [status, "
            "reset answer, [[queries [agent,policy,obs,action]], sent dict, manager answer]..., "
            "[observations, actions, rewards, dones, dones['__all__']]]" % sx.dumps(inp))


COMPONENTS = [
    Component(1601, "trainer", impl, gen, chk=1602, nontrivial=nontrivial, classify=classify,
              shrink=shrink, repro=repro, timeout=20),
]
COMPONENTS[0].split = split
