"""End-to-end correspondence (supports C01, C03, C07, C08, C16): the REAL TeamBattleSim of
/repo/abmarl/examples/sim/team_battle_example.py (SmartGridWorldSimulation + MoveActor +
BinaryAttackActor + PositionCenteredEncodingObserver + ActiveDone/OneTeamRemainingDone, built-in
state components) under the REAL AllStepManager (with and without randomize_action_input) and
TurnBasedManager, played with actions drawn from the agents' action spaces, against the extracted
composition `run (battle_sim cfg) k (init s0) calls` of coq/Grid/BattleSim.v and coq/Ctl/Managers.v.

Compared after every manager call: the complete manager output (observation arrays, rewards in
units of 1/100, done flags, `__all__`, rejections) and the complete grid snapshot.  The numpy draws
of the attack actor and of the observer are recorded by a spy and handed to the model as its
oracle streams; the state after every `sim.reset()` is recorded and handed to the model as its
start-state stream (placement itself is C13)."""
from . import envshim  # noqa: F401
import random
import numpy as np
from .runner import Component
from . import gridsim as G
from . import pubapi

HD = G.HD
KINDS = {0: "all", 1: "turn"}

# Agents with simultaneous_attacks >= 2.  False on the tree as found: BinaryAttackActor hands the
# ndarray of np.random.choice to the caller and TeamBattleSim.step tests its truth value
# (ValueError as soon as two agents are hit at once): findings/C02-binary-attack-ndarray.md.
# Set to True once that repair is in /repo; the model covers it already.
MULTI_ATTACK = True


class Spy:
    """numpy.random.uniform / choice for the whole drive.  mode 'reset': draws of the state
    components (not recorded: their result is in the recorded start state; health draws are
    dyadic and never 0).  mode 'run': uniform = accuracy test of the attack actor (recorded),
    choice with a size = the attack actor (recorded as agent indices), choice without size = the
    observer (recorded as the chosen encoding)."""

    def __init__(self, seed):
        self.rng = random.Random(seed)
        self.mode = "run"
        self.unif, self.choices, self.obs = [], [], []
        self._saved = {}

    def uniform(self, low=0.0, high=1.0, size=None):
        assert size is None and low in (0, 0.0) and high in (1, 1.0)
        if self.mode == "reset":
            return self.rng.randrange(1, HD) / HD
        k = self.rng.choice([0, 1, HD // 4, HD // 2, HD // 2 + 1, HD - 1, self.rng.randrange(HD)])
        self.unif.append(k)
        return k / HD

    def choice(self, a, size=None, replace=True, p=None):
        assert p is None
        seq = list(a)
        if size is None:
            x = seq[self.rng.randrange(len(seq))]
            if self.mode == "run":
                self.obs.append(int(x))
            return x
        n = int(size)
        if replace:
            idx = [self.rng.randrange(len(seq)) for _ in range(n)]
        else:
            if n > len(seq):
                raise ValueError("Cannot take a larger sample than population when 'replace=False'")
            idx = self.rng.sample(range(len(seq)), n)
        out = np.empty(n, dtype=object)
        for j, i in enumerate(idx):
            out[j] = seq[i]
        if self.mode == "run":
            self.choices.append([G.aidx(seq[i].id) for i in idx])
        return out

    def __enter__(self):
        for name in ("uniform", "choice"):
            self._saved[name] = getattr(np.random, name)
            setattr(np.random, name, getattr(self, name))
        return self

    def __exit__(self, *exc):
        for name, f in self._saved.items():
            setattr(np.random, name, f)
        return False


def build(inp):
    """-> (sim, mgr, cfg wire).  The simulation class is the packaged TeamBattleSim; only its
    reset is wrapped to record the state the state components produced."""
    from abmarl.examples.sim.team_battle_example import TeamBattleSim
    from abmarl.managers import AllStepManager, TurnBasedManager
    from abmarl.sim.gridworld.state import PositionState, HealthState, AmmoState
    from abmarl.sim.gridworld.observer import PositionCenteredEncodingObserver
    from abmarl.sim.gridworld.done import ActiveDone, OneTeamRemainingDone
    rows, cols, wov, wags, params, mapping, stacked, obs_self, oneteam, kind, randomize, pols, seed = inp

    class RecSim(TeamBattleSim):
        spy = None
        starts = None

        def reset(self, **kwargs):
            self.spy.mode = "reset"
            try:
                super().reset(**kwargs)
            finally:
                self.spy.mode = "run"
            self.starts.append(G.snapshot(self.grid, self.agents))

    def extra(i):
        ar, st, acc, vr, mr, ih, sim = params[i]
        return dict(attack_range=("FULL" if ar < 0 else ar), attack_strength=st / HD,
                    attack_accuracy=acc / HD, simultaneous_attacks=sim,
                    view_range=("FULL" if vr < 0 else vr), move_range=mr,
                    initial_health=(ih / HD if ih else None))
    agents = G.build_agents(wags, extra=extra)
    sim = RecSim.build_sim(
        rows, cols, agents=agents, overlapping={k: set(v) for k, v in wov} if wov else None,
        states={PositionState, HealthState, AmmoState},
        observers={PositionCenteredEncodingObserver},
        dones={OneTeamRemainingDone if oneteam else ActiveDone},
        attack_mapping={k: set(v) for k, v in mapping}, stacked_attacks=bool(stacked),
        observe_self=bool(obs_self))
    # SmartGridWorldSimulation keeps its components in Python sets: give them a fixed order
    for attr in [pubapi.component_attr(sim, k) for k in ("states", "observers", "dones")]:
        if attr is None:
            continue
        setattr(sim, attr, sorted(getattr(sim, attr), key=lambda c: type(c).__name__, reverse=True))
    mgr = (AllStepManager(sim, randomize_action_input=bool(randomize)) if kind == 0
           else TurnBasedManager(sim))
    mp = {k: v for k, v in mapping}
    cfg = [[[[int(a.attack_range), params[i][1], params[i][2], params[i][6], sorted(mp.get(a.encoding, [])),
              1 if stacked else 0], int(a.view_range)] for i, a in enumerate(sim.agents.values())],
           1 if obs_self else 0, 1 if oneteam else 0]
    return sim, mgr, cfg


def cents(x):
    c = int(round(x * 100))
    assert abs(x * 100 - c) < 1e-6, "reward is not a multiple of 0.01"
    return c


def enc_obs(d):
    out = []
    for k, v in d.items():
        assert list(v.keys()) == ["position_centered_encoding"]
        out.append([G.aidx(k), v["position_centered_encoding"].tolist()])
    return out


def drive(inp):
    rows, cols, wov, wags, params, mapping, stacked, obs_self, oneteam, kind, randomize, pols, seed = inp
    rng = random.Random(seed)
    spy = Spy(seed ^ 0x5EED)
    sim, mgr, cfg = build(inp)
    sim.spy, sim.starts = spy, []
    calls, recs = [], []
    shuffles = []
    import random as pyrandom
    orig_shuffle = pyrandom.shuffle

    def shuffle_spy(lst):
        rng.shuffle(lst)
        shuffles.append(list(lst))
    pyrandom.shuffle = shuffle_spy

    def wact(k, a):
        return [G.aidx(k), int(a["move"][0]), int(a["move"][1]), int(a["attack"])]

    def sample(k):
        ag = sim.agents[k]
        mr = int(ag.move_range)
        mv = (0, 0) if rng.random() < 0.15 else (rng.randint(-mr, mr), rng.randint(-mr, mr))
        sa = int(ag.simultaneous_attacks)
        act = {"move": np.array(mv, dtype=int),
               "attack": rng.choice([0, 1, 1]) if sa == 1 else rng.choice([0] + list(range(1, sa + 1)) * 2)}
        assert ag.action_space.contains(act), act
        return act

    last_live, ended = None, True
    try:
        with spy:
            for pol in pols:
                if last_live is None or pol == 5 or (ended and pol != 7):
                    obs = mgr.reset()
                    calls.append([0])
                    recs.append([[0, enc_obs(obs)], G.snapshot(sim.grid, sim.agents)])
                    last_live, ended = list(obs.keys()), False
                    continue
                done_set = [k for k in sim.agents if k in mgr.done_agents]
                acts = [(k, sample(k)) for k in last_live]
                if pol in (1, 2) and done_set:
                    ex = rng.choice(done_set)
                    ex = (ex, sample(ex))
                    acts = acts + [ex] if pol == 1 else [ex] + acts
                elif pol == 3:
                    acts = acts[:1]
                elif pol == 4:
                    acts = []
                elif pol == 6:
                    cand = [k for k in sim.agents if k not in mgr.done_agents]
                    acts = [(k, sample(k)) for k in cand if rng.random() < 0.6]
                ad = dict(acts)
                sub = [wact(k, a) for k, a in ad.items()]
                nsh = len(shuffles)
                try:
                    obs, rew, done, info = mgr.step(ad)
                    assert all(v == {} for v in info.values())
                    assert list(obs) == list(rew) == [k for k in done if k != "__all__"] == list(info)
                    r = [1, enc_obs(obs), [[G.aidx(k), cents(v)] for k, v in rew.items()],
                         [[G.aidx(k), 1 if v else 0] for k, v in done.items() if k != "__all__"],
                         1 if done["__all__"] else 0]
                    last_live = [k for k, v in done.items() if k != "__all__" and not v]
                    ended = bool(done["__all__"])
                except AssertionError as e:
                    if "already done" not in str(e):
                        raise
                    r = [2]
                except StopIteration:
                    r = [3]
                sh = [wact(k, a) for k, a in shuffles[nsh]] if len(shuffles) > nsh else sub
                calls.append([1, sub, sh])
                recs.append([r, G.snapshot(sim.grid, sim.agents)])
    finally:
        pyrandom.shuffle = orig_shuffle
    minp = [rows, cols, wov, cfg, sim.starts, spy.unif, spy.choices, spy.obs, kind, calls]
    return minp, [0, recs]


def impl(inp):
    minp, beh = drive(inp)
    return [minp, beh]


def split(inp, out):
    if out[0] == -1:
        # the implementation runner failed: an input the model decodes, behaviour = the error
        rows, cols, wov = inp[0], inp[1], inp[2]
        return [rows, cols, wov, [[], 0, 0], [], [], [], [], inp[9], []], out
    return out[0], out[1]


def gen(tier, rng):
    quick = tier != "thorough"
    n_cases = 1000 if quick else 20000
    for _ in range(n_cases):
        rows, cols = rng.choice([(1, 4), (2, 2), (2, 3), (3, 3), (3, 4), (4, 4), (5, 3), (5, 5), (6, 4)])
        nmax = max(2, min(6, rows * cols // 2))
        n = rng.randint(2, nmax)
        oneteam = 1 if rng.random() < 0.5 else 0
        nenc = min(n, rng.choice([2, 2, 3] if oneteam else [1, 2, 2, 3]))
        encs = list(range(1, nenc + 1))
        ov = []
        if rng.random() < 0.5:
            for e in encs:
                vs = sorted(x for x in encs if rng.random() < 0.5)
                if vs:
                    ov.append([e, vs])
        sym = {e: set() for e in encs}
        for e, vs in ov:
            for v in vs:
                sym[e].add(v)
                sym[v].add(e)
        wags, params, used = [], [], {}
        for i in range(n):
            enc = encs[i % nenc] if i < nenc else rng.choice(encs)
            pos = []
            if rng.random() < 0.7:
                p = (rng.randrange(rows), rng.randrange(cols))
                if all(e2 in sym[enc] for e2 in used.get(p, [])):
                    used.setdefault(p, []).append(enc)
                    pos = list(p)
            ammo = [rng.choice([0, 1, 2, 5])] if rng.random() < 0.3 else []
            blocking = 1 if rng.random() < 0.2 else 0
            wags.append([enc, pos, HD, 1, ammo, [], blocking])
            params.append([rng.choice([0, 1, 1, 1, 2, -1]),                       # attack range
                           rng.choice([HD, HD, HD // 2, HD // 4, 3 * HD // 8]),   # strength
                           rng.choice([HD, HD, HD, HD // 2, HD - 1, 0]),          # accuracy
                           rng.choice([1, 1, 2, 3, -1]),                          # view range
                           rng.choice([1, 1, 2]),                                 # move range
                           rng.choice([0, HD, HD, HD // 2, 5 * HD // 8]),         # initial health (0: drawn)
                           rng.choice([1, 1, 2, 3]) if MULTI_ATTACK else 1])      # simultaneous attacks
        mapping = [[e, sorted(x for x in encs if (x != e or rng.random() < 0.3) and rng.random() < 0.85)]
                   for e in encs]
        kind = rng.choice([0, 0, 1])
        L = rng.randint(4, 22 if kind == 0 else 45)
        pols = [rng.choice([0, 0, 0, 0, 0, 0, 0, 0, 1, 2, 3, 5, 6]) for _ in range(L)]
        yield [rows, cols, ov, wags, params, mapping, 1 if rng.random() < 0.3 else 0,
               1 if rng.random() < 0.7 else 0, oneteam, kind,
               1 if (kind == 0 and rng.random() < 0.4) else 0, pols, rng.getrandbits(30)]


_LAST = [None, None]


def _recs(out):
    from . import sx
    if _LAST[0] is out:
        return _LAST[1]
    o = sx.loads(out) if isinstance(out, str) else out
    r = o[1] if (isinstance(o, list) and len(o) == 2 and isinstance(o[1], list)) else []
    _LAST[0], _LAST[1] = out, r
    return r


def nontrivial(inp, out):
    # an agent was reported done (a death) or a submission was refused
    return any(r[0][0] == 2 or (r[0][0] == 1 and any(d for _, d in r[0][3])) for r in _recs(out))


def classify(inp, out):
    tags = []
    recs = _recs(out)
    if any(r[0][0] == 1 and any(d for _, d in r[0][3]) for r in recs):
        tags.append("death")
    if any(r[0][0] == 2 for r in recs):
        tags.append("reject")
    if inp[10]:
        tags.append("shuffle")
    if any(-2 in row for r in recs if r[0][0] in (0, 1) for _, arr in r[0][1] for row in arr):
        tags.append("masked")
    if any(len(c) > 1 for r in recs for c in r[1][1]):
        tags.append("pile")
    return KINDS[inp[9]] + "/" + "+".join(tags or ["plain"])


def shrink(inp):
    pols = inp[11]
    for i in range(len(pols) - 1, 0, -1):
        yield inp[:11] + [pols[:i]] + inp[12:]


def repro(inp):
    from . import sx
    return ("PYTHONPATH=/verif:/repo PYTHONHASHSEED=0 /venv/bin/python -c \"from harness import gen_E2E, sx; "
            "print(gen_E2E.impl(sx.loads('%s')))\"  # drives the real manager over the real TeamBattleSim; "
            "input = rows cols overlapping agents params mapping stacked observe_self oneteam "
            "manager(0 all,1 turn) randomize policies seed" % sx.dumps(inp))


COMPONENT_E2E = Component(2101, "e2e_team_battle", impl, gen, chk=2102, nontrivial=nontrivial,
                          classify=classify, shrink=shrink, repro=repro, timeout=30)
COMPONENT_E2E.split = split
