"""C18: the simulation builders of abmarl.sim.gridworld.base (build_sim, build_sim_from_grid,
build_sim_from_array, build_sim_from_file) vs Grid/Build.v."""
from . import envshim  # noqa: F401
import os
import tempfile
import numpy as np
from .runner import Component, exc_code, BUILD
from . import pubapi

PROP = "C18"
RULE = ("one layout = (array 0x0..6x6 of string or int entries, object registry, extra agents or "
        "None) built by all four builders of the real code (text file written from the array, Grid "
        "filled with the layout's agents, agent dictionary given directly); entries drawn from "
        "registered, unregistered and reserved characters (multi-character and empty strings "
        "included), registry functions with per-occurrence, constant and alternating ids, extras "
        "with and without id clashes, keys different from ids, with and without initial positions; "
        "plus raw text files (ragged lines, empty file, double blanks, no final newline) and "
        "explicit grids (several agents per cell, wrong initial positions, None and {} cells); "
        "non-trivial = at least two registered entries; distinct = distinct canonical input")
ASSUMPTIONS = [
    "agent ids are the strings 'g<int>'; classes are GridWorldAgent / MovingAgent / "
    "GridObservingAgent (index 0/1/2)",
    "text files contain no line boundary other than '\\n' (str.splitlines knows more) and are ASCII",
    "numpy string arrays: entries without trailing NUL; int arrays: plain Python ints",
    "post-reset positions are compared for agents with an initial position; agents without one "
    "are placed at random (C13) and only used when free cells are guaranteed",
    "the builders alias and mutate the caller's extra_agents dictionary; every builder call gets a "
    "fresh dictionary and fresh agent objects",
]

SCRATCH = os.path.join(BUILD, "tmp_C18")       # text files for build_sim_from_file (removed after use)

_lib = {}


def lib():
    if _lib:
        return _lib
    from abmarl.examples.sim.multi_agent_grid_sim import MultiAgentGridSim
    from abmarl.sim.gridworld.agent import GridWorldAgent, MovingAgent, GridObservingAgent
    from abmarl.sim.gridworld.grid import Grid
    _lib.update(Sim=MultiAgentGridSim, Grid=Grid,
                classes=[GridWorldAgent, MovingAgent, GridObservingAgent])
    return _lib


def gid(z):
    return "g%d" % z


def mk_agent(idz, enc, cls, ipos):
    L = lib()
    kw = dict(id=gid(idz), encoding=enc)
    if cls == 1:
        kw["move_range"] = 1
    elif cls == 2:
        kw["view_range"] = 1
    if ipos is not None:
        kw["initial_position"] = np.array(ipos)
    return L["classes"][cls](**kw)


def cell_py(c):
    return c[1] if c[0] == 0 else "".join(chr(z) for z in c[1:])


def reg_py(reg):
    out = {}
    for key, kind, base, enc, cls in reg:
        def f(n, kind=kind, base=base, enc=enc, cls=cls):
            idz = base * 100 + (n if kind == 0 else 0 if kind == 1 else n % 2)
            return mk_agent(idz, enc, cls, None)
        out[cell_py(key)] = f
    return out


def extras_py(extra):
    if extra[0] == 0:
        return None
    return {gid(k): mk_agent(i, enc, cls, (r, c) if hp else None)
            for k, i, enc, cls, hp, r, c in extra[1]}


def enc_sim(sim):
    L = lib()
    ags = []
    for k, a in sim.agents.items():
        p = a.initial_position
        ags.append([int(k[1:]), a.encoding, L["classes"].index(type(a))]
                   + ([1, int(p[0]), int(p[1])] if p is not None else [0, 0, 0]))
    try:
        np.random.seed(0)
        sim.reset()
        ps = []
        for a in sim.agents.values():
            if a.initial_position is not None:
                ps.append([1, int(a.position[0]), int(a.position[1])])
            else:
                ps.append([0, 0, 0])
        rs = [1, ps]
    except AssertionError:
        rs = [0]
    except Exception as e:
        rs = [-1, exc_code(e)]
    return [0, sim.grid.rows, sim.grid.cols, ags, rs]


def attempt(fn):
    try:
        return enc_sim(fn())
    except Exception as e:
        return [-1, exc_code(e)]


def np_array(arr):
    if not arr:
        return np.empty((0, 0), dtype=str)
    if not arr[0]:
        return np.empty((len(arr), 0), dtype=str)
    return np.array([[cell_py(c) for c in row] for row in arr])


def layout_agents(arr, reg):
    """The layout's agents, built by the harness itself (reading order, per-character counter)."""
    regd = reg_py(reg)
    count = {}
    out = []
    for r, row in enumerate(arr):
        for c, cell in enumerate(row):
            ch = cell_py(cell)
            if any(type(k) is type(ch) and k == ch for k in regd):
                n = count.get((type(ch), ch), 0)
                a = regd[ch](n)
                a.initial_position = np.array([r, c])
                out.append((r, c, a))
                count[(type(ch), ch)] = n + 1
    return out


def file_able(arr):
    if not arr:
        return False
    for row in arr:
        if not row:
            return False
        for c in row:
            if c[0] != 1 or any(z in (32, 10) for z in c[1:]):
                return False
    return True


def write_text(text):
    """Half of the layouts go to a fresh file name, the others REWRITE one file per worker process
    (a level generator that reuses its output path): what is built must be what the file holds now."""
    os.makedirs(SCRATCH, exist_ok=True)
    if len(text) % 2:
        path = os.path.join(SCRATCH, "level_%d.txt" % os.getpid())
        with open(path, "w", newline="") as f:
            f.write(text)
        return path
    fd, path = tempfile.mkstemp(dir=SCRATCH, suffix=".txt")
    with os.fdopen(fd, "w", newline="") as f:
        f.write(text)
    return path


def impl_builders(inp):
    L = lib()
    arr, reg, extra = inp
    Sim = L["Sim"]
    rows, cols = len(arr), (len(arr[0]) if arr else 0)
    res = []
    # 1 array
    res.append(attempt(lambda: Sim.build_sim_from_array(np_array(arr), reg_py(reg),
                                                        extra_agents=extras_py(extra))))
    # 2 file
    if file_able(arr):
        text = "".join(" ".join(cell_py(c) for c in row) + "\n" for row in arr)
        path = write_text(text)
        try:
            res.append(attempt(lambda: Sim.build_sim_from_file(path, reg_py(reg),
                                                               extra_agents=extras_py(extra))))
        finally:
            os.unlink(path)
    else:
        res.append([-2])

    # 3, 4: without a valid registry there is no layout to put into a grid or a dictionary
    if any(cell_py(k) in (".", "_", "0") or cell_py(k) == 0 and type(cell_py(k)) is int
           for k, *_ in reg):
        return res + [[-2], [-2]]

    def from_grid():
        grid = L["Grid"](rows, cols)
        grid.reset()
        for r, c, a in layout_agents(arr, reg):
            grid[r, c][a.id] = a
        return Sim.build_sim_from_grid(grid, extra_agents=extras_py(extra))
    res.append(attempt(from_grid))

    # 4 direct
    def direct():
        agents = extras_py(extra) or {}
        for r, c, a in layout_agents(arr, reg):
            agents[a.id] = a
        return Sim.build_sim(rows, cols, agents=agents)
    res.append(attempt(direct))
    return res


def impl_file(inp):
    text, reg, extra = inp
    Sim = lib()["Sim"]
    path = write_text("".join(chr(z) for z in text))
    try:
        return attempt(lambda: Sim.build_sim_from_file(path, reg_py(reg), extra_agents=extras_py(extra)))
    finally:
        os.unlink(path)


def impl_grid(inp):
    g, extra = inp
    L = lib()

    def go():
        grid = L["Grid"](len(g), len(g[0]))
        for r, row in enumerate(g):
            for c, cell in enumerate(row):
                if cell[0] == 1:
                    pubapi.cell_array(grid)[r, c] = {gid(k): mk_agent(i, enc, cls, (pr, pc) if hp else None)
                                            for k, i, enc, cls, hp, pr, pc in cell[1]}
        return L["Sim"].build_sim_from_grid(grid, extra_agents=extras_py(extra))
    return attempt(go)


# ------------------------------------------------------------------------------------ generators

def S(s):
    return [1] + [ord(ch) for ch in s]


STR_REGISTERED = ["A", "B", "C", "AB", "a"]
STR_OTHER = ["X", "", "b", "BA"]
STR_RESERVED = [".", "_", "0"]


def rand_registry(rng, keys, zero_p):
    reg = []
    bases = [1, 2, 3, 4]
    for k in keys:
        kind = rng.choice([0, 0, 0, 1, 2])
        reg.append([k, kind, rng.choice(bases), rng.randint(1, 4), rng.randint(0, 2)])
    return reg


def rand_extras(rng, reg, rows, cols, n_layout_max):
    mode = rng.choice(["none", "none", "empty", "some", "some", "clash", "clash", "badkey"])
    if mode == "none":
        return [0]
    if mode == "empty":
        return [1, []]
    ents = []
    used = set()
    n_extras = rng.randint(1, 4)
    # agents without an initial position are placed at random after all the others: only use
    # them when there is a cell for everybody
    room = rows * cols >= n_layout_max + n_extras
    for _ in range(n_extras):
        if mode == "clash" and reg and rng.random() < 0.7:
            _, kind, base, _, _ = rng.choice(reg)
            idz = base * 100 + rng.randint(0, 3)
        else:
            idz = 900 + rng.randint(0, 5)
        if idz in used:
            continue
        used.add(idz)
        key = idz
        if mode == "badkey" and rng.random() < 0.5:
            key = idz + 50
        hp = 1
        if room and rng.random() < 0.3:
            hp = 0
        r = rng.randrange(rows) if rows else 0
        c = rng.randrange(cols) if cols else 0
        ents.append([key, idz, rng.randint(1, 5), rng.randint(0, 2), hp, r if hp else 0, c if hp else 0])
    return [1, ents]


def gen_builders(tier, rng):
    quick = tier != "thorough"
    N = 8000 if quick else 60000
    # fixed corner cases first
    A, B = S("A"), S("B")
    regAB = [[A, 0, 1, 1, 0], [B, 0, 2, 2, 1]]
    yield [[[A]], regAB, [0]]
    yield [[[S(".")]], regAB, [0]]
    yield [[], regAB, [0]]
    yield [[[], []], regAB, [0]]
    yield [[[A, S("."), B, S("0"), S("_")], [B, S("_"), S(""), S("C"), A]], regAB, [0]]
    yield [[[A, A, A, A]], regAB, [1, [[102, 102, 3, 0, 1, 0, 0]]]]
    yield [[[A], [A], [B], [A]], regAB, [1, [[102, 102, 3, 0, 1, 0, 0]]]]
    yield [[[A, S("0")], [S("_"), S("0")]], [[S("0"), 0, 3, 1, 0], [A, 0, 1, 2, 0]], [0]]
    yield [[[[0, 1], [0, 0]], [[0, 0], [0, 1]]], [[[0, 1], 0, 1, 1, 0]], [0]]
    for _ in range(N):
        ints = rng.random() < 0.15
        rows = 0 if rng.random() < 0.03 else rng.choice([1, 1, 2, 2, 3, 3, 4, 5, 6])
        cols = 0 if rng.random() < 0.03 else rng.choice([1, 1, 2, 2, 3, 3, 4, 5, 6])
        if ints:
            regk = [[0, k] for k in rng.sample([1, 2, 3, 7], rng.randint(0, 3))]
            other = [[0, 0], [0, 0], [0, 5], [0, 9]]
            resv = [[0, 0]]
        else:
            regk = [S(k) for k in rng.sample(STR_REGISTERED, rng.randint(0, 4))]
            other = [S(k) for k in STR_OTHER + STR_RESERVED + STR_RESERVED]
            resv = [S(k) for k in STR_RESERVED]
        # registry: sometimes holds a reserved key (must be refused)
        keys = list(regk)
        p = rng.random()
        if p < 0.06:
            keys.append(rng.choice(resv))
        elif p < 0.08 and not ints:
            keys.append([0, 0])               # the int 0 among string keys
        rng.shuffle(keys)
        reg = rand_registry(rng, keys, 0)
        # array: few distinct characters so that they repeat in both directions
        palette = (regk or other[:1]) + rng.sample(other, rng.randint(0, min(3, len(other))))
        dense = rng.random()
        arr = []
        nreg = 0
        for r in range(rows):
            row = []
            for c in range(cols):
                if regk and rng.random() < dense:
                    ch = rng.choice(regk[:rng.randint(1, len(regk))])
                else:
                    ch = rng.choice(palette)
                if ch in regk:
                    nreg += 1
                row.append(ch)
            arr.append(row)
        extra = rand_extras(rng, reg, rows, cols, nreg)
        yield [arr, reg, extra]


def gen_file(tier, rng):
    quick = tier != "thorough"
    N = 4000 if quick else 30000
    fixed = ["", "\n", "A", "A\n", "A B\nB A\n", "A B\nB A", "A  B\n", "A B \nA B\n", "A B\nA\n",
             "A\n\nA\n", "\n\n", " \n", "A B\n\n", "0 A\n. _\n", "AB A\nA AB\n"]
    regAB = [[S("A"), 0, 1, 1, 0], [S("B"), 1, 2, 2, 1], [S("AB"), 0, 3, 3, 2], [S(""), 0, 4, 1, 0]]
    for t in fixed:
        yield [[ord(ch) for ch in t], regAB[:3], [0]]
        yield [[ord(ch) for ch in t], regAB, [0]]
    alphabet = "AAABBC._0X"
    for _ in range(N):
        rows = rng.randint(0, 5)
        cols = rng.randint(1, 5)
        lines = []
        for r in range(rows):
            n = cols
            if rng.random() < 0.08:
                n = max(1, cols + rng.choice([-1, 1]))
            toks = []
            for _ in range(n):
                p = rng.random()
                toks.append("" if p < 0.05 else "AB" if p < 0.12 else rng.choice(alphabet))
            lines.append(" ".join(toks))
        text = "\n".join(lines)
        if rng.random() < 0.7:
            text += "\n"
        if rng.random() < 0.05:
            text += "\n"
        keys = [S(k) for k in rng.sample(["A", "B", "C", "AB", ""], rng.randint(0, 4))]
        if rng.random() < 0.05:
            keys.append(S(rng.choice(STR_RESERVED)))
        reg = rand_registry(rng, keys, 0)
        ls = text.splitlines()
        arows = max(len(ls), 1)
        acols = len(ls[0].split(" ")) if ls else 1
        extra = rand_extras(rng, reg, arows, acols, arows * acols)
        yield [[ord(ch) for ch in text], reg, extra]


def gen_grid(tier, rng):
    quick = tier != "thorough"
    N = 3000 if quick else 20000
    for _ in range(N):
        rows, cols = rng.randint(1, 4), rng.randint(1, 4)
        g = []
        nid = 0
        wrong = rng.random() < 0.15
        for r in range(rows):
            row = []
            for c in range(cols):
                p = rng.random()
                if p < 0.35:
                    row.append([0])
                elif p < 0.5:
                    row.append([1, []])
                else:
                    ents = []
                    for _ in range(rng.choice([1, 1, 1, 2, 3])):
                        idz = rng.choice([100 + nid, 100 + nid, rng.randint(100, 104)])
                        nid += 1
                        if any(e[0] == idz for e in ents):
                            continue
                        pr, pc, hp = r, c, 1
                        if wrong and rng.random() < 0.2:
                            k = rng.randint(0, 2)
                            if k == 0:
                                hp, pr, pc = 0, 0, 0
                            elif k == 1:
                                pr = (r + 1) % (rows + 1)
                            else:
                                pr, pc = c, r
                        key = idz if rng.random() < 0.97 else idz + 50
                        ents.append([key, idz, rng.randint(1, 4), rng.randint(0, 2), hp, pr, pc])
                    row.append([1, ents])
            g.append(row)
        mode = rng.random()
        if mode < 0.4:
            extra = [0]
        else:
            ents = []
            for _ in range(rng.randint(0, 3)):
                idz = rng.choice([rng.randint(100, 106), 900 + rng.randint(0, 3)])
                if any(e[0] == idz for e in ents):
                    continue
                ents.append([idz, idz, rng.randint(1, 4), rng.randint(0, 2), 1,
                             rng.randrange(rows), rng.randrange(cols)])
            extra = [1, ents]
        yield [g, extra]


def _n_registered(inp):
    arr, reg, _ = inp
    keys = [k for k, *_ in reg]
    return sum(1 for row in arr for c in row if c in keys)


def nontrivial_builders(inp, out):
    return _n_registered(inp) >= 2


def classify_builders(inp, out):
    arr, reg, extra = inp
    o = out if isinstance(out, str) else str(out)
    rows, cols = len(arr), (len(arr[0]) if arr else 0)
    shape = "empty" if rows * cols == 0 else "1x1" if rows * cols == 1 else \
        "row" if rows == 1 else "col" if cols == 1 else "rect"
    tags = [shape, "int" if any(k[0] == 0 for k, *_ in reg) and not any(k[0] == 1 for k, *_ in reg)
            else "str"]
    if o.startswith("((-1 1)"):
        tags.append("refused")
    keys = [k for k, *_ in reg]
    n = _n_registered(inp)
    tags.append("reg0" if n == 0 else "reg1" if n == 1 else "reg2+")
    if any(k in ([0, 0], S("."), S("_"), S("0")) for k in keys):
        tags.append("reserved-key")
    if any(kind != 0 for _, kind, *_ in reg) and n >= 2:
        tags.append("id-reuse")
    if extra[0] == 1 and extra[1]:
        ids = {e[1] for e in extra[1]}
        bases = {b * 100 + j for _, _, b, _, _ in reg for j in range(4)}
        tags.append("extras-clash?" if ids & bases else "extras")
        if any(e[0] != e[1] for e in extra[1]):
            tags.append("badkey")
    if "(0)" in o:
        tags.append("reset-refused")
    return "/".join(tags)


def classify_file(inp, out):
    o = out if isinstance(out, str) else str(out)
    if o.startswith("(-1 3)"):
        return "index-error"
    if o.startswith("(-1 1)"):
        return "refused"
    text = "".join(chr(z) for z in inp[0])
    tags = ["ok"]
    if not text.endswith("\n"):
        tags.append("no-final-newline")
    if "  " in text or "\n " in text or " \n" in text or text.startswith(" "):
        tags.append("empty-token")
    if "\n\n" in text:
        tags.append("blank-line")
    return "/".join(tags)


def classify_grid(inp, out):
    o = out if isinstance(out, str) else str(out)
    if o.startswith("(-1"):
        return "refused"
    g = inp[0]
    multi = any(c[0] == 1 and len(c[1]) > 1 for row in g for c in row)
    return "ok" + ("/multi-agent-cell" if multi else "") + ("/extras" if inp[1][0] == 1 and inp[1][1] else "")


def _in_domain(inp):
    """extras stand inside the grid, and agents without initial position have room"""
    arr, reg, extra = inp
    rows, cols = len(arr), (len(arr[0]) if arr else 0)
    if extra[0] == 0:
        return True
    for k, i, enc, cls, hp, r, c in extra[1]:
        if hp and not (r < rows and c < cols):
            return False
        if not hp and rows * cols < _n_registered(inp) + len(extra[1]):
            return False
    return True


def shrink_builders(inp):
    for cand in _shrink_builders(inp):
        if _in_domain(cand):
            yield cand


def _shrink_builders(inp):
    arr, reg, extra = inp
    if len(arr) > 1:
        for i in range(len(arr)):
            yield [arr[:i] + arr[i + 1:], reg, extra]
    if arr and len(arr[0]) > 1:
        for j in range(len(arr[0])):
            yield [[row[:j] + row[j + 1:] for row in arr], reg, extra]
    if extra[0] == 1:
        yield [arr, reg, [0]]
        for i in range(len(extra[1])):
            yield [arr, reg, [1, extra[1][:i] + extra[1][i + 1:]]]
    for i in range(len(reg)):
        yield [arr, reg[:i] + reg[i + 1:], extra]


def known_reserved_zero(inp, out, entry):
    return entry.get("id") == "C18-reserved-zero" and any(k == S("0") for k, *_ in inp[1])


def _repro(fn):
    def repro(inp):
        from . import sx
        return ("PYTHONPATH=<verif>:/repo PYTHONHASHSEED=0 /venv/bin/python -c \"from harness import "
                "gen_C18, sx; print(gen_C18.%s(sx.loads('%s')))\"" % (fn, sx.dumps(inp)))
    return repro


COMPONENTS = [
    Component(1801, "four_builders", impl_builders, gen_builders, chk=1802,
              nontrivial=nontrivial_builders, classify=classify_builders, shrink=shrink_builders,
              known=known_reserved_zero, repro=_repro("impl_builders")),
    Component(1803, "text_file", impl_file, gen_file, chk=1804,
              nontrivial=lambda i, o: True, classify=classify_file, known=known_reserved_zero,
              repro=_repro("impl_file")),
    Component(1805, "explicit_grid", impl_grid, gen_grid, chk=1806,
              nontrivial=lambda i, o: True, classify=classify_grid, repro=_repro("impl_grid")),
]
