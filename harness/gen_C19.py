"""C19: configuration validation, overlap symmetry and Box membership of /repo's real code vs
Grid/Validate.v, Grid/Overlap.v, Spaces/BoxMem.v.

Python values travel as tagged integer lists (Spaces/PyVal.v):
  (0) None (1 b) bool (2 z) int (3 n) float n/1024 (4 k) nan/+inf/-inf (5 c) str
  (6 z) np.int64 (7 n) np.float64 (8 b) np.bool_ (9 (kind bits) shape vals) ndarray
  (10 (..)) list (11 (..)) tuple (12 (..)) set (13 ((k v)..)) dict (14 c) agent with id str c
"""
from . import envshim  # noqa: F401
import itertools
import math
import numpy as np
from .runner import Component, exc_code

PROP = "C19"
RULE = ("validate: (attribute, parameter, value) with the value drawn from a pool of Python values "
        "of every kind (None, bool, int, float incl. nan/inf, str, numpy scalars, ndarrays of several "
        "dtypes/shapes, list, tuple, set, dict, agent objects), boundary and reserved values, fed to "
        "the real constructor AND the real setter (finalize for null points); overlap: every table "
        "over encodings 1..3 with int or set values and absent keys (1728, exhaustive) plus random "
        "tables over wider encodings, key orders and malformed tables, each with all single-occupant "
        "query pairs and multi-occupant cells through the real Grid; box: int64/int32/float32/"
        "float64 Boxes of shapes (), (1,), (2,), (3,), (2,2), (1,1) x scalars, lists, tuples, nested "
        "and ragged sequences, numpy scalars, ndarrays of 13 dtypes, values on/next to/outside the "
        "bounds in 1/1024 steps. non-trivial = validate: value of the attribute's own type family "
        "or a boundary value; overlap: accepted table with at least one entry; box: candidate of "
        "the Box's shape. distinct = distinct wire inputs")
ASSUMPTIONS = [
    "floats are dyadic rationals n/1024 with |n| < 2^52 (exact in binary64); float32/float16 "
    "ndarrays only hold values exact in their dtype; sequences offered to float32 Boxes are either "
    "exact in binary32 or far outside the bounds; integer overflow of numpy dtypes is outside the "
    "model",
    "strings are opaque codes; numeric-looking strings ('3'), which numpy would parse, are outside "
    "the model",
    "object/str ndarrays are represented without their contents (only np.array([None,..]) is used)",
    "a null point that Python treats as false counts as 'no null point supplied' (the package-wide "
    "`if agent.null_action:` idiom) and is accepted unchecked; the model mirrors that",
    "gymnasium's Discrete.contains and numpy's can_cast/asarray are taken as given semantics",
]
TICK = 1024

MARKERS = ['o', 'v', '^', '<', '>', '1', '2', '3', '4', '8', 's', 'p',
           'P', '*', 'h', 'H', '+', 'x', 'X', 'D', 'd']
# numeric-looking markers ('1','2','3','4','8') are only used where no numpy parsing happens
STR_OF = {0: "", 1: "FULL", 2: "full", 3: "a", 4: "a0", 5: "agent", 6: "Full", 7: "FULL ", 8: "a1",
          9: "a2"}
for _i, _m in enumerate(MARKERS):
    STR_OF[10 + _i] = _m
CODE_OF = {v: k for k, v in STR_OF.items()}

DTYPES = {(0, 8): np.bool_, (1, 8): np.int8, (1, 16): np.int16, (1, 32): np.int32, (1, 64): np.int64,
          (2, 8): np.uint8, (2, 16): np.uint16, (2, 32): np.uint32, (2, 64): np.uint64,
          (3, 16): np.float16, (3, 32): np.float32, (3, 64): np.float64, (4, 0): object}


class _Sim:
    pass


def to_py(w, gw=False):
    """wire -> real Python value (fresh objects every call: setters mutate their argument);
    gw: agent objects are GridWorldAgents instead of PrincipleAgents"""
    t = w[0]
    if t == 0:
        return None
    if t == 1:
        return bool(w[1])
    if t == 2:
        return int(w[1])
    if t == 3:
        return w[1] / TICK
    if t == 4:
        return [float("nan"), float("inf"), float("-inf")][w[1]]
    if t == 5:
        return STR_OF[w[1]]
    if t == 6:
        return np.int64(w[1])
    if t == 7:
        return np.float64(w[1] / TICK)
    if t == 8:
        return np.bool_(bool(w[1]))
    if t == 9:
        dt = DTYPES[tuple(w[1])]
        shape = tuple(w[2])
        if dt is object:
            a = np.empty(shape, dtype=object)
            return a
        a = np.array([v / TICK for v in w[3]], dtype=np.float64).reshape(shape).astype(dt)
        back = [int(round(float(x) * TICK)) for x in a.flatten()]
        assert back == list(w[3]), ("value not exact in dtype", w)
        return a
    if t == 10:
        return [to_py(x, gw) for x in w[1]]
    if t == 11:
        return tuple(to_py(x, gw) for x in w[1])
    if t == 12:
        return set(to_py(x, gw) for x in w[1])
    if t == 13:
        return {to_py(k, gw): to_py(v, gw) for k, v in w[1]}
    if t == 14:
        if gw:
            from abmarl.sim.gridworld.agent import GridWorldAgent
            return GridWorldAgent(id=STR_OF[w[1]], encoding=1)
        from abmarl.sim import PrincipleAgent
        return PrincipleAgent(id=STR_OF[w[1]])
    raise ValueError(w)


# ---- wire constructors -------------------------------------------------------------------
def wN():
    return [0]


def wB(b):
    return [1, int(b)]


def wI(z):
    return [2, int(z)]


def wF(n):   # n / 1024
    return [3, int(n)]


def wX(k):
    return [4, k]


def wS(s):
    return [5, CODE_OF[s]]


def wNI(z):
    return [6, int(z)]


def wNF(n):
    return [7, int(n)]


def wNB(b):
    return [8, int(b)]


def wA(kind, bits, shape, vals):
    return [9, [kind, bits], list(shape), [int(v) for v in vals]]


def wL(items):
    return [10, list(items)]


def wT(items):
    return [11, list(items)]


def wSet(items):
    items = sorted(items, key=repr)
    out = []
    for x in items:
        if x not in out:
            out.append(x)
    return [12, out]


def wD(pairs):
    return [13, [[k, v] for k, v in pairs]]


def wAg(s):
    return [14, CODE_OF[s]]


def run_code(f):
    try:
        f()
        return 0
    except Exception as e:  # noqa: BLE001
        return exc_code(e)


# ============================================================ validators ====================
def _agents_with(encs):
    from abmarl.sim.gridworld.agent import GridWorldAgent, AttackingAgent
    ags = {}
    for i, e in enumerate(encs):
        ags[f"g{i}"] = AttackingAgent(id=f"g{i}", encoding=e, attack_range=1, attack_strength=1,
                                      attack_accuracy=1, initial_position=np.array([0, i % 3]))
    if not ags:
        ags["g"] = GridWorldAgent(id="g", encoding=99)
    return ags


def _space(param):
    from abmarl.tools.gym_utils import Box
    from gymnasium.spaces import Discrete
    if param[0] == 0:
        return Discrete(param[1])
    return _mk_box(param[1])


def _mk_box(wb):
    from abmarl.tools.gym_utils import Box
    (kind, bits), shape, lo, hi = wb
    dt = DTYPES[(kind, bits)]
    shape = tuple(shape)
    if kind == 1:
        assert all(v % TICK == 0 for v in lo + hi)
        low = np.array([v // TICK for v in lo], dtype=dt).reshape(shape)
        high = np.array([v // TICK for v in hi], dtype=dt).reshape(shape)
    else:
        low = np.array([v / TICK for v in lo], dtype=dt).reshape(shape)
        high = np.array([v / TICK for v in hi], dtype=dt).reshape(shape)
    b = Box(low=low, high=high, shape=shape, dtype=dt)
    assert b.shape == shape and b.dtype == np.dtype(dt)
    assert [float(x) * TICK for x in np.asarray(b.low).flatten()] == [float(v) for v in lo]
    assert [float(x) * TICK for x in np.asarray(b.high).flatten()] == [float(v) for v in hi]
    return b


def impl_validate(inp):
    """runs the constructor path and the setter path; both must agree"""
    from abmarl.sim import PrincipleAgent, ActingAgent, ObservingAgent, AgentBasedSimulation
    from abmarl.sim.gridworld.agent import (GridWorldAgent, GridObservingAgent, MovingAgent,
                                            AttackingAgent, AmmoAgent, OrientationAgent)
    from abmarl.sim.gridworld.grid import Grid
    code, param, w = inp
    v = lambda: to_py(w)  # noqa: E731
    GA = dict(id="a", encoding=1)
    AT = dict(id="a", encoding=1, attack_range=1, attack_strength=1, attack_accuracy=1)

    def both(ctor, setter):
        c1, c2 = run_code(ctor), run_code(setter)
        return [c1] if c1 == c2 else [-2, c1, c2]

    def attr(cls, name, base):
        kw = dict(base)
        kw.pop(name, None)
        return both(lambda: cls(**{**kw, name: v()}),
                    lambda: setattr(cls(**base), name, v()))

    if code == 1:
        return attr(PrincipleAgent, "id", dict(id="a"))
    if code == 2:
        return attr(PrincipleAgent, "seed", dict(id="a"))
    if code == 3:
        return [run_code(lambda: setattr(PrincipleAgent(id="a"), "active", v()))]
    if code == 4:
        return attr(GridWorldAgent, "encoding", GA)
    if code == 5:
        return attr(GridWorldAgent, "initial_position", GA)
    if code == 6:
        return attr(GridWorldAgent, "blocking", GA)
    if code == 7:
        return attr(GridWorldAgent, "render_shape", GA)
    if code == 8:
        return attr(GridWorldAgent, "render_size", GA)
    if code == 9:
        return [run_code(lambda: setattr(GridWorldAgent(**GA), "health", v()))]
    if code == 10:
        return attr(GridWorldAgent, "initial_health", GA)
    if code == 11:
        return attr(GridObservingAgent, "view_range", dict(GA, view_range=1))
    if code == 12:
        return attr(MovingAgent, "move_range", dict(GA, move_range=1))
    if code == 13:
        return attr(AttackingAgent, "attack_range", AT)
    if code == 14:
        return attr(AttackingAgent, "attack_strength", AT)
    if code == 15:
        return attr(AttackingAgent, "attack_accuracy", AT)
    if code == 16:
        return attr(AttackingAgent, "simultaneous_attacks", AT)
    if code == 17:
        return attr(AmmoAgent, "initial_ammo", dict(GA, initial_ammo=1))
    if code == 18:
        return [run_code(lambda: setattr(AmmoAgent(**dict(GA, initial_ammo=1)), "ammo", v()))]
    if code == 19:
        return [run_code(lambda: setattr(OrientationAgent(**GA), "orientation", v()))]
    if code == 20:
        return attr(OrientationAgent, "initial_orientation", GA)
    if code == 21:
        class Sim(AgentBasedSimulation):
            def reset(self, **kw): pass
            def step(self, action, **kw): pass
            def render(self, **kw): pass
            def get_obs(self, agent_id, **kw): pass
            def get_reward(self, agent_id, **kw): pass
            def get_done(self, agent_id, **kw): pass
            def get_all_done(self, **kw): pass
            def get_info(self, agent_id, **kw): pass
        from abmarl.sim.gridworld.base import GridWorldSimulation

        class GSim(GridWorldSimulation):
            def reset(self, **kw): pass
            def step(self, action, **kw): pass
            def render(self, **kw): pass
            def get_obs(self, agent_id, **kw): pass
            def get_reward(self, agent_id, **kw): pass
            def get_done(self, agent_id, **kw): pass
            def get_all_done(self, **kw): pass
            def get_info(self, agent_id, **kw): pass
        cs = [run_code(lambda: Sim(agents=v())),
              run_code(lambda: setattr(Sim(agents={"a": PrincipleAgent(id="a")}), "agents", v())),
              run_code(lambda: GSim(agents=v(), grid=Grid(2, 2))),
              run_code(lambda: setattr(GSim(agents={"a": PrincipleAgent(id="a")}, grid=Grid(2, 2)),
                                       "agents", v()))]
        return [cs[0]] if len(set(cs)) == 1 else [-2] + cs
    if code == 30:
        from abmarl.sim.gridworld.state import PositionState
        from abmarl.sim.gridworld.done import ActiveDone
        gv = lambda: to_py(w, gw=True)  # noqa: E731
        ok = {"a": GridWorldAgent(id="a", encoding=1)}
        cs = [run_code(lambda: PositionState(agents=gv(), grid=Grid(2, 2))),
              run_code(lambda: setattr(PositionState(agents=dict(ok), grid=Grid(2, 2)), "agents", gv())),
              run_code(lambda: ActiveDone(agents=gv(), grid=Grid(2, 2)))]
        return [cs[0]] if len(set(cs)) == 1 else [-2] + cs
    if code == 22:
        return [run_code(lambda: Grid(v(), 2))]
    if code == 23:
        return [run_code(lambda: Grid(2, v()))]
    if code in (24, 25, 26, 27):
        from abmarl.sim.gridworld.actor import BinaryAttackActor, EncodingBasedAttackActor
        from abmarl.sim.gridworld.done import TargetEncodingInactiveDone
        from abmarl.sim.gridworld.state import TargetBarriersFreePlacementState, MazePlacementState
        encs = list(param)

        def env():
            ags = _agents_with(encs)
            return dict(agents=ags, grid=Grid(3, 3))
        if code == 24:
            def setter():
                a = BinaryAttackActor(attack_mapping={}, **env())
                a.attack_mapping = v()
            return both(lambda: BinaryAttackActor(attack_mapping=v(), **env()), setter)
        if code == 25:
            def setter():
                d = TargetEncodingInactiveDone(target_mapping={}, **env())
                d.target_mapping = v()
            return both(lambda: TargetEncodingInactiveDone(target_mapping=v(), **env()), setter)
        name = "barrier_encodings" if code == 26 else "free_encodings"

        def ctor():
            e = env()
            TargetBarriersFreePlacementState(target_agent=next(iter(e["agents"])), **{name: v()}, **e)

        def setter():
            e = env()
            s = MazePlacementState(target_agent=next(iter(e["agents"])), **e)
            setattr(s, name, v())
        return both(ctor, setter)
    def via_sim(agent):
        # the usual way an agent gets finalized: through its simulation's finalize()
        from abmarl.sim import AgentBasedSimulation

        class OneAgentSim(AgentBasedSimulation):
            def __init__(self, ag):
                self.agents = {ag.id: ag}

            def reset(self, **kw): pass
            def step(self, action_dict, **kw): pass
            def render(self, **kw): pass
            def get_obs(self, agent_id, **kw): return None
            def get_reward(self, agent_id, **kw): return 0
            def get_done(self, agent_id, **kw): return False
            def get_all_done(self, **kw): return False
            def get_info(self, agent_id, **kw): return {}
        OneAgentSim(agent).finalize()
    if code == 28:
        return both(lambda: ActingAgent(id="a", action_space=_space(param), null_action=v()).finalize(),
                    lambda: via_sim(ActingAgent(id="a", action_space=_space(param), null_action=v())))
    if code == 29:
        return both(lambda: ObservingAgent(id="a", observation_space=_space(param),
                                           null_observation=v()).finalize(),
                    lambda: via_sim(ObservingAgent(id="a", observation_space=_space(param),
                                                   null_observation=v())))
    raise ValueError(code)


def scalar_pool():
    p = [wN(), wB(True), wB(False)]
    p += [wI(z) for z in (-3, -2, -1, 0, 1, 2, 3, 4, 5, 7, 200)]
    p += [wF(n) for n in (0, 512, 1024, 1536, 2048, 3072, 4096, 5120, -512, -1024, -2048, 1, -1,
                          1023, 1025, 4097, 2560)]
    p += [wX(0), wX(1), wX(2)]
    p += [wS(s) for s in ("", "FULL", "full", "Full", "FULL ", "a", "a0", "o", "X", "d")]
    p += [wNI(z) for z in (-1, 0, 1, 2, 4, 5)] + [wNF(n) for n in (0, 512, 1024, 2048, 2560)]
    p += [wNB(True), wNB(False)]
    return p


def array_pool():
    p = []
    for kind, bits in ((1, 64), (1, 32), (2, 8), (3, 64), (3, 32), (0, 8)):
        one = 1024
        p.append(wA(kind, bits, [1], [one]))
        p.append(wA(kind, bits, [1], [0]))
        p.append(wA(kind, bits, [2], [one, one]))
        p.append(wA(kind, bits, [2], [0, 0]))
        p.append(wA(kind, bits, [], [one]))
        p.append(wA(kind, bits, [], [0]))
        p.append(wA(kind, bits, [0], []))
        p.append(wA(kind, bits, [1, 1], [one]))
        if kind != 0:
            p.append(wA(kind, bits, [1], [2048]))
            p.append(wA(kind, bits, [1], [5120]))
            p.append(wA(kind, bits, [2], [2048, 3072]))
            p.append(wA(kind, bits, [3], [1024, 2048, 3072]))
    p.append(wA(3, 64, [1], [512]))
    p.append(wA(3, 64, [1], [2560]))
    p.append(wA(3, 64, [2], [512, 1536]))
    p.append(wA(4, 0, [1], [0]))
    p.append(wA(4, 0, [2], [0, 0]))
    return p


def container_pool():
    return [wL([]), wL([wI(1)]), wL([wI(1), wI(2)]), wL([wI(0)]), wT([]), wT([wI(1)]),
            wT([wI(1), wI(2)]), wSet([]), wSet([wI(1)]), wSet([wI(1), wI(2)]), wD([]),
            wD([[wI(1), wI(2)]]), wD([[wS("a"), wAg("a")]]), wAg("a"), wL([wF(512)]),
            wL([wS("a")]), wL([wN()])]


def mapping_pool(rng, encs, n):
    """dict-valued candidates for the mapping setters"""
    inside = list(encs)
    outside = [e for e in (1, 2, 3, 4, 5, 6, 7) if e not in encs][:2] + [0, -1]
    keys = [wI(e) for e in inside] + [wI(e) for e in outside] + \
        [wB(True), wB(False), wF(1024), wF(2048), wF(1536), wS("a"), wN(), wNI(inside[0]),
         wT([wI(inside[0])]), wX(0)]
    def elem():
        r = rng.random()
        if r < 0.7:
            return wI(rng.choice(inside))
        if r < 0.85:
            return wI(rng.choice(outside))
        return rng.choice([wB(True), wB(False), wF(1024), wF(1536), wS("a"), wN(), wNI(inside[-1]),
                           wNF(1024 * inside[0]), wT([]), wX(0)])
    def val():
        r = rng.random()
        if r < 0.35:
            return wI(rng.choice(inside))
        if r < 0.45:
            return wI(rng.choice(outside))
        if r < 0.85:
            return wSet([elem() for _ in range(rng.choice([0, 1, 1, 2, 3]))])
        return rng.choice([wB(True), wN(), wL([wI(inside[0])]), wT([wI(inside[0])]), wF(1024),
                           wS("a"), wD([]), wNI(inside[0])])
    out = []
    for _ in range(n):
        nk = rng.choice([0, 1, 1, 2, 2, 3])
        ks, seen = [], set()
        for _ in range(nk):
            k = rng.choice(keys[:len(inside)]) if rng.random() < 0.75 else rng.choice(keys)
            hk = _hashkey(k)
            if hk in seen:
                continue
            seen.add(hk)
            ks.append(k)
        out.append(wD([[k, val()] for k in ks]))
    return out


def _num(n):
    """Python int when n/1024 is integral, else Python float"""
    return wI(n // TICK) if n % TICK == 0 else wF(n)


def _hashkey(w):
    """Python dict/set identity of a hashable wire value (True == 1 == 1.0)"""
    t = w[0]
    if t in (1, 8):
        return ("n", w[1] * TICK)
    if t in (2, 6):
        return ("n", w[1] * TICK)
    if t in (3, 7):
        return ("n", w[1])
    return ("o", repr(w))


BOX_PARAMS = [
    [0, 3], [0, 1],
    [1, [[1, 64], [1], [1024], [5120]]],
    [1, [[1, 64], [2], [0, -3072], [5120, 2048]]],
    [1, [[3, 32], [2], [-1024, -1024], [1024, 1024]]],
    [1, [[3, 64], [1], [512], [2560]]],
    [1, [[1, 64], [2], [0, 0], [10 ** 6 * 1024, 10 ** 6 * 1024]]],
    [1, [[1, 32], [1], [-10 ** 9 * 1024], [-10 ** 5 * 1024]]],
]


def gen_validate(tier, rng):
    quick = tier != "thorough"
    sp, ap, cp = scalar_pool(), array_pool(), container_pool()
    pool = sp + ap + cp
    for code in range(1, 24):
        for w in pool:
            yield [code, [], w]
    for m in MARKERS:
        yield [7, [], wS(m)]
    # agents dict
    ag = [wD([[wS("a"), wAg("a")]]), wD([[wS("a"), wAg("a0")]]), wD([[wS("a0"), wAg("a")]]),
          wD([[wS("a"), wAg("a")], [wS("a0"), wAg("a0")]]),
          wD([[wS("a"), wAg("a")], [wS("a0"), wAg("a")]]),
          wD([[wS("a"), wAg("a")], [wS("agent"), wS("agent")]]),
          wD([[wI(1), wAg("a")]]), wD([[wS("a"), wI(1)]]), wD([[wS("a"), wN()]]),
          wD([[wN(), wAg("a")]]), wD([[wS(""), wAg("")]]), wD([[wT([wS("a")]), wAg("a")]]),
          wD([[wS("a"), wD([[wS("a"), wAg("a")]])]]), wL([wAg("a")]), wT([wAg("a")]),
          wSet([wS("a")]), wD([[wS("a"), wL([wAg("a")])]]), wD([[wB(True), wAg("a")]]),
          wD([[wS("a"), wAg("a")], [wS("a0"), wAg("a0")], [wS("agent"), wAg("agent")]]),
          wD([[wS("a"), wAg("a")], [wS("a0"), wAg("a0")], [wS("agent"), wAg("a0")]])]
    # keys that are a PERMUTATION of the ids: swap of two, swap beside a fixed point, 3-cycles
    ag += [wD([[wS("a0"), wAg("a1")], [wS("a1"), wAg("a0")]]),
           wD([[wS("a0"), wAg("a0")], [wS("a1"), wAg("a2")], [wS("a2"), wAg("a1")]]),
           wD([[wS("a0"), wAg("a1")], [wS("a1"), wAg("a2")], [wS("a2"), wAg("a0")]]),
           wD([[wS("a0"), wAg("a2")], [wS("a1"), wAg("a0")], [wS("a2"), wAg("a1")]]),
           wD([[wS("a0"), wAg("a0")], [wS("a1"), wAg("a1")], [wS("a2"), wAg("a2")]])]
    # exhaustive: every ordered choice of up to 3 distinct keys x every assignment of ids
    names = ["a0", "a1", "a2"]
    for n in (1, 2, 3):
        for keys in itertools.permutations(names, n):
            for ids in itertools.product(names + ["a"], repeat=n):
                ag.append(wD([[wS(k), wAg(i)] for k, i in zip(keys, ids)]))
    # four agents: random maps, half of them permutations of the ids
    n4 = ["a0", "a1", "a2", "a"]
    for _ in range(60 if quick else 600):
        ids = n4[:]
        rng.shuffle(ids)
        if rng.random() < 0.5:
            ids[rng.randrange(4)] = rng.choice(n4)
        ag.append(wD([[wS(k), wAg(i)] for k, i in zip(n4, ids)]))
    for w in ag:
        yield [21, [], w]
        yield [30, [], w]
    for w in pool:
        yield [30, [], w]
    # mappings
    for encs in ([1, 2, 3], [1, 3, 5], [2], [1, 2, 3, 4]):
        for code in (24, 25, 26, 27):
            for w in sp + cp:
                yield [code, encs, w]
            for w in (wSet([wI(encs[0])]), wSet([wI(e) for e in encs]), wSet([wI(encs[0]), wI(9)]),
                      wSet([wB(True)]), wSet([wF(1024 * encs[0])]), wSet([wF(512)]), wSet([wS("a")]),
                      wSet([wN()]), wSet([wNI(encs[0])]), wSet([wI(encs[0]), wS("a")]),
                      wSet([wT([wI(encs[0])])])):
                yield [code, encs, w]
        n = 150 if quick else 1500
        for code in (24, 25):
            for w in mapping_pool(rng, encs, n):
                yield [code, encs, w]
            # exhaustive: one or two entries over the encodings, int or singleton/pair set values
            e = encs + [9]
            for k in e:
                for a in e:
                    yield [code, encs, wD([[wI(k), wI(a)]])]
                    yield [code, encs, wD([[wI(k), wSet([wI(a)])]])]
                    for b in e:
                        if a < b:
                            yield [code, encs, wD([[wI(k), wSet([wI(a), wI(b)])]])]
            for k1, k2 in itertools.permutations(e[:3] if len(e) > 2 else e, 2):
                for a, b in ((wI(e[0]), wS("a")), (wS("a"), wI(e[0])), (wI(9), wL([])), (wL([]), wI(9)),
                             (wI(k2), wI(k1)), (wSet([wI(k1)]), wI(k1))):
                    yield [code, encs, wD([[wI(k1), a], [wI(k2), b]])]
    # null points
    cands = sp + ap + cp + [wL([wI(z)]) for z in (0, 1, 5, 6)] + [wL([wI(1), wI(1)]), wL([wI(0), wI(0)]),
            wL([wI(5), wI(2)]), wL([wI(5), wI(3)]), wL([wF(512), wF(-512)]), wL([wF(1024), wF(1025)]),
            wT([wI(3)]), wT([wI(0), wI(-3)]), wL([wF(2560)]), wL([wF(5632)]), wL([wF(5120)]),
            wA(1, 64, [2], [5120, 2048]), wA(1, 64, [2], [5120, 3072]), wA(3, 32, [2], [512, -512]),
            wA(3, 64, [2], [512, -512]), wA(1, 64, [1], [3072]), wA(1, 64, [1], [6144]),
            wA(1, 64, [], [2048]), wA(1, 64, [], [3072]), wA(2, 64, [], [1024]), wA(1, 8, [], [2048]),
            wD([[wS("a"), wI(1)]])]
    K = TICK
    big = []
    for a, b in ((250000 * K, 3 * K), (250000 * K + 512, 3 * K), (999999 * K + 512, 10 ** 6 * K),
                 (10 ** 6 * K, 10 ** 6 * K), (10 ** 6 * K + 256, 0), (500000 * K, 500000 * K + 1),
                 (10 ** 6 * K + K, 5 * K), (2 * K + 512, 3 * K), (70000 * K - 512, 70000 * K)):
        for x, y in ((a, b), (b, a)):
            big += [wL([_num(x), _num(y)]), wT([_num(x), _num(y)]), wL([wNF(x), _num(y)])]
            if x % K == 0 and y % K == 0:
                big.append(wA(1, 64, [2], [x, y]))
            big.append(wA(3, 64, [2], [x, y]))
    for x in (-10 ** 9 * K, -10 ** 9 * K + 512, -10 ** 9 * K - 512, -10 ** 5 * K, -10 ** 5 * K - 512,
              -10 ** 5 * K + 512, -5 * 10 ** 8 * K + 256, -5 * 10 ** 8 * K, -3 * 10 ** 6 * K - 1):
        big += [wL([_num(x)]), wT([_num(x)]), wL([wNF(x)]), _num(x), wA(3, 64, [1], [x])]
        if x % K == 0:
            big += [wA(1, 64, [1], [x]), wA(1, 32, [1], [x]), wL([wNI(x // K)])]
    for param in BOX_PARAMS:
        for code in (28, 29):
            for w in cands + big:
                yield [code, param, w]


def nontrivial_validate(inp, out):
    code, _, w = inp
    return w[0] in (1, 2, 3, 5, 9, 12, 13) or out == [0]


ATTR_NAMES = {1: "id", 2: "seed", 3: "active", 4: "encoding", 5: "initial_position", 6: "blocking",
              7: "render_shape", 8: "render_size", 9: "health", 10: "initial_health",
              11: "view_range", 12: "move_range", 13: "attack_range", 14: "attack_strength",
              15: "attack_accuracy", 16: "simultaneous_attacks", 17: "initial_ammo", 18: "ammo",
              19: "orientation", 20: "initial_orientation", 21: "agents", 22: "grid_rows",
              23: "grid_cols", 24: "attack_mapping", 25: "target_mapping", 26: "barrier_encodings",
              27: "free_encodings", 28: "null_action", 29: "null_observation",
              30: "component_agents"}
OUT_NAMES = {"(0)": "accepted", "(1)": "AssertionError", "(6)": "ValueError", "(7)": "TypeError"}


def _permuted_agents(w):
    """an agents dict whose key set equals the id set although some key is not its agent's id"""
    if w[0] != 13 or not all(k[0] == 5 and a[0] == 14 for k, a in w[1]):
        return False
    return (sorted(k[1] for k, _ in w[1]) == sorted(a[1] for _, a in w[1])
            and any(k[1] != a[1] for k, a in w[1]))


def classify_validate(inp, out):
    extra = "/keys-permute-ids" if inp[0] in (21, 30) and _permuted_agents(inp[2]) else ""
    return ATTR_NAMES[inp[0]] + extra + "/" + OUT_NAMES.get(out, "other:" + out)


# ============================================================ overlap =======================
def impl_overlap(inp):
    from abmarl.sim.gridworld.grid import Grid
    from abmarl.sim.gridworld.agent import GridWorldAgent
    tbl, univ, queries = inp[:3]
    alias = len(inp) > 3 and inp[3]

    def table():
        t = to_py(tbl)
        if alias and type(t) is dict:
            # the same table, but equal set values are ONE shared set object (a caller who writes
            # s = {3}; overlapping = {1: s, 2: s}): the relation supplied is the same
            seen = {}
            for k, v in list(t.items()):
                if type(v) is set:
                    t[k] = seen.setdefault(frozenset(v), v)
        return t
    try:
        g = Grid(2, 2, overlapping=table())
    except Exception as e:  # noqa: BLE001
        c1 = [exc_code(e)]
        g = None
    g2 = Grid(2, 2)
    try:
        g2.overlapping = table()
        c2 = [0]
    except Exception as e:  # noqa: BLE001
        c2 = [exc_code(e)]
    if g is None:
        return c1 if c1 == c2 else [-2, c1, c2]
    if c2 != [0] or g.overlapping != g2.overlapping:
        return [-2, [0], c2]
    ov = g.overlapping
    assert type(ov) is dict and all(type(s) is set for s in ov.values())
    counts = [len(ov), sum(len(s) for s in ov.values())]
    matrix = [[int(b in ov.get(a, ())) for b in univ] for a in univ]
    g.reset()
    results = []
    for a, occ in queries:
        g[0, 1].clear()
        for i, e in enumerate(occ):
            ag = GridWorldAgent(id=f"o{i}", encoding=e)
            g[0, 1][ag.id] = ag
        me = GridWorldAgent(id="me", encoding=a)
        r = g.query(me, (0, 1))
        assert r is True or r is False
        # the same question asked through place(): a successful placement is exactly an available cell
        before = dict(g[0, 1])
        placed = g.place(me, np.array([0, 1]))
        assert placed == r
        if placed:
            g.remove(me, (0, 1))
        assert dict(g[0, 1]) == before
        results.append(int(r))
    return [0, counts, matrix, results]


def _queries(univ, rng=None, extra=0):
    valid = [e for e in univ if e not in (0, -1, -2)]
    qs = [[a, []] for a in valid[:1]]
    qs += [[a, [b]] for a in valid for b in valid]
    qs += [[a, [b, c]] for a in valid for b, c in itertools.combinations(valid, 2)]
    if rng is not None:
        for _ in range(extra):
            qs.append([rng.choice(valid), [rng.choice(valid) for _ in range(rng.choice([2, 3, 4]))]])
    return qs


def _mentioned(tbl):
    out = set()
    if tbl[0] == 13:
        for k, v in tbl[1]:
            if k[0] == 2:
                out.add(k[1])
            if v[0] == 2:
                out.add(v[1])
            if v[0] == 12:
                out.update(e[1] for e in v[1] if e[0] == 2)
    return out


def gen_overlap(tier, rng):
    quick = tier != "thorough"
    yield [wN(), [1, 2], _queries([1, 2])]
    yield [wD([]), [1, 2], _queries([1, 2])]
    # exhaustive: keys subset of {1,2,3}; value int in 1..3 or set subset of {1,2,3}
    E = [1, 2, 3]
    opts = [None] + [wI(e) for e in E] + \
        [wSet([wI(e) for e in s]) for r in range(4) for s in itertools.combinations(E, r)]
    univ = [1, 2, 3, 4]
    qs = _queries(univ)
    for combo in itertools.product(opts, repeat=3):
        pairs = [[wI(k), v] for k, v in zip(E, combo) if v is not None]
        yield [wD(pairs), univ, qs]
    # random: wider encodings, reserved and negative values, key orders
    n = 1500 if quick else 20000
    for _ in range(n):
        pool = rng.choice([[1, 2, 3, 4], [1, 2, 3, 4], [2, 5, 7, 11], [1, 2, 3, 4, 5, 6], [-3, 1, 2, 300],
                           [0, -1, 1, 2], [1, 2, 3, 4, -2]])
        ks = rng.sample(pool, rng.randint(0, len(pool)))
        pairs = []
        for k in ks:
            if rng.random() < 0.3:
                v = wI(rng.choice(pool))
            else:
                v = wSet([wI(e) for e in rng.sample(pool, rng.randint(0, min(4, len(pool))))])
            pairs.append([wI(k), v])
        univ = sorted(set(pool) | {9})
        yield [wD(pairs), univ, _queries(univ, rng, extra=4)]
        if rng.random() < 0.3:
            yield [wD(pairs), univ, _queries(univ, rng, extra=4), 1]
    # aliased set values: two keys share one set object
    for a, b, c in itertools.permutations([1, 2, 3, 4], 3):
        yield [wD([[wI(a), wSet([wI(c)])], [wI(b), wSet([wI(c)])], [wI(4 if 4 not in (a, b, c) else 9), wSet([wI(a)])]]),
               [1, 2, 3, 4, 9], _queries([1, 2, 3, 4, 9]), 1]
    # malformed tables
    good = [[wI(3), wSet([wI(2)])]]
    bad_tables = [wL([]), wT([]), wSet([wI(1)]), wI(1), wS("a"), wB(True), wF(1024),
                  wL([wL([wI(1), wI(2)])]), wA(1, 64, [1], [1024])]
    bad_keys = [wB(True), wS("a"), wF(1024), wN(), wNI(1), wT([wI(1)]), wF(1536)]
    bad_vals = [wB(True), wN(), wF(1024), wS("a"), wL([wI(2)]), wT([wI(2)]), wD([]), wNI(2),
                wD([[wI(2), wI(2)]]), wA(1, 64, [1], [2048])]
    bad_elems = [wB(True), wF(2048), wS("a"), wN(), wNI(2), wT([wI(2)]), wT([])]
    univ = [1, 2, 3, 9]
    qs = _queries(univ)
    for t in bad_tables:
        yield [t, univ, qs]
    for k in bad_keys:
        yield [wD([[k, wI(2)]]), univ, qs]
        yield [wD(good + [[k, wSet([wI(1)])]]), univ, qs]
        yield [wD([[k, wSet([wI(1)])]] + [[wI(2), wI(1)]]), univ, qs]
        yield [wD([[k, wL([])]]), univ, qs]
    for v in bad_vals:
        yield [wD([[wI(1), v]]), univ, qs]
        yield [wD(good + [[wI(2), v]]), univ, qs]
        yield [wD([[wI(2), v]] + good), univ, qs]
        yield [wD([[wI(1), wI(2)], [wI(2), v], [wI(3), wS("a")]]), univ, qs]
        yield [wD([[wI(2), v], [wS("a"), wI(1)]]), univ, qs]
        yield [wD([[wS("a"), wI(1)], [wI(2), v]]), univ, qs]
    for e in bad_elems:
        yield [wD([[wI(1), wSet([e])]]), univ, qs]
        yield [wD([[wI(1), wSet([wI(3), e])]]), univ, qs]
        yield [wD(good + [[wI(2), wSet([e, wI(3)])]]), univ, qs]


def nontrivial_overlap(inp, out):
    return inp[0][0] == 13 and len(inp[0][1]) > 0 and out.startswith("(0 ")


def classify_overlap(inp, out):
    if not out.startswith("(0 "):
        return "rejected/" + OUT_NAMES.get(out, out)
    t = inp[0]
    if t[0] != 13:
        return "accepted/None"
    kinds = {("int" if v[0] == 2 else "set") for _, v in t[1]}
    m = _mentioned(t)
    keys = {k[1] for k, _ in t[1]}
    onesided = any((v[0] == 2 and v[1] not in keys) or
                   (v[0] == 12 and any(e[1] not in keys for e in v[1])) for _, v in t[1])
    return "accepted/%s/%s/keys%d" % ("+".join(sorted(kinds)) or "empty",
                                      "one-sided" if onesided else "two-sided", len(keys))


# ============================================================ box ===========================
def impl_box(inp):
    wb, w = inp
    b = _mk_box(wb)
    x = to_py(w)
    try:
        r = b.contains(x)
    except Exception as e:  # noqa: BLE001
        return [exc_code(e)]
    assert r is True or r is False
    r2 = x in b
    assert r2 == r
    return [0, int(r)]


def _boxes():
    K = 1024
    out = []
    for dt in ([1, 64], [1, 32]):
        out += [[dt, [1], [0], [5 * K]], [dt, [1], [-3 * K], [-1 * K]], [dt, [1], [1 * K], [5 * K]],
                [dt, [2], [0, -3 * K], [5 * K, 2 * K]], [dt, [3], [0, 0, 0], [1 * K, 2 * K, 3 * K]],
                [dt, [2, 2], [0, -1 * K, -2 * K, 1 * K], [1 * K, 1 * K, 2 * K, 1 * K]],
                [dt, [], [0], [5 * K]], [dt, [1, 1], [-2 * K], [2 * K]], [dt, [1], [2 * K], [2 * K]]]
    for dt in ([3, 32], [3, 64]):
        out += [[dt, [1], [0], [5 * K]], [dt, [1], [-512], [512]], [dt, [1], [512], [2560]],
                [dt, [2], [0, -3 * K], [5 * K, 2 * K + 512]], [dt, [3], [-K, -K, -K], [K, K, K]],
                [dt, [2, 2], [0, -512, -2 * K, K], [K, 512, 2 * K, K]],
                [dt, [], [-512], [5 * K]], [dt, [1, 1], [-2 * K], [2 * K]]]
    return out


def _big_boxes():
    """integer Boxes with large bounds (10^5 .. 10^9, also negative), and float64 ones"""
    K = 1024
    out = []
    for dt in ([1, 64], [1, 32]):
        out += [[dt, [1], [0], [10 ** 5 * K]], [dt, [2], [0, 0], [10 ** 6 * K, 10 ** 6 * K]],
                [dt, [2], [-50 * K, 0], [50 * K, 70000 * K]],
                [dt, [3], [-3 * 10 ** 6 * K] * 3, [3 * 10 ** 6 * K] * 3],
                [dt, [1], [-10 ** 9 * K], [-10 ** 5 * K]],
                [dt, [2], [10 ** 5 * K, -10 ** 9 * K], [10 ** 9 * K, 10 ** 9 * K]]]
    out += [[[1, 64], [1], [-10 ** 12 * K], [10 ** 12 * K]],
            [[3, 64], [2], [0, -10 ** 6 * K], [10 ** 6 * K + 512, 10 ** 6 * K]],
            [[3, 64], [1], [-10 ** 9 * K - 256], [-10 ** 5 * K]]]
    return out


def gen_box_big(tier, rng):
    """large magnitudes: every component on / one step inside / one step outside its bounds and
    in the middle, with fractions 0, +-1/2, +-1/4, +-1/1024, as list, tuple, numpy scalars inside
    a list, Python scalar, float64 / int64 / int32 ndarray"""
    quick = tier != "thorough"
    K = TICK
    for wb in _big_boxes():
        (kind, bits), shape, lo, hi = wb
        size = len(lo)
        for i in range(size):
            mid = (lo[i] + hi[i]) // 2 // K * K
            bases = sorted({lo[i], lo[i] + K, mid, hi[i] - K, hi[i], lo[i] - K, hi[i] + K,
                            lo[i] // 2 // K * K, hi[i] // 2 // K * K})
            for b in bases:
                for fr in (0, 512, -512, 256, -256, 1, -1):
                    n = b + fr
                    others = [rng.choice([lo[j], hi[j], (lo[j] + hi[j]) // 2 // K * K,
                                          rng.randrange(lo[j] // K, hi[j] // K + 1) * K])
                              for j in range(size)]
                    vals = list(others)
                    vals[i] = n
                    lst = [_num(v) for v in vals]
                    yield [wb, wL(lst)]
                    yield [wb, wT(lst)]
                    if size == 1:
                        yield [wb, _num(n)]
                        yield [wb, wNF(n)]
                    if fr in (0, 512, 1) or not quick:
                        yield [wb, wL([wNF(v) if j == i else _num(v) for j, v in enumerate(vals)])]
                        yield [wb, wL([wF(v) for v in vals])]
                        yield [wb, wA(3, 64, shape, vals)]
                        if all(v % K == 0 for v in vals):
                            yield [wb, wA(1, 64, shape, vals)]
                            if all(abs(v // K) < 2 ** 31 for v in vals):
                                yield [wb, wA(1, 32, shape, vals)]
                            yield [wb, wL([wNI(v // K) for v in vals])]


def _near(lo, hi, integral_only=False):
    """values on, next to and outside [lo, hi] (ticks)"""
    K = 1024
    vs = {lo, hi, lo - K, hi + K, lo + K, hi - K, (lo + hi) // 2 // K * K, 0}
    if not integral_only:
        vs |= {lo - 1, lo + 1, hi - 1, hi + 1, lo - 512, lo + 512, hi - 512, hi + 512, lo - 1023,
               hi + 1023, hi + 1025, lo - 1025, -512, 512}
    return sorted(vs)


def _leaf(n, rng, allow_np=True):
    """one wire number with value n/1024"""
    if n % TICK == 0:
        z = n // TICK
        c = [wI(z), wI(z), wF(n)] + ([wNI(z), wNF(n)] if allow_np else [])
        if z in (0, 1):
            c += [wB(bool(z))] + ([wNB(bool(z))] if allow_np else [])
        return rng.choice(c)
    return rng.choice([wF(n)] + ([wNF(n)] if allow_np else []))


def _nest(leaves, shape):
    """arrange a flat list of wire leaves into a nested wire list of the given shape"""
    if not shape:
        return leaves[0]
    step = 1
    for d in shape[1:]:
        step *= d
    return wL([_nest(leaves[i * step:(i + 1) * step], shape[1:]) for i in range(shape[0])])


ARR_DT = [(0, 8), (1, 8), (1, 16), (1, 32), (1, 64), (2, 8), (2, 16), (2, 32), (2, 64),
          (3, 16), (3, 32), (3, 64)]


def _fits(kind, bits, n):
    if kind == 0:
        return n in (0, TICK)
    if kind in (1, 2):
        if n % TICK:
            return False
        z = n // TICK
        return (0 <= z < 2 ** min(bits, 40)) if kind == 2 else (abs(z) < 2 ** min(bits - 1, 40))
    if bits == 16:
        return n % 8 == 0 and abs(n) < 16 * TICK
    if bits == 32:
        return abs(n) < 2 ** 24
    return abs(n) < 2 ** 52


def gen_box(tier, rng):
    quick = tier != "thorough"
    reps = 1 if quick else 6
    # large magnitudes first (a tolerance instead of exact comparison shows only there)
    yield [[[1, 64], [2], [0, 0], [10 ** 6 * TICK, 10 ** 6 * TICK]],
           wL([wF(500000 * TICK + 512), wI(500000)])]
    yield from gen_box_big(tier, rng)
    # the two replays of finding F7: Box(0, 5, (1,), int).contains([5.5]) / ([-0.5])
    b05 = [[1, 64], [1], [0], [5 * TICK]]
    for w in (wL([wF(5632)]), wL([wF(-512)]), wA(3, 64, [1], [5632]), wF(5632), wL([wF(2560)]),
              wT([wF(5632)]), wL([wF(5120)]), wL([wI(5)]), wL([wI(6)])):
        yield [b05, w]
    for wb in _boxes():
        (kind, bits), shape, lo, hi = wb
        size = len(lo)
        isint = kind == 1
        # fixed candidates of every kind
        fixed = [wN(), wB(True), wB(False), wS("a"), wS(""), wX(0), wX(1), wX(2), wL([]), wT([]),
                 wL([wN()]), wL([wS("a")]), wL([wX(0)]), wL([wX(1)]), wL([wX(2)]), wSet([wI(1)]),
                 wD([[wS("a"), wI(1)]]), wL([wSet([wI(1)])]), wL([wI(1), wN()]), wL([wN(), wS("a")]),
                 wL([wS("a"), wN()]), wL([wL([wI(1)]), wL([wI(1), wI(2)])]), wL([wI(1), wL([wI(2)])]),
                 wL([wL([wI(1)]), wI(2)]), wL([wL([]), wL([])]), wL([wL([wN()]), wL([wI(1), wI(2)])]),
                 wA(4, 0, list(shape), [0] * size), wAg("a"), wL([wX(0), wN()]), wL([wN(), wX(0)]),
                 wL([wX(1), wS("a")]), wL([wS("a"), wX(1)])]
        for w in fixed:
            yield [wb, w]
        # scalars
        for n in _near(lo[0], hi[0]):
            for w in ([wF(n), wNF(n)] + ([wI(n // TICK), wNI(n // TICK)] if n % TICK == 0 else [])):
                yield [wb, w]
                yield [wb, wL([w])]
                yield [wb, wT([w])]
                yield [wb, wL([wL([w])])]
        # sequences of the right shape: every component varied over its neighbourhood
        for i in range(size):
            for n in _near(lo[i], hi[i]):
                for _ in range(reps):
                    base = [rng.choice(range(lo[j], hi[j] + 1, TICK if isint else 512))
                            for j in range(size)]
                    base[i] = n
                    leaves = [_leaf(v, rng) for v in base]
                    nested = _nest(leaves, shape)
                    yield [wb, nested]
                    if shape and rng.random() < 0.3:
                        yield [wb, [11, nested[1]]]
                    # the same point as ndarrays of every dtype that can hold it exactly
                    for ak, ab in ARR_DT:
                        if all(_fits(ak, ab, v) for v in base):
                            if quick and rng.random() < 0.5 and (ak, ab) not in ((1, 64), (3, 64), (3, 32), (1, 32)):
                                continue
                            yield [wb, wA(ak, ab, shape, base)]
        # wrong shapes
        for sh in ([], [1], [2], [3], [1, 1], [2, 2], [2, 1], [1, 2], [0], [4]):
            if sh == list(shape):
                continue
            n = 1
            for d in sh:
                n *= d
            vals = [rng.choice([lo[0], hi[0], (lo[0] + hi[0]) // 2 // TICK * TICK]) for _ in range(n)]
            for ak, ab in ((1, 64), (3, 64), (3, 32), (1, 32), (0, 8)):
                if all(_fits(ak, ab, v) for v in vals):
                    yield [wb, wA(ak, ab, sh, vals)]
            if sh and n:
                yield [wb, _nest([_leaf(v, rng) for v in vals], sh)]
        # lists holding arrays
        if len(shape) == 2:
            rows = [wA(3, 64, [shape[1]], [rng.choice(_near(lo[r * shape[1] + c], hi[r * shape[1] + c]))
                                           for c in range(shape[1])]) for r in range(shape[0])]
            yield [wb, wL(rows)]
            rows = [wA(1, 64, [shape[1]], [lo[r * shape[1] + c] // TICK * TICK for c in range(shape[1])])
                    for r in range(shape[0])]
            yield [wb, wL(rows)]
        if len(shape) == 1:
            yield [wb, wL([wA(1, 64, [], [lo[i] // TICK * TICK]) for i in range(size)])]
            yield [wb, wL([wA(3, 64, [], [hi[i] + 512]) for i in range(size)])]
            yield [wb, wL([wA(3, 64, [], [hi[i] // TICK * TICK]) for i in range(size)])]


def _has_fraction(w):
    t = w[0]
    if t in (3, 7):
        return w[1] % TICK != 0
    if t == 9:
        return any(v % TICK for v in w[3])
    if t in (10, 11):
        return any(_has_fraction(x) for x in w[1])
    return False


def known_box(inp, impl_out, entry):
    """finding F7: a candidate that is neither a Python int/float nor an ndarray, holding a
    non-integral component, offered to an integer Box and accepted (its fractional part was
    cut off by np.asarray(x, dtype=int) before the bounds were tested)"""
    if entry.get("id") != "F7":
        return False
    wb, w = inp
    return wb[0][0] in (1, 2) and w[0] not in (2, 3, 4, 9) and impl_out == [0, 1] and _has_fraction(w)


def known_null(inp, impl_out, entry):
    """the same finding seen through finalize: a null point that is a sequence with a fractional
    component is accepted for an integer Box space"""
    if entry.get("id") != "F7":
        return False
    code, param, w = inp
    return (code in (28, 29) and param[0] == 1 and param[1][0][0] in (1, 2) and impl_out == [0]
            and w[0] not in (2, 3, 4, 9) and _has_fraction(w))


def nontrivial_box(inp, out):
    return out in ("(0 1)", "(0 0)") and inp[1][0] in (2, 3, 6, 7, 9, 10, 11)


def classify_box(inp, out):
    wb, w = inp
    kind = {2: "pyint", 3: "pyfloat", 9: "ndarray", 10: "list", 11: "tuple", 6: "npscalar",
            7: "npscalar", 8: "npscalar"}.get(w[0], "other")
    box = ("int" if wb[0][0] == 1 else "float") + str(wb[0][1])
    res = {"(0 1)": "in", "(0 0)": "out"}.get(out, "raises")
    frac = "/frac" if _has_fraction(w) else ""
    return f"{box}/{kind}{frac}/{res}"


def repro_box(inp):
    return ("from harness import gen_C19 as g; b = g._mk_box(%r); x = g.to_py(%r); "
            "print(b, repr(x), b.contains(x))" % (inp[0], inp[1]))


COMPONENTS = [
    Component(1901, "validate", impl_validate, gen_validate, chk=1902,
              nontrivial=nontrivial_validate, classify=classify_validate, known=known_null),
    Component(1903, "overlap", impl_overlap, gen_overlap, chk=1904,
              nontrivial=nontrivial_overlap, classify=classify_overlap),
    Component(1905, "box", impl_box, gen_box, chk=1906, known=known_box,
              nontrivial=nontrivial_box, classify=classify_box, repro=repro_box),
]

# the model sees the table only: whether equal set values are one shared object is not part of it
COMPONENTS[1].split = lambda inp, out: (inp[:3], out)
