"""Scripted simulation (Python twin of coq/Ctl/ScriptSim.v).

script = [kind, n, learn_bits, rows]; row = [done_bits, all, next_agents, accruals]
Row t describes the simulation after t steps; beyond the table the last row repeats.
Rewards follow the accumulate-and-reset discipline.  Every sim.step argument and every
get_reward read is logged.
"""
from . import envshim  # noqa: F401
from gymnasium.spaces import Discrete
from abmarl.sim import (Agent, PrincipleAgent, ObservingAgent, ActingAgent, AgentBasedSimulation,
                        DynamicOrderSimulation)


# One-letter prefixes chosen so that the lexicographic order of the ids differs from the listing
# order of sim.agents for every n >= 2 (a manager that sorts the ids is then told apart from one
# that follows the listing order: seeded/C07-r9-turn-order-sorted-ids).
_PFX = "mdxbqhzfkc"


def aid(i):
    return f"{_PFX[i % 10]}{i}"


def aidx(s):
    return int(s[1:])


def _checksum(x):
    return sum(_checksum(v) for v in x) if isinstance(x, (list, tuple)) else int(x)


class _ScriptMixin:
    def _setup(self, script, obs_space=None, act_space=None):
        kind, n, learn, rows = script
        self.script_n = n
        self.rows = rows
        agents = {}
        for i in range(n):
            if learn[i]:
                agents[aid(i)] = Agent(id=aid(i), observation_space=obs_space or Discrete(100000),
                                       action_space=act_space or Discrete(10))
            else:
                # entities that do not learn come in three kinds: bare, observing only (a sensor),
                # acting only; to every manager, wrapper and adapter they are all "not an agent"
                k = (i + n) % 3
                if k == 0:
                    agents[aid(i)] = PrincipleAgent(id=aid(i))
                elif k == 1:
                    agents[aid(i)] = ObservingAgent(id=aid(i), observation_space=obs_space or Discrete(100000))
                else:
                    agents[aid(i)] = ActingAgent(id=aid(i), action_space=act_space or Discrete(10))
        self.agents = agents
        self.t = 0
        self.pend = [0] * n
        self.steps = []
        self.reads = []
        # two habits of real simulations that are invisible to the models (harness-only variety,
        # chosen by a checksum of the script): done flags as numpy booleans, and agents whose
        # `active` attribute follows their done state and is restored by reset
        fl = (_checksum(rows) + n) % 4
        self.np_bools = bool(fl & 1)
        self.track_active = bool(fl & 2)
        self.finalize()

    def _sync_active(self):
        if self.track_active:
            d = self.row()[0]
            for i in range(self.script_n):
                self.agents[aid(i)].active = not bool(d[i] if i < len(d) else 0)

    def row(self):
        return self.rows[min(self.t, len(self.rows) - 1)]

    def reset(self, **kwargs):
        self.t = 0
        self.pend = [0] * self.script_n
        self._sync_active()
        if isinstance(self, DynamicOrderSimulation):
            self.next_agent = [aid(i) for i in self.row()[2]]

    def step(self, action_dict, **kwargs):
        self.steps.append([[aidx(k), self.log_action(v)] for k, v in action_dict.items()])
        self.t += 1
        acc = self.row()[3]
        for i in range(min(len(acc), self.script_n)):
            self.pend[i] += acc[i]
        self._sync_active()
        if isinstance(self, DynamicOrderSimulation):
            self.next_agent = [aid(i) for i in self.row()[2]]

    def log_action(self, v):
        return int(v)

    def render(self, **kwargs):
        pass

    def get_obs(self, agent_id, **kwargs):
        return self.t * 100 + aidx(agent_id)

    def get_reward(self, agent_id, **kwargs):
        i = aidx(agent_id)
        self.reads.append(i)
        r = self.pend[i]
        self.pend[i] = 0
        return r

    # np_bools: answer with numpy booleans, as a simulation does that computes its done flags with
    # numpy ((pos >= goal).any()); they are truthy/falsy like Python's but `x is True` is False
    np_bools = False

    def _b(self, v):
        if self.np_bools:
            import numpy as np
            return np.bool_(v)
        return v

    def get_done(self, agent_id, **kwargs):
        d = self.row()[0]
        i = aidx(agent_id)
        return self._b(bool(d[i]) if i < len(d) else False)

    def get_all_done(self, **kwargs):
        return self._b(bool(self.row()[1]))

    def get_info(self, agent_id, **kwargs):
        return -(self.t * 100 + aidx(agent_id))


class ScriptSim(_ScriptMixin, AgentBasedSimulation):
    def __init__(self, script, **kw):
        self._setup(script, **kw)


class DynScriptSim(_ScriptMixin, DynamicOrderSimulation):
    def __init__(self, script, **kw):
        self._setup(script, **kw)
        self.next_agent = [aid(i) for i in self.row()[2]]


def random_script(rng, kind, nmax=5, tmax=8, monotone=True, all_learning=False):
    n = rng.randint(1, nmax)
    learn = [1 if (all_learning or rng.random() < 0.75) else 0 for _ in range(n)]
    if not any(learn):
        learn[rng.randrange(n)] = 1
    T = rng.randint(1, tmax)
    never = T + 5
    # done times per agent: simultaneous, staggered, never
    mode = rng.choice(["random", "simul", "never", "early"])
    dts = []
    for i in range(n):
        if mode == "never":
            dts.append(never)
        elif mode == "simul":
            dts.append(dts[0] if dts else rng.randint(1, T))
        elif mode == "early":
            dts.append(rng.choice([0, 1, 1, 2, never]))
        else:
            dts.append(rng.choice([rng.randint(0, T), rng.randint(1, T), never]))
    ft = rng.choice([never, never, rng.randint(1, T), T])
    rows = []
    for t in range(T + 1):
        if monotone:
            done = [1 if t >= dts[i] else 0 for i in range(n)]
        else:
            done = [rng.randint(0, 1) for i in range(n)]
        al = 1 if t >= ft else 0
        live = [i for i in range(n) if not done[i]]
        # nominations (dynamic order): duplicate-free, usually containing a live agent
        k = rng.randint(1, n)
        nx = rng.sample(range(n), k)
        if live and rng.random() < 0.8 and not any(i in live for i in nx):
            nx[rng.randrange(len(nx))] = rng.choice(live)
        acc = [rng.randint(-3, 5) if rng.random() < 0.7 else 0 for _ in range(n)]
        rows.append([done, al, nx, acc])
    return [kind, n, learn, rows]
