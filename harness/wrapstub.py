"""Scripted simulation for the wrapper properties C14 / C20 (extends harness/stubsim.py).

Adds to the scripted simulation of stubsim.py
  * per-agent declared null observations (None = not declared),
  * a `fusion_matrix` keyword in get_obs (the CommunicationHandshakeWrapper passes it); the fused
    observation is  t*100 + a + 10000 * sum(2**s for senders s whose entry is true),
  * a log of every effectful call that reaches this (inner) simulation:
        [0] reset | [1, [[a, v], ...]] step | [2, a] get_obs | [2, a, [[s, bit], ...]] get_obs
        with a fusion matrix | [3, a] get_reward
and a recording proxy that sits between a real manager and a real wrapper, so that the calls a
manager makes become an explicit call list (the model's input).
Done tables are rows of bits, so non-monotone done schedules are just data.
"""
from . import envshim  # noqa: F401
from gymnasium.spaces import Discrete
from abmarl.sim import AgentBasedSimulation, DynamicOrderSimulation
from .stubsim import _ScriptMixin, aid, aidx

OBS_N = 1000000          # inner observation space Discrete(OBS_N)
NULL_BASE = 900000       # declared null observation of agent a: NULL_BASE + a (truthy, in space)


class _WMixin(_ScriptMixin):
    def _wsetup(self, script, nulls=None):
        self._setup(script, obs_space=Discrete(OBS_N), act_space=Discrete(10))
        self.ilog = []
        if nulls:
            for i, v in enumerate(nulls):
                if v and hasattr(self.agents[aid(i)], "null_observation"):
                    self.agents[aid(i)].null_observation = int(v[0])

    def reset(self, **kwargs):
        self.ilog.append([0])
        _ScriptMixin.reset(self, **kwargs)

    def step(self, action_dict, **kwargs):
        self.ilog.append([1, [[aidx(k), int(v)] for k, v in action_dict.items()]])
        _ScriptMixin.step(self, action_dict, **kwargs)

    def get_obs(self, agent_id, fusion_matrix=None, **kwargs):
        i = aidx(agent_id)
        base = self.t * 100 + i
        if fusion_matrix is None:
            self.ilog.append([2, i])
            return base
        fm = [[aidx(k), 1 if v else 0] for k, v in fusion_matrix.items()]
        self.ilog.append([2, i, fm])
        return base + 10000 * sum(2 ** s for s, b in fm if b)

    def get_reward(self, agent_id, **kwargs):
        self.ilog.append([3, aidx(agent_id)])
        return _ScriptMixin.get_reward(self, agent_id, **kwargs)


class WStub(_WMixin, AgentBasedSimulation):
    def __init__(self, script, nulls=None):
        self._wsetup(script, nulls)


class DynWStub(_WMixin, DynamicOrderSimulation):
    def __init__(self, script, nulls=None):
        self._wsetup(script, nulls)
        self.next_agent = [aid(i) for i in self.row()[2]]


SHIFT = 2000000          # observation shift of the intermediate wrapper below


def shift_obs_wrapper(inner):
    """A SARWrapper between the scripted simulation and the wrapper under test: every observation
    o becomes o + SHIFT, the agents' observation spaces and declared null observations are shifted
    likewise (as RavelDiscreteWrapper/FlattenWrapper convert spaces and null points).  A wrapper on
    top must take spaces and null points from THIS layer's agents, not from the innermost ones."""
    from abmarl.sim.wrappers import SARWrapper

    class ShiftObs(SARWrapper):
        def __init__(self, sim):
            super().__init__(sim)
            for a in self.agents.values():
                if hasattr(a, "observation_space"):      # get_obs shifts for every observer
                    a.observation_space = Discrete(OBS_N, start=SHIFT)
                    if type(a.null_observation) is int:
                        a.null_observation = a.null_observation + SHIFT

        def wrap_observation(self, from_agent, observation):
            return observation + SHIFT

        def unwrap_observation(self, from_agent, observation):
            return observation - SHIFT
    return ShiftObs(inner)


def exc_resp(e):
    from .runner import exc_code
    return [9, exc_code(e)]


class Recorder(AgentBasedSimulation):
    """Forwards the AgentBasedSimulation interface to `wrapped` (a real wrapper from /repo) and
    records every call with its answer and the part of the inner log it produced.

    enc_id(agent_id) -> wire form of a wrapper agent id; enc_call/enc_resp are supplied by the
    property module (they know the shapes of actions and observations)."""

    def __init__(self, wrapped, inner, codec):
        self.w = wrapped
        self.inner = inner
        self.codec = codec
        self.agents = wrapped.agents
        self.calls = []
        self.resps = []
        self.decoy = None         # callable: pokes a SECOND instance of the wrapper class (see Decoy)

    def _do(self, call, thunk, kind, agent_id=None, arg=None):
        if self.decoy is not None:
            self.decoy()
        n0 = len(self.inner.ilog)
        try:
            val = thunk()
            r = self.codec.enc_resp(self.w, kind, agent_id, val, arg)
            err = None
        except TimeoutError:
            raise
        except Exception as e:  # recorded, then re-raised to the manager
            val, r, err = None, exc_resp(e), e
        self.calls.append(call)
        item = [r, [list(x) for x in self.inner.ilog[n0:]]]
        if hasattr(self.codec, "snapshot"):
            item += self.codec.snapshot(self.w)      # e.g. the wrapper's tables after the call
        self.resps.append(item)
        if err is not None:
            raise err
        return val

    def reset(self, **kw):
        return self._do([0], lambda: self.w.reset(**kw), 0)

    def step(self, action_dict, **kw):
        return self._do([1, self.codec.enc_actions(self.w, action_dict)],
                        lambda: self.w.step(action_dict, **kw), 1, None, action_dict)

    def render(self, **kw):
        pass

    def get_obs(self, agent_id, **kw):
        return self._do([2, self.codec.enc_id(self.w, agent_id)],
                        lambda: self.w.get_obs(agent_id, **kw), 2, agent_id)

    def get_reward(self, agent_id, **kw):
        return self._do([3, self.codec.enc_id(self.w, agent_id)],
                        lambda: self.w.get_reward(agent_id, **kw), 3, agent_id)

    def get_done(self, agent_id, **kw):
        return self._do([4, self.codec.enc_id(self.w, agent_id)],
                        lambda: self.w.get_done(agent_id, **kw), 4, agent_id)

    def get_info(self, agent_id, **kw):
        return self._do([5, self.codec.enc_id(self.w, agent_id)],
                        lambda: self.w.get_info(agent_id, **kw), 5, agent_id)

    def get_all_done(self, **kw):
        return self._do([6], lambda: self.w.get_all_done(**kw), 6)


class DynRecorder(Recorder, DynamicOrderSimulation):
    """The wrappers are not DynamicOrderSimulations; to put one under the real DynamicOrderManager
    the harness supplies next_agent: the inner nominations translated to wrapper agent ids
    (codec.lift_next), duplicates removed.  This translation is harness code, not /repo code."""

    @property
    def next_agent(self):
        return self.codec.lift_next(self.w, self.inner.next_agent)

    @next_agent.setter
    def next_agent(self, value):
        raise AttributeError("read-only")


class Decoy:
    """A second, independent instance of the wrapper class under test over its own scripted
    simulation, poked before every recorded call on the first one (reset / a step in which everybody
    acts / observations).  Two instances share nothing, so the recorded behaviour must not change;
    state kept on the class or the module instead of the instance makes it change."""

    def __init__(self, wrapper, make_action):
        self.w, self.make_action, self.n = wrapper, make_action, 0

    def __call__(self):
        self.n += 1
        try:
            if self.n % 4 == 1:
                self.w.reset()
            elif self.n % 4 == 3:
                for k in self.w.agents:
                    self.w.get_obs(k)
            else:
                self.w.step({k: self.make_action(self.w, k) for k, a in self.w.agents.items()
                             if hasattr(a, "action_space") and hasattr(a, "observation_space")})
        except TimeoutError:
            raise
        except Exception:
            pass
