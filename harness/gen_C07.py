"""C07: scheduling/fairness/progress clauses over the same manager histories as C01."""
from . import gen_C01
from .runner import Component

PROP = "C07"
RULE = gen_C01.RULE + "; every case runs under a 20 s wall-clock limit (a hang is a TIMEOUT violation)"
ASSUMPTIONS = gen_C01.ASSUMPTIONS + [
    "'every manager call returns' is proved as fuel adequacy of the turn search on the model; a real "
    "hang is runtime behaviour and is caught only by the wall-clock limit of the correspondence run"]

COMPONENTS = [
    Component(101, "managers", gen_C01.impl, gen_C01.gen, chk=702, nontrivial=gen_C01.nontrivial,
              classify=gen_C01.classify, shrink=gen_C01.shrink, timeout=6),
]
COMPONENTS[0].split = gen_C01.split
