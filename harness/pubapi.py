"""Access to the library's objects that does not depend on the NAMES of private attributes.

The correspondence runs must survive a behaviour-preserving clean-up of /repo (a renamed backing
attribute, an extracted helper).  Where the library offers a public way the harness uses it
(agent.position/health/ammo/orientation setters and getters, grid[r, c]); where it does not (the
component sets of a smart simulation have no public accessor) the attribute is found by its CONTENT."""
from . import envshim  # noqa: F401


def pub(obj, name, default=None):
    """A public attribute; `default` when the object has none or it was never set (the library's
    getters raise AttributeError then)."""
    try:
        return getattr(obj, name)
    except AttributeError:
        return default


def _bases():
    from abmarl.sim.gridworld.state import StateBaseComponent
    from abmarl.sim.gridworld.observer import ObserverBaseComponent
    from abmarl.sim.gridworld.done import DoneBaseComponent
    return {"states": StateBaseComponent, "observers": ObserverBaseComponent, "dones": DoneBaseComponent}


def component_attr(sim, kind):
    """Name of the attribute of a smart simulation holding its (non-empty) collection of components
    of the given kind ('states' | 'observers' | 'dones'), found by content; None if there is none."""
    base = _bases()[kind]
    for k, v in vars(sim).items():
        if isinstance(v, (set, frozenset, list, tuple)) and len(v) > 0 and all(isinstance(c, base) for c in v):
            return k
    return None


def components(sim, kind):
    k = component_attr(sim, kind)
    return list(getattr(sim, k)) if k else []


def set_components(sim, kind, comps):
    k = component_attr(sim, kind)
    if k:
        setattr(sim, k, list(comps))


def fix_component_order(sim):
    """The smart simulation keeps its components in Python sets (iteration order = object hashes,
    different for two objects and two processes): give every collection a fixed order so that random
    numbers are consumed alike."""
    for kind in ("states", "observers", "dones"):
        k = component_attr(sim, kind)
        if k:
            setattr(sim, k, sorted(getattr(sim, k), key=lambda c: type(c).__name__))


def cell_array(grid):
    """The object array behind a Grid (no public setter for whole cells exists): found by content."""
    import numpy as np
    return next(v for v in vars(grid).values() if isinstance(v, np.ndarray) and v.dtype == object)


UNSET = object()


def cell_ids(grid, r, c):
    d = grid[r, c]
    return sorted(d.keys()) if d else []
