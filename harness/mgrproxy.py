"""Recording proxy for a real SimulationManager (used by gen_C15 / gen_C16).

The manager object stays the real one (isinstance checks of the adapters and trainers still
hold); its reset/step are shadowed by instance attributes that log every call with its answer
in the wire format of coq/Ctl/ScriptSim.v (enc_call / enc_resp).
"""
from . import envshim  # noqa: F401
import random as pyrandom
from .stubsim import aidx
from . import stubsim


def enc_dict(d, f=int):
    return [[aidx(k), f(v)] for k, v in d.items() if k != "__all__"]


def make_manager(script, randomize=False):
    from abmarl.managers import AllStepManager, TurnBasedManager, DynamicOrderManager
    kind = script[0]
    sim = stubsim.DynScriptSim(script) if kind == 2 else stubsim.ScriptSim(script)
    # a third of the scripts: the LAST agent joins the simulation's agents dictionary only after the
    # manager has been built (before the first reset); the manager works on the simulation's agents
    # as they are when an episode starts
    late = None
    if stubsim._checksum(script[3]) % 3 == 0 and script[1] >= 2:
        late = sim.agents.popitem()
    if kind == 0:
        mgr = AllStepManager(sim, randomize_action_input=bool(randomize))
    elif kind == 1:
        mgr = TurnBasedManager(sim)
    else:
        mgr = DynamicOrderManager(sim)
    if late is not None:
        sim.agents[late[0]] = late[1]
    return sim, mgr


class Recorder:
    """log: list of [call, response]; a shuffle spy is installed while `active()`."""

    def __init__(self, mgr):
        self.mgr = mgr
        self.log = []
        self.shuffles = []
        self.pre_step = None     # optional callback(action_dict) run before every step
        orig_reset, orig_step = mgr.reset, mgr.step

        def rreset(**kw):
            try:
                obs = orig_reset(**kw)
            except AssertionError:
                self.log.append([[0], [2]])
                raise
            except TimeoutError:
                raise
            except BaseException:
                self.log.append([[0], [3]])
                raise
            self.log.append([[0], [0, enc_dict(obs)]])
            return obs

        def rstep(ad, **kw):
            if self.pre_step is not None:
                self.pre_step(ad)
            sub = [[aidx(k), int(v)] for k, v in ad.items()]
            nsh = len(self.shuffles)

            def call():
                return [1, sub, self.shuffles[nsh] if len(self.shuffles) > nsh else sub]
            try:
                obs, rew, done, info = orig_step(ad, **kw)
            except AssertionError:
                self.log.append([call(), [2]])
                raise
            except TimeoutError:
                raise
            except BaseException:
                self.log.append([call(), [3]])
                raise
            self.log.append([call(), [1, enc_dict(obs), enc_dict(rew),
                                      enc_dict(done, lambda b: 1 if b else 0), enc_dict(info),
                                      1 if done["__all__"] else 0]])
            return obs, rew, done, info

        mgr.reset = rreset
        mgr.step = rstep

    def take(self):
        l, self.log = self.log, []
        return l

    def __enter__(self):
        self._orig = pyrandom.shuffle

        def spy(lst):
            self._orig(lst)
            self.shuffles.append([[aidx(k), int(v)] for k, v in lst])
        pyrandom.shuffle = spy
        return self

    def __exit__(self, *a):
        pyrandom.shuffle = self._orig
        return False


def manager_episode_length(script, cap):
    """Number of manager steps a protocol-following caller needs until '__all__'; None when the
    scripted episode does not end within cap steps (the script's last row repeats for ever)."""
    sim, mgr = make_manager(script)
    obs = mgr.reset()
    live = list(obs)
    for j in range(1, cap + 1):
        obs, rew, done, info = mgr.step({a: 0 for a in live})
        if done["__all__"]:
            return j
        live = [a for a in obs if not done[a]]
    return None
