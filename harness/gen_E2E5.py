"""Fifth end-to-end correspondence (supports C01, C03, C08, C12, C16): the REAL PacmanSimSimple of
/repo/abmarl/examples/sim/pacman.py (a SmartGridWorldSimulation: PositionState + OrientationState +
HealthState, AbsoluteEncodingObserver, DriftMoveActor for pacman and for five scripted baddies, the
corridor teleportation, food eaten and pacman killed by overlap) under the REAL AllStepManager (with
and without randomize_action_input), against the extracted composition
`run (pacman_sim cfg) MAll (init s0) calls` of coq/Grid/PacmanSim.v and coq/Ctl/Managers.v.

Boards: the packaged example_grid (21 x 19, 5 baddies, 170 food pellets) and hand-made 11 x 19 boards
that keep what `step` hard-codes: the ids 'pacman' and 'baddie_0' .. 'baddie_4' and the tunnel ends
(9, 0) <-> (9, 18) (a board needs >= 10 rows and >= 19 columns as soon as somebody can reach a tunnel
end).  Pacman plays random actions or is steered (gen_C02.Steer) to the tunnel ends, into food, into
the baddies.

Compared after every manager call: the complete manager output (observation arrays, rewards in units of
1/100, done flags, `__all__`, rejections), the complete snapshot (positions, orientations, health,
active, every cell dictionary) and step_count.  The state after every `sim.reset()` is recorded and
handed to the model as its start-state stream (the board fixes the positions; health of walls and
baddies and all orientations are drawn); the observer's draws are recorded by a spy."""
from . import envshim  # noqa: F401
import os
import random
import numpy as np
from .runner import Component
from . import gridsim as G
from . import pubapi
from .gen_E2E import Spy as _Spy, cents
from .gen_C02 import Steer

HD = G.HD

# On the tree as found the teleport ignores the result of Grid.place: an agent whose destination tunnel
# end holds something it may not overlap is removed from the grid and placed nowhere (still active, in no
# cell; its next move raises KeyError): findings/C03-pacman-blocked-teleport.md.  False: only boards /
# overlap tables on which everything that reaches a tunnel end may overlap everything it can meet there
# are generated, so that the check is green on the tree as found.  Set to True (or
# VERIF_E2E5_BLOCKED=1) once the repair is in /repo; the model is the repaired code.
BLOCKED_TELEPORT = os.environ.get("VERIF_E2E5_BLOCKED", "0") == "1"

EXAMPLE_OV = [[1, [3, 4]], [4, [3, 4]]]
# baddies may not overlap each other (one-sided entry, symmetrised by Grid)
OV_NO_BB = [[1, [3, 4]], [4, [3]]]

W19 = "W" * 19
# hand-made boards, 11 x 19, tunnel row 9.  B are numbered in row-major order.
BOARDS = {
    # 1: open field above the corridor; baddie_2 lives in the corridor with pacman
    1: [W19,
        "WB_F____F_W____F_BW",
        "W_WW_WWW_____W_WW_W",
        "W_F______B_______FW",
        "W_WW_W_WWWWW_W_WW_W",
        "W____W___W___W____W",
        "WWWW_WWW_W_WWW_WWWW",
        "WB_F_____F______FBW",
        "WWWWWWWWW_WWWWWWWWW",
        "__F_P__F____F____F_",
        W19],
    # 2: two baddies in the corridor (baddie_0 runs right at once, baddie_1 left), short trips to both ends
    2: ["WWWWWWWWW_WWWWWWWWW",
        "W__F__B____F__B___W",
        "W_WWWWWWW_WWWWWWW_W",
        "W________B________W",
        "WWWWWWWWW_WWWWWWWWW",
        "___________________",
        "___________________",
        "___________________",
        "WWWWWWWWW_WWWWWWWWW",
        "_FB__F___P___F__BF_",
        W19],
    # 3: pacman next to a tunnel end, food on both ends, baddie_2 at the far end
    3: [W19,
        "WB_______F_______BW",
        "W_WWWWWWWWWWWWWWW_W",
        "W________________BW",
        "W_WWWWWWWWWWWWWWW_W",
        "WB_______________FW",
        "W_WWWWWWWWWWWWWWW_W",
        "W_________________W",
        "WWWWWWWWWWWWWWWWWWW",
        "FP__F_____B_____F_F",
        W19],
    # 4 (blocked teleport only): a wall stands on the tunnel end (9, 18)
    4: [W19,
        "WB_F____F_W____F_BW",
        "W_WW_WWW_____W_WW_W",
        "W_F______B_______FW",
        "W_WW_W_WWWWW_W_WW_W",
        "W____W___W___W____W",
        "WWWW_WWW_W_WWW_WWWW",
        "WB_F_____F______FBW",
        "WWWWWWWWW_WWWWWWWWW",
        "__FP___F____F____FW",
        W19],
}
# (board, table) pairs on which a teleport can be refused
RISKY = [(4, EXAMPLE_OV), (2, OV_NO_BB), (3, OV_NO_BB)]


class Spy(_Spy):
    """as gen_E2E.Spy (uniform: dyadic health draws at reset; choice without size: the observer), plus
    np.random.randint of the OrientationState from the same generator"""

    def randint(self, low, high=None, size=None, dtype=int):
        assert size is None
        if high is None:
            low, high = 0, low
        return self.rng.randrange(int(low), int(high))

    def __enter__(self):
        super().__enter__()
        self._saved["randint"] = np.random.randint
        np.random.randint = self.randint
        return self


def board_array(board):
    from abmarl.examples.sim.pacman import PacmanSimSimple
    if board == 0:
        return np.array(PacmanSimSimple.example_grid)
    return np.array([list(row) for row in BOARDS[board]])


def snapshot(sim):
    ags = []
    for a in sim.agents.values():
        pos = G.pub(a, "position")
        h = G.pub(a, "health", 0)
        ht = int(round(h * HD))
        assert abs(ht - h * HD) < 1e-9, "health is not a multiple of 2^-20"
        o = G.pub(a, "orientation")
        ags.append([a.encoding, [int(pos[0]), int(pos[1])] if pos is not None else [], ht,
                    1 if a.active else 0, [], [int(o)] if o is not None else [], 1 if a.blocking else 0])
    idx = {k: i for i, k in enumerate(sim.agents)}
    cells = []
    for r in range(sim.grid.rows):
        for c in range(sim.grid.cols):
            d = sim.grid[r, c]
            cells.append([idx[k] for k in d.keys()] if d else [])
    return [ags, cells]


def build(inp):
    """-> (sim, mgr, cfg wire, idx).  The simulation class is the packaged PacmanSimSimple; only its
    reset is wrapped to record the state the state components produced."""
    from abmarl.examples.sim.pacman import PacmanSimSimple, PacmanAgent, WallAgent, FoodAgent, BaddieAgent
    from abmarl.managers import AllStepManager
    board, wov, scheme, view, blocking, randomize = inp[:6]

    class RecSim(PacmanSimSimple):
        spy = None
        starts = None

        def reset(self, **kwargs):
            self.spy.mode = "reset"
            try:
                super().reset(**kwargs)
            finally:
                self.spy.mode = "run"
            self.starts.append(snapshot(self))

    registry = {
        "P": lambda n: PacmanAgent(id="pacman", encoding=1, view_range=("FULL" if view < 0 else view)),
        "W": lambda n: WallAgent(id="wall_%d" % n, encoding=2, blocking=bool(blocking) and n % 3 == 0),
        "F": lambda n: FoodAgent(id="food_%d" % n, encoding=3),
        "B": lambda n: BaddieAgent(id="baddie_%d" % n, encoding=4),
    }
    names = ("bad_move", "entropy", "eat_food", "die")
    sim = RecSim.build_sim_from_array(
        board_array(board), registry,
        states={"PositionState", "OrientationState", "HealthState"},
        observers={"AbsoluteEncodingObserver"},
        overlapping={k: set(v) for k, v in wov},
        reward_scheme={n: (v // 100 if v % 100 == 0 else v / 100) for n, v in zip(names, scheme)})
    pubapi.fix_component_order(sim)
    idx = {k: i for i, k in enumerate(sim.agents)}
    mgr = AllStepManager(sim, randomize_action_input=bool(randomize))
    kinds = []
    for a in sim.agents.values():
        if isinstance(a, PacmanAgent):
            kinds.append([2, int(a.view_range)])
        elif isinstance(a, BaddieAgent):
            kinds.append([3, int(a.view_range)])
        elif isinstance(a, FoodAgent):
            kinds.append([1, 0])
        else:
            assert isinstance(a, WallAgent)
            kinds.append([0, 0])
    cfg = [kinds, idx["pacman"], [idx.get("baddie_%d" % k, -1) for k in range(5)], list(scheme)]
    return sim, mgr, cfg, idx


def enc_obs(d, idx):
    out = []
    for k, v in d.items():
        assert list(v.keys()) == ["absolute_encoding"]
        out.append([idx[k], v["absolute_encoding"].tolist()])
    return out


class Aim(Steer):
    """gen_C02.Steer with the goal chosen by the play mode: 1 the tunnel ends (Steer's own choice),
    2 a food pellet still in the grid, 3 the cell of a baddie (followed), 4 one of these per step"""

    def pick(self, mode, rng):
        from abmarl.examples.sim.pacman import FoodAgent, BaddieAgent
        ag = self.sim.agents[self.aid]
        pos = tuple(int(x) for x in ag.position)
        if mode == 2:
            if self.goal is None or self.goal == pos or not self.sim.grid[self.goal]:
                food = [tuple(int(x) for x in a.position) for a in self.sim.agents.values()
                        if isinstance(a, FoodAgent) and a.active]
                near = sorted(food, key=lambda c: abs(c[0] - pos[0]) + abs(c[1] - pos[1]))[:6]
                self.goal = rng.choice(near) if near else None
        elif mode == 3:
            bad = [tuple(int(x) for x in a.position) for a in self.sim.agents.values()
                   if isinstance(a, BaddieAgent)]
            bad.sort(key=lambda c: abs(c[0] - pos[0]) + abs(c[1] - pos[1]))
            self.goal = bad[0] if rng.random() < 0.8 else rng.choice(bad)
            if self.goal == pos:
                self.goal = None


def drive(inp):
    board, wov, scheme, view, blocking, randomize, mode, episodes, nsteps, seed = inp
    rng = random.Random(seed)
    spy = Spy(seed ^ 0x5EED)
    sim, mgr, cfg, idx = build(inp)
    sim.spy, sim.starts = spy, []
    calls, recs, shuffles = [], [], []
    import random as pyrandom
    orig_shuffle = pyrandom.shuffle

    def shuffle_spy(lst):
        rng.shuffle(lst)
        shuffles.append(list(lst))
    pyrandom.shuffle = shuffle_spy
    aim = Aim(sim, "pacman")

    def count():
        return int(G.pub(sim, "step_count", 0))

    def wact(k, a):
        return [idx[k], int(a["move"])]

    def sample(k, es, t):
        ag = sim.agents[k]
        act = {"move": rng.randrange(5)}
        if k == "pacman" and mode != 0:
            m = mode if mode != 4 else rng.choice([0, 1, 2, 3])
            if m != 0:
                aim.wait[es] = 0
                aim.pick(m, rng)
                act = aim(es, t + 1, k, act)
        assert ag.action_space.contains(act), act
        return act

    bad = 0
    try:
        with spy:
            for es in range(episodes):
                obs = mgr.reset()
                calls.append([0])
                recs.append([[0, enc_obs(obs, idx)], snapshot(sim), count()])
                live, ended, t = list(obs.keys()), False, 0
                aim.goal = None
                while t < nsteps:
                    t += 1
                    pol = rng.random()
                    if ended:
                        if pol < 0.5:
                            break
                        acts = [("pacman", sample("pacman", es, t))]      # everybody is done: refused
                    else:
                        # pacman always acts (step reads action_dict['pacman']); the baddies' actions
                        # are accepted by the manager and ignored by the simulation
                        acts = [(k, sample(k, es, t)) for k in live if k == "pacman" or rng.random() < 0.5]
                        if pol < 0.06:
                            ex = rng.choice([k for k in sim.agents if k in mgr.done_agents])
                            acts = acts + [(ex, {"move": 0})] if pol < 0.03 else [(ex, {"move": 0})] + acts
                        elif pol < 0.08:
                            break                                      # reset mid-episode
                    ad = dict(acts)
                    sub = [wact(k, a) for k, a in ad.items()]
                    nsh = len(shuffles)
                    stop = False
                    try:
                        obs, rew, done, info = mgr.step(ad)
                        assert all(v == {} for v in info.values())
                        assert list(obs) == list(rew) == [k for k in done if k != "__all__"] == list(info)
                        r = [1, enc_obs(obs, idx), [[idx[k], cents(v)] for k, v in rew.items()],
                             [[idx[k], 1 if v else 0] for k, v in done.items() if k != "__all__"],
                             1 if done["__all__"] else 0]
                        live = [k for k, v in done.items() if k != "__all__" and not v]
                        ended = bool(done["__all__"])
                    except AssertionError as e:
                        if "already done" not in str(e):
                            raise
                        r = [2]
                    except (KeyError, IndexError, TypeError, AttributeError):
                        # an exception escaped from sim.step: the flag of the behaviour (clause 308)
                        r, bad, stop = [3], 1, True
                    # the drift actor writes the orientation it used into the caller's dictionary:
                    # `sub` was taken before the call
                    if len(shuffles) > nsh:
                        smap = {i: m for i, m in sub}
                        sh = [[idx[k], smap[idx[k]]] for k, _ in shuffles[nsh]]
                    else:
                        sh = sub
                    calls.append([1, sub, sh])
                    recs.append([r, snapshot(sim), count()])
                    if stop:
                        break
                if bad:
                    break
    finally:
        pyrandom.shuffle = orig_shuffle
    rows, cols = int(sim.grid.rows), int(sim.grid.cols)
    minp = [rows, cols, wov, cfg, sim.starts, spy.obs, 0, calls]
    return minp, [bad, recs]


def impl(inp):
    minp, beh = drive(inp)
    return [minp, beh]


def split(inp, out):
    if out[0] == -1:
        return [1, 1, inp[1], [[], 0, [], [0, 0, 0, 0]], [], [], 0, []], out
    return out[0], out[1]


SCHEMES = [[0, -1, 20, -100], [-10, -1, 10, -100], [-10, -1, 10, -100], [-5, -2, 25, -50], [0, 0, 100, -300]]


def gen(tier, rng):
    quick = tier != "thorough"
    plan = []
    n_big, n_small = (12, 90) if quick else (300, 3000)
    for _ in range(n_big):
        plan.append((0, EXAMPLE_OV))
    for _ in range(n_small):
        b = rng.choice([1, 1, 2, 2, 3])
        plan.append((b, rng.choice([EXAMPLE_OV, EXAMPLE_OV, OV_NO_BB])))
    if BLOCKED_TELEPORT:
        for _ in range(n_small // 5):
            plan.append(rng.choice(RISKY))
    for board, ov in plan:
        if not BLOCKED_TELEPORT and (board, ov) in RISKY:
            ov = EXAMPLE_OV
        big = board == 0
        mode = rng.choice([0, 1, 1, 2, 3, 3, 4, 4])
        yield [board, ov, rng.choice(SCHEMES), rng.choice([2, 2, 1, 3, 0, 20, -1]),
               1 if rng.random() < 0.3 else 0, 1 if rng.random() < 0.3 else 0, mode,
               1 if big else rng.randint(1, 3),
               rng.choice([8, 14, 20]) if big else rng.choice([6, 12, 20, 32]), rng.getrandbits(30)]


_LAST = [None, None]


def _recs(out):
    from . import sx
    if _LAST[0] is out:
        return _LAST[1]
    o = sx.loads(out) if isinstance(out, str) else out
    r = o[1] if (isinstance(o, list) and len(o) == 2 and isinstance(o[1], list)) else []
    _LAST[0], _LAST[1] = out, r
    return r


def _tags(inp, recs):
    tags = set()
    prev = None
    for r in recs:
        ags = r[1][0]
        pac = [a for a in ags if a[0] == 1]
        if pac and pac[0][3] == 0:
            tags.add("death")
        if any(a[0] == 3 and a[3] == 0 for a in ags):
            tags.add("eat")
        if prev is not None and r[0][0] == 1:
            for a, b in zip(prev, ags):
                if a[0] in (1, 4) and a[1] and b[1] and a[1][0] == 9 and abs(a[1][1] - b[1][1]) > 1:
                    tags.add("tunnel-pac" if a[0] == 1 else "tunnel-bad")
        if r[0][0] == 2:
            tags.add("reject")
        prev = ags
    return tags


def nontrivial(inp, out):
    return bool(_tags(inp, _recs(out)) & {"death", "eat", "tunnel-pac", "tunnel-bad"})


def classify(inp, out):
    t = _tags(inp, _recs(out))
    return ("example" if inp[0] == 0 else "board%d" % inp[0]) + "/" + "+".join(sorted(t) or ["plain"])


def shrink(inp):
    for n in range(inp[8] - 1, 0, -1):
        yield inp[:8] + [n] + inp[9:]
    if inp[7] > 1:
        yield inp[:7] + [inp[7] - 1] + inp[8:]


def repro(inp):
    from . import sx
    return ("PYTHONPATH=/verif:/repo PYTHONHASHSEED=0 /venv/bin/python -c \"from harness import gen_E2E5, sx; "
            "print(gen_E2E5.impl(sx.loads('%s')))\"  # drives the real AllStepManager over the real "
            "PacmanSimSimple; input = board(0 example_grid, 1-4 harness/gen_E2E5.BOARDS) overlapping "
            "reward_scheme(x100) pacman-view wall-blocking randomize_action_input mode(0 random, 1 tunnel, "
            "2 food, 3 baddies, 4 mixed) episodes steps seed" % sx.dumps(inp))


COMPONENT_E2E5 = Component(2601, "e2e_pacman_simple", impl, gen, chk=2602, nontrivial=nontrivial,
                           classify=classify, shrink=shrink, repro=repro, timeout=60)
COMPONENT_E2E5.split = split
