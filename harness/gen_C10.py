"""C10: abmarl.sim.gridworld.utils.create_grid_and_mask (the mask) vs Grid/Mask.v.

input   [R, rows, cols, v, [[r, c, active, blocking], ...]]     v = index of the viewing agent
output  [mask_0 .. mask_7]: mask_k = mask returned by the real create_grid_and_mask for the layout
        transformed by the k-th symmetry of the square (k = t + 2*fr + 4*fc: transpose, then flip
        rows, then flip columns), each a list of rows of 0/1 (1 = visible).
The agents and the Grid are built with abmarl's own classes."""
from . import envshim  # noqa: F401
import math
import os
import re
import numpy as np
from .runner import Component
from . import runner, sx

PROP = "C10"
RULE = ("an input is a layout (range R, grid shape, viewer, agents with active/blocking flags); the "
        "implementation is run on the layout and on its 7 other images under the symmetries of the "
        "square; single blocker: every grid cell as blocker position for every R<=8 (thorough: "
        "R<=24, one offset per orbit) and viewer in the interior, on each border, in each corner; all blocker "
        "pairs for R<=3 (thorough R<=5); random 3..7-agent mixes of blocking/non-blocking/inactive; "
        "for R>=15 every blocker offset that has a cell centre exactly on one of its rays; "
        "non-trivial = the mask of the untransformed layout hides at least one cell")
ASSUMPTIONS = [
    "the mask depends on positions, active and blocking flags only; agents are GridWorldAgent "
    "objects placed through Grid.place (all encodings may overlap), inactive agents keep their "
    "position attribute but are not on the grid",
    "only the mask (second component of create_grid_and_mask's result) is compared; the local grid "
    "belongs to C09",
    "binary64: the extracted model is exact rational arithmetic; that binary64 in the code's "
    "(repaired) operation order decides the same is a theorem for ranges <= 15 (SpecFloat, closed) "
    "and <= 40 (primitive floats), and is tested here for the ranges generated",
    "ranges above 64 are rejected by the wire decoder (not by the theorems)",
]


# ------------------------------------------------------------------ implementation side
def _xf(k, rows, cols, r, c):
    t, fr, fc = k & 1, (k >> 1) & 1, (k >> 2) & 1
    if t:
        r, c, rows, cols = c, r, cols, rows
    if fr:
        r = rows - 1 - r
    if fc:
        c = cols - 1 - c
    return r, c, rows, cols


def _one_mask(R, rows, cols, v, ags):
    from abmarl.sim.gridworld.agent import GridWorldAgent
    from abmarl.sim.gridworld.grid import Grid
    from abmarl.sim.gridworld.utils import create_grid_and_mask
    grid = Grid(rows, cols, overlapping={1: {1}})
    grid.reset()
    agents = {}
    for i, (r, c, act, blk) in enumerate(ags):
        a = GridWorldAgent(id=f"a{i}", encoding=1, blocking=bool(blk))
        if act:
            assert grid.place(a, (r, c))
        else:
            a.position = np.array([r, c])
            a.active = False
        agents[a.id] = a
    local_grid, mask = create_grid_and_mask(agents[f"a{v}"], grid, R, agents)
    assert mask.shape == (2 * R + 1, 2 * R + 1) and local_grid.shape == mask.shape
    return [[(1 if x == 1 else 0 if x == 0 else 2) for x in row] for row in mask.tolist()]


def impl(inp):
    R, rows, cols, v, ags = inp
    out = []
    for k in range(8):
        rows_k, cols_k = (cols, rows) if (k & 1) else (rows, cols)
        ags_k = [list(_xf(k, rows, cols, r, c)[:2]) + [act, blk] for r, c, act, blk in ags]
        out.append(_one_mask(R, rows_k, cols_k, v, ags_k))
    return out


# ------------------------------------------------------------------ generator
def _viewer_classes(R):
    """(name, rows, cols, viewer position): interior (asymmetric margins), each border, each corner"""
    W = 2 * R + 1
    return [
        ("interior", W + 2, W + 1, (R + 1, R)),
        ("top", R + 2, W, (0, R)), ("bottom", R + 2, W, (R + 1, R)),
        ("left", W, R + 2, (R, 0)), ("right", W, R + 2, (R, R + 1)),
        ("corner-tl", R + 2, R + 2, (0, 0)), ("corner-tr", R + 2, R + 2, (0, R + 1)),
        ("corner-bl", R + 2, R + 2, (R + 1, 0)), ("corner-br", R + 2, R + 2, (R + 1, R + 1)),
    ]


def _corners(br, bc):
    sr, sc = (br > 0) - (br < 0), (bc > 0) - (bc < 0)
    if sr == 0:
        return [(1, 2 * bc - sc), (-1, 2 * bc - sc)]
    if sc == 0:
        return [(2 * br - sr, 1), (2 * br - sr, -1)]
    return [(2 * br + sr, 2 * bc - sc), (2 * br - sr, 2 * bc + sc)]


def on_ray_offsets(R):
    """[(b, sensitive)]: blocker offsets b in the window for which some window cell behind b has its
    centre exactly on one of the two rays of b (integer arithmetic, doubled coordinates);
    sensitive = for one such cell the binary64 value of the ray in the operation order of the
    unrepaired code, (x_diff +- .5) / (y_diff +- .5) * t, is not the exact (integer) value - the
    offsets on which finding F6 can show.  Only used to aim the generator."""
    res = []
    for br in range(-R, R + 1):
        for bc in range(-R, R + 1):
            if br == 0 and bc == 0:
                continue
            sr, sc = (br > 0) - (br < 0), (bc > 0) - (bc < 0)
            found = sensitive = False
            for (kr, kc) in _corners(br, bc):
                g = math.gcd(abs(kr), abs(kc))
                ur, uc = kr // g, kc // g
                m = 1
                while abs(m * ur) <= R and abs(m * uc) <= R:
                    qr, qc = m * ur, m * uc
                    if sr * qr >= sr * br and sc * qc >= sc * bc and (qr, qc) != (br, bc):
                        found = True
                        if bc != 0:
                            sensitive |= ((kr / 2) / (kc / 2) * qc != qr)
                        else:
                            sensitive |= ((kc / 2) / (kr / 2) * qr != qc)
                    m += 1
            if found:
                res.append(((br, bc), sensitive))
    return res


def gen(tier, rng):
    quick = tier != "thorough"
    # A. single blocker, exhaustive: every grid cell (inside and outside the window, the viewer's
    #    own cell included), every viewer class
    yield [0, 1, 1, 0, [[0, 0, 1, 1]]]
    yield [0, 2, 3, 1, [[1, 2, 1, 1], [1, 1, 1, 0], [1, 1, 1, 1]]]
    for R in range(1, 9):
        for name, rows, cols, (vr, vc) in _viewer_classes(R):
            for r in range(rows):
                for c in range(cols):
                    yield [R, rows, cols, 0, [[vr, vc, 1, 0], [r, c, 1, 1]]]
    if not quick:
        # R = 9..20: offsets 0 <= bc <= br <= R; the 8 transformed layouts run by impl() carry each
        # of them to its whole orbit, so every offset of the window reaches the implementation
        for R in range(9, 21):
            W = 2 * R + 1
            for br in range(0, R + 1):
                for bc in range(0, br + 1):
                    yield [R, W, W, 1, [[R + br, R + bc, 1, 1], [R, R, 1, 1]]]
    # B. all pairs of blockers (unordered, same cell allowed)
    for R in range(1, 4 if quick else 5):
        W = 2 * R + 1
        cells = [(r, c) for r in range(W) for c in range(W)]
        for i in range(len(cells)):
            for j in range(i, len(cells)):
                yield [R, W, W, 2, [list(cells[i]) + [1, 1], list(cells[j]) + [1, 1], [R, R, 1, 0]]]
    # C. random mixes: 3..7 agents, blocking / non-blocking / inactive, viewer anywhere
    for _ in range(2500 if quick else 15000):
        R = rng.choice([1, 2, 2, 3, 3, 4, 5, 6, 9, 12])
        rows, cols = rng.randint(1, 2 * R + 4), rng.randint(1, 2 * R + 4)
        n = rng.randint(3, 7)
        ags = []
        for i in range(n):
            kind = rng.choice(["block", "block", "block", "plain", "dead-block", "dead"])
            ags.append([rng.randrange(rows), rng.randrange(cols),
                        0 if kind.startswith("dead") else 1, 1 if kind.endswith("block") else 0])
        v = rng.randrange(n)
        ags[v][2] = 1  # the viewer acts, hence is active (it may itself be blocking)
        if rng.random() < 0.5:
            # cluster the others near the viewer so that shadows overlap
            for i in range(n):
                if i != v:
                    ags[i][0] = min(rows - 1, max(0, ags[v][0] + rng.randint(-R - 1, R + 1)))
                    ags[i][1] = min(cols - 1, max(0, ags[v][1] + rng.randint(-R - 1, R + 1)))
        yield [R, rows, cols, v, ags]
    # D. large ranges: every blocker offset with a cell centre exactly on one of its rays
    #    (finding F6: the unrepaired operation order mis-rounds there from range 15 on)
    big = list(range(15, 25)) if quick else list(range(15, 33))
    for R in big:
        W = 2 * R + 1
        offs = on_ray_offsets(R)
        chosen = [b for b, sens in offs if sens or R == 15]
        rest = [b for b, sens in offs if b not in set(chosen)]
        chosen += rng.sample(rest, min(len(rest), 40 if quick else 80))
        for (br, bc) in chosen:
            yield [R, W, W, 0, [[R, R, 1, 0], [R + br, R + bc, 1, 1]]]
        for _ in range(6 if quick else 60):
            ags = [[R, R, 1, 0]] + [[rng.randrange(W), rng.randrange(W), 1, 1] for _ in range(2)]
            yield [R, W, W, 0, ags]


# ------------------------------------------------------------------ coverage labels
def _case(br, bc):
    v = "below" if br > 0 else "above" if br < 0 else ""
    h = "right" if bc > 0 else "left" if bc < 0 else ""
    return (v + "-" + h).strip("-") or "own-cell"


def classify(inp, out):
    R, rows, cols, v, ags = inp
    vr, vc = ags[v][0], ags[v][1]
    rel = [(a[0] - vr, a[1] - vc) for a in ags
           if a[2] and a[3] and abs(a[0] - vr) <= R and abs(a[1] - vc) <= R]
    case = _case(*rel[0]) if rel else "no-blocker-in-range"
    edges = sum([vr - R < 0, vr + R > rows - 1, vc - R < 0, vc + R > cols - 1])
    vclass = "interior" if edges == 0 else "border" if edges == 1 else "corner+"
    rb = "R<=3" if R <= 3 else "R<=8" if R <= 8 else "R<=14" if R <= 14 else "R>=15"
    others = [a for i, a in enumerate(ags) if i != v]
    mixed = any((not a[2]) or (not a[3]) or abs(a[0] - vr) > R or abs(a[1] - vc) > R for a in others)
    n = "none" if not rel else "single" if len(rel) == 1 else "multi"
    return f"{case}/{rb}/{vclass}/{n}" + ("+ignored-agents" if mixed else "")


def nontrivial(inp, out):
    o = out if isinstance(out, str) else sx.dumps(out)
    first = o[1:].split("))")[0]          # mask_0
    return " 0" in first or "(0" in first


def shrink(inp):
    R, rows, cols, v, ags = inp
    for i in range(len(ags) - 1, -1, -1):
        if i != v:
            yield [R, rows, cols, v - (1 if i < v else 0), ags[:i] + ags[i + 1:]]
    for i, a in enumerate(ags):
        if i != v and not (a[2] and a[3]):
            yield [R, rows, cols, v, ags[:i] + [[a[0], a[1], 1, 1]] + ags[i + 1:]]


def repro(inp):
    return ("PYTHONPATH=/verif:$VERIF_REPO /venv/bin/python -c \"from harness import gen_C10, sx; "
            "print(gen_C10.impl(sx.loads('%s'))[0])\"   # input = [R, rows, cols, viewer index, "
            "[[row, col, active, blocking], ...]]; prints the mask of the layout as returned by "
            "abmarl.sim.gridworld.utils.create_grid_and_mask (rows of 0/1, 0 = hidden); the "
            "checker answer -2 = a cell is reported hidden that is in no blocker's shadow, -3 = a "
            "shadowed cell is reported visible, -4 = the masks of the 8 transformed layouts are not "
            "the transformed masks" % sx.dumps(inp))


COMPONENTS = [
    Component(1001, "mask", impl, gen, chk=1002, nontrivial=nontrivial, classify=classify,
              shrink=shrink, repro=repro, timeout=60),
]


# ------------------------------------------------------------------ primitive-float layer
PRIMITIVES = {"PrimInt63.int", "PrimInt63.lor", "PrimInt63.lsl", "PrimInt63.sub", "PrimInt63.add",
              "PrimInt63.mul", "PrimInt63.land", "PrimInt63.lsr", "PrimInt63.eqb", "PrimInt63.ltb",
              "PrimInt63.leb", "PrimInt63.compare",
              "float", "add", "sub", "mul", "div", "opp", "ltb", "leb", "eqb", "of_uint63",
              "PrimFloat.float", "PrimFloat.add", "PrimFloat.sub", "PrimFloat.mul", "PrimFloat.div",
              "PrimFloat.opp", "PrimFloat.ltb", "PrimFloat.of_uint63", "int", "lor", "lsl"}


def extra(rep, tier, rng):
    """Props/P_C10_float.v (agreement up to range 40 over Coq's primitive floats) is compiled by
    the build; here its `Print Assumptions` answers are read: they may list kernel primitives of
    PrimFloat / PrimInt63 only (types and operations with a computational definition in the
    kernel), never an axiom of the development or of the standard library."""
    src = os.path.join(runner.COQ, "Props", "P_C10_float.v")
    out_vo = os.path.join(runner.BUILD, "props", "P_C10_float.vo")
    rc, out = runner.sh(f"timeout 900 coqc -Q {runner.COQ} Abm {src} -o {out_vo}", cwd=runner.BUILD)
    txt = re.sub(r"\(\*.*?\*\)", "", open(src).read(), flags=re.S)
    thms = re.findall(r"^\s*Theorem\s+(\w+)", txt, flags=re.M)
    names = set()
    for m in re.finditer(r"^(\S+)\s*:", out, flags=re.M):
        names.add(m.group(1))
    names.discard("Axioms")
    bad = sorted(n for n in names if n not in PRIMITIVES)
    blocks = len(re.findall(r"^Axioms:", out, flags=re.M)) + len(re.findall(r"Closed under", out))
    ok = (rc == 0) and not bad and blocks == len(thms) and len(thms) > 0
    rep.extra_cov["primitive_float_layer"] = {
        "file": "coq/Props/P_C10_float.v", "theorems": thms, "compiled": rc == 0,
        "print_assumptions_lists_only_kernel_primitives": ok, "primitives_listed": sorted(names),
        "note": "not counted in obligations/discharged: the runner counts closed theorems only"}
    if not ok:
        rep.violation({"kind": "proof-obligation-fails", "theorem": "Props/P_C10_float.v",
                       "unexpected_assumptions": bad, "log": out[-2000:]}, no_input=True)
