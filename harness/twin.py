"""Used-versus-fresh twins (C08): canonical encoding of arbitrary outputs and a uniform driver."""
from . import envshim  # noqa: F401
import random
import struct
import numpy as np


def canon(x):
    """Nested ints only; floats by their IEEE bits; strings by code points; dicts in key order."""
    if x is None:
        return [0]
    if isinstance(x, (bool, np.bool_)):
        return [1, 1 if x else 0]
    if isinstance(x, (int, np.integer)):
        return [2, int(x)]
    if isinstance(x, (float, np.floating)):
        return [3, struct.unpack(">q", struct.pack(">d", float(x)))[0]]
    if isinstance(x, str):
        return [4, [ord(c) for c in x]]
    if isinstance(x, np.ndarray):
        return [5, list(x.shape), [canon(v)[1:] for v in x.flatten().tolist()]]
    if isinstance(x, dict):
        return [6, [[canon(k), canon(v)] for k, v in x.items()]]
    if isinstance(x, (list, tuple)):
        return [7, [canon(v) for v in x]]
    if isinstance(x, (set, frozenset)):
        return [8, sorted(canon(v) for v in x)]
    if hasattr(x, "observations") and hasattr(x, "step_type"):     # open_spiel TimeStep
        return [9, canon(dict(x.observations)), canon(x.rewards), canon(x.discounts), canon(int(x.step_type))]
    return [10, [ord(c) for c in type(x).__name__]]


def sample_action(space, rng):
    space.seed(rng.getrandbits(31))
    return space.sample()


class Twin:
    """Uniform interface over a stack: reset() -> output, live(output) -> ids expecting an action,
    act(actions) -> output, probe() -> internal episode state, ended(output)."""

    def __init__(self, top, agents, probe, multi=True):
        self.top, self.agents, self._probe, self.multi = top, agents, probe, multi

    def reset(self):
        return self.top.reset()

    def probe(self):
        return self._probe()


def play(tw, rng, nsteps, seed_reset):
    """One episode: seeded reset, then nsteps steps with actions for the live agents.
    Returns the list of canonical outputs and probes."""
    random.seed(seed_reset)
    np.random.seed(seed_reset)
    out = []
    obs = tw.reset()
    out.append([canon(obs), canon(tw.probe())])
    live = tw.live_after_reset(obs)
    ended = False
    for _ in range(nsteps):
        if ended or not live:
            break
        acts = {a: sample_action(tw.agents[a].action_space, rng) for a in live}
        res = tw.step(acts)
        out.append([canon(res), canon(tw.probe())])
        live, ended = tw.live_after_step(res)
    return out
