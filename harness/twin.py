"""Used-versus-fresh twins (C08): canonical encoding of arbitrary outputs and a uniform driver."""
from . import envshim  # noqa: F401
import random
import struct
import numpy as np


def canon(x):
    """Nested ints only; floats by their IEEE bits; strings by code points; dicts in key order."""
    if x is None:
        return [0]
    if isinstance(x, (bool, np.bool_)):
        return [1, 1 if x else 0]
    if isinstance(x, (int, np.integer)):
        return [2, int(x)]
    if isinstance(x, (float, np.floating)):
        return [3, struct.unpack(">q", struct.pack(">d", float(x)))[0]]
    if isinstance(x, str):
        return [4, [ord(c) for c in x]]
    if isinstance(x, np.ndarray):
        return [5, list(x.shape), [canon(v)[1:] for v in x.flatten().tolist()]]
    if isinstance(x, dict):
        return [6, [[canon(k), canon(v)] for k, v in x.items()]]
    if isinstance(x, (list, tuple)):
        return [7, [canon(v) for v in x]]
    if isinstance(x, (set, frozenset)):
        return [8, sorted(canon(v) for v in x)]
    if hasattr(x, "observations") and hasattr(x, "step_type"):     # open_spiel TimeStep
        return [9, canon(dict(x.observations)), canon(x.rewards), canon(x.discounts), canon(int(x.step_type))]
    return [10, [ord(c) for c in type(x).__name__]]


def sample_action(space, rng):
    space.seed(rng.getrandbits(31))
    return space.sample()


class Twin:
    """Uniform interface over a stack: reset() -> output, live(output) -> ids expecting an action,
    act(actions) -> output, probe() -> internal episode state, ended(output)."""

    def __init__(self, top, agents, probe, multi=True):
        self.top, self.agents, self._probe, self.multi = top, agents, probe, multi

    def reset(self):
        return self.top.reset()

    def probe(self):
        return self._probe()


def play(tw, rng, nsteps, seed_reset):
    """One episode: seeded reset, then nsteps steps with actions for the live agents.
    Returns the list of canonical outputs and probes."""
    random.seed(seed_reset)
    np.random.seed(seed_reset)
    out = []
    obs = tw.reset()
    out.append([canon(obs), canon(tw.probe())])
    live = tw.live_after_reset(obs)
    ended = False
    for _ in range(nsteps):
        if ended or not live:
            break
        acts = {a: sample_action(tw.agents[a].action_space, rng) for a in live}
        res = tw.step(acts)
        out.append([canon(res), canon(tw.probe())])
        live, ended = tw.live_after_step(res)
    return out


def play_lockstep(a, b, seed_actions, nsteps, seed_reset):
    """The same episode on two objects that are BOTH alive and called alternately (call by call), each
    with its own copy of the global random generators' state, so that equal objects see equal streams.
    State that leaks between two instances of a class (a mutable class attribute, a module-level
    cache) shows up as a difference between the two outputs, which a run of one object after the other
    cannot see.  Returns the two output lists."""
    tws = (a, b)
    random.seed(seed_reset)
    np.random.seed(seed_reset)
    st = [(random.getstate(), np.random.get_state()) for _ in tws]
    rngs = [random.Random(seed_actions) for _ in tws]
    outs = ([], [])

    def call(i, f):
        random.setstate(st[i][0])
        np.random.set_state(st[i][1])
        try:
            return f()
        finally:
            st[i] = (random.getstate(), np.random.get_state())

    live, ended = [None, None], [False, False]
    for i, tw in enumerate(tws):
        obs = call(i, tw.reset)
        outs[i].append([canon(obs), canon(tw.probe())])
        live[i] = tw.live_after_reset(obs)
    for _ in range(nsteps):
        for i, tw in enumerate(tws):
            if ended[i] or not live[i]:
                continue
            acts = {k: sample_action(tw.agents[k].action_space, rngs[i]) for k in live[i]}
            res = call(i, lambda: tw.step(acts))
            outs[i].append([canon(res), canon(tw.probe())])
            live[i], ended[i] = tw.live_after_step(res)
    return outs
