"""C01/C07: the three simulation managers over the scripted simulation vs Ctl/Managers.v."""
from . import envshim  # noqa: F401
import itertools
import random
from .runner import Component, exc_code, ERR_REJECT
from . import stubsim
from .stubsim import aid, aidx

PROP = "C01"
RULE = ("a case is (manager kind, script = agents/learning flags/done table/finish time/nominations/"
        "accruals, submission policy per step); exhaustive small scripts (n<=3) plus random ones "
        "(n<=5, <=8 steps, 1-3 episodes); the implementation manager is driven adaptively, the "
        "concrete call list is then given to the model; non-trivial = some agent becomes done or a "
        "submission is rejected or the simulation finishes; distinct = distinct (script, policy)")
ASSUMPTIONS = [
    "the abstract simulation's get_done/get_all_done/get_info/next_agent are observationally pure",
    "nominations of the dynamic-order simulation are duplicate-free (duplicates: agreement only)",
    "reward conservation is about accumulate-and-reset simulations (the ABS interface discipline)",
]

KINDS = {0: "all", 1: "turn", 2: "dyn"}


def make_manager(script, randomize=False):
    from . import mgrproxy
    return mgrproxy.make_manager(script, randomize)      # incl. the late-joining last agent


def enc_dict(d, f=int):
    return [[aidx(k), f(v)] for k, v in d.items() if k != "__all__"]


def drive(script, policies, seed, randomize=False):
    """Play the implementation: returns (calls, behaviour)."""
    rng = random.Random(seed)
    sim, mgr = make_manager(script, randomize)
    calls, resps = [], []
    last_live = None      # agents reported with done False in the last output
    ended = True
    shuffles = []
    if randomize:
        import random as pyrandom
        orig = pyrandom.shuffle

        def spy(lst):
            orig(lst)
            shuffles.append([[aidx(k), int(v)] for k, v in lst])
        pyrandom.shuffle = spy
    try:
        for pol in policies:
            if ended or pol == 5 or last_live is None:
                if pol == 7 and last_live is not None:
                    pass  # out-of-protocol step after __all__
                else:
                    try:
                        obs = mgr.reset()
                        resps.append([[0, enc_dict(obs)], len(sim.steps), len(sim.reads)])
                        last_live = list(obs.keys())
                        ended = False
                    except Exception as e:
                        resps.append([[3 if exc_code(e) != ERR_REJECT else 2], len(sim.steps), len(sim.reads)])
                        last_live = None
                    calls.append([0])
                    continue
            done_set = [a for a in sim.agents if a in mgr.done_agents]
            acts = [(a, rng.randrange(10)) for a in last_live]
            if pol in (1, 2) and done_set:
                extra = (rng.choice(done_set), rng.randrange(10))
                acts = acts + [extra] if pol == 1 else [extra] + acts
            elif pol == 3:
                acts = acts[:1]
            elif pol == 4:
                acts = []
            elif pol == 6:
                cand = [a for a in sim.agents if a not in mgr.done_agents]
                acts = [(a, rng.randrange(10)) for a in cand if rng.random() < 0.6]
            ad = dict(acts)
            sub = [[aidx(k), v] for k, v in ad.items()]
            nsh = len(shuffles)
            try:
                obs, rew, done, info = mgr.step(ad)
                r = [1, enc_dict(obs), enc_dict(rew), enc_dict(done, lambda b: 1 if b else 0),
                     enc_dict(info), 1 if done["__all__"] else 0]
                last_live = [k for k, v in done.items() if k != "__all__" and not v]
                ended = bool(done["__all__"])
            except AssertionError:
                r = [2]
            except TimeoutError:
                raise
            except BaseException:
                r = [3]
            sh = shuffles[nsh] if len(shuffles) > nsh else sub
            calls.append([1, sub, sh])
            resps.append([r, len(sim.steps), len(sim.reads)])
    finally:
        if randomize:
            pyrandom.shuffle = orig
    return calls, [resps, sim.steps, sim.reads]


def impl(inp):
    script, policies, seed, randomize = inp
    calls, beh = drive(script, policies, seed, bool(randomize))
    return [calls, beh]


def split(inp, out):
    # model input = (script, concrete calls); behaviour = the rest
    if out[0] == -1:
        return [inp[0], []], out
    return [inp[0], out[0]], out[1]


def exhaustive_scripts(kind, nmax, T):
    for n in range(1, nmax + 1):
        for learn in itertools.product([0, 1], repeat=n):
            if not any(learn):
                continue
            for dts in itertools.product([1, 2, 3, 99], repeat=n):
                for ft in (1, 2, 3, 99):
                    rows = []
                    for t in range(T + 1):
                        done = [1 if t >= dts[i] else 0 for i in range(n)]
                        live = [i for i in range(n) if not done[i]]
                        nx = (live[:1] + [i for i in range(n) if done[i]][:1]) or [0]
                        rows.append([done, 1 if t >= ft else 0, nx, [t + i for i in range(n)]])
                    yield [kind, n, list(learn), rows]


def gen(tier, rng):
    quick = tier != "thorough"
    pol_sets = [[0] * 6, [0, 0, 1, 0, 0, 0], [0, 2, 0, 2, 0, 0], [0, 3, 3, 3, 3, 3], [0, 0, 5, 0, 0, 0],
                [0, 6, 6, 6, 6, 6], [0, 4, 0, 0, 0, 0]]
    for kind in (0, 1, 2):
        scripts = list(exhaustive_scripts(kind, 3 if quick else 4, 4))
        if quick:
            scripts = scripts[::3] + rng.sample(scripts, 400)
        for sc in scripts:
            yield [sc, rng.choice(pol_sets), rng.getrandbits(30), 0]
    n_rand = 4000 if quick else 60000
    for _ in range(n_rand):
        kind = rng.choice([0, 1, 2])
        sc = stubsim.random_script(rng, kind, nmax=5 if quick else 6, tmax=8 if quick else 12)
        L = rng.randint(3, 25)
        pols = [rng.choice([0, 0, 0, 0, 0, 1, 2, 3, 4, 5, 6]) for _ in range(L)]
        yield [sc, pols, rng.getrandbits(30), 1 if (kind == 0 and rng.random() < 0.4) else 0]


def nontrivial(inp, out):
    o = out if isinstance(out, str) else str(out)
    return ("(2)" in o) or any(any(r[0]) or r[1] for r in inp[0][3][1:])


def classify(inp, out):
    k = KINDS[inp[0][0]]
    tags = []
    if "((2) " in out:
        tags.append("reject")
    if any(r[1] for r in inp[0][3]):
        tags.append("simdone")
    if inp[3]:
        tags.append("shuffle")
    return k + "/" + "+".join(tags or ["plain"])


def shrink(inp):
    script, pols, seed, rnd = inp
    for i in range(len(pols) - 1, 0, -1):
        yield [script, pols[:i], seed, rnd]
    for i in range(len(pols)):
        if pols[i] != 0:
            yield [script, pols[:i] + [0] + pols[i + 1:], seed, rnd]
    kind, n, learn, rows = script
    if len(rows) > 1:
        yield [[kind, n, learn, rows[:-1]], pols, seed, rnd]


COMPONENTS = [
    Component(101, "managers", impl, gen, chk=102, nontrivial=nontrivial, classify=classify,
              shrink=shrink, timeout=6),      # a case takes milliseconds; a hang is a finding (C07)
]
COMPONENTS[0].split = split


def repro(inp):
    return ("PYTHONPATH=/verif:/repo /venv/bin/python -c \"from harness import gen_C01, sx; "
            "print(gen_C01.impl(sx.loads('%s')))\"  # drives the real manager over the scripted "
            "simulation; script=[kind(0 all,1 turn,2 dyn), n, learning, rows[done bits, all, "
            "nominated, accruals]], policies, seed, randomize" % __import__('harness.sx', fromlist=['x']).dumps(inp))
from . import gen_Corridor  # noqa: E402  fourth end-to-end instance: MultiCorridor (design/E2E.md)
COMPONENTS += gen_Corridor.COMPONENTS
