"""C11: the four attack actors of abmarl.sim.gridworld.actor vs Grid/Attack.v."""
from . import envshim  # noqa: F401
import numpy as np
from .runner import Component, exc_code
from . import gridsim as G
from .rngspy import Spy, HD
from .gen_C12 import legalise, rand_ov

PROP = "C11"
RULE = ("a case is (grid, overlap table, agents with encodings/cells/health/ammo/blocking, actor kind "
        "(binary, encoding-based, selective, restricted selective), attack mapping, stacked flag, "
        "per-agent range/strength/accuracy/simultaneous attacks, a sequence of attacks (attacker, "
        "action)); layouts are asymmetric in rows and columns, with pile-ups and blockers; ALL "
        "actions of the action space when it has <= 600 points, sampled otherwise; every random "
        "draw of the implementation is recorded by a spy and replayed by the model; non-trivial = "
        "some attack hits; distinct = distinct inputs")
ASSUMPTIONS = [
    "health, strength and accuracy are multiples of 2^-20 (binary64 arithmetic on them is exact)",
    "the attacker is an active agent standing in the grid and its encoding is a key of the mapping",
]

KINDS = {0: "binary", 1: "encoding", 2: "selective", 3: "restricted"}
USE_BLOCKERS = True


def make_actor(kind, grid, agents, mapping, stacked):
    from abmarl.sim.gridworld import actor as A
    cls = {0: A.BinaryAttackActor, 1: A.EncodingBasedAttackActor, 2: A.SelectiveAttackActor,
           3: A.RestrictedSelectiveAttackActor}[kind]
    real = {k: set(v) for k, v in mapping}
    if (len(mapping) + sum(len(v) for _, v in mapping) + kind) % 2:
        # the mapping (and the stacking option) reach their values through the public setters after
        # construction: eligibility must follow the attributes as they are now
        encs = sorted(real)
        actor = cls(grid=grid, agents=agents, attack_mapping={e: set(encs) for e in encs},
                    stacked_attacks=not bool(stacked))
        actor.attack_mapping = real
        actor.stacked_attacks = bool(stacked)
        return actor
    return cls(grid=grid, agents=agents, attack_mapping=real, stacked_attacks=bool(stacked))


def impl(inp):
    rows, cols, wov, wags, ops, (kind, mapping, stacked, params, seed) = inp
    # params: per agent [range(-1 = FULL), strength ticks, accuracy ticks, simultaneous]
    def extra(i):
        rg, st, acc, sim = params[i]
        return dict(attack_range=("FULL" if rg < 0 else rg), attack_strength=st / HD,
                    attack_accuracy=acc / HD, simultaneous_attacks=sim)
    agents = G.build_agents(wags, extra=extra)
    grid = G.build_grid(rows, cols, wov)
    actor = make_actor(kind, grid, agents, mapping, stacked)
    G.place_initial(grid, agents, wags)
    full = max(rows, cols) - 1
    mp = {k: v for k, v in mapping}
    out_ops, recs = [], []
    snap0 = G.snapshot(grid, agents)
    for n, (i, act) in enumerate(ops):
        a = agents[G.aid(i)]
        rg, st, acc, sim = params[i]
        R = full if rg < 0 else rg
        if kind == 0:
            action, wact = act, [0, act]
        elif kind == 1:
            action, wact = {e: k for e, k in act}, [1, act]
        elif kind == 2:
            action, wact = np.array(act, dtype=int).reshape(2 * R + 1, 2 * R + 1), [2, act]
        else:
            action, wact = np.array(act, dtype=int), [3, 0, act]
        with Spy(seed * 7919 + n, key=lambda ag: G.aidx(ag.id)) as spy:
            try:
                status, hits = actor.process_action(a, {"attack": action})
                r = [1 if status else 0, [G.aidx(h.id) for h in hits]]
            except TimeoutError:
                raise
            except Exception as e:
                r = [-1, exc_code(e)]
        cfg = [R, st, acc, sim, sorted(mp.get(wags[i][0], [])), 1 if stacked else 0]
        out_ops.append([i, cfg, wact, [spy.unif, spy.choices]])
        recs.append([r, G.snapshot(grid, agents)])
    return [out_ops, [snap0, recs]]


def split(inp, out):
    rows, cols, wov, wags, ops, meta = inp
    if out[0] == -1:
        return [rows, cols, wov, wags, []], out
    return [rows, cols, wov, wags, out[0]], out[1]


def compare(impl_s, model_s):
    # the model appends the numbers of unused recorded draws (must be 0 0) to every (status hits)
    from . import sx
    try:
        a, b = sx.loads(impl_s), sx.loads(model_s)
        if a[0] != b[0] or len(a[1]) != len(b[1]):
            return False
        for (ra, sa), (rb, sb) in zip(a[1], b[1]):
            if sa != sb or rb[2:] != [0, 0] or ra != rb[:2]:
                return False
        return True
    except Exception:
        return False


def wagent(enc, pos, health=HD, ammo=None, blocking=0):
    return [enc, list(pos) if pos is not None else [], health, 1, [ammo] if ammo is not None else [],
            [], blocking]


def action_space_points(kind, R, sim, mp_encs, rng, cap):
    """All actions of the attacker's action space if there are <= cap, else a sample."""
    import itertools
    W = 2 * R + 1
    if kind == 0:
        pts = list(range(sim + 1))
    elif kind == 1:
        n = (sim + 1) ** len(mp_encs)
        if n <= cap:
            pts = [[[e, k] for e, k in zip(mp_encs, ks)]
                   for ks in itertools.product(range(sim + 1), repeat=len(mp_encs))]
        else:
            pts = [[[e, rng.randint(0, sim)] for e in mp_encs] for _ in range(cap)]
        if rng.random() < 0.3:
            pts = [list(reversed(p)) for p in pts]
    elif kind == 2:
        n = (sim + 1) ** (W * W)
        if n <= cap:
            pts = [list(ks) for ks in itertools.product(range(sim + 1), repeat=W * W)]
        else:
            pts = []
            for _ in range(cap):
                dens = rng.choice([0.1, 0.3, 0.7, 1.0])
                pts.append([rng.randint(1, sim) if (sim and rng.random() < dens) else 0 for _ in range(W * W)])
    else:
        n = (W * W + 1) ** sim
        if n <= cap:
            pts = [list(ks) for ks in itertools.product(range(W * W + 1), repeat=sim)]
        else:
            pts = [[rng.randint(0, W * W) for _ in range(sim)] for _ in range(cap)]
    return pts


def random_layout(rng, quick):
    rows, cols = rng.choice([(1, rng.randint(2, 6)), (rng.randint(2, 6), 1), (2, 3), (3, 2), (3, 4),
                             (4, 3), (rng.randint(2, 6), rng.randint(2, 6))])
    nenc = rng.randint(1, 3)
    encs = list(range(1, nenc + 1))
    ov = rand_ov(rng, encs) if rng.random() < 0.7 else []
    n = rng.randint(2, 7)
    ags = []
    for i in range(n):
        # asymmetric by construction: positions drawn independently per axis, clustered near the
        # first agent so that attacks have targets
        if i == 0 or rng.random() < 0.3:
            pos = (rng.randrange(rows), rng.randrange(cols))
        else:
            base = ags[0][1]
            pos = (min(rows - 1, max(0, base[0] + rng.randint(-2, 2))),
                   min(cols - 1, max(0, base[1] + rng.randint(-2, 2))))
        health = rng.choice([HD, HD, HD // 2, HD // 4, 3 * HD // 4, 1, HD - 1])
        ammo = rng.choice([None, None, 0, 1, 2, 3, 5])
        blocking = 1 if (USE_BLOCKERS and rng.random() < 0.25) else 0
        ags.append(wagent(rng.choice(encs), pos, health, ammo, blocking))
    return rows, cols, ov, encs, ags


def shadow_cases(rng, n):
    """Structured family for the visibility clause: an attacker with range R, one blocking agent at
    a random offset inside its window, and targets on the cells at the far border of the window
    (rows/columns at distance exactly R) and right behind the blocker."""
    for _ in range(n):
        R = rng.choice([1, 2, 2, 3, 3, 4])
        rows, cols = rng.randint(R + 1, 2 * R + 2), rng.randint(R + 1, 2 * R + 2)
        ar, ac = rng.randrange(rows), rng.randrange(cols)
        cells = [(r, c) for r in range(rows) for c in range(cols) if (r, c) != (ar, ac)
                 and abs(r - ar) <= R and abs(c - ac) <= R]
        if len(cells) < 2:
            continue
        br, bc = rng.choice(cells)
        ags = [wagent(1, (ar, ac), HD, rng.choice([None, 2, 3])), wagent(2, (br, bc), HD, None, 1)]
        dr, dc = (br > ar) - (br < ar), (bc > ac) - (bc < ac)
        behind = [(r, c) for (r, c) in cells if (r, c) != (br, bc)
                  and (r - br) * dr >= 0 and (c - bc) * dc >= 0]
        border = [(r, c) for (r, c) in behind if abs(r - ar) == R or abs(c - ac) == R]
        if behind and rng.random() < 0.5:
            # a second blocker standing behind the first one (possibly inside its shadow): its own
            # shadow is not contained in the first one's
            b2 = rng.choice(behind)
            ags.append(wagent(2, b2, HD, None, 1))
            d2r, d2c = (b2[0] > ar) - (b2[0] < ar), (b2[1] > ac) - (b2[1] < ac)
            behind2 = [(r, c) for (r, c) in cells if (r, c) not in ((br, bc), b2)
                       and (r - b2[0]) * d2r >= 0 and (c - b2[1]) * d2c >= 0]
            border = border + behind2 * 2
            if rng.random() < 0.5:
                ags[1], ags[-1] = ags[-1], ags[1]      # registration order of the two blockers
        pool = border * 3 + behind
        for pos in rng.sample(pool, min(len(pool), rng.randint(1, 5))):
            if all(tuple(a[1]) != pos for a in ags):
                ags.append(wagent(3, pos, HD, None, 0))
        kind = rng.choice([0, 0, 1, 2, 3])
        present = sorted({a[0] for a in ags})
        mapping = [[e, ([x for x in (2, 3) if x in present] if e == 1 else [])] for e in present]
        sim = 3
        params = [[R, HD // 2, HD, sim]] + [[1, HD, HD, 1] for _ in ags[1:]]
        pts = action_space_points(kind, R, sim, [x for x in (2, 3) if x in present], rng, 12)
        meta = [kind, mapping, rng.choice([0, 1]), params, rng.getrandbits(30)]
        for p in pts:
            yield [rows, cols, [], ags, [[0, p]], meta]


def long_ray_cases(rng, n):
    """Range 15 and more: a blocker at offset (8,5) / (8,6) (and the seven images) and a target whose
    centre lies EXACTLY on the shadow's edge ((15,11) / (15,13)): visible by the rule, hidden as soon
    as the ray is evaluated slope-first in binary64; a second target well inside the shadow."""
    for _ in range(n):
        br, bc, tr, tc = rng.choice([(8, 5, 15, 11), (8, 6, 15, 13)])
        sr, sc = rng.choice([1, -1]), rng.choice([1, -1])
        swap = rng.random() < 0.5
        size = 16 + rng.randint(0, 2)
        o = (0 if sr > 0 else size - 1, 0 if sc > 0 else size - 1)

        def at(dr, dc):
            if swap:
                dr, dc = dc, dr
            return (o[0] + sr * dr, o[1] + sc * dc)
        ags = [wagent(1, o, HD, rng.choice([None, 3])), wagent(2, at(br, bc), HD, None, 1),
               wagent(3, at(tr, tc), HD, None, 0)]
        if rng.random() < 0.6:
            ags.append(wagent(3, at(br + 2, bc + 1), HD, None, 0))      # inside the shadow
        kind = rng.choice([0, 1])
        mapping = [[1, [3]], [2, []], [3, []]]
        params = [[-1, HD // 2, HD, 2]] + [[1, HD, HD, 1] for _ in ags[1:]]
        meta = [kind, mapping, 0, params, rng.getrandbits(30)]
        act = 2 if kind == 0 else [[3, 2]]
        yield [size, size, [], ags, [[0, act]], meta]


def gen(tier, rng):
    quick = tier != "thorough"
    yield from shadow_cases(rng, 200 if quick else 4000)
    yield from long_ray_cases(rng, 24 if quick else 400)
    n_layouts = 260 if quick else 6000
    cap = 40 if quick else 600
    for _ in range(n_layouts):
        rows, cols, ov, encs, ags = random_layout(rng, quick)
        ok = legalise(ov, ags)
        for a, o in zip(ags, ok):
            if not o:
                a[2] = 0       # unplaced agents: inactive with zero health
        live = [i for i, o in enumerate(ok) if o]
        if len(live) < 2:
            continue
        kind = rng.choice([0, 1, 2, 3])
        encs = sorted({a[0] for a in ags})     # the mapping may only mention encodings in the simulation
        mapping = [[e, sorted(x for x in encs if rng.random() < 0.7)] for e in encs]
        stacked = rng.random() < 0.4
        params = []
        for i in range(len(ags)):
            rg = rng.choice([0, 1, 1, 1, 2, -1]) if kind < 2 else rng.choice([0, 1, 1, 1, 2] + ([-1] if max(rows, cols) <= 3 else []))
            st = rng.choice([HD, HD // 2, HD // 4, 1, 0, 3 * HD // 8])
            acc = rng.choice([HD, HD, HD, HD // 2, 0, HD - 1])
            sim = rng.choice([0, 1, 1, 2, 3])
            params.append([rg, st, acc, sim])
        att = rng.choice(live)
        rg, st, acc, sim = params[att]
        R = (max(rows, cols) - 1) if rg < 0 else rg
        mp_encs = sorted(dict(mapping)[ags[att][0]])
        pts = action_space_points(kind, R, sim, mp_encs, rng, cap)
        seed = rng.getrandbits(30)
        meta = [kind, mapping, 1 if stacked else 0, params, seed]
        # every action from the same start state: one case per action
        for p in pts[: cap]:
            yield [rows, cols, ov, ags, [[att, p]], meta]
        # successive attacks by several attackers
        seq = []
        for _ in range(rng.randint(2, 8)):
            a2 = rng.choice(live)
            rg2, _, _, sim2 = params[a2]
            R2 = (max(rows, cols) - 1) if rg2 < 0 else rg2
            enc2 = sorted(dict(mapping)[ags[a2][0]])
            seq.append([a2, rng.choice(action_space_points(kind, R2, sim2, enc2, rng, 6))])
        yield [rows, cols, ov, ags, seq, meta]


def nontrivial(inp, out):
    return "(1 (" in out and "(1 ())" not in out[:40] or "(1 (0" in out or "(1 (1" in out or "(1 (2" in out


def classify(inp, out):
    kind = KINDS[inp[5][0]]
    stacked = "stacked" if inp[5][2] else "plain"
    hit = "hit" if any(s in out for s in ("(1 (0", "(1 (1", "(1 (2", "(1 (3", "(1 (4", "(1 (5", "(1 (6")) else "nohit"
    return f"{kind}/{stacked}/{hit}"


def shrink(inp):
    rows, cols, ov, ags, ops, meta = inp
    for i in range(len(ops) - 1, 0, -1):
        yield [rows, cols, ov, ags, ops[:i], meta]


COMPONENTS = [
    Component(1101, "attack_actors", impl, gen, chk=1102, nontrivial=nontrivial, classify=classify,
              shrink=shrink, compare=compare),
]
COMPONENTS[0].split = split


# ------------------------------------------------------------------ binary64 layer (Grid/HealthFloat.v)
# "each hit lowers the victim's health by exactly the attack strength (clamped at zero), agents
# reaching zero health die and leave the grid" for health and strength that are arbitrary doubles:
# the real actors hit one victim n times; the model is the standard library's executable
# specification of binary64 (SpecFloat).  A double travels as (m e), value m * 2^e, m odd or 0.

def f2w(x):
    import math
    x = float(x)
    if x == 0:
        return [0, 0]
    if x != x or x in (float("inf"), float("-inf")):
        return [3 if x != x else (2 if x > 0 else -2), 99999]
    mant, exp = math.frexp(x)
    m, e = int(mant * 2 ** 53), exp - 53
    while m % 2 == 0:
        m //= 2
        e += 1
    return [m, e]


def w2f(w):
    import math
    return math.ldexp(float(w[0]), w[1])


def impl_float(inp):
    hm, he, sm, se, n, kind = inp
    h, s = w2f([hm, he]), w2f([sm, se])
    wags = [wagent(1, (0, 0)), wagent(2, (0, 1))]
    agents = G.build_agents(wags, extra=lambda i: dict(attack_range=1, attack_strength=(s if i == 0 else 1.0),
                                                       attack_accuracy=1.0, simultaneous_attacks=1))
    grid = G.build_grid(1, 2, [])
    actor = make_actor(kind, grid, agents, [[1, [2]], [2, []]], 0)
    G.place_initial(grid, agents, wags)
    att, vic = agents[G.aid(0)], agents[G.aid(1)]
    vic.health = h
    action = {0: 1, 1: {2: 1}, 2: np.ones((3, 3), dtype=int), 3: np.array([6], dtype=int)}[kind]
    out = []
    for _ in range(n):
        actor.process_action(att, {"attack": action})
        out.append([f2w(vic.health), 1 if vic.active else 0, 1 if vic.id in (grid[0, 1] or {}) else 0])
    return out


def split_float(inp, out):
    return inp[:5], out


def gen_float(tier, rng):
    quick = tier != "thorough"
    import math
    for _ in range(1500 if quick else 60000):
        r = rng.random()
        if r < 0.45:          # decimal fractions: residues of repeated subtraction
            den = rng.choice([10, 10, 100, 3, 7, 20, 1000])
            h = rng.randint(1, den) / den
            s = rng.randint(1, den) / den
        elif r < 0.6:         # tiny values
            h = rng.choice([5e-10, 1e-9, 1e-12, 3e-16, 2.0 ** -40, 1.0])
            s = rng.choice([1e-10, 1e-9, 2.5e-13, 2.0 ** -42, 1e-17, 0.1])
        elif r < 0.8:         # arbitrary doubles in (0, 1]
            h, s = 1.0 - rng.random(), 1.0 - rng.random()
        else:                 # dyadic values (the integer models' domain)
            h, s = rng.randint(1, 32) / 32, rng.randint(1, 32) / 32
        n = min(40, int(math.ceil(h / s)) + rng.randint(0, 2)) if s > 0 else 3
        yield f2w(h) + f2w(s) + [max(1, n), rng.choice([0, 0, 1, 2, 3])]


def nontrivial_float(inp, out):
    return "(0 0) 0 0" in out


def classify_float(inp, out):
    h, s = w2f(inp[0:2]), w2f(inp[2:4])
    dy = (h * 2 ** 20).is_integer() and (s * 2 ** 20).is_integer()
    return ("dyadic" if dy else "non-dyadic") + ("/death" if "(0 0) 0 0" in out else "/survives")


COMPONENTS.append(Component(1103, "float_health", impl_float, gen_float, chk=1104, nontrivial=nontrivial_float,
                            classify=classify_float))
COMPONENTS[-1].split = split_float
