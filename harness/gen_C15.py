"""C15: the real OpenSpielWrapper / GymWrapper over the real managers over the scripted
simulation vs coq/Ctl/Adapters.v."""
from . import envshim  # noqa: F401
import itertools
import random
from .runner import Component, exc_code, ERR_REJECT
from . import stubsim, sx
from .stubsim import aid, aidx
from .mgrproxy import Recorder, make_manager, enc_dict, manager_episode_length

PROP = "C15"
RULE = ("osp: a case is (manager kind all/turn, script = agents/learning flags/done table/finish "
        "time/accruals, per-agent Discrete action sizes, discounts, plan of episodes); an "
        "OpenSpiel-style driver sends one action (turn-based, for the named current player) or one per "
        "learning agent (simultaneous, also for finished agents) until LAST, a cut, or the step budget "
        "4 x manager-level episode length (exceeding it = TIMEOUT); exhaustive small scripts (n<=3) "
        "plus random ones (n<=5); non-trivial = some agent is reported done while the episode "
        "continues, or an episode reaches LAST; gym: (manager kind, script with any number of "
        "learning agents, calls); non-trivial = exactly one learning agent and a step is answered")
ASSUMPTIONS = [
    "the simulation's get_done/get_all_done/get_info are observationally pure (done status does not "
    "change by reading observations or rewards) - hypothesis done_stable of the turn-based theorems",
    "every agent's spaces are Discrete (the adapter's own constructor assertion)",
    "wall-clock termination is only observed by the harness (step budget and per-case time limit); "
    "the theorems prove that every adapter step performs one manager step",
]

ST = {"FIRST": 0, "MID": 1, "LAST": 2}


def build(script, nacts, randomize=False):
    from gymnasium.spaces import Discrete
    sim, mgr = make_manager(script, randomize)
    for i in range(script[1]):
        if script[2][i]:
            sim.agents[aid(i)].action_space = Discrete(max(1, nacts[i]))
    return sim, mgr


def enc_timestep(ts):
    o = ts.observations
    return [0, int(ts.step_type.value) if hasattr(ts.step_type, "value") else ST[ts.step_type.name],
            enc_dict(o["info_state"]),
            [[aidx(k), [int(x) for x in v]] for k, v in o["legal_actions"].items()],
            aidx(o["current_player"]),
            [] if ts.rewards is None else [enc_dict(ts.rewards)],
            [] if ts.discounts is None else [enc_dict(ts.discounts)]]


def drive_osp(inp):
    from abmarl.external import OpenSpielWrapper
    script, nacts, discs, plan, seed, randomize = inp
    rng = random.Random(seed)
    sim, mgr = build(script, nacts, randomize)
    n_learn = sum(script[2])
    turn = script[0] == 1
    L = manager_episode_length(script, len(script[3]) + script[1] + 3)
    budget = 4 * L if L is not None else None   # an episode that never ends is only ever cut
    rec = Recorder(mgr)
    w = OpenSpielWrapper(mgr, discounts={aid(i): discs[i] for i in range(script[1]) if script[2][i]})

    def fake(r, log):
        # a "fake step" (every submitted action was for a finished agent) answers with a time step
        # without consulting the manager: observable as such, no hook into the adapter needed
        return 1 if (r[0] == 0 and not log) else 0
    calls, events = [], []
    amax = max(1, min([nacts[i] for i in range(script[1]) if script[2][i]] or [1]))
    timeout = 0

    def do(call, f):
        try:
            r = enc_timestep(f())
        except AssertionError:
            r = [2]
        except TimeoutError:
            raise
        except BaseException:
            r = [3]
        calls.append(call)
        log = rec.take()
        events.append([r, log, fake(r, log)])
        return r

    since_first = 0
    with rec:
        for mode, cut in plan:
            if mode == 2:          # one malformed step
                al = [] if turn else [0] * (n_learn + rng.choice([-1, 1]))
                r = do([1, al, []], lambda: w.step(list(al)))
                if r[0] == 0 and r[1] == 0:
                    since_first = 0
                continue
            if mode == 0:
                do([0], lambda: w.reset())
                since_first = 0
            last = False
            for _ in range(cut):
                if turn:
                    al = [rng.randrange(amax)] + ([rng.randrange(amax)] if rng.random() < 0.1 else [])
                else:
                    al = [rng.randrange(amax) for _ in range(n_learn)]
                nsh = len(rec.shuffles)
                try:
                    r = enc_timestep(w.step(list(al)))
                except AssertionError:
                    r = [2]
                except TimeoutError:
                    raise
                except BaseException:
                    r = [3]
                sh = [rec.shuffles[nsh]] if len(rec.shuffles) > nsh else []
                calls.append([1, al, sh])
                log = rec.take()
                events.append([r, log, fake(r, log)])
                if r[0] != 0:
                    break
                if r[1] == 0:
                    since_first = 0
                else:
                    since_first += 1
                if r[1] == 2:
                    last = True
                    break
                if budget is not None and since_first > budget:
                    timeout = 1
                    break
            if timeout:
                break
    return [calls, [events, timeout]]


def split_osp(inp, out):
    if out[0] == -1:
        return [inp[0], inp[1], inp[2], []], out
    return [inp[0], inp[1], inp[2], out[0]], out[1]


def monotone_script(kind, n, learn, dts, ft, T):
    rows = []
    for t in range(T + 1):
        done = [1 if t >= dts[i] else 0 for i in range(n)]
        live = [i for i in range(n) if not done[i]]
        nx = (live[:1] + [i for i in range(n) if done[i]][:1]) or [0]
        rows.append([done, 1 if t >= ft else 0, nx, [t + i for i in range(n)]])
    return [kind, n, list(learn), rows]


def exhaustive_scripts(kind, nmax, T, dtvals=(1, 2, 3, 99), ftvals=(1, 2, 3, 99)):
    for n in range(1, nmax + 1):
        for learn in itertools.product([0, 1], repeat=n):
            if not any(learn):
                continue
            for dts in itertools.product(dtvals, repeat=n):
                for ft in ftvals:
                    yield monotone_script(kind, n, learn, dts, ft, T)


PLANS = [[[0, 9]], [[0, 9], [1, 9]], [[0, 2], [0, 9], [1, 9]], [[1, 9], [1, 9], [0, 1], [1, 9]],
         [[0, 9], [2, 0], [1, 9]], [[0, 1], [2, 0], [1, 3], [0, 9]]]


def gen_osp(tier, rng):
    quick = tier != "thorough"
    # the replay of finding F4 first: two agents, a0 finishes by its own first action
    yield [monotone_script(1, 2, [1, 1], [1, 3], 99, 4), [2, 2], [1, 1], [[0, 9]], 1, 0]
    for kind in (0, 1):
        scripts = list(exhaustive_scripts(kind, 3, 4))
        if quick:
            scripts = scripts[::2] + rng.sample(scripts, 300)
        for sc in scripts:
            n = sc[1]
            yield [sc, [rng.randint(1, 3) for _ in range(n)], [rng.randint(0, 2) for _ in range(n)],
                   rng.choice(PLANS), rng.getrandbits(30), 0]
    n_rand = 3000 if quick else 60000
    for _ in range(n_rand):
        kind = rng.choice([0, 1, 1])
        sc = stubsim.random_script(rng, kind, nmax=5 if quick else 6, tmax=8 if quick else 12,
                                   monotone=rng.random() < 0.85)
        n = sc[1]
        T = len(sc[3])
        plan = []
        for _e in range(rng.randint(1, 4)):
            mode = rng.choice([0, 0, 1, 1, 1, 2])
            plan.append([mode, 0 if mode == 2 else rng.choice([1, 2, T, 2 * T + 2])])
        yield [sc, [rng.randint(1, 4) for _ in range(n)], [rng.randint(0, 3) for _ in range(n)],
               plan, rng.getrandbits(30), 1 if (kind == 0 and rng.random() < 0.3) else 0]


def _osp_events(out):
    o = sx.loads(out) if isinstance(out, str) else out
    if not o or o[0] == -1:
        return None, 0
    return o[0], o[1]


def _done_mid(events):
    for e in events:
        for c, r in e[1]:
            if r[0] == 1 and not r[5] and any(d for _, d in r[3]):
                return True
    return False


def nontrivial_osp(inp, out):
    ev, to = _osp_events(out)
    if ev is None:
        return False
    return _done_mid(ev) or any(e[0][0] == 0 and e[0][1] == 2 for e in ev)


def classify_osp(inp, out):
    ev, to = _osp_events(out)
    k = "turn" if inp[0][0] == 1 else "all"
    if ev is None:
        return k + "/exception"
    tags = []
    if to:
        tags.append("TIMEOUT")
    if _done_mid(ev):
        tags.append("done-mid")
    if any(e[0][0] == 0 and e[0][1] == 2 for e in ev):
        tags.append("last")
    calls_types = [(e[0][0], e[0][1] if e[0][0] == 0 else None, len(e[1])) for e in ev]
    if any(t == (0, 0, 1) for t in calls_types) and len([1 for t in calls_types if t[1] == 0]) > 1:
        tags.append("re-reset")
    if any(e[2] for e in ev):
        tags.append("fake")
    if any(e[0][0] != 0 for e in ev):
        tags.append("refused")
    if inp[5]:
        tags.append("shuffle")
    return k + "/" + "+".join(tags or ["plain"])


def shrink_osp(inp):
    script, nacts, discs, plan, seed, rnd = inp
    for i in range(len(plan)):
        if len(plan) > 1:
            yield [script, nacts, discs, plan[:i] + plan[i + 1:], seed, rnd]
    for i in range(len(plan)):
        if plan[i][1] > 1:
            yield [script, nacts, discs, plan[:i] + [[plan[i][0], plan[i][1] - 1]] + plan[i + 1:], seed, rnd]
    kind, n, learn, rows = script
    if len(rows) > 2:
        yield [[kind, n, learn, rows[:-1]], nacts, discs, plan, seed, rnd]


# ----------------------------------------------------------------------------- gym adapter

def drive_gym(inp):
    from abmarl.external import GymWrapper
    script, plan, seed, randomize = inp
    rng = random.Random(seed)
    sim, mgr = make_manager(script, randomize)
    rec = Recorder(mgr)
    try:
        w = GymWrapper(mgr)
    except AssertionError:
        return [[], [2]]
    calls, out = [], []
    with rec:
        for op in plan:
            nsh = len(rec.shuffles)
            if op == 0:
                call = [0]
                try:
                    ob, info = w.reset()
                    assert info == {}
                    r = [0, int(ob)]
                except AssertionError:
                    r = [2]
                except TimeoutError:
                    raise
                except BaseException:
                    r = [3]
            else:
                x = rng.randrange(10)
                try:
                    ob, rw, dn, tr, inf = w.step(x)
                    r = [1, int(ob), int(rw), 1 if dn else 0, 1 if tr else 0, int(inf)]
                except AssertionError:
                    r = [2]
                except TimeoutError:
                    raise
                except BaseException:
                    r = [3]
                call = [1, x, [rec.shuffles[nsh]] if len(rec.shuffles) > nsh else []]
            calls.append(call)
            out.append([r, rec.take()])
    return [calls, [0, out]]


def split_gym(inp, out):
    if out[0] == -1:
        return [inp[0], []], out
    return [inp[0], out[0]], out[1]


def gen_gym(tier, rng):
    quick = tier != "thorough"
    plans = [[0, 1, 1, 1, 1, 1], [0, 1, 1, 0, 1, 1, 1, 1], [0, 0, 1, 1, 1, 1, 1, 0, 1], [0, 0, 1, 1]]
    for kind in (0, 1, 2):
        for n in (1, 2, 3):
            for la in range(n):
                learn = [1 if i == la else 0 for i in range(n)]
                for dts in itertools.product((1, 2, 99), repeat=n):
                    for ft in (1, 3, 99):
                        sc = monotone_script(kind, n, learn, dts, ft, 4)
                        if kind == 2 and rng.random() < 0.5:
                            for row in sc[3]:
                                row[2] = rng.sample(range(n), rng.randint(1, n))
                        yield [sc, rng.choice(plans), rng.getrandbits(30), 0]
    for _ in range(800 if quick else 20000):
        kind = rng.choice([0, 1, 2])
        sc = stubsim.random_script(rng, kind, nmax=4, tmax=6, monotone=rng.random() < 0.85)
        if rng.random() < 0.8:
            la = rng.randrange(sc[1])
            sc[2] = [1 if i == la else 0 for i in range(sc[1])]
        # the first call is reset (stepping a never-reset manager is outside the protocol)
        plan = [0] + [rng.choice([0, 1, 1, 1, 1]) for _ in range(rng.randint(1, 11))]
        yield [sc, plan, rng.getrandbits(30), 1 if (kind == 0 and rng.random() < 0.3) else 0]


def nontrivial_gym(inp, out):
    o = sx.loads(out) if isinstance(out, str) else out
    return bool(o) and o[0] == 0 and any(r[0][0] == 1 for r in o[1])


def classify_gym(inp, out):
    o = sx.loads(out) if isinstance(out, str) else out
    k = {0: "all", 1: "turn", 2: "dyn"}[inp[0][0]]
    if not o or o[0] == -1:
        return k + "/exception"
    if o[0] == 2:
        return k + "/constructor-refuses"
    tags = sorted({{0: "reset", 1: "step", 2: "reject", 3: "keyerror"}[r[0][0]] for r in o[1]})
    return k + "/" + "+".join(tags)


def repro_osp(inp):
    return ("PYTHONPATH=/verif:$VERIF_REPO /venv/bin/python -c \"from harness import gen_C15, sx; "
            "print(gen_C15.drive_osp(sx.loads('%s')))\"  # real OpenSpielWrapper over the real manager "
            "over the scripted simulation; input = [script=[kind(0 all,1 turn), n, learning, "
            "rows[done bits, all, nominated, accruals]], action sizes, discounts, plan[[mode(0 reset "
            "first,1 just step,2 malformed), max steps]], seed, randomize]; output = [calls, "
            "[[timestep, manager traffic, fake]..., timeout]]" % sx.dumps(inp))


COMPONENTS = [
    Component(1501, "openspiel", drive_osp, gen_osp, chk=1502, nontrivial=nontrivial_osp,
              classify=classify_osp, shrink=shrink_osp, repro=repro_osp, timeout=20),
    Component(1503, "gym", drive_gym, gen_gym, chk=1504, nontrivial=nontrivial_gym,
              classify=classify_gym, timeout=20),
]
COMPONENTS[0].split = split_osp
COMPONENTS[1].split = split_gym
