"""C02: observations and actions live in the agents' declared spaces.

Three MONITORS on the real code of /repo (no model of the monitored code: the model side is the
constant "no violation" and the checker accepts exactly the empty list of violation records):

  examples         every packaged example simulation of abmarl/examples/sim, constructed as the
                   driver scripts under /repo/examples construct it (smaller sizes), played for
                   seeded episodes under the real AllStepManager / TurnBasedManager;
  grid_components  random complete grid simulations assembled from the BUILT-IN components only
                   (five observers, three move actors, four attack actors, four state components,
                   ActiveDone), random play including deaths, plus every point of the declared action
                   space (<= 300 points, else 40 samples) processed from a fixed state;
  wrapper_stacks   the same monitors through RavelDiscreteWrapper, FlattenWrapper, SuperAgentWrapper,
                   CommunicationHandshakeWrapper and stacks of two over MultiCorridor, a scripted
                   simulation with nested spaces and a grid simulation.

Monitored after reset and after every step: `obs in agent.observation_space` for every reported
agent, declared null points are members, no exception out of reset / step (which includes get_obs).
Violation record = [example/config id, episode seed, step, agent index, kind, detail].
"""
from . import envshim  # noqa: F401
import copy
import os
import random
from collections import Counter

import numpy as np
from .runner import Component, exc_code

PROP = "C02"
RULE = ("a case is one (simulation description, manager, seed, episodes, steps); distinct = distinct "
        "cases; every case plays at least one seeded episode under a real manager and is counted as "
        "non-trivial; the per-case counters (observations checked against the declared space, steps, "
        "null points checked, actions, finished / dead agents, exhaustively probed actions) are returned "
        "by the implementation run, folded into the model input, and summed in coverage.monitor_totals; "
        "hit counts per example and manager, per actor pair and per wrapper stack are in branch_hits, per "
        "built-in component and option in coverage.component_hits")
ASSUMPTIONS = [
    "monitors, not a model comparison: the model side is the constant 'no violation'; what is proved "
    "about the actors, null points and wrappers is in Props/P_C02.v, the observers' bounds are C09's",
    "the packaged examples' bespoke components and the composition of components into simulations "
    "are covered by this monitor run only (testing)",
    "MultiAgentSim (base class of abmarl/examples/sim/multi_agent_sim.py) is a pass-through mock whose "
    "observations, rewards and dones are label strings by design; it is run for exceptions only",
    "PacmanSim / PacmanSimSimple index action_dict['pacman'] in every step (synchronous game): "
    "played under AllStepManager only, as the driver script does",
    "a null point counts as declared when it is not the empty dict (has_null_point of the wrappers)",
    "numpy.random and random are seeded per episode; actions are space.seed(k); space.sample()",
]

# violation kinds (the checker answers -(200 + kind) for the first record)
K_OBS, K_NULL_OBS, K_NULL_ACT, K_RESET, K_STEP, K_BUILD, K_ACTION, K_SAMPLE, K_HARNESS = 1, 2, 3, 4, 5, 6, 7, 8, 9
REPO = envshim.REPO


# ------------------------------------------------------------------------------------ monitor core

class Mon:
    def __init__(self, tag):
        self.tag, self.v, self.st = tag, [], Counter()

    def add(self, ep, step, ai, kind, detail=0):
        self.st["violations"] += 1
        if len(self.v) < 12:
            self.v.append([int(self.tag), int(ep), int(step), int(ai), int(kind), int(detail)])

    STAT_KEYS = ("obs", "steps", "episodes", "null_obs", "null_act", "actions", "done", "inactive",
                 "probe_actions", "violations")

    def stats(self):
        return [int(self.st[k]) for k in self.STAT_KEYS]


def declared(null_point):
    return not (isinstance(null_point, dict) and len(null_point) == 0)


def contains(space, x):
    try:
        return bool(x in space)
    except Exception:
        return False


def check_nulls(mon, agents, ep, step):
    for i, a in enumerate(agents.values()):
        if hasattr(a, "observation_space") and hasattr(a, "null_observation") and declared(a.null_observation):
            mon.st["null_obs"] += 1
            if not contains(a.observation_space, a.null_observation):
                mon.add(ep, step, i, K_NULL_OBS)
        if hasattr(a, "action_space") and hasattr(a, "null_action") and declared(a.null_action):
            mon.st["null_act"] += 1
            if not contains(a.action_space, a.null_action):
                mon.add(ep, step, i, K_NULL_ACT)


def check_obs(mon, agents, index, obs, ep, step, membership=True):
    for k, o in obs.items():
        a = agents[k]
        mon.st["obs"] += 1
        if membership and not contains(a.observation_space, o):
            mon.add(ep, step, index[k], K_OBS)


def make_manager(kind, sim):
    from abmarl.managers import AllStepManager, TurnBasedManager
    return (AllStepManager if kind == 0 else TurnBasedManager)(sim)


def play(mon, top, mgr_kind, seed, episodes, nsteps, membership=True, after_reset=None, steer=None):
    """Seeded episodes of `top` under a real manager with sampled actions; monitors after reset and
    after every step.  after_reset(ep) is called once per episode right after the reset."""
    agents = top.agents
    index = {k: i for i, k in enumerate(agents)}
    try:
        mgr = make_manager(mgr_kind, top)
    except Exception as e:
        mon.add(seed, 0, -1, K_BUILD, exc_code(e))
        return
    check_nulls(mon, agents, seed, 0)
    for ep in range(episodes):
        es = seed * 101 + ep
        np.random.seed(es % (2 ** 32))
        random.seed(es)
        mon.st["episodes"] += 1
        try:
            obs = mgr.reset()
        except Exception as e:
            mon.add(es, 0, -1, K_RESET, exc_code(e))
            if os.environ.get("VERIF_DEBUG"):
                raise
            return
        check_nulls(mon, agents, es, 0)
        check_obs(mon, agents, index, obs, es, 0, membership)
        if after_reset is not None:
            after_reset(es)
        done = set()
        for t in range(1, nsteps + 1):
            acts = {}
            for k in obs:
                if k in done:
                    continue
                sp = agents[k].action_space
                sp.seed((es * 1009 + t * 37 + index[k]) % (2 ** 31))
                a = sp.sample()
                if not contains(sp, a):
                    mon.add(es, t, index[k], K_SAMPLE)
                if steer is not None:
                    a = steer(es, t, k, a)         # still a point of the declared space (checked)
                    if not contains(sp, a):
                        mon.add(es, t, index[k], K_HARNESS)
                acts[k] = a
            if not acts:
                break
            mon.st["actions"] += len(acts)
            try:
                obs, rew, dn, info = mgr.step(acts)
            except Exception as e:
                mon.add(es, t, -1, K_STEP, exc_code(e))
                if os.environ.get("VERIF_DEBUG"):
                    raise
                break
            mon.st["steps"] += 1
            check_obs(mon, agents, index, obs, es, t, membership)
            for k, v in dn.items():
                if k != "__all__" and v and k not in done:
                    done.add(k)
                    mon.st["done"] += 1
            if dn["__all__"]:
                break
        mon.st["inactive"] += sum(1 for a in _base_agents(top).values() if getattr(a, "active", True) is False)


def _base_agents(top):
    s = top
    while hasattr(s, "sim"):
        s = s.sim
    return s.agents


# ------------------------------------------------------------------------------------ space enumeration

def space_size(sp):
    """Number of points of a space built from Discrete / MultiDiscrete / MultiBinary / integer Box /
    Dict / Tuple; None when it has a float Box."""
    from gymnasium.spaces import Discrete, MultiDiscrete, MultiBinary, Dict, Tuple
    from gymnasium.spaces import Box as GymBox
    if isinstance(sp, Discrete):
        return int(sp.n)
    if isinstance(sp, MultiDiscrete):
        n = 1
        for d in np.asarray(sp.nvec).flatten().tolist():
            n *= int(d)
        return n
    if isinstance(sp, MultiBinary):
        return 2 ** int(np.prod(sp.shape))
    if isinstance(sp, GymBox):
        if not np.issubdtype(sp.dtype, np.integer):
            return None
        n = 1
        for lo, hi in zip(sp.low.flatten().tolist(), sp.high.flatten().tolist()):
            n *= int(hi) - int(lo) + 1
        return n
    if isinstance(sp, (Dict, Tuple)):
        subs = sp.spaces.values() if isinstance(sp, Dict) else sp.spaces
        n = 1
        for s in subs:
            m = space_size(s)
            if m is None:
                return None
            n *= m
        return n
    return None


def space_unrank(sp, k):
    """The k-th point (mixed radix, first component most significant) in the representation that
    space.sample() uses."""
    from gymnasium.spaces import Discrete, MultiDiscrete, MultiBinary, Dict, Tuple
    from gymnasium.spaces import Box as GymBox
    if isinstance(sp, Discrete):
        return np.int64(k)
    if isinstance(sp, (MultiDiscrete, MultiBinary, GymBox)):
        if isinstance(sp, MultiDiscrete):
            radix = [int(d) for d in np.asarray(sp.nvec).flatten().tolist()]
            lows = [0] * len(radix)
            shape, dt = np.asarray(sp.nvec).shape, sp.dtype
        elif isinstance(sp, MultiBinary):
            n = int(np.prod(sp.shape))
            radix, lows, shape, dt = [2] * n, [0] * n, sp.shape, sp.dtype
        else:
            lo, hi = sp.low.flatten().tolist(), sp.high.flatten().tolist()
            radix = [int(h) - int(l) + 1 for l, h in zip(lo, hi)]
            lows, shape, dt = [int(l) for l in lo], sp.shape, sp.dtype
        vals = []
        for r, l in zip(reversed(radix), reversed(lows)):
            vals.append(l + k % r)
            k //= r
        return np.array(list(reversed(vals)), dtype=dt).reshape(shape)
    items = list(sp.spaces.items()) if isinstance(sp, Dict) else list(enumerate(sp.spaces))
    out = {}
    for key, s in reversed(items):
        m = space_size(s)
        out[key] = space_unrank(s, k % m)
        k //= m
    if isinstance(sp, Dict):
        return {key: out[key] for key, _ in items}
    return tuple(out[key] for key, _ in items)


# ------------------------------------------------------------------------------------ (a) examples

def _gwa(**kw):
    from abmarl.sim.gridworld.agent import GridWorldAgent
    return GridWorldAgent(**kw)


def ex_maze(rng):
    from abmarl.examples.sim.maze_navigation import MazeNavigationAgent, MazeNavigationSim
    reg = {'N': lambda n: MazeNavigationAgent(id='navigator', encoding=1, view_range=2, render_color='blue'),
           'T': lambda n: _gwa(id='target', encoding=3, render_color='green'),
           'W': lambda n: _gwa(id=f'wall{n}', encoding=2, blocking=True, render_shape='s')}
    kw = dict(overlapping={1: {3}, 3: {1}}, states={'PositionState'},
              observers={'PositionCenteredEncodingObserver'})
    if rng.random() < 0.5:
        return MazeNavigationSim.build_sim_from_file(os.path.join(REPO, "examples", "maze.txt"), reg, **kw)
    arr = np.array([['_', 'W', 'T'], ['N', '_', '_'], ['W', '_', 'W']])
    return MazeNavigationSim.build_sim_from_array(arr, reg, **kw)


def ex_multi_maze(rng):
    from abmarl.examples.sim.multi_maze_navigation import MultiMazeNavigationAgent, MultiMazeNavigationSim
    n = rng.choice([6, 8, 10])
    agents = {'target': _gwa(id='target', encoding=1, render_color='g'),
              **{f'barrier{i}': _gwa(id=f'barrier{i}', encoding=2, render_shape='s') for i in range(n)},
              **{f'navigator{i}': MultiMazeNavigationAgent(id=f'navigator{i}', encoding=3, view_range=5)
                 for i in range(rng.choice([2, 3, 5]))}}
    return MultiMazeNavigationSim.build_sim(
        n, n, agents=agents, overlapping={1: {3}, 3: {3}}, target_agent=agents['target'],
        barrier_encodings={2}, free_encodings={1, 3}, cluster_barriers=True, scatter_free_agents=True,
        no_overlap_at_reset=True)


def _battle_sim(rng):
    from abmarl.examples.sim.team_battle_example import BattleAgent, TeamBattleSim
    positions = [np.array([1, 1]), np.array([1, 6]), np.array([6, 1]), np.array([6, 6])]
    agents = {f'agent{i}': BattleAgent(id=f'agent{i}', encoding=i % 4 + 1, initial_position=positions[i % 4])
              for i in range(rng.choice([8, 12, 24]))}
    return TeamBattleSim.build_sim(
        8, 8, agents=agents, overlapping={1: {1}, 2: {2}, 3: {3}, 4: {4}},
        attack_mapping={1: {2, 3, 4}, 2: {1, 3, 4}, 3: {1, 2, 4}, 4: {1, 2, 3}},
        states={'PositionState', 'HealthState'}, observers={'PositionCenteredEncodingObserver'},
        dones={'OneTeamRemainingDone'})


def ex_team_battle(rng):
    return _battle_sim(rng)


def ex_traffic(rng):
    from abmarl.examples.sim.traffic_corridor import WallAgent, TargetAgent, TrafficAgent, \
        TrafficCorridorSimulation
    grid = np.array([['G', 'W', 'W', 'W', 'R'], ['r', '_', '_', '_', 'g'], ['G', 'W', 'W', 'W', 'R']])
    reg = {'R': lambda n: TrafficAgent(id=f'red{n}', encoding=1, render_color='red'),
           'G': lambda n: TrafficAgent(id=f'green{n}', encoding=2, render_color='green'),
           'r': lambda n: TargetAgent(id='red_target', encoding=1, render_shape='s'),
           'g': lambda n: TargetAgent(id='green_target', encoding=2, render_shape='s'),
           'W': lambda n: WallAgent(id=f'wall{n}', encoding=3, render_shape='s')}
    return TrafficCorridorSimulation.build_sim_from_array(
        grid, reg, overlapping={1: {1}, 2: {2}}, states={"PositionState"}, dones={"TargetAgentOverlapDone"},
        observers={'PositionCenteredEncodingObserver'},
        target_mapping={'red0': 'red_target', 'red1': 'red_target', 'green0': 'green_target',
                        'green1': 'green_target'})


def ex_reach(rng):
    from abmarl.examples.sim.reach_the_target import ReachTheTargetSim, RunningAgent, TargetAgent, BarrierAgent
    if rng.random() < 0.5:
        # the same simulation on a small grid with everybody placed at random: runners may start
        # next to or ON the target's cell (the overlap table of the example allows it)
        gs = rng.choice([2, 3, 3, 4])
        agents = {**{f'barrier{i}': BarrierAgent(id=f'barrier{i}') for i in range(rng.choice([0, 1, 2]))},
                  **{f'runner{i}': RunningAgent(id=f'runner{i}', move_range=rng.choice([1, 2]), view_range=gs,
                                                initial_health=1) for i in range(rng.randint(1, 4))},
                  'target': TargetAgent(view_range=gs, attack_range=rng.choice([0, 1, 2]), attack_strength=1,
                                        attack_accuracy=1, simultaneous_attacks=rng.choice([1, 2]))}
        return ReachTheTargetSim.build_sim(gs, gs, agents=agents, overlapping={2: {3}, 3: {1, 2, 3}},
                                           attack_mapping={2: {3}})
    gs = 7
    corners = [np.array([0, 0], dtype=int), np.array([gs - 1, 0], dtype=int),
               np.array([0, gs - 1], dtype=int), np.array([gs - 1, gs - 1], dtype=int)]
    agents = {**{f'barrier{i}': BarrierAgent(id=f'barrier{i}') for i in range(rng.choice([4, 10]))},
              **{f'runner{i}': RunningAgent(id=f'runner{i}', move_range=2, view_range=int(gs / 2),
                                            initial_health=1, initial_position=corners[i]) for i in range(4)},
              'target': TargetAgent(view_range=gs, attack_range=1, attack_strength=1, attack_accuracy=1,
                                    initial_position=np.array([int(gs / 2), int(gs / 2)], dtype=int))}
    return ReachTheTargetSim.build_sim(7, 7, agents=agents, overlapping={2: {3}, 3: {1, 2, 3}},
                                       attack_mapping={2: {3}})


def _pacman(simple):
    from abmarl.examples.sim import pacman as P
    reg = {'P': lambda n: P.PacmanAgent(id='pacman', encoding=1, view_range=2, render_color='yellow'),
           'W': lambda n: P.WallAgent(id=f'wall_{n}', encoding=2, render_shape='s'),
           'F': lambda n: P.FoodAgent(id=f'food_{n}', encoding=3),
           'B': lambda n: P.BaddieAgent(id=f'baddie_{n}', encoding=4)}
    kw = dict(states={'PositionState', 'OrientationState', 'HealthState'},
              observers={'AbsoluteEncodingObserver'}, overlapping={1: {3, 4}, 4: {3, 4}})
    if simple:
        return P.PacmanSimSimple.build_sim_from_array(
            P.PacmanSimSimple.example_grid, reg,
            reward_scheme={'bad_move': 0, 'entropy': -0.01, 'eat_food': 0.2, 'die': -1}, **kw)
    return P.PacmanSim.build_sim_from_file(os.path.join(REPO, "examples", "pacman.txt"), reg, **kw)


def ex_pacman(rng):
    return _pacman(False)


def ex_pacman_simple(rng):
    return _pacman(True)


def ex_predator_prey(rng):
    from abmarl.examples.sim.predator_prey_resources import ResourceAgent, PreyAgent, PredatorAgent, \
        PredatorPreyResourcesSim
    n = rng.choice([6, 8, 20])
    agents = {**{f'resource_{i}': ResourceAgent(id=f'resource_{i}') for i in range(rng.choice([4, 11]))},
              **{f'prey_{i}': PreyAgent(id=f'prey_{i}') for i in range(rng.choice([3, 5]))},
              **{f'predator_{i}': PredatorAgent(id=f'predator_{i}') for i in range(2)}}
    am = {2: {1}, 3: {2}}
    return PredatorPreyResourcesSim.build_sim(
        n, n, agents=agents, overlapping={1: {2, 3}, 2: {1, 2, 3}, 3: {1, 2}}, attack_mapping=am,
        target_mapping=am, states={'PositionState', 'HealthState'},
        observers={'PositionCenteredEncodingObserver'}, dones={'ActiveDone', 'TargetEncodingInactiveDone'})


def ex_comms(rng):
    from abmarl.examples.sim.comms_blocking import BroadcastingAgent, BlockingAgent, BroadcastSim
    agents = {**{f'broadcaster{i}': BroadcastingAgent(id=f'broadcaster{i}', encoding=1, broadcast_range=6)
                 for i in range(rng.choice([2, 4]))},
              'blocker0': BlockingAgent(id='blocker0', encoding=2, move_range=2, view_range=3),
              'blocker1': BlockingAgent(id='blocker1', encoding=2, move_range=1, view_range=3),
              'blocker2': BlockingAgent(id='blocker2', encoding=2, move_range=1, view_range=3)}
    return BroadcastSim.build_sim(7, 7, agents=agents, broadcast_mapping={1: [1]}, done_tolerance=5e-10)


def ex_corridor(rng):
    from abmarl.examples.sim.multi_corridor import MultiCorridor
    end = rng.choice([4, 6, 10])
    return MultiCorridor(end=end, num_agents=rng.randint(1, min(5, end - 1)))


def _mas(k):
    from abmarl.examples.sim import multi_agent_sim as M
    return [M.MultiAgentSim, M.MultiAgentGymSpacesSim, M.MultiAgentContinuousGymSpaceSim,
            M.MultiAgentSameSpacesSim][k]()


def ex_grid_sim_plain(rng):
    from abmarl.examples.sim.multi_agent_grid_sim import MultiAgentGridSim
    agents = {f'a{i}': _gwa(id=f'a{i}', encoding=i % 2 + 1) for i in range(rng.randint(1, 4))}
    return MultiAgentGridSim.build_sim(rng.randint(2, 4), rng.randint(2, 4), agents=agents)


def ex_grid_sim_learning(rng):
    """MultiAgentGridSim reports the empty observation; give it learning agents that declare it."""
    from gymnasium.spaces import Dict, Discrete
    from abmarl.sim import Agent
    from abmarl.sim.gridworld.agent import GridWorldAgent
    from abmarl.examples.sim.multi_agent_grid_sim import MultiAgentGridSim

    class EmptyObsAgent(Agent, GridWorldAgent):
        pass
    agents = {f'a{i}': EmptyObsAgent(id=f'a{i}', encoding=i % 2 + 1, observation_space=Dict({}),
                                     action_space=Discrete(2)) for i in range(rng.randint(1, 3))}
    agents['w'] = _gwa(id='w', encoding=3)
    return MultiAgentGridSim.build_sim(3, 4, agents=agents)


# id -> (name, builder, managers, membership monitored)
EXAMPLES = {
    1: ("maze_navigation", ex_maze, (0, 1), True),
    2: ("multi_maze_navigation", ex_multi_maze, (0, 1), True),
    3: ("team_battle_example", ex_team_battle, (0, 1), True),
    4: ("traffic_corridor", ex_traffic, (0, 1), True),
    5: ("reach_the_target", ex_reach, (0, 1), True),
    6: ("pacman", ex_pacman, (0,), True),
    7: ("pacman_simple", ex_pacman_simple, (0,), True),
    8: ("predator_prey_resources", ex_predator_prey, (0, 1), True),
    9: ("comms_blocking", ex_comms, (0, 1), True),
    10: ("multi_corridor", ex_corridor, (0, 1), True),
    11: ("multi_agent_sim.MultiAgentSim(mock:exceptions-only)", lambda rng: _mas(0), (0, 1), False),
    12: ("multi_agent_sim.MultiAgentGymSpacesSim", lambda rng: _mas(1), (0, 1), True),
    13: ("multi_agent_sim.MultiAgentContinuousGymSpaceSim", lambda rng: _mas(2), (0, 1), True),
    14: ("multi_agent_sim.MultiAgentSameSpacesSim", lambda rng: _mas(3), (0, 1), True),
    15: ("multi_agent_grid_sim(non-learning)", ex_grid_sim_plain, (0,), True),
    16: ("multi_agent_grid_sim(+learning agents)", ex_grid_sim_learning, (0, 1), True),
}


class Steer:
    """Goal-directed play of one cross/drift-moving agent: walk along a shortest path (over the cells
    the grid lets the agent enter right now) to a goal cell, preferring passable cells in the first
    and last column (the tunnel ends of the pacman boards); wait a random number of steps first.
    Uses Grid.query and CrossMoveActor.grid_action (public) only."""

    def __init__(self, sim, agent_id):
        self.sim, self.aid = sim, agent_id
        self.goal, self.wait = None, {}

    def __call__(self, es, t, k, sampled):
        if k != self.aid or not isinstance(sampled, dict) or "move" not in sampled:
            return sampled
        rng = random.Random(es * 7 + t)
        if es not in self.wait:
            self.wait[es] = random.Random(es).choice([0, 0, 5, 12, 21, 30])
            self.goal = None
        grid, ag = self.sim.grid, self.sim.agents[self.aid]
        pos = tuple(int(x) for x in ag.position)
        if t <= self.wait[es]:
            return {**sampled, "move": 0}
        rows, cols = grid.rows, grid.cols
        free = lambda c: c == pos or grid.query(ag, c)
        if self.goal is None or self.goal == pos or not free(self.goal):
            ends = [(r, c) for r in range(rows) for c in (0, cols - 1) if free((r, c))]
            rest = [(r, c) for r in range(rows) for c in range(cols) if free((r, c))]
            self.goal = rng.choice(ends if (ends and rng.random() < 0.8) else rest)
        # breadth-first search from the goal: distance of every enterable cell
        dist, todo = {self.goal: 0}, [self.goal]
        for c in todo:
            for d in ((0, 1), (1, 0), (0, -1), (-1, 0)):
                n = (c[0] + d[0], c[1] + d[1])
                if 0 <= n[0] < rows and 0 <= n[1] < cols and n not in dist and free(n):
                    dist[n] = dist[c] + 1
                    todo.append(n)
        if pos not in dist:
            self.goal = None
            return sampled
        for a in (1, 2, 3, 4):
            d = self.sim.move_actor.grid_action(a)
            n = (pos[0] + int(d[0]), pos[1] + int(d[1]))
            if dist.get(n, 10 ** 9) < dist[pos]:
                return {**sampled, "move": a}
        return sampled


def impl_examples(inp):
    ex, mgr, seed, episodes, nsteps = inp[:5]
    steered = len(inp) > 5 and inp[5]
    name, builder, mgrs, membership = EXAMPLES[ex]
    mon = Mon(ex)
    try:
        sim = builder(random.Random(seed))
    except Exception as e:
        if os.environ.get("VERIF_DEBUG"):
            raise
        mon.add(seed, 0, -1, K_BUILD, exc_code(e))
        return [mon.stats(), mon.v]
    play(mon, sim, mgr, seed, episodes, nsteps, membership,
         steer=Steer(sim, "pacman") if steered else None)
    return [mon.stats(), mon.v]


def gen_examples(tier, rng):
    quick = tier != "thorough"
    seeds = 20 if quick else 250
    for ex, (name, builder, mgrs, membership) in EXAMPLES.items():
        for mgr in mgrs:
            for _ in range(seeds):
                yield [ex, mgr, rng.getrandbits(24), 2 if quick else 3, rng.choice([12, 25, 40])]
    # the two pacman boards, pacman steered to the tunnel ends and other far cells
    for ex in (6, 7):
        for _ in range(24 if quick else 300):
            yield [ex, 0, rng.getrandbits(24), 2, rng.choice([60, 90]), 1]


def classify_examples(inp, out):
    return (f"{EXAMPLES[inp[0]][0]}/{'AllStep' if inp[1] == 0 else 'TurnBased'}"
            + ("/steered" if len(inp) > 5 and inp[5] else ""))


# ------------------------------------------------------------------------------------ (b) grid components

OBSERVERS = ["AbsoluteEncodingObserver", "PositionCenteredEncodingObserver",
             "StackedPositionCenteredEncodingObserver", "AbsolutePositionObserver", "AmmoObserver"]
MOVES = {1: "MoveActor", 2: "CrossMoveActor", 3: "DriftMoveActor"}
ATTACKS = {1: "BinaryAttackActor", 2: "EncodingBasedAttackActor", 3: "RestrictedSelectiveAttackActor",
           4: "SelectiveAttackActor"}
_GRID_CLASSES = {}


def _grid_sim_class():
    if "sim" not in _GRID_CLASSES:
        from abmarl.sim.gridworld.smart import SmartGridWorldSimulation

        class C02GridSim(SmartGridWorldSimulation):
            """Built-in components only; actions are processed attack-then-move per submitting active
            agent, as the packaged team-battle example does."""

            def __init__(self, move_cls=None, attack_cls=None, **kwargs):
                super().__init__(**kwargs)
                # the two actors add their channels to the agents' spaces and null actions when they
                # are constructed: either order of construction must give members of the spaces
                if len(kwargs.get("agents", {})) % 2:
                    self.attack_actor = attack_cls(**kwargs) if attack_cls is not None else None
                    self.move_actor = move_cls(**kwargs) if move_cls is not None else None
                else:
                    self.move_actor = move_cls(**kwargs) if move_cls is not None else None
                    self.attack_actor = attack_cls(**kwargs) if attack_cls is not None else None
                self.finalize()

            def step(self, action_dict, **kwargs):
                if self.attack_actor is not None:
                    for agent_id, action in action_dict.items():
                        agent = self.agents[agent_id]
                        if agent.active:
                            self.attack_actor.process_action(agent, action, **kwargs)
                if self.move_actor is not None:
                    for agent_id, action in action_dict.items():
                        agent = self.agents[agent_id]
                        if agent.active:
                            self.move_actor.process_action(agent, action, **kwargs)
        C02GridSim.__module__ = __name__
        C02GridSim.__qualname__ = "C02GridSim"
        globals()["C02GridSim"] = C02GridSim
        _GRID_CLASSES["sim"] = C02GridSim
    return _GRID_CLASSES["sim"]


def _agent_class(obs, move, attack, ammo, orient):
    key = (obs, move, attack, ammo, orient)
    if key not in _GRID_CLASSES:
        from abmarl.sim.gridworld.agent import (MovingAgent, AttackingAgent, GridObservingAgent, AmmoAgent,
                                                OrientationAgent)
        bases = [GridObservingAgent] if obs else []
        if move:
            bases.append(MovingAgent)
        if attack:
            bases.append(AttackingAgent)
        if ammo:
            bases.append(AmmoAgent)
        if orient:
            bases.append(OrientationAgent)
        name = "C02Agent_%d%d%d%d%d" % tuple(int(b) for b in key)
        cls = type(name, tuple(bases), {})
        cls.__module__ = __name__
        globals()[name] = cls
        _GRID_CLASSES[key] = cls
    return _GRID_CLASSES[key]


def _rng_of(v):
    return "FULL" if v < 0 else v


def build_grid_sim(cfg):
    """cfg = [rows, cols, ov, agents, obsmask, observe_self, move, attack, stacked, mapping]
    agent = [enc, pos, health_q, ammo, orient, blocking, learning, view, move_range, attack_range,
             simultaneous, strength_q, accuracy_q]"""
    from abmarl.sim.gridworld import observer as O, actor as A
    rows, cols, ov, ags, obsmask, observe_self, move, attack, stacked, mapping = cfg
    agents = {}
    for i, (enc, pos, hq, ammo, orient, blocking, learning, view, mr, ar, simul, sq, aq) in enumerate(ags):
        kw = dict(id=f"a{i}", encoding=enc, blocking=bool(blocking),
                  initial_position=(np.array(pos, dtype=int) if pos else None),
                  initial_health=(hq / 4 if hq else None))
        if not learning:
            agents[kw["id"]] = _gwa(**kw)
            continue
        kw["view_range"] = _rng_of(view)
        if move:
            kw["move_range"] = _rng_of(mr)
        if attack:
            kw.update(attack_range=_rng_of(ar), simultaneous_attacks=simul, attack_strength=sq / 4,
                      attack_accuracy=aq / 4)
        if ammo >= 0:
            kw["initial_ammo"] = ammo
        if orient >= 0:
            kw["initial_orientation"] = orient or None
        agents[kw["id"]] = _agent_class(True, bool(move), bool(attack), ammo >= 0, orient >= 0)(**kw)
    kw = dict(agents=agents, states={"PositionState", "HealthState", "AmmoState", "OrientationState"},
              observers={getattr(O, OBSERVERS[b]) for b in range(5) if obsmask >> b & 1},
              dones={"ActiveDone"}, observe_self=bool(observe_self),
              move_cls=getattr(A, MOVES[move]) if move else None,
              attack_cls=getattr(A, ATTACKS[attack]) if attack else None)
    if ov:
        kw["overlapping"] = {k: set(v) for k, v in ov}
    if attack:
        kw.update(attack_mapping={k: set(v) for k, v in mapping}, stacked_attacks=bool(stacked))
    return _grid_sim_class().build_sim(rows, cols, **kw)


def probe_actions(mon, sim, es, probe, cap=300, nsample=40):
    """From the state right after a reset: every point of the probe agent's declared action space
    (<= cap points, else nsample samples) is processed by a copy of the simulation."""
    ids = [k for k, a in sim.agents.items() if hasattr(a, "action_space") and a.active]
    if not ids:
        return
    k = ids[probe % len(ids)]
    ai = list(sim.agents).index(k)
    sp = sim.agents[k].action_space
    n = space_size(sp)
    if n is not None and n <= cap:
        pts = [space_unrank(sp, j) for j in range(n)]
    else:
        pts = []
        for j in range(nsample):
            sp.seed(es * 131 + j)
            pts.append(sp.sample())
    state = np.random.get_state()
    for j, a in enumerate(pts):
        mon.st["probe_actions"] += 1
        if not contains(sp, a):
            mon.add(es, j, ai, K_SAMPLE)
            continue
        s2 = copy.deepcopy(sim)
        try:
            s2.step({k: a})
            o = s2.get_obs(k)
        except Exception as e:
            if os.environ.get("VERIF_DEBUG"):
                raise
            mon.add(es, j, ai, K_ACTION, exc_code(e))
            continue
        if not contains(s2.agents[k].observation_space, o):
            mon.add(es, j, ai, K_OBS, 1)
    np.random.set_state(state)


def impl_grid(inp):
    cfg, mgr, seed, episodes, nsteps, probe = inp
    mon = Mon(seed)
    try:
        sim = build_grid_sim(cfg)
    except Exception as e:
        if os.environ.get("VERIF_DEBUG"):
            raise
        mon.add(seed, 0, -1, K_BUILD, exc_code(e))
        return [mon.stats(), mon.v]
    play(mon, sim, mgr, seed, episodes, nsteps,
         after_reset=lambda es: probe_actions(mon, sim, es, probe) if es == seed * 101 else None)
    return [mon.stats(), mon.v]


def _ranges(rng, rows, cols):
    full = max(rows, cols) - 1
    return rng.choice([0, 0, 1, 1, 2, min(3, full + 1), -1, -1])


def random_grid_cfg(rng, small=False, max_side=7):
    """A legal configuration: every agent is placeable (positions given only where the overlap table
    admits the pile-up), every attacker's encoding has an attack-mapping entry."""
    shape = rng.choice(["1xN", "Nx1", "any", "any", "any", "square"])
    if shape == "1xN":
        rows, cols = 1, rng.randint(1, max_side)
    elif shape == "Nx1":
        rows, cols = rng.randint(1, max_side), 1
    elif shape == "square":
        rows = cols = rng.randint(2, max_side)
    else:
        rows, cols = rng.randint(1, max_side), rng.randint(1, max_side)
    nenc = rng.randint(1, 3) if small else rng.randint(1, 4)
    encs = list(range(1, nenc + 1))
    if rng.random() < 0.25:
        encs[-1] += rng.randint(1, 3)          # gap in the encodings
    # overlap table
    mode = rng.choice(["none", "self", "all", "random", "random"])
    ovd = {}
    if mode == "self":
        ovd = {e: {e} for e in encs if rng.random() < 0.8}
    elif mode == "all":
        ovd = {e: set(encs) for e in encs}
    elif mode == "random":
        for e in encs:
            vs = {f for f in encs if rng.random() < 0.5}
            if vs:
                ovd[e] = vs
    sym = lambda a, b: (b in ovd.get(a, ())) or (a in ovd.get(b, ()))   # Grid symmetrises the table
    obsmask = rng.randint(1, 31)
    move = rng.choice([0, 1, 1, 2, 3])
    attack = rng.choice([0, 1, 2, 3, 4]) if move else rng.choice([1, 2, 3, 4])
    only_ammo_obs = obsmask == 16
    n = rng.randint(1, 4 if small else 8)
    cells = {}
    ags = []
    for i in range(n):
        enc = rng.choice(encs)
        learning = 1 if (i == 0 or rng.random() < 0.75) else 0
        pos = []
        if rng.random() < 0.6:
            # try a few cells, preferring occupied ones (pile-ups) when the table allows
            cand = list(cells) if (cells and rng.random() < 0.6) else []
            cand += [(rng.randrange(rows), rng.randrange(cols)) for _ in range(3)]
            for p in cand:
                if all(sym(enc, e) for e in cells.get(p, [])):
                    pos = list(p)
                    cells.setdefault(p, []).append(enc)
                    break
        ammo = rng.choice([0, 1, 2, 5]) if (only_ammo_obs or rng.random() < 0.5) else -1
        orient = rng.randint(0, 4) if (move == 3 or rng.random() < 0.3) else -1
        ags.append([enc, pos, rng.choice([0, 1, 2, 4, 4]), ammo if learning else -1, orient if learning else -1,
                    1 if rng.random() < 0.25 else 0, learning, _ranges(rng, rows, cols),
                    _ranges(rng, rows, cols), min(_ranges(rng, rows, cols), 2 if small else 3),
                    rng.randint(0, 3), rng.choice([1, 2, 4, 4]), rng.choice([0, 2, 4, 4, 4])])
    # free placement needs room: count agents without position against cells when nothing overlaps
    free = sum(1 for a in ags if not a[1])
    if free + len(cells) > rows * cols and mode != "all":
        # shrink the population to what certainly fits
        keep = []
        room = rows * cols - len(cells)
        for a in ags:
            if a[1]:
                keep.append(a)
            elif room > 0:
                keep.append(a)
                room -= 1
        ags = keep
        if not any(a[6] for a in ags):
            ags[0][6] = 1
            if only_ammo_obs and ags[0][3] < 0:
                ags[0][3] = 1
            if move == 3 and ags[0][4] < 0:
                ags[0][4] = 0
    used = sorted({a[0] for a in ags})
    mapping = []
    for e in used:
        mapping.append([e, sorted(f for f in used if rng.random() < 0.6)])
    ov = [[k, sorted(f for f in v if f in used)] for k, v in sorted(ovd.items()) if k in used]
    ov = [[k, v] for k, v in ov if v]
    return [rows, cols, ov, ags, obsmask, rng.randint(0, 1), move, attack, rng.randint(0, 1), mapping]


def gen_grid(tier, rng):
    quick = tier != "thorough"
    for _ in range(2500 if quick else 30000):
        cfg = random_grid_cfg(rng)
        yield [cfg, rng.randint(0, 1), rng.getrandbits(24), rng.choice([1, 2]), rng.randint(20, 40),
               rng.randrange(8)]


def classify_grid(inp, out):
    cfg = inp[0]
    return f"move={MOVES.get(cfg[6], 'none')}/attack={ATTACKS.get(cfg[7], 'none')}"


def labels_grid(inp):
    cfg = inp[0]
    rows, cols, ov, ags, obsmask, observe_self, move, attack, stacked, mapping = cfg
    lab = [f"observer:{OBSERVERS[b]}" for b in range(5) if obsmask >> b & 1]
    lab.append("observer-subset:%s" % format(obsmask, "05b"))
    if obsmask >> 1 & 1:
        lab.append(f"observe_self={observe_self}")
    lab.append(f"move:{MOVES.get(move, 'none')}")
    lab.append(f"attack:{ATTACKS.get(attack, 'none')}" + ("/stacked" if attack and stacked else ""))
    lab.append("grid:1xN" if rows == 1 or cols == 1 else "grid:%s" % ("<=3" if max(rows, cols) <= 3 else ">3"))
    lab.append(f"agents:{len(ags)}")
    lab.append("manager:" + ("AllStep" if inp[1] == 0 else "TurnBased"))
    if any(a[7] < 0 for a in ags if a[6]):
        lab.append("view:FULL")
    if any(a[7] == 0 for a in ags if a[6]):
        lab.append("view:0")
    if move and any(a[8] < 0 for a in ags if a[6]):
        lab.append("move_range:FULL")
    if move and any(a[8] == 0 for a in ags if a[6]):
        lab.append("move_range:0")
    if attack and any(a[9] < 0 for a in ags if a[6]):
        lab.append("attack_range:FULL")
    if attack and any(a[9] == 0 for a in ags if a[6]):
        lab.append("attack_range:0")
    if attack:
        for k in sorted({a[10] for a in ags if a[6]}):
            lab.append(f"simultaneous_attacks:{k}")
    if any(a[5] for a in ags):
        lab.append("blocking-agents")
    if any(a[3] >= 0 for a in ags):
        lab.append("ammo-agents")
    pos = [tuple(a[1]) for a in ags if a[1]]
    if len(pos) != len(set(pos)):
        lab.append("pile-up-at-reset")
    if ov:
        lab.append("overlap-table")
    return lab


# ------------------------------------------------------------------------------------ (c) wrapper stacks

WRAPPERS = {1: "Ravel", 2: "Flatten", 3: "Super", 4: "Comm"}
_TEMPLATES = None


def templates():
    global _TEMPLATES
    if _TEMPLATES is None:
        from gymnasium.spaces import Discrete, MultiBinary, MultiDiscrete, Dict, Tuple
        from abmarl.tools import Box
        _TEMPLATES = [
            lambda: Discrete(3),
            lambda: Dict({'a': Discrete(4), 'b': Box(-1, 3, (2,), int)}),
            lambda: Tuple((Dict({'first': Discrete(4), 'second': Box(low=-1, high=3, shape=(2,), dtype=int)}),
                           MultiBinary(3))),
            lambda: MultiDiscrete([4, 6, 2]),
            lambda: Dict({'p': Box(0, 5, (1,), int), 'l': MultiBinary(1), 'r': MultiBinary(1)}),
            lambda: Box(-2, 2, (2, 2), int),
            lambda: Dict({'x': Box(-1, 1, (2,)), 'k': Discrete(2)}),        # float: not for ravel
        ]
    return _TEMPLATES


def _nested_sim_class():
    if "nested" not in _GRID_CLASSES:
        from abmarl.sim import Agent, PrincipleAgent, AgentBasedSimulation

        class NestedSpacesSim(AgentBasedSimulation):
            """Scripted simulation with nested spaces: the observation of agent i at time t is the
            (t, i)-seeded sample of its declared observation space (a member by construction), agent
            i is done from step d_i on; declared null points are seeded samples as well."""

            def __init__(self, desc):
                # desc = [[learning, obs template, act template, done time, null_obs?, null_act?], ...]
                self.desc = desc
                agents = {}
                for i, (learning, ot, at, dt, no, na) in enumerate(desc):
                    if not learning:
                        agents[f"a{i}"] = PrincipleAgent(id=f"a{i}")
                        continue
                    osp, asp = templates()[ot](), templates()[at]()
                    kw = {}
                    if no:
                        osp.seed(1000 + i)
                        kw["null_observation"] = osp.sample()
                    if na:
                        asp.seed(2000 + i)
                        kw["null_action"] = asp.sample()
                    agents[f"a{i}"] = Agent(id=f"a{i}", observation_space=osp, action_space=asp, **kw)
                self.agents = agents
                self.t = 0
                self.finalize()

            def reset(self, **kwargs):
                self.t = 0

            def step(self, action_dict, **kwargs):
                for k, a in action_dict.items():
                    assert a in self.agents[k].action_space, "inner action outside the inner space"
                self.t += 1

            def render(self, **kwargs):
                pass

            def get_obs(self, agent_id, **kwargs):
                sp = self.agents[agent_id].observation_space
                sp.seed(self.t * 977 + int(agent_id[1:]))
                return sp.sample()

            def get_reward(self, agent_id, **kwargs):
                return self.t

            def get_done(self, agent_id, **kwargs):
                return self.t >= self.desc[int(agent_id[1:])][3]

            def get_all_done(self, **kwargs):
                return all(self.t >= d[3] for d in self.desc if d[0])

            def get_info(self, agent_id, **kwargs):
                return {}
        _GRID_CLASSES["nested"] = NestedSpacesSim
    return _GRID_CLASSES["nested"]


class IllegalStack(Exception):
    pass


def _ravel_ok(sim):
    from abmarl.sim import is_agent
    for a in sim.agents.values():
        if not is_agent(a):
            continue
        for sp in (a.observation_space, a.action_space):
            n = space_size(sp)
            if n is None or n >= 2 ** 62 or n < 1 or _has_empty_composite(sp):
                return False
    return True


def _has_empty_composite(sp):
    """An empty Dict / Tuple (e.g. the channel EncodingBasedAttackActor declares for an empty attack
    set) is outside the ravel wrapper's domain (C04: wf)."""
    from gymnasium.spaces import Dict, Tuple
    if isinstance(sp, (Dict, Tuple)):
        subs = list(sp.spaces.values()) if isinstance(sp, Dict) else list(sp.spaces)
        return not subs or any(_has_empty_composite(x) for x in subs)
    return False


def build_stack(base_kind, desc, stack, super_part):
    """The wrapped simulation.  super_part: list of lists of learning-agent positions (indices into
    the list of learning agents of the layer below) covered by super agent j."""
    from abmarl.sim import is_agent
    from abmarl.sim.wrappers import (RavelDiscreteWrapper, FlattenWrapper, SuperAgentWrapper,
                                     CommunicationHandshakeWrapper)
    if base_kind == 0:
        from abmarl.examples.sim.multi_corridor import MultiCorridor
        sim = MultiCorridor(end=desc[0], num_agents=desc[1])
    elif base_kind == 1:
        sim = _nested_sim_class()(desc)
    elif base_kind == 3:
        sim = _battle_sim(random.Random(desc[0]))      # the packaged TeamBattleSim, as its drivers build it
    elif base_kind == 4:
        sim = ex_comms(random.Random(desc[0]))         # the comms_blocking example (float32 Boxes)
    else:
        sim = build_grid_sim(desc)
    for w in stack:
        if w == 1:
            if not _ravel_ok(sim):
                raise IllegalStack("ravel needs bounded integer spaces with fewer than 2^62 points")
            sim = RavelDiscreteWrapper(sim)
        elif w == 2:
            if any(_has_empty_composite(sp) for a in sim.agents.values() if is_agent(a)
                   for sp in (a.observation_space, a.action_space)):
                raise IllegalStack("flatten needs non-empty Dict / Tuple spaces (C05: wf)")
            sim = FlattenWrapper(sim)
        elif w == 3:
            learners = [k for k, a in sim.agents.items() if is_agent(a)]
            mapping = {}
            for j, part in enumerate(super_part):
                cov = [learners[p] for p in part if p < len(learners)]
                if cov:
                    mapping[f"super{j}"] = cov
            if not mapping:
                raise IllegalStack("nothing to cover")
            sim = SuperAgentWrapper(sim, super_agent_mapping=mapping)
        else:
            sim = CommunicationHandshakeWrapper(sim)
    return sim


def impl_stack(inp):
    base_kind, desc, stack, super_part, mgr, seed, episodes, nsteps = inp
    mon = Mon(seed)
    try:
        top = build_stack(base_kind, desc, stack, super_part)
    except Exception as e:
        if os.environ.get("VERIF_DEBUG"):
            raise
        mon.add(seed, 0, -1, K_BUILD, exc_code(e))
        return [mon.stats(), mon.v]
    play(mon, top, mgr, seed, episodes, nsteps)
    return [mon.stats(), mon.v]


def random_partition(rng, n):
    idx = list(range(n))
    rng.shuffle(idx)
    covered = idx[:rng.randint(1, n)] if n else []
    parts, cur = [], []
    for p in covered:
        cur.append(p)
        if rng.random() < 0.4:
            parts.append(cur)
            cur = []
    if cur:
        parts.append(cur)
    return parts


def random_nested_desc(rng, allow_float):
    n = rng.randint(1, 4)
    T = 7 if allow_float else 6
    desc = []
    for i in range(n):
        learning = 1 if (i == 0 or rng.random() < 0.8) else 0
        # action templates are integer-only: a flattened action space that mixes a float Box with
        # discrete components is a float Box whose samples do not unflatten to members (the
        # FlattenWrapper docstring's NOTE; C05/C06 domain)
        ot, at = rng.randrange(T), rng.randrange(6)
        # null points are declared only where they are not top-level multi-element ndarrays (templates
        # 3 and 5): Agent.finalize tests the truth value of the null point and raises ValueError on those
        # (recorded as an in-spec reading by C19; see findings/C02-null-truth-value.md)
        desc.append([learning, ot, at, rng.choice([1, 2, 3, 5, 99]),
                     rng.randint(0, 1) if ot not in (3, 5) else 0,
                     rng.randint(0, 1) if at not in (3, 5) else 0])
    return desc


def small_grid_cfg(rng):
    """A grid configuration whose spaces stay small enough for the ravel wrapper."""
    while True:
        cfg = random_grid_cfg(rng, small=True, max_side=4)
        for a in cfg[3]:
            a[7] = rng.choice([0, 0, 1])          # view range
            a[8] = rng.choice([0, 1])              # move range
            a[9] = rng.choice([0, 1])              # attack range
            a[10] = rng.randint(0, 2)
        if cfg[4] & 1 and cfg[0] * cfg[1] > 9:
            cfg[4] &= ~1                            # absolute observer only on tiny grids
        if cfg[4] == 0:
            cfg[4] = 2
        if cfg[4] == 16:
            for a in cfg[3]:
                if a[6] and a[3] < 0:
                    a[3] = 1
        return cfg


def gen_stack(tier, rng):
    quick = tier != "thorough"
    target = 2500 if quick else 30000
    stacks = [[w] for w in WRAPPERS] + [[a, b] for a in WRAPPERS for b in WRAPPERS if a != b] + [[]]
    made = 0
    guard = 0
    while made < target and guard < target * 20:
        guard += 1
        stack = stacks[guard % len(stacks)] if guard <= 3 * len(stacks) else rng.choice(stacks)
        base_kind = rng.choice([0, 1, 1, 1, 2, 2, 2, 3, 4])
        if base_kind == 3:
            if 1 in stack:
                continue                     # view range 3: the ravelled spaces exceed 2^62 points
            desc = [rng.getrandbits(16)]
        elif base_kind == 4:
            if 1 in stack:
                continue                     # float message channels cannot be ravelled
            desc = [rng.getrandbits(16)]
        elif base_kind == 0:
            end = rng.choice([4, 6, 10])
            desc = [end, rng.randint(1, min(4, end - 1))]
        elif base_kind == 1:
            desc = random_nested_desc(rng, allow_float=(1 not in stack))
        else:
            desc = small_grid_cfg(rng)
        if base_kind == 3:
            # super agents by team, as rllib_super_agent_team_battle.py does (agent i is in team i % 4)
            part = [[i for i in range(24) if i % 4 == t] for t in range(4)] if rng.random() < 0.7 \
                else random_partition(rng, 8)
        else:
            part = random_partition(rng, rng.randint(1, 6))
        try:
            build_stack(base_kind, desc, stack, part)
        except IllegalStack:
            continue
        except Exception:
            pass                # a legal description whose construction fails is reported by the run
        made += 1
        yield [base_kind, desc, stack, part, rng.randint(0, 1), rng.getrandbits(24), rng.choice([1, 2]),
               rng.randint(8, 25)]


BASES = {0: "MultiCorridor", 1: "NestedSpacesSim", 2: "grid", 3: "TeamBattleSim", 4: "comms_blocking"}


def classify_stack(inp, out):
    st = "+".join(WRAPPERS[w] for w in inp[2]) or "none"
    return f"{BASES[inp[0]]}/{st}"


# ------------------------------------------------------------------------------------ glue

TOTALS = {}           # component -> Counter of the per-case statistics (filled in the parent process)
LABELS = Counter()


def _split(name, labeller=None):
    def split(inp, out):
        if not (isinstance(out, list) and len(out) == 2 and isinstance(out[0], list) and out[0]
                and isinstance(out[0][0], int) and out[0] != [-1] and out[0][0] >= 0):
            # the harness itself failed ([-1, code]): never the empty list
            return [inp, []], [[0, 0, 0, -1, K_HARNESS, out[1] if isinstance(out, list) and len(out) > 1
                                and isinstance(out[1], int) else 0]]
        stats, viol = out
        tot = TOTALS.setdefault(name, Counter())
        for k, v in zip(Mon.STAT_KEYS, stats):
            tot[k] += v
        tot["cases"] += 1
        if stats[0] > 0:
            tot["cases_with_observations"] += 1
        if labeller is not None:
            for lab in labeller(inp):
                LABELS[f"{name}:{lab}"] += 1
        return [inp, stats], viol
    return split


def nontrivial(inp, out):
    return True


def repro_examples(inp):
    return (f"PYTHONHASHSEED=0 PYTHONPATH=.:$VERIF_REPO /venv/bin/python -c \"from harness import gen_C02 as g; "
            f"print(g.impl_examples({inp!r}))\"   # example {EXAMPLES[inp[0]][0]}; records = "
            "[example, episode seed, step, agent index, kind, detail]; kinds: 1 obs not in space, 2 null obs, "
            "3 null action, 4 reset raised, 5 step raised, 6 build raised, 7 action raised")


def repro_grid(inp):
    return (f"PYTHONHASHSEED=0 PYTHONPATH=.:$VERIF_REPO /venv/bin/python -c \"from harness import gen_C02 as g; "
            f"print(g.impl_grid({inp!r}))\"")


def repro_stack(inp):
    return (f"PYTHONHASHSEED=0 PYTHONPATH=.:$VERIF_REPO /venv/bin/python -c \"from harness import gen_C02 as g; "
            f"print(g.impl_stack({inp!r}))\"")


def shrink_steps(pos_steps, pos_eps):
    def shrink(inp):
        if inp[pos_eps] > 1:
            yield inp[:pos_eps] + [1] + inp[pos_eps + 1:]
        n = inp[pos_steps]
        for m in (1, 2, n // 2, n - 1):
            if 0 < m < n:
                yield inp[:pos_steps] + [m] + inp[pos_steps + 1:]
    return shrink


def shrink_grid(inp):
    yield from shrink_steps(4, 3)(inp)
    cfg = inp[0]
    ags = cfg[3]
    for i in range(len(ags) - 1, 0, -1):
        yield [cfg[:3] + [ags[:i] + ags[i + 1:]] + cfg[4:]] + inp[1:]
    for b in range(5):
        if cfg[4] >> b & 1 and cfg[4] != 1 << b:
            yield [cfg[:4] + [cfg[4] & ~(1 << b)] + cfg[5:]] + inp[1:]


def shrink_stack(inp):
    yield from shrink_steps(7, 6)(inp)
    if inp[2]:
        yield inp[:2] + [[]] + inp[3:]
    if inp[0] == 1 and len(inp[1]) > 1:
        for i in range(len(inp[1]) - 1, -1, -1):
            rest = inp[1][:i] + inp[1][i + 1:]
            if any(d[0] for d in rest):
                yield [inp[0], rest] + inp[2:]
    if len(inp[2]) > 1:
        yield inp[:2] + [inp[2][:1]] + inp[3:]
        yield inp[:2] + [inp[2][1:]] + inp[3:]


COMPONENTS = [
    Component(201, "examples", impl_examples, gen_examples, chk=204, nontrivial=nontrivial,
              classify=classify_examples, shrink=shrink_steps(4, 3), timeout=120, repro=repro_examples),
    Component(202, "grid_components", impl_grid, gen_grid, chk=204, nontrivial=nontrivial,
              classify=classify_grid, shrink=shrink_grid, timeout=120, repro=repro_grid),
    Component(203, "wrapper_stacks", impl_stack, gen_stack, chk=204, nontrivial=nontrivial,
              classify=classify_stack, shrink=shrink_stack, timeout=120, repro=repro_stack),
]
COMPONENTS[0].split = _split("examples")
COMPONENTS[1].split = _split("grid_components", labels_grid)
COMPONENTS[2].split = _split("wrapper_stacks")


def extra(rep, tier, rng):
    rep.extra_cov["monitor_totals"] = {k: dict(v) for k, v in TOTALS.items()}
    rep.extra_cov["component_hits"] = dict(sorted(LABELS.items()))
    rep.extra_cov["examples_monitored_only"] = sorted(v[0] for v in EXAMPLES.values())
    rep.extra_cov["violation_kinds"] = {
        "1": "observation not in the declared observation space", "2": "declared null observation not in space",
        "3": "declared null action not in space", "4": "reset raised", "5": "step (incl. get_obs) raised",
        "6": "construction of a legal configuration raised", "7": "an action of the declared space raised",
        "8": "space.sample() not in space", "9": "harness failure"}
    for name, tot in TOTALS.items():
        if tot["cases"] and not tot["obs"]:
            rep.notes.append(f"component {name}: no observation was checked")
