"""Environment shim: import abmarl from /repo's working tree under the installed gymnasium.

gymnasium 1.3.0 no longer has gymnasium.spaces.box.get_inf, which abmarl.sim.wrappers imports;
define it (the gymnasium <= 0.29 definition) before abmarl is imported.  No change to /repo.
"""
import os
import sys

REPO = os.environ.get("VERIF_REPO", "/repo")
if REPO not in sys.path:
    sys.path.insert(0, REPO)

import numpy as np  # noqa: E402
import gymnasium.spaces.box as _gbox  # noqa: E402

if not hasattr(_gbox, "get_inf"):
    def get_inf(dtype, sign):
        if np.dtype(dtype).kind == "f":
            if sign == "+":
                return np.inf
            elif sign == "-":
                return -np.inf
            raise TypeError(f"Unknown sign {sign}, use either '+' or '-'")
        elif np.dtype(dtype).kind == "i":
            if sign == "+":
                return np.iinfo(dtype).max - 2
            elif sign == "-":
                return np.iinfo(dtype).min + 2
            raise TypeError(f"Unknown sign {sign}, use either '+' or '-'")
        raise ValueError(f"Unknown dtype {dtype} for infinite bounds")
    _gbox.get_inf = get_inf

import warnings  # noqa: E402
warnings.filterwarnings("ignore")
