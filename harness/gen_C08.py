"""C08: reset starts a fresh episode.  Used-versus-fresh twins on the real objects of /repo: a used
object is driven through a random prefix history (0-3 earlier episodes, each cut at a random step),
then reset; a newly built twin is reset with the same seed; both are played with the same action
sequence; every output and every probe of internal episode state must be identical."""
from . import envshim  # noqa: F401
import random
import numpy as np
from .runner import Component
from . import stubsim, twin, pubapi
from .twin import canon

PROP = "C08"
RULE = ("a case is (stack description, prefix history = number of earlier episodes and the step at "
        "which each is cut, seeds); stacks: {AllStep, TurnBased, DynamicOrder} managers over the "
        "scripted simulation, MultiCorridor and a SmartGridWorldSimulation with the built-in "
        "Position/Health/Ammo/Orientation state components, optionally under the SuperAgent, "
        "Communication, Ravel and Flatten wrappers, the gym adapters (GymWrapper, GymABS) and the "
        "OpenSpiel adapter; compared: reset output, every later output of the follow-up episode, "
        "and probes of internal episode state (done_agents, wrapper flags and buffers, adapter "
        "caches, agent vitals and grid cells); non-trivial = the prefix is non-empty; distinct = "
        "distinct inputs")
ASSUMPTIONS = [
    "the follow-up episode is seeded identically on both twins (numpy.random and random are seeded "
    "right before its reset)",
    "the twin comparison is differential testing of the implementation against itself; the layer "
    "models and their reset theorems are in Props/P_C08.v",
]

MGR = {0: "all", 1: "turn", 2: "dyn"}
STACKS = {}          # kind -> builder(desc, rng) -> Twin-like object


class MgrTwin:
    """A manager (over any simulation / wrapper stack)."""

    def __init__(self, mgr, extra_probe=None):
        self.mgr = mgr
        self.agents = mgr.agents
        self.extra_probe = extra_probe or (lambda: [])

    def reset(self):
        return self.mgr.reset()

    def step(self, acts):
        return self.mgr.step(acts)

    def _acting(self, ids):
        return [k for k in ids if hasattr(self.agents[k], "action_space") and hasattr(self.agents[k], "observation_space")]

    def live_after_reset(self, obs):
        return self._acting(obs.keys())

    def live_after_step(self, res):
        done = res[2]
        return self._acting(k for k, v in done.items() if k != "__all__" and not v), bool(done["__all__"])

    def probe(self):
        return [sorted(self.mgr.done_agents), self.extra_probe()]


def make_mgr(kind, sim):
    from abmarl.managers import AllStepManager, TurnBasedManager, DynamicOrderManager
    return {0: AllStepManager, 1: TurnBasedManager, 2: DynamicOrderManager}[kind](sim)


def build_script(desc, rng):
    mk, script = desc
    sim = stubsim.DynScriptSim(script) if mk == 2 else stubsim.ScriptSim(script)
    return MgrTwin(make_mgr(mk, sim), lambda: [sim.t, list(sim.pend)])


def build_corridor(desc, rng):
    from abmarl.examples.sim.multi_corridor import MultiCorridor
    mk, end, n = desc
    sim = MultiCorridor(end=end, num_agents=n)
    return MgrTwin(make_mgr(mk, sim),
                   lambda: [[int(a.position) for a in sim.agents.values()] if hasattr(sim, "corridor") else [],
                            dict(getattr(sim, "reward", {}))])


def build_grid(desc, rng):
    from abmarl.sim.gridworld.smart import SmartGridWorldSimulation
    from abmarl.sim.gridworld.agent import (GridObservingAgent, MovingAgent, AttackingAgent, AmmoAgent,
                                            OrientationAgent, GridWorldAgent)
    from abmarl.sim.gridworld.actor import MoveActor, BinaryAttackActor
    from abmarl.sim.gridworld.state import PositionState, HealthState, AmmoState, OrientationState
    from abmarl.sim.gridworld.observer import PositionCenteredEncodingObserver
    from abmarl.sim.gridworld.done import ActiveDone
    from . import gridsim as G

    mk, rows, cols, ags, ov = desc[:5]
    pkind, rev, pflags = desc[5] if len(desc) > 5 else (0, 0, [0, 0, 0, 0])

    class HAgent(GridObservingAgent, MovingAgent, AttackingAgent, AmmoAgent, OrientationAgent):
        pass

    class HSim(SmartGridWorldSimulation):
        def __init__(self, **kwargs):
            super().__init__(**kwargs)
            self.move_actor = MoveActor(**kwargs)
            self.attack_actor = BinaryAttackActor(**kwargs)
            self.finalize()

        def step(self, action_dict, **kwargs):
            for agent_id, action in action_dict.items():
                agent = self.agents[agent_id]
                if agent.active:
                    st, hit = self.attack_actor.process_action(agent, action, **kwargs)
                    for h in hit:
                        if not h.active and h.id in self.rewards:
                            self.rewards[h.id] -= 1
                            self.rewards[agent_id] += 1
            for agent_id, action in action_dict.items():
                agent = self.agents[agent_id]
                if agent.active:
                    if not self.move_actor.process_action(agent, action, **kwargs):
                        self.rewards[agent_id] -= 1

    agents = {}
    for i, (enc, pos, health, ammo, orient, learning) in enumerate(ags):
        kw = dict(id=G.aid(i), encoding=enc, initial_position=(np.array(pos) if pos else None),
                  initial_health=(health / 4 if health else None))
        if learning:
            agents[G.aid(i)] = HAgent(move_range=1, attack_range=1, attack_strength=0.75, attack_accuracy=1,
                                      simultaneous_attacks=1, view_range=2, initial_ammo=ammo,
                                      initial_orientation=(orient or None), **kw)
        else:
            agents[G.aid(i)] = GridWorldAgent(**kw)
    encs = sorted({a[0] for a in ags})
    pkw = {}
    pstate = PositionState
    if pkind:
        # one of the target/barrier/free placement states: agent 0 is the target, encoding 2 (if
        # present) is the barrier encoding, everything else free
        from abmarl.sim.gridworld.state import TargetBarriersFreePlacementState, MazePlacementState
        pstate = TargetBarriersFreePlacementState if pkind == 1 else MazePlacementState
        pkw = dict(target_agent=agents[G.aid(0)], barrier_encodings=({2} if 2 in encs else None),
                   free_encodings={e for e in encs if e != 2} or None,
                   no_overlap_at_reset=bool(pflags[0]), randomize_placement_order=bool(pflags[1]),
                   cluster_barriers=bool(pflags[2]), scatter_free_agents=bool(pflags[3]))
    sim = HSim.build_sim(rows, cols, agents=agents, overlapping={k: set(v) for k, v in ov},
                         states={pstate, HealthState, AmmoState, OrientationState},
                         observers={PositionCenteredEncodingObserver}, dones={ActiveDone},
                         attack_mapping={e: set(encs) for e in encs}, **pkw)
    # the smart simulation keeps its components in Python sets (iteration order = object ids, which
    # differ between two objects): fix the order so that both twins consume random numbers alike
    # (by class name, or the reverse: the position state then resets BEFORE the health state)
    pubapi.fix_component_order(sim)
    if rev:
        for kind_ in ("states", "observers", "dones"):
            pubapi.set_components(sim, kind_, list(reversed(pubapi.components(sim, kind_))))

    def probe():
        if not all(pubapi.pub(a, "health") is not None for a in sim.agents.values()):
            return []
        vit = []
        for a in sim.agents.values():
            vit.append([a.position.tolist() if pubapi.pub(a, "position") is not None else [],
                        float(a.health), bool(a.active), pubapi.pub(a, "ammo"),
                        pubapi.pub(a, "orientation")])
        cells = [pubapi.cell_ids(sim.grid, r, c) for r in range(rows) for c in range(cols)]
        return [vit, cells, dict(getattr(sim, "rewards", {}))]
    return MgrTwin(make_mgr(mk, sim), probe)


def build_wrapped(desc, rng):
    """managers (all-step / turn-based) over a wrapper stack over the scripted simulation or
    MultiCorridor.  wk: 0 super-agent, 1 communication, 2 ravel, 3 flatten, 4 flatten∘ravel."""
    from abmarl.sim.wrappers import (SuperAgentWrapper, CommunicationHandshakeWrapper,
                                     RavelDiscreteWrapper, FlattenWrapper)
    from abmarl.examples.sim.multi_corridor import MultiCorridor
    from . import wrapstub
    mk, wk, base = desc
    if base[0] == 0:
        inner = wrapstub.WStub(base[1], [[wrapstub.NULL_BASE + i] for i in range(base[1][1])])
        inner_probe = lambda: [inner.t, list(inner.pend)]
    else:
        inner = MultiCorridor(end=base[1], num_agents=base[2])
        inner_probe = lambda: [[int(a.position) for a in inner.agents.values()] if hasattr(inner, "corridor") else [],
                               dict(getattr(inner, "reward", {}))]
    learning = [k for k, a in inner.agents.items() if hasattr(a, "action_space") and hasattr(a, "observation_space")]
    if wk == 0:
        half = max(1, len(learning) // 2)
        w = SuperAgentWrapper(inner, super_agent_mapping={"super0": learning[:half]})
        wprobe = lambda: [dict(w._last_obs_reported) if hasattr(w, "_last_obs_reported") else {},
                          dict(w._last_reward_reported) if hasattr(w, "_last_reward_reported") else {}]
    elif wk == 1:
        w = CommunicationHandshakeWrapper(inner)
        wprobe = lambda: [getattr(w, "message_buffer", {}), getattr(w, "received_message", {})]
    elif wk == 2:
        w = RavelDiscreteWrapper(inner)
        wprobe = lambda: []
    elif wk == 3:
        w = FlattenWrapper(inner)
        wprobe = lambda: []
    else:
        w = RavelDiscreteWrapper(inner) if base[0] == 0 else FlattenWrapper(RavelDiscreteWrapper(inner))
        wprobe = lambda: []
    return MgrTwin(make_mgr(mk, w), lambda: [inner_probe(), wprobe()])


class OspTwin:
    """OpenSpielWrapper over a manager over the scripted simulation (Discrete spaces)."""

    def __init__(self, w, sim):
        self.w, self.sim = w, sim
        # the adapter's players: the learning agents of the simulation, in its listing order
        self.agents = {k: a for k, a in w.sim.agents.items()
                       if hasattr(a, "action_space") and hasattr(a, "observation_space")}
        self.order = list(self.agents)

    def reset(self):
        return self.w.reset()

    def step(self, acts):
        if self.w.is_turn_based:
            return self.w.step([acts[self.w.current_player]])
        return self.w.step([acts[a] for a in self.order])

    def live_after_reset(self, ts):
        return list(self.order)          # OpenSpiel keeps sending actions for every player

    def live_after_step(self, ts):
        from open_spiel.python.rl_environment import StepType
        return list(self.order), ts.step_type == StepType.LAST

    def probe(self):
        return [bool(getattr(self.w, "_should_reset", False)), getattr(self.w, "_current_player", None),
                sorted(self.w.sim.done_agents), self.sim.t, list(self.sim.pend)]


class GymTwin:
    """GymWrapper over a manager over a single-learning-agent scripted simulation."""

    def __init__(self, w, sim):
        self.w, self.sim = w, sim
        self.agents = {w.agent_id: w.agent}

    def reset(self):
        return self.w.reset()

    def step(self, acts):
        return self.w.step(acts[self.w.agent_id])

    def live_after_reset(self, out):
        return [self.w.agent_id]

    def live_after_step(self, out):
        return ([] if out[2] else [self.w.agent_id]), bool(out[2])

    def probe(self):
        return [sorted(self.w.sim.done_agents), self.sim.t, list(self.sim.pend)]


def build_adapter(desc, rng):
    from abmarl.external import OpenSpielWrapper, GymWrapper
    ak, mk, script = desc
    sim = stubsim.ScriptSim(script)
    mgr = make_mgr(mk, sim)
    if ak == 0:
        return OspTwin(OpenSpielWrapper(mgr), sim)
    return GymTwin(GymWrapper(mgr), sim)


def build_example(desc, rng):
    """A packaged example simulation (as harness/gen_C02.py builds them) under a real manager."""
    from . import gen_C02
    ex, mk, seed = desc
    name, builder, mgrs, _ = gen_C02.EXAMPLES[ex]
    sim = builder(random.Random(seed))
    pubapi.fix_component_order(sim)          # see build_grid

    def probe():
        vit = []
        for a in sim.agents.values():
            pos = pubapi.pub(a, "position")
            vit.append([pos.tolist() if hasattr(pos, "tolist") else pos,
                        pubapi.pub(a, "health"), bool(pubapi.pub(a, "active", True)),
                        pubapi.pub(a, "ammo"), pubapi.pub(a, "orientation")])
        cells = []
        g = getattr(sim, "grid", None)
        if g is not None and g[0, 0] is not None:
            cells = [pubapi.cell_ids(g, r, c) for r in range(g.rows) for c in range(g.cols)]
        rew = getattr(sim, "rewards", getattr(sim, "reward", None))
        return [vit, cells, dict(rew) if isinstance(rew, dict) else rew]
    return MgrTwin(make_mgr(mk, sim), probe)


class StateTwin:
    """A placement state component on its own (no manager): an 'episode' is one reset under the
    episode's seed; the output is where every agent stands and what every cell holds, or the kind of
    exception of a refused reset.  No steps (nobody expects an action)."""

    def __init__(self, state, grid, agents, target=None, earlier=()):
        self.state, self.grid, self.agents = state, grid, agents
        # a used object may have seen its target agent at other initial positions in earlier
        # episodes (reassigned through the public attribute): the follow-up episode must only see
        # the present one
        self.target, self.earlier, self.dirty_mode, self.n = target, list(earlier), False, 0
        self.final = None if target is None else target.initial_position

    def reset(self):
        if self.target is not None and self.final is not None:
            if self.dirty_mode and self.n < len(self.earlier):
                self.target.initial_position = np.array(self.earlier[self.n])
            else:
                self.target.initial_position = self.final
            self.n += 1
        try:
            self.state.reset()
        except Exception as e:  # noqa: BLE001  -- a refused reset is part of the behaviour
            return ["refused", type(e).__name__]
        pos = [a.position.tolist() for a in self.agents.values()]
        cells = [sorted(self.grid[r, c].keys()) if self.grid[r, c] else []
                 for r in range(self.grid.rows) for c in range(self.grid.cols)]
        return [pos, cells, list(self.state.agents.keys())]

    def live_after_reset(self, obs):
        return []

    def probe(self):
        return []


def build_placement(desc, rng):
    """PositionState / TargetBarriersFreePlacementState / MazePlacementState as gen_C13 builds them."""
    from . import gen_C13
    cfg, style = desc[:2]
    state, grid, agents = gen_C13.build(cfg, style)
    target = agents[f"a{cfg[6]}"] if cfg[0] != 0 else None
    return StateTwin(state, grid, agents, target, desc[2] if len(desc) > 2 else ())


STACKS[0] = build_script
STACKS[1] = build_corridor
STACKS[2] = build_grid
STACKS[3] = build_wrapped
STACKS[4] = build_adapter
STACKS[5] = build_example
STACKS[6] = build_placement


def impl(inp):
    kind, desc, prefix, nfollow, seeds = inp
    fresh = STACKS[kind](desc, None)
    used = STACKS[kind](desc, None)
    if hasattr(used, "dirty_mode"):
        used.dirty_mode = True
        used.earlier = used.earlier[:len(prefix)]
    # dirty the used object
    for n, cut in enumerate(prefix):
        twin.play(used, random.Random(seeds[0] + n), cut, seeds[1] + n)
    if seeds[3] % 2 == 0:
        # half of the cases: both objects alive and called alternately (state shared between
        # instances of a class would make them differ)
        f_out, u_out = twin.play_lockstep(fresh, used, seeds[2], nfollow, seeds[3])
        return [f_out, u_out]
    f_out = twin.play(fresh, random.Random(seeds[2]), nfollow, seeds[3])
    u_out = twin.play(used, random.Random(seeds[2]), nfollow, seeds[3])
    return [f_out, u_out]


def split(inp, out):
    if out[0] == -1:
        return [inp, out], out          # the stack refuses this configuration (both twins alike)
    return [inp, out[0]], out[1]


def rand_grid_desc(rng, mk):
    rows, cols = rng.randint(2, 5), rng.randint(2, 5)
    n = rng.randint(2, min(6, rows * cols))
    encs = [1, 2] if rng.random() < 0.6 else [1]
    ov = [[1, [1]]] if rng.random() < 0.55 else []
    cells = [(r, c) for r in range(rows) for c in range(cols)]
    rng.shuffle(cells)
    ags = []
    for i in range(n):
        pos = list(cells[i]) if rng.random() < 0.5 else []
        ags.append([rng.choice(encs), pos, rng.choice([0, 1, 2, 3, 4]), rng.choice([0, 1, 3]),
                    rng.choice([0, 1, 2, 3, 4]), 1 if (i == 0 or rng.random() < 0.8) else 0])
    # which position state, in which order the state components reset, placement options
    pst = [rng.choice([0, 0, 1, 1, 2]), rng.randint(0, 1), [rng.randint(0, 1) for _ in range(4)]]
    return [mk, rows, cols, ags, ov, pst]


def gen(tier, rng):
    quick = tier != "thorough"
    n = 1300 if quick else 16000
    for _ in range(n):
        kind = rng.choice(sorted(STACKS) + [2, 2, 2])       # the grid simulation has the most variants
        mk = rng.choice([0, 1, 2]) if kind == 0 else rng.choice([0, 1])
        if kind == 0:
            desc = [mk, stubsim.random_script(rng, mk, nmax=4, tmax=6)]
        elif kind == 1:
            desc = [mk, rng.randint(4, 8), rng.randint(1, 3)]
        elif kind == 2:
            desc = rand_grid_desc(rng, mk)
        else:
            desc = EXTRA_DESC[kind](rng)
        prefix = [rng.choice([0, 1, 2, 3, 5, 8, 30]) for _ in range(rng.choice([0, 1, 1, 2, 3]))]
        yield [kind, desc, prefix, rng.randint(1, 12), [rng.getrandbits(30) for _ in range(4)]]


def wrapped_desc(rng):
    mk = rng.choice([0, 1])
    wk = rng.choice([0, 1, 2, 3, 4])
    if rng.random() < 0.5:
        base = [0, stubsim.random_script(rng, mk, nmax=4, tmax=6, all_learning=True)]
    else:
        base = [1, rng.randint(4, 8), rng.randint(2, 3)]
    return [mk, wk, base]


def adapter_desc(rng):
    ak = rng.choice([0, 0, 1])
    mk = rng.choice([0, 1])
    if ak == 0:
        sc = stubsim.random_script(rng, mk, nmax=4, tmax=6, all_learning=(rng.random() < 0.6))
    else:
        sc = stubsim.random_script(rng, mk, nmax=3, tmax=6)
        learn = [0] * sc[1]
        learn[rng.randrange(sc[1])] = 1        # exactly one learning agent
        sc[2] = learn
    return [ak, mk, sc]


def example_desc(rng):
    from . import gen_C02
    ex = rng.choice([1, 2, 3, 4, 5, 6, 7, 8, 9, 16])
    mk = rng.choice(gen_C02.EXAMPLES[ex][2])
    return [ex, mk, rng.getrandbits(20)]


def placement_desc(rng):
    from . import gen_C13
    kind = rng.choice([0, 1, 1, 2, 2])
    if rng.random() < 0.5:
        cfg = gen_C13.rand_cfg(rng, kind)
    else:       # larger grids, clustered / scattered, target usually placed at random
        cfg = gen_C13.rand_cfg(rng, kind, rng.randint(3, 7), rng.randint(3, 7),
                               [rng.randint(0, 1), rng.randint(0, 1), rng.choice([0, 1, 1]), rng.choice([0, 1, 1])])
    earlier = [[rng.randrange(cfg[1]), rng.randrange(cfg[2])] for _ in range(3)] if rng.random() < 0.5 else []
    return [cfg, rng.randrange(64), earlier]


EXTRA_DESC = {3: wrapped_desc, 4: adapter_desc, 5: example_desc, 6: placement_desc}


def nontrivial(inp, out):
    return len(inp[2]) > 0


def classify(inp, out):
    kind = {0: "script", 1: "corridor", 2: "grid"}.get(inp[0], f"stack{inp[0]}")
    if inp[0] == 2 and len(inp[1]) > 5:
        kind = "grid-" + ["PositionState", "TargetBarriersFree", "Maze"][inp[1][5][0]] + \
               ("-placed-first" if inp[1][5][1] else "") + \
               ("-refused" if str(out).lstrip("( ").startswith("-1") else "")
    if inp[0] == 5:
        from . import gen_C02
        return f"example-{gen_C02.EXAMPLES[inp[1][0]][0]}/{MGR.get(inp[1][1], 'x')}/prefix{min(len(inp[2]), 3)}"
    if inp[0] == 6:
        from . import gen_C13
        cfg = inp[1][0]
        opts = "".join(c for c, f in zip("nrcs", cfg[5]) if f)
        return f"placement-{gen_C13.KINDS[cfg[0]]}/{opts or '-'}/prefix{min(len(inp[2]), 3)}"
    if inp[0] == 4:
        kind = "adapter-" + {0: "openspiel", 1: "gym"}[inp[1][0]]
        return f"{kind}/{MGR.get(inp[1][1], 'x')}/prefix{min(len(inp[2]), 3)}"
    if inp[0] == 3:
        kind = "wrapped-" + {0: "super", 1: "comm", 2: "ravel", 3: "flatten", 4: "stacked"}[inp[1][1]]
    mk = MGR.get(inp[1][0], "x") if isinstance(inp[1][0], int) else "x"
    return f"{kind}/{mk}/prefix{min(len(inp[2]), 3)}"


def shrink(inp):
    kind, desc, prefix, nfollow, seeds = inp
    for i in range(len(prefix)):
        yield [kind, desc, prefix[:i] + prefix[i + 1:], nfollow, seeds]
    for k in range(1, nfollow):
        yield [kind, desc, prefix, k, seeds]
    for i in range(len(prefix)):
        if prefix[i] > 1:
            yield [kind, desc, prefix[:i] + [prefix[i] // 2] + prefix[i + 1:], nfollow, seeds]


COMPONENTS = [
    Component(801, "used_vs_fresh_twins", impl, gen, chk=802, nontrivial=nontrivial, classify=classify,
              shrink=shrink, timeout=60),
]
COMPONENTS[0].split = split

# GymABS cache model (Ctl/Adapters.v, ids 1505/1506): reset must leave the cache as on a new object
from .gymabs import COMPONENT_GYMABS  # noqa: E402
COMPONENTS.append(COMPONENT_GYMABS)
from . import gen_FullReset
COMPONENTS += gen_FullReset.COMPONENTS
