"""C08, full reset: SmartGridWorldSimulation.reset over the built-in PositionState, HealthState,
AmmoState and OrientationState of /repo on agents with a mix of declared and undeclared initial
values, started from an arbitrary USED state, against `full_reset` of coq/Grid/FullReset.v.

A case builds a real SmartGridWorldSimulation subclass (MoveActor + BinaryAttackActor), resets it
once, dirties it (random steps: attacks spend ammunition and kill, moves; then direct writes through
the agents' setters and Grid.remove/place: deaths, teleports, ammunition, orientation), snapshots
that state, and resets it again with numpy's generator spied: np.random.choice (the placement, by
agent through the caller's frame as in gen_C13), np.random.uniform (HealthState; ticks of 2^-20,
never 0) and np.random.randint (OrientationState) are recorded.  The model receives the
configuration, the iteration order given to `sim._states`, the recorded draws and the snapshot of
the used state; compared: every agent's position / health / active flag / ammunition / orientation
and every cell of the grid after the reset, or the kind of the exception."""
from . import envshim  # noqa: F401
import random
import sys

import numpy as np

from .runner import Component, exc_code
from . import gridsim as G
from . import rngspy
from . import pubapi

HD = G.HD
STATE_NAMES = ["PositionState", "HealthState", "AmmoState", "OrientationState"]


class Spy(rngspy.Spy):
    """mode 'run': the attack actor's draws (not recorded); mode 'free': a reset whose draws are
    not recorded; mode 'rec': the reset under test."""

    def __init__(self, seed, n):
        super().__init__(seed)
        self.mode = "run"
        self.n = n
        self.rchoice, self.runif, self.rint = [-1] * n, [], []

    def uniform(self, low=0.0, high=1.0, size=None):
        if self.mode == "run":
            return super().uniform(low, high, size)
        assert size is None and low in (0, 0.0) and high in (1, 1.0)
        k = self.rng.choice([1, HD // 4, HD // 2, HD - 1, self.rng.randrange(1, HD)])
        if self.mode == "rec":
            self.runif.append(k)
        return k / HD

    def choice(self, a, size=None, replace=True, p=None):
        if self.mode == "run":
            return super().choice(a, size, replace, p)
        seq = [int(x) for x in a]
        assert size == 1 and p is None
        if not seq:
            raise ValueError("'a' cannot be empty unless no samples are taken")
        v = seq[self.rng.randrange(len(seq))]
        if self.mode == "rec":
            ag = sys._getframe(1).f_locals["var_agent_to_place"]
            self.rchoice[G.aidx(ag.id)] = v
        return np.array([v])

    def randint(self, low, high=None, size=None, dtype=int):
        assert (low, high, size) == (1, 5, None)
        v = self.rng.randint(1, 4)
        if self.mode == "rec":
            self.rint.append(v)
        return v

    def __enter__(self):
        super().__enter__()
        self._saved["randint"] = np.random.randint
        np.random.randint = self.randint
        return self


def build(cfg):
    from abmarl.sim.gridworld.smart import SmartGridWorldSimulation
    from abmarl.sim.gridworld.actor import MoveActor, BinaryAttackActor
    from abmarl.sim.gridworld.state import PositionState, HealthState, AmmoState, OrientationState
    from abmarl.sim.gridworld.observer import PositionCenteredEncodingObserver
    from abmarl.sim.gridworld.done import ActiveDone
    rows, cols, ov, ags, noov, order = cfg

    class FSim(SmartGridWorldSimulation):
        def __init__(self, **kwargs):
            super().__init__(**kwargs)
            self.move_actor = MoveActor(**kwargs)
            self.attack_actor = BinaryAttackActor(**kwargs)
            self.finalize()

        def step(self, action_dict, **kwargs):
            for agent_id, action in action_dict.items():
                agent = self.agents[agent_id]
                if agent.active:
                    self.attack_actor.process_action(agent, action, **kwargs)
            for agent_id, action in action_dict.items():
                agent = self.agents[agent_id]
                if agent.active:
                    self.move_actor.process_action(agent, action, **kwargs)

    agents = {}
    for i, (enc, blocking, pos, health, ammo, orient) in enumerate(ags):
        kw = dict(id=G.aid(i), encoding=enc, blocking=bool(blocking), move_range=1, attack_range=1,
                  attack_strength=0.75, attack_accuracy=1.0, simultaneous_attacks=1, view_range=1,
                  initial_position=(np.array(pos) if pos else None),
                  initial_health=(health[0] / HD if health else None))
        if ammo:
            kw["initial_ammo"] = ammo[0]
        if orient:
            kw["initial_orientation"] = orient[0] or None
        agents[G.aid(i)] = G.agent_class(ammo, orient)(**kw)
    encs = sorted({a[0] for a in ags})
    sim = FSim.build_sim(rows, cols, agents=agents,
                         overlapping=({k: set(v) for k, v in ov} if ov else None),
                         states={PositionState, HealthState, AmmoState, OrientationState},
                         observers={PositionCenteredEncodingObserver}, dones={ActiveDone},
                         attack_mapping={e: set(encs) for e in encs},
                         no_overlap_at_reset=bool(noov))
    # the set's iteration order is arbitrary (object hashes): the case prescribes it
    by_name = {type(s).__name__: s for s in pubapi.components(sim, "states")}
    pubapi.set_components(sim, "states", [by_name[STATE_NAMES[k]] for k in order])
    return sim


def dirty(sim, rng, nsteps, nwrites):
    from abmarl.sim.gridworld.agent import AmmoAgent, OrientationAgent
    rows, cols = sim.grid.rows, sim.grid.cols
    ags = list(sim.agents.values())
    for a in ags:                       # attributes a failed first reset may not have created
        if pubapi.pub(a, "position", pubapi.UNSET) is pubapi.UNSET:
            a.position = None
        if pubapi.pub(a, "health") is None:
            a.health = 0
    for _ in range(nsteps):
        acts = {a.id: {"move": np.array([rng.randint(-1, 1), rng.randint(-1, 1)]),
                       "attack": rng.choice([0, 1, 1])}
                for a in ags if a.active and a.position is not None and rng.random() < 0.85}
        sim.step(acts)
    for _ in range(nwrites):
        a = rng.choice(ags)
        what = rng.randrange(5)
        if what == 0:                                       # dies (and leaves its cell)
            if a.position is not None and a.id in sim.grid[tuple(a.position)]:
                sim.grid.remove(a, tuple(a.position))
            a.health = 0
        elif what == 1:                                     # wounded
            a.health = rng.choice([1, HD // 8, HD // 2, HD]) / HD
        elif what == 2 and isinstance(a, AmmoAgent):
            a.ammo = rng.choice([0, 0, 1, 7])
        elif what == 3 and isinstance(a, OrientationAgent):
            a.orientation = rng.randint(1, 4)
        elif what == 4:                                     # teleported, overlap rules ignored
            if a.position is not None and a.id in sim.grid[tuple(a.position)]:
                sim.grid.remove(a, tuple(a.position))
            p = (rng.randrange(rows), rng.randrange(cols))
            sim.grid[p][a.id] = a
            a.position = np.array(p)


def impl(inp):
    cfg, nsteps, nwrites, seed = inp
    rng = random.Random(seed)
    sim = build(cfg)
    spy = Spy(seed ^ 0xF5E7, len(cfg[3]))
    with spy:
        spy.mode = "free"
        try:
            sim.reset()
        except (AssertionError, RuntimeError):
            nsteps = 0                  # a partly reset object cannot be stepped
        spy.mode = "run"
        dirty(sim, rng, nsteps, nwrites)
        prev = G.snapshot(sim.grid, sim.agents)
        spy.mode = "rec"
        try:
            sim.reset()
            res = [1, G.snapshot(sim.grid, sim.agents)]
            assert set(sim.rewards.values()) <= {0}
        except (AssertionError, RuntimeError) as e:
            res = [0, exc_code(e)]
    return [[spy.rchoice, spy.runif, spy.rint], prev, res]


def split(inp, out):
    if out[0] == -1:
        return [inp[0], [[], [], []], [[], []]], out
    return [inp[0], out[0], out[1]], out[2]


# ------------------------------------------------------------------------------ generator
def rand_cfg(rng, tight=False):
    rows, cols = rng.choice([1, 1, 2, 2, 3, 3, 4, 5]), rng.choice([1, 2, 2, 3, 3, 4, 5])
    ncell = rows * cols
    if tight:
        n = rng.randint(max(1, ncell - 1), ncell + 2)
    else:
        n = rng.randint(1, max(1, min(7, ncell)))
    n = min(n, 9)
    E = rng.choice([1, 2, 2, 3])
    encs = list(range(1, E + 1))
    ov = []
    mode = rng.random()
    for k in encs:
        if mode < 0.35:
            continue
        vs = encs[:] if mode < 0.55 else [e for e in encs if rng.random() < 0.5]
        if vs and rng.random() < 0.8:
            rng.shuffle(vs)
            ov.append([k, vs])
    cells = [[r, c] for r in range(rows) for c in range(cols)]
    rng.shuffle(cells)
    pdecl = rng.choice([0.0, 0.3, 0.5, 0.9])
    ags = []
    for i in range(n):
        if rng.random() < pdecl:
            pos = cells[i % ncell] if rng.random() < 0.9 else rng.choice(cells)
        else:
            pos = []
        health = [rng.choice([1, HD // 4, HD // 2, HD, rng.randrange(1, HD + 1)])] if rng.random() < 0.5 else []
        ammo = [rng.choice([-2, 0, 1, 3, 5])] if rng.random() < 0.65 else []
        orient = ([rng.choice([0, 0, 1, 2, 3, 4])] if rng.random() < 0.65 else [])
        ags.append([rng.choice(encs), 1 if rng.random() < 0.2 else 0, pos, health, ammo, orient])
    order = [0, 1, 2, 3]
    rng.shuffle(order)
    return [rows, cols, ov, ags, 1 if rng.random() < 0.3 else 0, order]


def gen(tier, rng):
    n = 1200 if tier != "thorough" else 30000
    for k in range(n):
        cfg = rand_cfg(rng, tight=(k % 6 == 0))
        yield [cfg, rng.choice([0, 1, 2, 3, 5, 8]), rng.choice([0, 0, 1, 2, 4, 8]), rng.getrandbits(30)]


def _beh(out):
    from . import sx
    return sx.loads(out) if isinstance(out, str) else out


def nontrivial(inp, out):
    o = _beh(out)
    return bool(o) and o[0] == 1 and (inp[1] > 0 or inp[2] > 0)


def classify(inp, out):
    o = _beh(out)
    if not o or o[0] == -1:
        return "harness-error"
    if o[0] == 0:
        return {1: "refused-initial-position", 2: "no-cell-left"}.get(o[1], f"error{o[1]}")
    ags = inp[0][3]
    lab = []
    lab.append("pos:" + ("mixed" if 0 < sum(1 for a in ags if a[2]) < len(ags) else
                         "declared" if all(a[2] for a in ags) else "random"))
    lab.append("health:" + ("drawn" if any(not a[3] for a in ags) else "declared"))
    lab.append("orient:" + ("drawn" if any(a[5] == [0] for a in ags) else
                            "declared" if any(a[5] for a in ags) else "none"))
    return "/".join(lab)


def shrink(inp):
    cfg, nsteps, nwrites, seed = inp
    if nsteps:
        yield [cfg, nsteps // 2, nwrites, seed]
    if nwrites:
        yield [cfg, nsteps, nwrites // 2, seed]
    rows, cols, ov, ags, noov, order = cfg
    for i in range(len(ags)):
        if len(ags) > 1:
            yield [[rows, cols, ov, ags[:i] + ags[i + 1:], noov, order], nsteps, nwrites, seed]


COMPONENTS = [
    Component(2201, "full_reset_states", impl, gen, chk=2202, nontrivial=nontrivial,
              classify=classify, shrink=shrink, timeout=30),
]
COMPONENTS[0].split = split
