"""C05: flatten/unflatten/flatten_space/flatdim of abmarl.sim.wrappers.flatten_wrapper vs Spaces/Flatten.v."""
from . import envshim  # noqa: F401
import random
import numpy as np
from .runner import Component
from . import spaces as S

PROP = "C05"
RULE = ("inputs are (space, box shapes, point): nested Discrete/MultiBinary/MultiDiscrete/int Box/"
        "float Box spaces; all points of small integer spaces, sampled dyadic points (k/1024) for "
        "float leaves and large spaces; non-trivial = nested or multi-component space; distinct = "
        "distinct (space, point)")
ASSUMPTIONS = [
    "float leaf values and bounds are dyadic rationals k/1024 (binary64-exact); float32 narrowing "
    "inside gymnasium is outside the model",
    "gymnasium's own contains() is used as the membership oracle for the flattened Box and for "
    "the unflattened point of all-integer spaces",
]
TICK = S.TICK


def kind_of(a):
    return 1 if np.asarray(a).dtype.kind == "f" else 0


def vals(a):
    a = np.asarray(a)
    if a.dtype.kind == "f":
        out = []
        for x in a.flatten():
            t = float(x) * TICK
            assert t == int(t), ("non-dyadic value", x)
            out.append(int(t))
        return out
    return [int(x) for x in a.flatten()]


def upoint_to_sx(space, u):
    from gymnasium.spaces import Discrete, MultiBinary, MultiDiscrete, Dict, Tuple
    from gymnasium.spaces import Box as GymBox
    if isinstance(space, Discrete):
        return [0, kind_of(u), vals(u)[0]]
    if isinstance(space, (MultiBinary, MultiDiscrete)):
        return [1, kind_of(u)] + vals(u)
    if isinstance(space, GymBox):
        assert np.asarray(u).shape == space.shape, "unflattened Box has the wrong shape"
        return [1, kind_of(u)] + vals(u)
    if isinstance(space, Tuple):
        assert isinstance(u, tuple) and len(u) == len(space.spaces)
        return [3] + [upoint_to_sx(s, q) for s, q in zip(space.spaces, u)]
    if isinstance(space, Dict):
        assert list(u.keys()) == list(space.spaces.keys())
        return [3] + [upoint_to_sx(s, u[k]) for k, s in space.spaces.items()]
    raise TypeError(space)


def impl_flatten(inp):
    from abmarl.sim.wrappers.flatten_wrapper import flatten, unflatten, flatten_space, flatdim
    spec, shapes, xp = inp
    shapes = {tuple(p): tuple(sh) for p, sh in shapes}
    space = S.build_space(spec, shapes)
    rng = random.Random(len(repr(xp)))
    p = S.sx_to_point(space, xp, rng)
    dim = flatdim(space)
    fl = flatten(space, p)
    fl = np.asarray(fl)
    assert fl.ndim == 1
    fs = flatten_space(space)
    inbox = bool(fs.contains(fl)) and bool(fl in fs)
    u = unflatten(space, fl)
    if S.spec_has_float(spec):
        mem = 2
    else:
        mem = 1 if space.contains(u) else 0
    fkind = 1 if np.dtype(fs.dtype).kind == "f" else 0
    assert fs.low.ndim == 1
    return [int(dim), kind_of(fl), vals(fl), inbox,
            [fkind, [[a, b] for a, b in zip(vals(fs.low.astype(fs.dtype)), vals(fs.high.astype(fs.dtype)))]],
            upoint_to_sx(space, u), mem]


def gen(tier, rng):
    quick = tier != "thorough"
    n_spaces = 900 if quick else 9000
    per_space_cap = 120 if quick else 500
    fixed = [[0, 1], [0, 5], [1, 1], [1, 3], [2, 3, 1, 2], [3, [-2, -2]], [3, [-1, 1], [0, 2]],
             [4, [0, 1024]], [4, [-512, 512], [100, 3000]],
             [5, [0, 3]], [6, [0, 2], [0, 3]], [6, [0, 3], [5, [2, 2, 2], [3, [-1, 1], [0, 1]]]],
             [6, [0, 2], [4, [-512, 512]]], [5, [4, [0, 1024]], [1, 2], [6, [3, [-3, 4]], [0, 4]]],
             [5, [6, [1, 2], [0, 3]], [6, [5, [0, 2]], [4, [5, 7]]]]]
    # integer bounds that a float64 cannot hold exactly (|bound| > 2^53): everything must stay integer
    B = 2 ** 53
    fixed += [[5, [0, 3], [3, [0, B + 1], [0, B + 1]]],
              [6, [1, 2], [3, [-(B + 1), 4], [-3, 2 ** 60 + 1]], [2, 2, 3]],
              [5, [6, [3, [B + 3, B + 7]], [0, 2]], [1, 1]],
              [3, [-(2 ** 61 + 1), -(2 ** 61 - 1)], [2 ** 62 - 3, 2 ** 62 - 1]]]
    specs = list(fixed)
    for _ in range(20 if quick else 200):
        lo = rng.choice([0, -(B + rng.randint(1, 9)), B - 2, -3])
        hi = max(lo, 0) + B + rng.randint(1, 99) * 2 + 1
        specs.append(rng.choice([
            [5, [0, rng.randint(1, 4)], [3, [lo, hi]]],
            [6, [3, [lo, hi], [0, 2]], [1, rng.randint(1, 2)]],
            [5, [5, [3, [lo, hi]], [0, 2]], [2, 2, 2]]]))
    while len(specs) < n_spaces:
        specs.append(S.random_spec(rng, rng.choice([0, 1, 2, 2, 3]), allow_float=(rng.random() < 0.6)))
    seen = set()
    for spec in specs:
        key = repr(spec)
        if key in seen:
            continue
        seen.add(key)
        shapes = sorted([list(p), list(sh)] for p, sh in S.box_shapes(spec, rng).items())
        n = S.spec_size(spec)
        if n is not None and n <= per_space_cap:
            for j in range(n):
                yield [spec, shapes, S.spec_unrank(spec, j)]
        else:
            for _ in range(per_space_cap // 6):
                yield [spec, shapes, S.random_point(spec, rng)]


def nontrivial(inp, out):
    spec = inp[0]
    return spec[0] in (5, 6) or len(spec) > 2


def classify(inp, out):
    spec = inp[0]
    kind = {0: "Discrete", 1: "MultiBinary", 2: "MultiDiscrete", 3: "BoxI", 4: "BoxF", 5: "Tuple", 6: "Dict"}[spec[0]]
    return f"{kind}/depth{S.spec_depth(spec)}/" + ("float" if S.spec_has_float(spec) else "int")


COMPONENTS = [
    Component(501, "flatten_unflatten", impl_flatten, gen, chk=502, nontrivial=nontrivial,
              classify=classify),
]
