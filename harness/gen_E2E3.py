"""Third end-to-end correspondence (supports C01, C03, C07, C08, C13, C16): the REAL
MultiMazeNavigationSim of /repo/abmarl/examples/sim/multi_maze_navigation.py (a plain
GridWorldSimulation: MazePlacementState, MoveActor, PositionCenteredEncodingObserver, its own reset /
step / get_reward / get_done / get_all_done; MultiMazeNavigationAgent navigators, a GridWorldAgent
target, GridWorldAgent barriers) under the REAL AllStepManager (with and without
randomize_action_input) and TurnBasedManager, against the extracted composition
`run (mazenav_sim cfg) k (init s0) calls` of coq/Grid/MazeNavSim.v and coq/Ctl/Managers.v.

Unlike the first two instances the state after `sim.reset()` is NOT handed to the model: the model
computes it with the placement model of C13 (Grid/Place.v, Grid/Maze.v) from the recorded draws of
that reset -- random.shuffle, the start cell, the cells generate_maze chose, the cells
np.random.choice returned -- which are recorded by the spies of gen_C13 (gen_C13.ResetSpy, installed
around the reset only).  The observer's draws are recorded by the spy of gen_E2E.

Compared after every manager call: the complete manager output (observation arrays, rewards in units
of 1/100, done flags, `__all__`, rejections), the complete grid snapshot and, after a reset, what the
placement component did (C13's outcome: trace of Grid.place calls, cells, positions, maze, key order).
Agents are named by their index in sim.agents.  The library's objects are read through their public
interface only (harness/pubapi.py)."""
from . import envshim  # noqa: F401
import random
import numpy as np
from .runner import Component
from . import gridsim as G
from . import pubapi
from .gen_E2E import Spy as _Spy, cents, KINDS
from .gen_C13 import ResetSpy, Inadmissible  # noqa: F401  (the placement spies are C13's)

HD = G.HD
MAX_EPISODES = 3


def snapshot(sim, idx):
    ags = []
    for a in sim.agents.values():
        pos = pubapi.pub(a, "position")
        # no HealthState in this simulation: the attribute is never created; wire value = full health
        assert pubapi.pub(a, "health") is None, "an agent of MultiMazeNavigationSim has a health"
        assert pubapi.pub(a, "ammo") is None and pubapi.pub(a, "orientation") is None
        ags.append([a.encoding, [int(pos[0]), int(pos[1])] if pos is not None else [], HD,
                    1 if a.active else 0, [], [], 1 if a.blocking else 0])
    cells = []
    for r in range(sim.grid.rows):
        for c in range(sim.grid.cols):
            d = sim.grid[r, c]
            cells.append([idx[k] for k in d.keys()] if d else [])
    return [ags, cells]


def build(inp):
    """-> (sim, mgr, idx, model configuration).  The simulation class is the packaged
    MultiMazeNavigationSim; only its reset is wrapped, to record the draws of the placement."""
    from abmarl.examples.sim.multi_maze_navigation import MultiMazeNavigationSim, MultiMazeNavigationAgent
    from abmarl.sim.gridworld.agent import GridWorldAgent
    from abmarl.managers import AllStepManager, TurnBasedManager
    rows, cols, wov, wags, flags, target, barrier, free, obs_self, kind, randomize, pols, seed = inp

    class RecSim(MultiMazeNavigationSim):
        ospy = rspy = draws = outs = idx = None

        def reset(self, **kwargs):
            self.rspy.clear()
            self.ospy.mode = "reset"
            try:
                with self.rspy:
                    super().reset(**kwargs)
            finally:
                self.ospy.mode = "run"
            rec, idx = self.rspy.rec, self.idx
            g = self.grid
            cells = [[idx[i] for i in g[r, c].keys()] if g[r, c] else []
                     for r in range(g.rows) for c in range(g.cols)]
            pos = [[int(a.position[0]), int(a.position[1])] for a in self.agents.values()]
            order = [idx[i] for i in self.position_state.agents.keys()]
            self.draws.append(self.rspy.draws())
            self.outs.append([0, rec["log"], cells, pos,
                              [] if rec["mazeout"] is None else [rec["mazeout"]], order])

    agents = {}
    for i, (cls, enc, pos, blocking, vr) in enumerate(wags):
        kw = dict(id=G.aid(i), encoding=enc, blocking=bool(blocking),
                  initial_position=(np.array(pos) if pos else None))
        if cls == 1:
            a = MultiMazeNavigationAgent(view_range=("FULL" if vr < 0 else vr), **kw)
        else:
            a = GridWorldAgent(**kw)
        agents[a.id] = a
    sim = RecSim.build_sim(
        rows, cols, agents=agents, overlapping={k: set(v) for k, v in wov} if wov else None,
        target_agent=(agents[G.aid(target)] if seed & 1 else G.aid(target)),
        barrier_encodings=set(barrier), free_encodings=set(free),
        no_overlap_at_reset=bool(flags[0]), randomize_placement_order=bool(flags[1]),
        cluster_barriers=bool(flags[2]), scatter_free_agents=bool(flags[3]),
        observe_self=bool(obs_self))
    assert list(sim.agents) == list(agents)
    idx = {k: i for i, k in enumerate(sim.agents)}
    mgr = (AllStepManager(sim, randomize_action_input=bool(randomize)) if kind == 0
           else TurnBasedManager(sim))
    pcfg = [2, rows, cols, wov, [[enc] + list(pos) for (_, enc, pos, _, _) in wags], list(flags), target,
            list(barrier), list(free)]
    wcfg = [[1 if a.blocking else 0] + ([int(a.view_range)] if isinstance(a, MultiMazeNavigationAgent) else [])
            for a in sim.agents.values()]
    return sim, mgr, idx, pcfg, wcfg


def enc_obs(d, idx):
    out = []
    for k, v in d.items():
        assert list(v.keys()) == ["position_centered_encoding"]
        out.append([idx[k], v["position_centered_encoding"].tolist()])
    return out


def drive(inp):
    from abmarl.examples.sim.multi_maze_navigation import MultiMazeNavigationAgent
    rows, cols, wov, wags, flags, target, barrier, free, obs_self, kind, randomize, pols, seed = inp
    rng = random.Random(seed)
    ospy = _Spy(seed ^ 0x5EED)
    sim, mgr, idx, pcfg, wcfg = build(inp)
    sim.ospy, sim.rspy, sim.draws, sim.outs, sim.idx = ospy, ResetSpy(rows, cols, idx), [], [], idx
    calls, recs, shuffles = [], [], []
    import random as pyrandom
    orig_shuffle = pyrandom.shuffle
    np.random.seed(seed % (2 ** 32))          # np.random.randint of the placement (start cell, maze)

    def shuffle_spy(lst):
        rng.shuffle(lst)
        if ospy.mode == "run":                 # the manager's randomize_action_input
            shuffles.append(list(lst))
    pyrandom.shuffle = shuffle_spy

    def wact(k, a):
        return [idx[k], int(a["move"][0]), int(a["move"][1])]

    def sample(k):
        ag = sim.agents[k]
        if isinstance(ag, MultiMazeNavigationAgent):
            u = rng.random()
            if u < 0.45:      # head for the target
                d = sim.position_state.target_agent.position - ag.position
                mv = (max(-1, min(1, int(d[0]))), max(-1, min(1, int(d[1]))))
                if rng.random() < 0.5 and mv[0] and mv[1]:
                    mv = (mv[0], 0) if rng.random() < 0.5 else (0, mv[1])
            elif u < 0.55:
                mv = (0, 0)
            else:
                mv = (rng.randint(-1, 1), rng.randint(-1, 1))
            act = {"move": np.array(mv, dtype=int)}
            assert ag.action_space.contains(act), act
            return act
        return {"move": np.array([0, 0], dtype=int)}      # target / barrier: never reaches the simulation

    last_live, ended, bad, nreset, failed = None, True, 0, 0, 0
    try:
        with ospy:
            for pol in pols:
                if last_live is None or pol == 5 or ended:
                    if nreset >= MAX_EPISODES:
                        break
                    try:
                        obs = mgr.reset()
                    except (AssertionError, RuntimeError):
                        # the placement raised (no cell left, refused initial position): C13's
                        # business; the case ends before this call
                        failed = 1
                        break
                    nreset += 1
                    calls.append([0])
                    recs.append([[0, enc_obs(obs, idx)], snapshot(sim, idx), sim.outs[-1]])
                    last_live, ended = list(obs.keys()), False
                    continue
                done_set = [k for k in sim.agents if k in mgr.done_agents]
                acts = [(k, sample(k)) for k in last_live]
                if pol in (1, 2) and done_set:
                    ex = rng.choice(done_set)
                    ex = (ex, sample(ex))
                    acts = acts + [ex] if pol == 1 else [ex] + acts
                elif pol == 3:
                    acts = acts[:1]
                elif pol == 4:
                    acts = []
                elif pol == 6:
                    cand = [k for k in sim.agents if k not in mgr.done_agents]
                    acts = [(k, sample(k)) for k in cand if rng.random() < 0.6]
                ad = dict(acts)
                sub = [wact(k, a) for k, a in ad.items()]
                nsh = len(shuffles)
                stop = False
                try:
                    obs, rew, done, info = mgr.step(ad)
                    assert all(v == {} for v in info.values())
                    assert list(obs) == list(rew) == [k for k in done if k != "__all__"] == list(info)
                    r = [1, enc_obs(obs, idx), [[idx[k], cents(v)] for k, v in rew.items()],
                         [[idx[k], 1 if v else 0] for k, v in done.items() if k != "__all__"],
                         1 if done["__all__"] else 0]
                    last_live = [k for k, v in done.items() if k != "__all__" and not v]
                    ended = bool(done["__all__"])
                except AssertionError as e:
                    if "already done" not in str(e):
                        raise
                    r = [2]
                except StopIteration:
                    r = [3]
                except (KeyError, AttributeError, TypeError):
                    # an exception escaped from sim.step / a getter: the flag of the behaviour (308)
                    r, bad, stop = [3], 1, True
                sh = [wact(k, a) for k, a in shuffles[nsh]] if len(shuffles) > nsh else sub
                calls.append([1, sub, sh])
                recs.append([r, snapshot(sim, idx)])
                if stop:
                    break
    finally:
        pyrandom.shuffle = orig_shuffle
    minp = [pcfg, wcfg, 1 if obs_self else 0, sim.draws[:nreset], ospy.obs, kind, calls]
    return minp, [bad, recs]


def impl(inp):
    minp, beh = drive(inp)
    return [minp, beh]


def split(inp, out):
    if out[0] == -1:
        rows, cols, wov, wags, flags, target, barrier, free, obs_self, kind = inp[:10]
        pcfg = [2, rows, cols, wov, [[enc] + list(pos) for (_, enc, pos, _, _) in wags], list(flags), target,
                list(barrier), list(free)]
        wcfg = [[bl] + ([max(rows, cols) - 1 if vr < 0 else vr] if cls == 1 else [])
                for (cls, _, _, bl, vr) in wags]
        return [pcfg, wcfg, obs_self, [], [], kind, []], out
    return out[0], out[1]


OVERLAPS = [
    [[1, [3]], [3, [3]]],                 # the example's table
    [[1, [3]], [3, [3]]],
    [[1, [3]], [3, [3]]],
    [[1, [3]]],                           # navigators may not share a cell
    [[3, [1, 3]]],                        # the same table given from the other side
    [[1, [3]], [3, [3]], [2, [3]]],       # navigators may step onto barriers
    [[3, [3]]],                           # the target's cell cannot be entered
    [],
]


def gen(tier, rng):
    quick = tier != "thorough"
    n_cases = 800 if quick else 16000
    for _ in range(n_cases):
        rows, cols = rng.choice([(3, 3), (3, 3), (3, 4), (4, 4), (4, 5), (5, 5), (5, 5), (6, 6), (7, 7), (3, 7), (7, 5)])
        cap = rows * cols
        nn = rng.randint(1, 3)
        nb = rng.randint(0, max(1, min(cap // 4, 8)))
        ov = rng.choice(OVERLAPS)
        tpos = [rng.randrange(rows), rng.randrange(cols)] if rng.random() < 0.6 else []
        wags = [[0, 1, tpos, 1 if rng.random() < 0.2 else 0, 0]]
        for _b in range(nb):
            pos = []
            if rng.random() < 0.04:
                pos = [rng.randrange(rows), rng.randrange(cols)]
            wags.append([0, 2, pos, 1 if rng.random() < 0.5 else 0, 0])
        share = any((e == 1 and 3 in vs) or (e == 3 and 1 in vs) for e, vs in ov)
        for _n in range(nn):
            pos = []
            if tpos and share and _n == 0 and rng.random() < 0.25:
                pos = list(tpos)          # starts on the target's cell: done before it has acted
            elif rng.random() < 0.08:
                pos = [rng.randrange(rows), rng.randrange(cols)]
            wags.append([1, 3, pos, 1 if rng.random() < 0.15 else 0, rng.choice([1, 1, 2, 3, 5, -1])])
        order = rng.random()
        if order < 0.5:
            rng.shuffle(wags)
        elif order < 0.7:
            wags = wags[1:] + wags[:1]
        target = next(i for i, w in enumerate(wags) if w[1] == 1)
        u = rng.random()
        if u < 0.8:
            barrier, free = [2], [1, 3]            # the example
        elif u < 0.9:
            barrier, free = [2, 1], [3]            # the target's encoding listed with the barriers
        else:
            barrier, free = [2], [3, 1]
        if nb == 0:                                # every listed encoding must occur in the simulation
            barrier = [e for e in barrier if e != 2]
        flags = [1 if rng.random() < 0.4 else 0,   # no_overlap_at_reset (the example: on)
                 1 if rng.random() < 0.3 else 0,   # randomize_placement_order
                 1 if rng.random() < 0.5 else 0,   # cluster_barriers
                 1 if rng.random() < 0.5 else 0]   # scatter_free_agents
        kind = rng.choice([0, 0, 1])
        n_pol = rng.randint(4, 18 if kind == 0 else 34)
        pols = [rng.choice([0, 0, 0, 0, 0, 0, 0, 0, 0, 1, 2, 3, 5, 6]) for _ in range(n_pol)]
        yield [rows, cols, ov, wags, flags, target, barrier, free, 1 if rng.random() < 0.7 else 0, kind,
               1 if (kind == 0 and rng.random() < 0.4) else 0, pols, rng.getrandbits(30)]


_LAST = [None, None]


def _recs(out):
    from . import sx
    if _LAST[0] is out:
        return _LAST[1]
    o = sx.loads(out) if isinstance(out, str) else out
    r = o[1] if (isinstance(o, list) and len(o) == 2 and isinstance(o[1], list)) else []
    _LAST[0], _LAST[1] = out, r
    return r


def _tags(inp, recs):
    wags, target = inp[3], inp[5]
    nav = [i for i, w in enumerate(wags) if w[0] == 1]
    tags = set()
    nres = 0
    for r in recs:
        ags = r[1][0]
        if r[0][0] == 0:
            nres += 1
            if any(ags[i][1] == ags[target][1] for i in nav):
                tags.add("onstart")      # reset put a navigator on the target's cell
        if r[0][0] == 1:
            if any(v == 100 for _, v in r[0][2]):
                tags.add("reach")
            if any(v in (-11, -22, -12, -21) for _, v in r[0][2]):
                tags.add("refused")
            if r[0][4]:
                tags.add("alldone")
        if r[0][0] == 2:
            tags.add("reject")
        if r[0][0] in (0, 1) and any(-2 in row for _, arr in r[0][1] for row in arr):
            tags.add("masked")
    if nres >= 2:
        tags.add("episodes%d" % nres)
    if not recs:
        tags.add("resetfail")
    return tags


def nontrivial(inp, out):
    t = _tags(inp, _recs(out))
    return bool(t & {"reach", "refused", "reject"})


def classify(inp, out):
    # the histogram keeps the tags the instance is about; masked / shuffle / alldone are frequent in
    # every class (see design/E2E.md for their rates) and would only multiply the labels
    t = _tags(inp, _recs(out))
    ep = [x for x in t if x.startswith("episodes")]
    main = sorted(t & {"reach", "refused", "reject", "onstart", "resetfail"})
    return KINDS[inp[9]] + "/" + "+".join(main or ["plain"]) + "/" + (ep[0] if ep else "episodes1")


def shrink(inp):
    pols = inp[11]
    for i in range(len(pols) - 1, 0, -1):
        yield inp[:11] + [pols[:i]] + inp[12:]


def repro(inp):
    from . import sx
    return ("PYTHONPATH=/verif:/repo PYTHONHASHSEED=0 /venv/bin/python -c \"from harness import gen_E2E3, sx; "
            "print(gen_E2E3.impl(sx.loads('%s')))\"  # drives the real manager over the real "
            "MultiMazeNavigationSim; input = rows cols overlapping agents(class 0 GridWorldAgent/1 navigator, "
            "encoding, position, blocking, view) [no_overlap randomize cluster scatter] target barrier free "
            "observe_self manager(0 all,1 turn) randomize_action_input policies seed" % sx.dumps(inp))


COMPONENT_E2E3 = Component(2401, "e2e_multi_maze", impl, gen, chk=2402, nontrivial=nontrivial,
                           classify=classify, shrink=shrink, repro=repro, timeout=30)
COMPONENT_E2E3.split = split
