"""Shared machinery of every check: build, proof re-check, model process, differential run,
search for a failing input, evidence, VIOLATION / KNOWN-FINDING reporting.

A property module (harness/gen_Cxx.py) exposes

    PROP = "Cxx"
    COMPONENTS = [Component(...), ...]

and optionally `extra(rep)` for checks that are not of the plain differential shape.
"""
import fcntl
import hashlib
import json
import os
import random
import re
import signal
import subprocess
import sys
import time
import traceback
from collections import Counter
from concurrent.futures import ThreadPoolExecutor
from multiprocessing import Pool

from . import sx

VERIF = os.path.dirname(os.path.dirname(os.path.abspath(__file__)))
BUILD = os.path.join(VERIF, "_build")
COQ = os.path.join(VERIF, "coq")
MODEL_BIN = os.path.join(BUILD, "ocaml", "model")
REPLAY_DIR = os.path.join(BUILD, "replay")
NCPU = min(16, os.cpu_count() or 1)

FORBIDDEN = re.compile(
    r"\b(Admitted|admit|Axiom|Axioms|Parameter|Parameters|Conjecture|Conjectures|"
    r"Admit Obligations|bypass_check)\b|Unset\s+Guard|Unset\s+Positivity|Unset\s+Universe|"
    r"type-in-type|impredicative-set|Hypothes[ie]s|Variables?\b")

# axioms of the standard library we allow a theorem to depend on (none expected; see DESIGN 4)
ALLOWED_AXIOMS = set()

ERR_REJECT, ERR_RUNTIME, ERR_OTHER, ERR_TIMEOUT, ERR_KEY, ERR_VALUE, ERR_TYPE = 1, 2, 3, 4, 5, 6, 7


def exc_code(e):
    if isinstance(e, AssertionError):
        return ERR_REJECT
    if isinstance(e, TimeoutError):
        return ERR_TIMEOUT
    if isinstance(e, RuntimeError):
        return ERR_RUNTIME
    if isinstance(e, KeyError):
        return ERR_KEY
    if isinstance(e, ValueError):
        return ERR_VALUE
    if isinstance(e, TypeError):
        return ERR_TYPE
    return ERR_OTHER


class Component:
    """One model/implementation pair.

    cid      id understood by the extracted run_model
    name     human-readable name (used in corr:<prop>:<name>)
    impl     callable(input as nested lists) -> behaviour as nested lists (runs /repo's code)
    gen      callable(tier, rng) -> iterable of inputs (nested lists of ints)
    chk      id of the extracted property checker taking (input behaviour), or None
    nontrivial callable(inp, out) -> bool : does the case exercise the branch the property is about
    classify callable(inp, out) -> str : branch label for the hit histogram
    known    callable(inp, impl_out, entry) -> bool : is this failing case a listed finding
    shrink   callable(inp) -> iterable of smaller inputs (optional)
    admissible  True when the model output is a list of admissible values [v1 v2 ...] rather than
             a single behaviour (implementation must be one of them)
    """

    def __init__(self, cid, name, impl, gen, chk=None, nontrivial=None, classify=None,
                 known=None, shrink=None, timeout=20, repro=None, compare=None):
        self.cid, self.name, self.impl, self.gen, self.chk = cid, name, impl, gen, chk
        self.nontrivial = nontrivial or (lambda i, o: True)
        self.classify = classify or (lambda i, o: "all")
        self.known = known
        self.shrink = shrink
        self.timeout = timeout
        self.repro = repro
        self.compare = compare
        self.split = None


# --------------------------------------------------------------------------- build

def sh(cmd, cwd=None, timeout=1800):
    p = subprocess.run(cmd, shell=True, cwd=cwd, stdout=subprocess.PIPE, stderr=subprocess.STDOUT,
                       text=True, timeout=timeout)
    return p.returncode, p.stdout


def _newer(a, b):
    return (not os.path.exists(b)) or os.path.getmtime(a) > os.path.getmtime(b)


def model_sources():
    out = []
    for root, _, files in os.walk(COQ):
        for f in files:
            if f.endswith(".v"):
                out.append(os.path.join(root, f))
    return sorted(out)


def gen_project_files():
    """_CoqProject and Dispatch.v are generated: every .v under coq/ is part of the project, and a
    model file registers its wire entry points with marker comments
        (* DISPATCH: 401 => run_ravel *)
    so that adding a property never edits a shared file."""
    vs = []
    for v in model_sources():
        rel = os.path.relpath(v, COQ)
        if rel in ("Extract.v",):
            continue
        vs.append(rel)
    if "Dispatch.v" not in vs:
        vs.append("Dispatch.v")
    proj = "-Q . Abm\n" + "\n".join(sorted(vs)) + "\n"
    entries, imports = [], []
    for rel in sorted(vs):
        if rel.startswith(("Proofs/", "Props/")) or rel == "Dispatch.v":
            continue
        txt = open(os.path.join(COQ, rel)).read()
        ms = re.findall(r"\(\*\s*DISPATCH:\s*(\d+)\s*=>\s*(.+?)\s*\*\)", txt)
        if ms:
            mod = rel[:-2].replace("/", ".")
            imports.append(mod)
            # qualified: two model files may define entry points of the same name
            entries += [(int(a), mod + "." + b) for a, b in ms]
    ids = [a for a, _ in entries]
    assert len(ids) == len(set(ids)), "duplicate DISPATCH id: %r" % sorted(ids)
    disp = ("(* GENERATED by harness/runner.py from the DISPATCH markers of the model files. *)\n"
            "From Coq Require Import ZArith List.\n"
            "From Abm Require Import Base.Sx " + " ".join(imports) + ".\n"
            "Open Scope Z_scope.\n\n"
            "Definition run_model (id : Z) (x : sx) : sx :=\n  match id with\n"
            + "".join(f"  | {a} => {b} x\n" for a, b in sorted(entries))
            + "  | _ => sx_err\n  end.\n")
    for path, content in ((os.path.join(COQ, "_CoqProject"), proj), (os.path.join(COQ, "Dispatch.v"), disp)):
        if not os.path.exists(path) or open(path).read() != content:
            with open(path, "w") as f:
                f.write(content)


def build_all(verbose=False):
    """Full .vo build (coq_makefile + make), extraction, ocaml compile.  Serialised by a lock.
    Returns (ok_proofs, ok_model, log)."""
    os.makedirs(os.path.join(BUILD, "ocaml"), exist_ok=True)
    os.makedirs(os.path.join(BUILD, "props"), exist_ok=True)
    os.makedirs(REPLAY_DIR, exist_ok=True)
    log = []
    with open(os.path.join(BUILD, "lock"), "w") as lk:
        fcntl.flock(lk, fcntl.LOCK_EX)
        gen_project_files()
        mk = os.path.join(COQ, "Makefile")
        if _newer(os.path.join(COQ, "_CoqProject"), mk):
            rc, out = sh("coq_makefile -f _CoqProject -o Makefile", cwd=COQ)
            log.append(out)
        rc, out = sh(f"timeout 3000 make -k -j{NCPU}", cwd=COQ, timeout=3100)
        out = "\n".join(l for l in out.splitlines() if not l.startswith("Closed under"))[-6000:]
        listed = [l.strip() for l in open(os.path.join(COQ, "_CoqProject")) if l.strip().endswith(".v")]
        ok_proofs = (rc == 0) and all(
            os.path.exists(os.path.join(COQ, v[:-2] + ".vo")) and
            not _newer(os.path.join(COQ, v), os.path.join(COQ, v[:-2] + ".vo")) for v in listed)
        log.append(out)
        if verbose:
            print(out)
        # extraction only needs the model files (Dispatch.vo and what it imports)
        disp = os.path.join(COQ, "Dispatch.vo")
        ok_model = os.path.exists(disp) and not _newer(os.path.join(COQ, "Dispatch.v"), disp)
        if ok_model:
            stale = (not os.path.exists(MODEL_BIN)
                     or _newer(disp, MODEL_BIN)
                     or _newer(os.path.join(COQ, "Extract.v"), MODEL_BIN)
                     or _newer(os.path.join(VERIF, "ocaml", "driver.ml"), MODEL_BIN)
                     or any(_newer(v[:-2] + ".vo", MODEL_BIN) for v in model_sources()
                            if "/Proofs/" not in v and "/Props/" not in v
                            and not v.endswith("Extract.v") and os.path.exists(v[:-2] + ".vo")))
            if stale:
                od = os.path.join(BUILD, "ocaml")
                rc, out = sh(f"timeout 600 coqc -Q {COQ} Abm {COQ}/Extract.v -o {od}/Extract.vo"
                             f" && cp {VERIF}/ocaml/driver.ml . "
                             f" && timeout 600 ocamlfind ocamlopt -w -a model.mli model.ml driver.ml"
                             f" -o model.tmp && mv model.tmp model", cwd=od)
                log.append(out)
                if verbose:
                    print(out)
                ok_model = (rc == 0)
    return ok_proofs, ok_model, "\n".join(log)


def forbidden_scan():
    hits = []
    for v in model_sources():
        txt = open(v).read()
        # strip comments (non-nested is enough: we do not nest comments in this development)
        txt_nc = re.sub(r"\(\*.*?\*\)", "", txt, flags=re.S)
        in_section = 0
        for ln in txt_nc.splitlines():
            s = ln.strip()
            if re.match(r"Section\b", s):
                in_section += 1
            if re.match(r"End\b", s) and in_section:
                in_section -= 1
            m = FORBIDDEN.search(s)
            if m:
                word = m.group(0)
                if re.match(r"Hypothes|Variable", word) and in_section:
                    continue  # section-local, discharged at End
                hits.append(f"{os.path.relpath(v, VERIF)}: {s[:100]}")
    return hits


def check_props(prop):
    """Re-check Props/P_<prop>.v with coqc and read its Print Assumptions output."""
    src = os.path.join(COQ, "Props", f"P_{prop}.v")
    res = {"obligations": 0, "discharged": 0, "axioms": [], "ok": False, "log": "",
           "theorems": [], "failed": []}
    if not os.path.exists(src):
        res["log"] = "no property file"
        return res
    txt = re.sub(r"\(\*.*?\*\)", "", open(src).read(), flags=re.S)
    thms = re.findall(r"^\s*(?:Theorem|Corollary)\s+(\w+)", txt, flags=re.M)
    res["theorems"] = thms
    res["obligations"] = len(thms)
    out_vo = os.path.join(BUILD, "props", f"P_{prop}.vo")
    rc, out = sh(f"timeout 900 coqc -Q {COQ} Abm {src} -o {out_vo}", cwd=BUILD)
    res["log"] = out[-4000:]
    if rc != 0:
        m = re.search(r'line (\d+)', out)
        failing = "?"
        if m:
            ln = int(m.group(1))
            before = open(src).read().splitlines()[:ln]
            for l in reversed(before):
                mm = re.match(r"\s*(?:Theorem|Corollary|Example|Lemma)\s+(\w+)", l)
                if mm:
                    failing = mm.group(1)
                    break
        res["failed"] = [failing]
        return res
    closed = len(re.findall(r"Closed under the global context", out))
    axioms = []
    for m in re.finditer(r"Axioms:\s*\n((?:.+\n?)+?)(?=\n\S|\Z)", out):
        for l in m.group(1).splitlines():
            mm = re.match(r"^(\S+)\s*:", l)
            if mm:
                axioms.append(mm.group(1))
    res["axioms"] = sorted(set(axioms))
    bad_axioms = [a for a in res["axioms"] if a not in ALLOWED_AXIOMS]
    n_print = len(re.findall(r"^\s*Print Assumptions\s+(\w+)", txt, flags=re.M))
    printed = set(re.findall(r"^\s*Print Assumptions\s+(\w+)", txt, flags=re.M))
    missing = [t for t in thms if t not in printed]
    res["discharged"] = len(thms) if (not bad_axioms and not missing) else 0
    res["ok"] = (not bad_axioms) and (not missing) and len(thms) > 0
    if bad_axioms:
        res["failed"] = ["axioms:" + ",".join(bad_axioms)]
    if missing:
        res["failed"] += ["no Print Assumptions for " + ",".join(missing)]
    res["closed_count"] = closed
    res["print_assumptions"] = n_print
    return res


# --------------------------------------------------------------------------- model process

def _run_model_chunk(lines):
    p = subprocess.run([MODEL_BIN], input="\n".join(lines) + "\n", stdout=subprocess.PIPE,
                       stderr=subprocess.PIPE, text=True)
    out = p.stdout.split("\n")
    if out and out[-1] == "":
        out.pop()
    if len(out) != len(lines):
        raise RuntimeError(f"model binary answered {len(out)} of {len(lines)} requests: "
                           f"{p.stderr[:500]}")
    return out


def run_model(cid, inputs):
    """inputs: list of s-expression strings; returns list of answer strings."""
    if not inputs:
        return []
    lines = [f"{cid} {s}" for s in inputs]
    n = len(lines)
    if n < 64:
        return _run_model_chunk(lines)
    # one extracted-model process per chunk; small chunks too: some models take 0.3 s per case
    k = min(NCPU, (n + 31) // 32)
    size = (n + k - 1) // k
    chunks = [lines[i:i + size] for i in range(0, n, size)]
    with ThreadPoolExecutor(max_workers=k) as ex:
        outs = list(ex.map(_run_model_chunk, chunks))
    return [o for c in outs for o in c]


# --------------------------------------------------------------------------- implementation side

class _Timeout(Exception):
    pass


def _alarm(signum, frame):
    raise TimeoutError("case exceeded its wall-clock limit")


_IMPL = {}


def _impl_worker(args):
    modname, cname, inp_s, timeout = args
    import importlib
    if modname not in _IMPL:
        _IMPL[modname] = importlib.import_module(modname)
    mod = _IMPL[modname]
    comp = next(c for c in mod.COMPONENTS if c.name == cname)     # names are unique, model ids need not be
    inp = sx.loads(inp_s)
    signal.signal(signal.SIGALRM, _alarm)
    signal.alarm(timeout)
    try:
        out = comp.impl(inp)
    except TimeoutError:
        out = [-1, ERR_TIMEOUT]
    except Exception as e:  # an exception escaping the implementation runner
        out = [-1, exc_code(e)]
        if os.environ.get("VERIF_DEBUG"):
            traceback.print_exc()
    finally:
        signal.alarm(0)
    return sx.dumps(out)


TIMEOUT_OUT = sx.dumps([-1, ERR_TIMEOUT])
MAX_TIMEOUTS = 12        # a change that makes calls hang would otherwise cost (cases x time limit)


def run_impl(modname, comp, inputs, parallel=True):
    """Implementation outputs, in input order.  May be SHORTER than `inputs`: after MAX_TIMEOUTS
    cases ran into their wall-clock limit the run stops and the completed prefix is returned (the
    timed-out cases are in it and are reported like any other disagreement)."""
    args = [(modname, comp.name, s, comp.timeout) for s in inputs]
    out, nto = [], 0
    if not parallel or len(args) < 64:
        for a in args:
            out.append(_impl_worker(a))
            nto += out[-1] == TIMEOUT_OUT
            if nto >= MAX_TIMEOUTS:
                break
        return out
    pool = Pool(NCPU)
    try:
        for o in pool.imap(_impl_worker, args, chunksize=max(1, min(8, len(args) // (NCPU * 8)))):
            out.append(o)
            nto += o == TIMEOUT_OUT
            if nto >= MAX_TIMEOUTS:
                break
    finally:
        pool.terminate()
        pool.join()
    return out


# --------------------------------------------------------------------------- reporting

class Report:
    def __init__(self, prop, tier, seed):
        self.prop, self.tier, self.seed = prop, tier, seed
        self.t0 = time.time()
        self.evaluations = 0
        self.distinct = set()
        self.samples = []
        self.hits = Counter()
        self.per_component = {}
        self.violations = []       # (replay path, no_input flag)
        self.known_lines = []
        self.traces = 0
        self.disagreements = 0
        self.notes = []
        self.proof = None
        self.extra_cov = {}
        kf = os.path.join(VERIF, "known_findings.json")
        self.known_entries = []
        if os.path.exists(kf):
            self.known_entries = [e for e in json.load(open(kf)).get("findings", [])
                                  if e.get("property") == prop and e.get("status") == "known"]

    # -- violations
    def violation(self, replay, no_input=False):
        os.makedirs(REPLAY_DIR, exist_ok=True)
        blob = json.dumps(replay, sort_keys=True, default=str)
        h = hashlib.sha1(blob.encode()).hexdigest()[:12]
        path = os.path.join(REPLAY_DIR, f"{self.prop}-{h}.json")
        replay = dict(replay, property=self.prop, seed=self.seed, tier=self.tier)
        with open(path, "w") as f:
            json.dump(replay, f, indent=1, default=str)
        self.violations.append((path, no_input))
        tail = " no-failing-input-found" if no_input else ""
        print(f"VIOLATION property={self.prop} replay={path}{tail}", flush=True)

    def known(self, entry, what):
        line = f"KNOWN-FINDING: property={self.prop} {entry.get('id', '')} {what}"
        if line not in self.known_lines:
            self.known_lines.append(line)
            print(line, flush=True)

    # -- differential run of one component
    def differential(self, modname, comp, inputs, parallel=True):
        inputs = list(inputs)
        t = time.time()
        in_s = [sx.dumps(i) for i in inputs]
        raw_s = in_s
        impl_out = run_impl(modname, comp, in_s, parallel)
        if len(impl_out) < len(inputs):
            print(f"[{self.prop}] {comp.name}: stopped after {len(impl_out)} of {len(inputs)} cases: "
                  f"{MAX_TIMEOUTS} cases exceeded their time limit of {comp.timeout}s", flush=True)
            self.stopped_early = True
            inputs, in_s = inputs[:len(impl_out)], in_s[:len(impl_out)]
            raw_s = in_s
        if comp.split is not None:
            # the implementation run also produced the concrete input of the model
            # (e.g. the call list of an adaptively driven history)
            pairs = [comp.split(inputs[i], sx.loads(impl_out[i])) for i in range(len(inputs))]
            in_s = [sx.dumps(p[0]) for p in pairs]
            impl_out = [sx.dumps(p[1]) for p in pairs]
        model_out = run_model(comp.cid, in_s)
        n = len(in_s)
        self.evaluations += n
        self.traces += n
        pc = self.per_component.setdefault(comp.name, {"cases": 0, "disagreements": 0,
                                                       "chk_false": 0, "wall_s": 0.0})
        pc["cases"] += n
        bad_model = [i for i in range(n) if model_out[i] in ("-999", "-997")]
        if bad_model:
            self.violation({"kind": "model-rejected-input", "component": comp.name,
                            "correspondence": f"corr:{self.prop}:{comp.name}",
                            "inputs": [in_s[i] for i in bad_model[:5]],
                            "note": "harness/model wire mismatch: the model could not decode "
                                    "the input; the correspondence does not check"},
                           no_input=True)
        if comp.compare is not None:
            mism = [i for i in range(n) if not comp.compare(impl_out[i], model_out[i])]
        else:
            mism = [i for i in range(n) if impl_out[i] != model_out[i]]
        pc["disagreements"] += len(mism)
        self.disagreements += len(mism)
        chk_false = []
        if comp.chk is not None:
            ans = run_model(comp.chk, [f"({a} {b})" for a, b in zip(in_s, impl_out)])
            chk_false = [i for i in range(n) if ans[i] != "1"]
        pc["chk_false"] += len(chk_false)
        for i in range(n):
            inp, out = inputs[i], impl_out[i]
            try:
                lab = comp.classify(inp, out)
                self.hits[f"{comp.name}:{lab}"] += 1
                if comp.nontrivial(inp, out):
                    self.distinct.add(hashlib.sha1((str(comp.cid) + in_s[i]).encode()).digest()[:10])
            except Exception:
                pass
        if n and len(self.samples) < 12:
            for i in (0, n // 2, n - 1):
                self.samples.append({"component": comp.name, "input": in_s[i][:600],
                                     "implementation": impl_out[i][:600],
                                     "model": model_out[i][:600]})
        # failing inputs first: chk false on the implementation's behaviour
        reported = 0
        seen_known = set()
        for i in chk_false + [m for m in mism if m not in set(chk_false)]:
            is_chk = i in set(chk_false)
            ent = None
            if comp.known:
                for e in self.known_entries:
                    try:
                        if comp.known(inputs[i], sx.loads(impl_out[i]), e):
                            ent = e
                            break
                    except Exception:
                        pass
            if ent is not None:
                if ent.get("id") not in seen_known:
                    seen_known.add(ent.get("id"))
                    self.known(ent, ent.get("what", ""))
                continue
            if reported >= 3:
                continue
            reported += 1
            raw_min, min_s, out_min = raw_s[i], in_s[i], impl_out[i]
            if comp.shrink and is_chk:
                raw_min, min_s, out_min = self._shrink(modname, comp, inputs[i], in_s[i], impl_out[i])
            ans_i = run_model(comp.chk, [f"({min_s} {out_min})"])[0] if comp.chk is not None else None
            rep = {"kind": "property-fails-on-implementation" if is_chk else "correspondence-broken",
                   "component": comp.name, "component_id": comp.cid,
                   "module": modname,
                   "input": raw_min, "model_input": min_s, "implementation": out_min,
                   "model": run_model(comp.cid, [min_s])[0],
                   "checker": comp.chk, "checker_answer": ans_i,
                   "correspondence": f"corr:{self.prop}:{comp.name}",
                   "repro": (comp.repro(sx.loads(raw_min)) if comp.repro else
                             f"./check --replay <this file>   # re-runs component {comp.name} "
                             f"on this input on both sides")}
            if not is_chk:
                rep["note"] = ("model and implementation disagree on this input but the property "
                               "checker accepts the implementation's behaviour (or no checker "
                               "exists for this component): the property is no longer shown to "
                               "hold; the correspondence named above no longer checks")
            self.violation(rep, no_input=not is_chk)
        pc["wall_s"] += round(time.time() - t, 2)
        return impl_out, model_out

    def _eval_one(self, modname, comp, raw):
        """raw input (nested lists) -> (raw string, model-input string, implementation behaviour)"""
        rs = sx.dumps(raw)
        o = run_impl(modname, comp, [rs], parallel=False)[0]
        if comp.split is not None:
            mi, beh = comp.split(raw, sx.loads(o))
            return rs, sx.dumps(mi), sx.dumps(beh)
        return rs, rs, o

    def _shrink(self, modname, comp, inp, min_s, out):
        best, best_s, best_out = inp, min_s, out
        budget = 200
        improved = True
        while improved and budget > 0:
            improved = False
            for cand in comp.shrink(best):
                budget -= 1
                if budget <= 0:
                    break
                rs, ms, o = self._eval_one(modname, comp, cand)
                m = run_model(comp.cid, [ms])[0]
                if m in ("-999", "-997"):
                    continue
                a = run_model(comp.chk, [f"({ms} {o})"])[0]
                if a != "1":
                    best, best_s, best_out = cand, ms, o
                    improved = True
                    break
        return sx.dumps(best), best_s, best_out

    # -- finish: evidence + exit code
    def finish(self, assumptions, rule, trusted_base):
        wall = time.time() - self.t0
        pr = self.proof or {}
        cov = {
            "obligations": pr.get("obligations", 0),
            "discharged": pr.get("discharged", 0),
            "checker_cmd": pr.get("checker_cmd", ""),
            "trusted_base": trusted_base,
            "theorems": pr.get("theorems", []),
            "print_assumptions": {"closed_under_global_context": pr.get("closed_count", 0),
                                  "axioms": pr.get("axioms", [])},
            "evaluations": self.evaluations,
            "distinct_nontrivial": len(self.distinct),
            "rule": rule,
            "traces_validated_against_impl": self.traces,
            "disagreements": self.disagreements,
            "per_component": self.per_component,
            "branch_hits": dict(sorted(self.hits.items())),
            "samples": self.samples[:12] or [{"note": "no correspondence case was run"}],
            "known_findings_reported": self.known_lines,
            "notes": self.notes,
        }
        cov.update(self.extra_cov)
        try:
            from . import anchors
            cov["anchored_sources"] = anchors.report(self.prop)
        except Exception as e:  # never let the informational part break a check
            cov["anchored_sources"] = {"error": repr(e)}
        ev = {"property_id": self.prop, "tier": self.tier, "seed": self.seed, "level": "proof",
              "coverage": cov, "assumptions": assumptions, "wall_s": round(wall, 2),
              "violations": len(self.violations)}
        os.makedirs(os.path.join(VERIF, "evidence"), exist_ok=True)
        with open(os.path.join(VERIF, "evidence", f"{self.prop}.json"), "w") as f:
            json.dump(ev, f, indent=1, default=str)
        status = "FAIL" if self.violations else "ok"
        print(f"[{self.prop}] {status}: obligations {cov['obligations']}/{cov['discharged']} "
              f"discharged, {self.evaluations} cases vs implementation, "
              f"{self.disagreements} disagreements, {len(self.violations)} violations, "
              f"{len(self.known_lines)} known findings, {wall:.1f}s", flush=True)
        return 1 if self.violations else 0


TRUSTED_BASE = [
    "Coq 8.16.1 kernel (coqc); vm_compute for closed examples; no native_compute",
    "extraction: ExtrOcamlBasic only (bool, option, unit, list, prod, sumbool, sumor -> OCaml; "
    "andb/orb inlined); Z, positive, nat stay extracted inductives; no Extract Constant or "
    "Extract Inductive of our own",
    "OCaml 4.13.1 + ocaml/driver.ml (s-expression reader/printer, decimal <-> Z)",
    "hand-written Gallina model of the anchored code, tied to /repo only by the correspondence "
    "run of this check (differential execution on generated inputs)",
    "Python harness: case generators, canonicaliser, RNG spy, gymnasium get_inf shim",
    "numpy/gymnasium/open_spiel taken as the semantics of the implementation",
]


def main_check(modname, prop, tier, seed):
    """Standard check driver."""
    import importlib
    rep = Report(prop, tier, seed)
    ok_proofs, ok_model, log = build_all()
    hits = forbidden_scan()
    pr = check_props(prop)
    pr["checker_cmd"] = (f"make -C coq (coq_makefile, full .vo) && coqc -Q coq Abm "
                         f"coq/Props/P_{prop}.v  # Print Assumptions under every theorem")
    rep.proof = pr
    if hits:
        pr["discharged"] = 0
        rep.notes.append("forbidden construct: " + "; ".join(hits[:5]))
    proofs_ok = pr["ok"] and not hits
    if not ok_model:
        rep.violation({"kind": "model-does-not-build", "log": log[-3000:],
                       "theorem": "extraction of the executable model"}, no_input=True)
        return rep.finish([], "no run", TRUSTED_BASE)
    mod = importlib.import_module(modname)
    rng = random.Random(seed * 1000003 + 17)
    # corpus first
    cdir = os.path.join(VERIF, "corpus", prop)
    corpus = {}
    if os.path.isdir(cdir):
        for fn in sorted(os.listdir(cdir)):
            if fn.endswith(".sx"):
                for ln in open(os.path.join(cdir, fn)):
                    ln = ln.strip()
                    if ln and not ln.startswith("#"):
                        cid, rest = ln.split(" ", 1)
                        corpus.setdefault(int(cid), []).append(sx.loads(rest))
    for comp in mod.COMPONENTS:
        if comp.cid in corpus:
            rep.differential(modname, comp, corpus[comp.cid], parallel=False)
        crng = random.Random(rng.getrandbits(64))
        inputs = list(comp.gen(tier, crng))
        rep.differential(modname, comp, inputs)
    if hasattr(mod, "extra"):
        mod.extra(rep, tier, random.Random(rng.getrandbits(64)))
    if tier == "thorough" and proofs_ok:
        # independent re-check of the property file's .vo closure and its axiom summary
        rc, out = sh(f"timeout 3000 coqchk -silent -o -Q {COQ} Abm Abm.Props.P_{prop}", cwd=COQ,
                     timeout=3100)
        summ = out[out.find("CONTEXT SUMMARY"):] if "CONTEXT SUMMARY" in out else out[-1500:]
        def _field(name):
            m = re.search(r"\* " + name + r":\s*(.*?)\n\s*\n", summ + "\n\n", flags=re.S)
            return " ".join(m.group(1).split()) if m else "?"
        rep.extra_cov["coqchk"] = {"exit": rc, "axioms": _field("Axioms"),
                                   "type_in_type": _field("Constants/Inductives relying on type-in-type"),
                                   "unsafe_fixpoints": _field("Constants/Inductives relying on unsafe \\(co\\)fixpoints"),
                                   "assumed_positivity": _field("Inductives whose positivity is assumed")}
        if rc != 0 or rep.extra_cov["coqchk"]["axioms"] not in ("<none>",):
            ax = rep.extra_cov["coqchk"]["axioms"]
            # kernel primitives (PrimFloat/Uint63) are not axioms of ours; anything else fails closed
            # (PrimFloat.* / PrimInt63.* primitives and the Uint63 specification axioms that come with
            # them; Floats.FloatAxioms would also be standard-library, but is no longer loaded)
            bad = rc != 0 or ax == "?" or any(
                tok and not re.match(r"Coq\.(Floats\.PrimFloat|Numbers\.Cyclic\.Int63\.(PrimInt63|Uint63))\.", tok)
                for tok in ax.replace("<none>", "").split())
            if bad:
                rep.violation({"kind": "proof-obligation-fails", "theorem": "coqchk -o Abm.Props.P_" + prop,
                               "log": summ[:6000]}, no_input=True)
    if not proofs_ok:
        # the proof obligations of this property do not check: report (after the search above)
        found_input = any(not ni for _, ni in rep.violations)
        if not found_input:
            rep.violation({"kind": "proof-obligation-fails",
                           "theorem": pr.get("failed") or "build",
                           "forbidden": hits[:10],
                           "log": pr.get("log", "")[-3000:] + "\n" + log[-2000:]},
                          no_input=True)
    assumptions = getattr(mod, "ASSUMPTIONS", [])
    rule = getattr(mod, "RULE", "")
    return rep.finish(assumptions, rule, TRUSTED_BASE)


def replay(path):
    import importlib
    r = json.load(open(path))
    print(json.dumps({k: r[k] for k in r if k not in ("log",)}, indent=1)[:3000])
    if "module" in r and "input" in r:
        build_all()
        mod = importlib.import_module(r["module"])
        comp = next((c for c in mod.COMPONENTS if c.name == r.get("component")),
                    None) or next(c for c in mod.COMPONENTS if c.cid == r["component_id"])
        rep = Report(r.get("property", "C00"), "quick", 0)
        rs, ms, o = rep._eval_one(r["module"], comp, sx.loads(r["input"]))
        m = run_model(comp.cid, [ms])[0]
        print("model input        :", ms)
        print("implementation now :", o)
        print("model          now :", m)
        if comp.chk is not None:
            a = run_model(comp.chk, [f"({ms} {o})"])[0]
            print("property checker on implementation behaviour:", a, "(1 = holds)")
            return 0 if (a == "1" and o == m) else 1
        return 0 if o == m else 1
    return 0
