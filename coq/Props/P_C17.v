(* C17 — Done components and the smart simulation combine them as documented.
   Only statements; every proof is [exact]/[apply] of a lemma from Proofs/. *)
From Coq Require Import ZArith List Bool Permutation.
From Abm Require Import Base.Sx Grid.Overlap Grid.Amap Grid.Done Grid.Smart
     Proofs.Amap_proofs Proofs.Done_proofs Proofs.Smart_proofs.
Import ListNotations.
Open Scope Z_scope.

(* A population is the list of agents in sim.agents order; an agent is named by its index.
   Target mappings are Python dicts: association lists with pairwise distinct keys whose
   entries name agents of the population (what the setters of done.py enforce). *)
Definition agent_mapping_ok (p : pop) (tm : atmap) : Prop :=
  NoDup (map fst tm) /\
  forall i t, In (i, t) tm -> (i < length p)%nat /\ (t < length p)%nat.

(* no active agent carries one of the encodings t *)
Definition all_inactive (p : pop) (t : list Z) : Prop :=
  forall b, In b p -> a_active b = true -> ~ In (a_enc b) t.

(* ---- the five built-in components -------------------------------------------------------------- *)

(* ActiveDone: an agent is done exactly when it is inactive; the simulation when all are *)
Theorem C17_active_spec : forall p,
    (forall i a, nth_error p i = Some a -> get_done p DActive i = Some (negb (a_active a))) /\
    (get_all_done p DActive = Some true <-> forall a, In a p -> a_active a = false).
Proof. exact C17_active_spec_lemma. Qed.
Print Assumptions C17_active_spec.

(* TargetAgentOverlapDone: done exactly when standing where the own target stands; an agent
   without a target gets KeyError (None); the simulation is done exactly when every mapped agent
   overlaps its target *)
Theorem C17_overlap_spec : forall p tm, agent_mapping_ok p tm ->
    (forall i t a b, In (i, t) tm -> nth_error p i = Some a -> nth_error p t = Some b ->
        (get_done p (DOverlap tm) i = Some true <-> a_pos a = a_pos b) /\
        (get_done p (DOverlap tm) i = Some false <-> a_pos a <> a_pos b)) /\
    (forall i, ~ In i (map fst tm) -> get_done p (DOverlap tm) i = None) /\
    (get_all_done p (DOverlap tm) = Some true <->
       forall i t a b, In (i, t) tm -> nth_error p i = Some a -> nth_error p t = Some b ->
                       a_pos a = a_pos b) /\
    get_all_done p (DOverlap tm) <> None.
Proof. exact C17_overlap_spec_lemma. Qed.
Print Assumptions C17_overlap_spec.

(* TargetAgentInactiveDone: done exactly when the own target is inactive *)
Theorem C17_target_inactive_spec : forall p tm, agent_mapping_ok p tm ->
    (forall i t a b, In (i, t) tm -> nth_error p i = Some a -> nth_error p t = Some b ->
        get_done p (DTgtInactive tm) i = Some (negb (a_active b))) /\
    (forall i, ~ In i (map fst tm) -> get_done p (DTgtInactive tm) i = None) /\
    (get_all_done p (DTgtInactive tm) = Some true <->
       forall i t b, In (i, t) tm -> nth_error p t = Some b -> a_active b = false) /\
    get_all_done p (DTgtInactive tm) <> None.
Proof. exact C17_tgtinactive_spec_lemma. Qed.
Print Assumptions C17_target_inactive_spec.

(* TargetEncodingInactiveDone: an agent is done exactly when its encoding has targets and no
   active agent carries one of them (encoding not in the mapping: never done); the simulation is
   done when this holds for some mapped encoding (sim_ends_if_one_done) or for all of them *)
Theorem C17_encoding_spec : forall p tm one, NoDup (map fst tm) ->
    (forall i a, nth_error p i = Some a ->
       (get_done p (DEncInactive tm one) i = Some true <->
        exists t, In (a_enc a, t) tm /\ all_inactive p (tgt_set t)) /\
       get_done p (DEncInactive tm one) i <> None) /\
    (forall i a, nth_error p i = Some a -> ~ In (a_enc a) (map fst tm) ->
       get_done p (DEncInactive tm one) i = Some false) /\
    (get_all_done p (DEncInactive tm one) = Some true <->
       if one then exists e t, In (e, t) tm /\ all_inactive p (tgt_set t)
       else forall e t, In (e, t) tm -> all_inactive p (tgt_set t)).
Proof. exact C17_encoding_spec_lemma. Qed.
Print Assumptions C17_encoding_spec.

(* OneTeamRemainingDone: agents as ActiveDone; the simulation is done exactly when all active
   agents share one encoding (at most one encoding still active) *)
Theorem C17_one_team_spec : forall p,
    (forall i a, nth_error p i = Some a -> get_done p DOneTeam i = Some (negb (a_active a))) /\
    (get_all_done p DOneTeam = Some true <->
       forall a b, In a p -> In b p -> a_active a = true -> a_active b = true ->
                   a_enc a = a_enc b).
Proof. exact C17_oneteam_spec_lemma. Qed.
Print Assumptions C17_one_team_spec.

(* ---- the smart simulation ------------------------------------------------------------------------ *)

(* get_done = "some done component reports the agent done", whatever the iteration order of the
   component set (stated for agents on which every component is defined) *)
Theorem C17_smart_done_any : forall ds p i,
    (forall d, In d ds -> get_done p d i <> None) ->
    (smart_get_done ds p i = Some true <-> exists d, In d ds /\ get_done p d i = Some true) /\
    (smart_get_done ds p i = Some false <-> forall d, In d ds -> get_done p d i = Some false) /\
    (forall ds', Permutation ds ds' -> smart_get_done ds' p i = smart_get_done ds p i).
Proof. exact smart_done_any_lemma. Qed.
Print Assumptions C17_smart_done_any.

Theorem C17_smart_all_done_any : forall ds p,
    (forall d, In d ds -> get_all_done p d <> None) ->
    (smart_get_all_done ds p = Some true <-> exists d, In d ds /\ get_all_done p d = Some true) /\
    (smart_get_all_done ds p = Some false <-> forall d, In d ds -> get_all_done p d = Some false) /\
    (forall ds', Permutation ds ds' -> smart_get_all_done ds' p = smart_get_all_done ds p).
Proof. exact smart_all_done_any_lemma. Qed.
Print Assumptions C17_smart_all_done_any.

(* get_obs: every key maps to what the last observer providing it returned; when no key is
   provided by two observers the result is the channels appended, and as a finite map it does
   not depend on the order in which the observer set is iterated *)
Definition no_shared_key (outs : list obsdict) : Prop :=
  forall a b k l1 l2 l3, outs = l1 ++ a :: l2 ++ b :: l3 ->
                         In k (map fst a) -> In k (map fst b) -> False.

Theorem C17_smart_obs_merge : forall outs,
    (forall k, am_get Z.eqb (merge_obs outs) k = last_val k (concat outs)) /\
    merge_obs outs = spec_merge outs /\
    (distinct_keys outs = true -> merge_obs outs = concat outs) /\
    (no_shared_key outs -> forall outs' k, Permutation outs outs' ->
       am_get Z.eqb (merge_obs outs') k = am_get Z.eqb (merge_obs outs) k).
Proof.
  intros outs. split; [|split; [|split]].
  - intros k. apply merge_obs_get.
  - apply merge_obs_spec.
  - apply merge_obs_distinct.
  - intros H outs' k HP. apply merge_obs_order_indep; assumption.
Qed.
Print Assumptions C17_smart_obs_merge.

(* reset: the composition of the state components, in any order of the set, is the field-wise
   reset (each field is rewritten by the component owning it, the others are left alone), and is
   refused exactly when PositionState is present and two initial positions conflict *)
Theorem C17_reset_all : forall t ss p,
    reset_all t ss p =
    if has SPos ss && conflict_spec t p then None else Some (upd_dyn (expected_dyn ss) p).
Proof. exact reset_all_spec. Qed.
Print Assumptions C17_reset_all.

Theorem C17_reset_order_indep : forall t ss ss' p,
    Permutation ss ss' -> reset_all t ss' p = reset_all t ss p.
Proof. exact reset_order_indep. Qed.
Print Assumptions C17_reset_order_indep.

Theorem C17_reset_fields : forall t ss p p', reset_all t ss p = Some p' ->
    length p' = length p /\
    forall i st d, nth_error p i = Some (st, d) ->
      exists d', nth_error p' i = Some (st, d') /\
        (has SPos ss = true -> d_pos d' = Some (t_ipos st)) /\
        (has SPos ss = false -> d_pos d' = d_pos d) /\
        (has SHealth ss = true -> d_health d' = clamp (t_ihealth st) /\
                                  d_active d' = (clamp (t_ihealth st) >? 0)) /\
        (has SHealth ss = false -> d_health d' = d_health d /\ d_active d' = d_active d) /\
        (has SAmmo ss = true -> forall a, t_iammo st = Some a -> d_ammo d' = a) /\
        (has SAmmo ss = false -> d_ammo d' = d_ammo d) /\
        (has SOrient ss = true -> forall o, t_iorient st = Some o -> d_orient d' = o) /\
        (has SOrient ss = false -> d_orient d' = d_orient d).
Proof. exact reset_fields. Qed.
Print Assumptions C17_reset_fields.

(* get_reward: after ANY list of operations (resets, steps accruing rewards, reads, done and
   observation queries, in any interleaving, failed ones included) a read by a learning agent
   returns exactly what was accrued to it since its previous read or the last reset
   ([accrued] of the event history), and a second read right after it returns 0 *)
Theorem C17_reward_once : forall c pop ops i,
    let m := model_state c (mkSm pop None) ops in
    let p := fst (spec_state c pop [] ops) in
    let h := snd (spec_state c pop [] ops) in
    was_reset h = true -> is_learner p i = true ->
    snd (do_op c m (OReward i)) = L [A 2; A (accrued h i)] /\
    snd (do_op c (fst (do_op c m (OReward i))) (OReward i)) = L [A 2; A 0].
Proof. exact reward_once_lemma. Qed.
Print Assumptions C17_reward_once.

(* registry: a name resolves to the registered class of that name, a class to itself *)
Theorem C17_registry_lookup : forall custom k x,
    resolve (the_registry custom) k x = spec_resolve custom k x.
Proof. exact resolve_spec. Qed.
Print Assumptions C17_registry_lookup.

(* the executable checkers that are also run on the implementation's answers accept the model's
   behaviour on every input *)
Theorem chk_C17_model : forall p d, chk_C17_done p d (done_behaviour p d) = 1.
Proof. exact chk_C17_done_model_lemma. Qed.
Print Assumptions chk_C17_model.

Theorem chk_C17_smart_model : forall i, chk_C17_smart i (smart_behaviour i) = 1.
Proof. exact chk_C17_smart_model_lemma. Qed.
Print Assumptions chk_C17_smart_model.

(* ---- non-vacuity ------------------------------------------------------------------------------------ *)
(* three agents: encodings 1,2,2; the encoding-2 agents are inactive; agent 0 targets agent 1 and
   stands on it *)
Example C17_nonvacuous :
  let p := [mkAgent 1 true (Some (0, 1)); mkAgent 2 false (Some (0, 1)); mkAgent 2 false None] in
  let tm := [(0%nat, 1%nat); (2%nat, 0%nat)] in
  agent_mapping_ok p tm /\
  get_done p (DOverlap tm) 0 = Some true /\ get_done p (DOverlap tm) 2 = Some false /\
  get_done p (DOverlap tm) 1 = None /\
  get_all_done p (DEncInactive [(1, TInt 2)] true) = Some true /\
  get_all_done p (DEncInactive [(1, TInt 2); (2, TSet [1])] false) = Some false /\
  get_all_done p DOneTeam = Some true /\ get_all_done p DActive = Some false /\
  smart_get_done [DActive; DOverlap tm] p 0 = Some true.
Proof.
  cbn. repeat split; try reflexivity.
  - repeat constructor; cbn; intuition discriminate.
  - destruct H as [H|[H|[]]]; inversion H; subst; cbn; auto.
  - destruct H as [H|[H|[]]]; inversion H; subst; cbn; auto.
Qed.

(* a run: reset, accrue 3 then 4 to agent 0, read (7), read again (0) *)
Example C17_reward_nonvacuous :
  let st := mkT 1 true (0, 0) 512 None None in
  let pop := [(st, mkD false None 0 0 0)] in
  let c := mkCfg [] (Some [SHealth; SPos]) false (Some [DActive]) in
  run_ops c (mkSm pop None)
          [OReset; OStep [mkAct 0 3 true None]; OStep [mkAct 0 4 true None];
           OReward 0; OReward 0; ODone 0] =
  [L [A 0; L [L [A 1; A 1; A 0; A 0; A 512; A 0; A 0]]; L [L [A 0; A 0]]];
   L [A 1]; L [A 1]; L [A 2; A 7]; L [A 2; A 0]; L [A 3; A 0]].
Proof. vm_compute. reflexivity. Qed.
