(* C14 — Super agents faithfully aggregate, mask and filter their covered agents.
   Only statements; proofs are in Proofs/Super_proofs.v.  Every theorem holds for every wrapped
   simulation Sim (any state, observation, info and action types), every mapping, every wrapper
   state / call history; `done_stable Sim` is the purity of get_done under getter effects
   (DESIGN 5.0), `valid_mapping` is what the wrapper's constructor asserts. *)
From Coq Require Import ZArith List Bool.
From Abm Require Import Base.Sx Ctl.Managers Ctl.ScriptSim Ctl.MgrCheck Ctl.Super
     Proofs.Managers_proofs Proofs.Super_proofs.
Import ListNotations.

Section S.
Context {St Obs Info Act : Type}.
Variable Sim : simulation St Obs Info Act.
Variable mapping : list (list nat).
Variable null_obs : nat -> option Obs.
Notation s_done := (sim_done Sim).
Notation s_reward := (sim_reward Sim).
Notation s_obs := (sim_obs Sim).
Notation w_obs := (w_obs Sim mapping null_obs).
Notation w_rew := (w_rew Sim mapping).
Notation w_step := (w_step Sim mapping).
Notation w_call := (w_call Sim mapping null_obs).
Notation w_exec := (w_exec Sim mapping null_obs).
Notation valid := (valid_mapping Sim mapping = true).

(* a super observation always exists (no exception), with one entry and one mask bit per
   covered agent, in cover order *)
Theorem C14_obs_total :
  forall (w : wst St Act) j cv,
    done_stable Sim -> valid -> nth_error mapping j = Some cv ->
    exists ents mask w', w_obs w (WSuper j) = (WSupObs ents mask, w').
Proof. exact (C14_obs_total_l Sim mapping null_obs). Qed.

(* the mask entry of a covered agent is true exactly while it is not done *)
Theorem C14_mask :
  forall (w : wst St Act) j cv ents mask w',
    done_stable Sim -> valid -> nth_error mapping j = Some cv ->
    w_obs w (WSuper j) = (WSupObs ents mask, w') ->
    mask = map (fun c => (c, negb (s_done (w_sim w) c))) cv.
Proof. exact (C14_mask_l Sim mapping null_obs). Qed.

(* one call: the entry of c is its declared null observation when c is done and its final
   observation was already reported (flag), otherwise c's own observation (taken from the
   wrapped get_obs at a state reached by getter effects only); the flag is then set for every
   covered agent that is done; the reward flags are untouched *)
Theorem C14_obs_entry :
  forall (w : wst St Act) j cv ents mask w',
    done_stable Sim -> valid -> nth_error mapping j = Some cv ->
    w_obs w (WSuper j) = (WSupObs ents mask, w') ->
    map fst ents = cv /\
    (forall c o, In (c, o) ents ->
       if s_done (w_sim w) c && memb c (w_orep w)
       then match null_obs c with
            | Some v => o = v
            | None => exists s, greach Sim (w_sim w) s /\ o = fst (s_obs s c)
            end
       else exists s, greach Sim (w_sim w) s /\ o = fst (s_obs s c)) /\
    w_orep w' = w_orep w ++ filter (fun c => s_done (w_sim w) c && negb (memb c (w_orep w))) cv /\
    w_rrep w' = w_rrep w /\
    greach Sim (w_sim w) (w_sim w').
Proof. exact (C14_obs_entry_l Sim mapping null_obs). Qed.

(* what the flag means in a history: c is flagged iff, since the last reset, there was a super
   observation of its super agent at which c was done (or it was flagged at the start and no
   reset happened) *)
Theorem C14_obs_flag_meaning :
  done_stable Sim -> valid -> forall cs (w : wst St Act) c,
    In c (w_orep (w_exec w cs)) <->
    (no_reset cs /\ In c (w_orep w)) \/
    (exists pre j cv post, cs = pre ++ KObs (WSuper j) :: post /\ no_reset post /\
       nth_error mapping j = Some cv /\ In c cv /\ s_done (w_sim (w_exec w pre)) c = true).
Proof. exact (orep_meaning Sim mapping null_obs). Qed.

(* the temporal clause of the property, for every episode (any state w0 before the reset, any
   calls cs after it): own observation while not done and at the first super observation at
   which the agent is done; the declared null observation at every later one at which it is done *)
Theorem C14_obs_history :
  done_stable Sim -> valid ->
  forall (w0 : wst St Act) cs j cv ents mask w' c o,
    no_reset cs -> nth_error mapping j = Some cv ->
    w_obs (w_exec (w_reset Sim w0) cs) (WSuper j) = (WSupObs ents mask, w') -> In (c, o) ents ->
    let w := w_exec (w_reset Sim w0) cs in
    let before := obs_reported_before Sim mapping null_obs (w_reset Sim w0) cs c in
    In c cv /\
    (s_done (w_sim w) c = false -> own_obs Sim (w_sim w) c o) /\
    (s_done (w_sim w) c = true -> ~ before -> own_obs Sim (w_sim w) c o) /\
    (s_done (w_sim w) c = true -> before ->
       match null_obs c with Some v => o = v | None => own_obs Sim (w_sim w) c o end).
Proof. exact (obs_history Sim mapping null_obs). Qed.

(* the super observation is a member of Dict(mask: Dict(c: MultiBinary(1)), c: space of c),
   given that the wrapped simulation's observations and the declared nulls are members *)
Theorem C14_obs_member :
  forall (obs_in : nat -> Obs -> bool) (w : wst St Act) j cv ents mask w',
    done_stable Sim -> valid -> nth_error mapping j = Some cv ->
    (forall s c, In c cv -> obs_in c (fst (s_obs s c)) = true) ->
    (forall c v, In c cv -> null_obs c = Some v -> obs_in c v = true) ->
    w_obs w (WSuper j) = (WSupObs ents mask, w') ->
    sup_member obs_in cv ents mask = true.
Proof. exact (super_obs_member Sim mapping null_obs). Qed.

(* one call: the reward is the sum of the rewards read, in cover order, from exactly those covered
   agents that are not (done and already finally reported); the wrapped simulation sees exactly
   these reads; the flag is then set for every covered agent that is done *)
Theorem C14_reward :
  forall (w : wst St Act) j cv,
    done_stable Sim -> valid -> nth_error mapping j = Some cv ->
    let reads := filter (fun c => negb (s_done (w_sim w) c && memb c (w_rrep w))) cv in
    exists w',
      w_rew w (WSuper j) = (WRew (sumZ (map snd (fst (thread s_reward (w_sim w) reads)))), w') /\
      w_sim w' = snd (thread s_reward (w_sim w) reads) /\
      w_orep w' = w_orep w /\
      w_rrep w' = w_rrep w ++ filter (fun c => s_done (w_sim w) c && negb (memb c (w_rrep w))) cv /\
      w_log w' = w_log w ++ map IRew reads.
Proof. exact (super_rew_spec Sim mapping). Qed.

(* in a history: a covered agent's reward is read unless it is done now and was already done at
   an earlier super reward call of this episode (so: counted once more after it finished, never
   after that) *)
Theorem C14_reward_history :
  done_stable Sim -> valid ->
  forall (w0 : wst St Act) cs j cv,
    no_reset cs -> nth_error mapping j = Some cv ->
    let w := w_exec (w_reset Sim w0) cs in
    exists reads w',
      w_rew w (WSuper j) = (WRew (sumZ (map snd (fst (thread s_reward (w_sim w) reads)))), w') /\
      w_sim w' = snd (thread s_reward (w_sim w) reads) /\
      w_log w' = w_log w ++ map IRew reads /\
      (forall c, In c reads <->
         In c cv /\ ~ (s_done (w_sim w) c = true /\
                       rew_reported_before Sim mapping null_obs (w_reset Sim w0) cs c)).
Proof. exact (rew_history Sim mapping null_obs). Qed.

(* the super agent is done exactly when all its covered agents are done *)
Theorem C14_done_all :
  forall (w : wst St Act) j cv,
    nth_error mapping j = Some cv ->
    w_call w (KDone (WSuper j)) = (WDone (forallb (s_done (w_sim w)) cv), w).
Proof. exact (super_done_spec Sim mapping null_obs). Qed.

(* the wrapped step receives exactly the submitted actions of covered agents that are not done
   and all actions of uncovered agents, values and order unchanged *)
Theorem C14_action_filter :
  forall (w : wst St Act) es,
    supers_ok mapping es = true -> names_cov mapping es = false -> NoDup (entry_keys es) ->
    let acts := flat_map (fun e => match e with
                                   | ESuper _ a => filter (fun kv => negb (s_done (w_sim w) (fst kv))) a
                                   | EPlain a x => [(a, x)]
                                   end) es in
    w_step w es = (WOk, with_sim w (sim_step Sim (w_sim w) acts) [IStep acts]).
Proof. exact (step_filter_spec Sim mapping). Qed.

(* an action dict that names a covered agent is refused and nothing reaches the simulation *)
Theorem C14_covered_rejected :
  forall (w : wst St Act) es,
    supers_ok mapping es = true -> names_cov mapping es = true -> w_step w es = (WReject, w).
Proof. exact (step_reject_spec Sim mapping). Qed.

(* uncovered agents behave as if unwrapped *)
Theorem C14_uncovered_transparent :
  forall (w : wst St Act) a,
    covered mapping a = false ->
    w_call w (KObs (WPlain a))
      = (WPlainObs (fst (s_obs (w_sim w) a)), with_sim w (snd (s_obs (w_sim w) a)) [IObs a]) /\
    w_call w (KRew (WPlain a))
      = (WRew (fst (s_reward (w_sim w) a)), with_sim w (snd (s_reward (w_sim w) a)) [IRew a]) /\
    w_call w (KDone (WPlain a)) = (WDone (s_done (w_sim w) a), w) /\
    w_call w (KInfo (WPlain a)) = (WPlainInfo (sim_info Sim (w_sim w) a), w) /\
    w_call w KAll = (WAll (sim_all Sim (w_sim w)), w).
Proof. exact (plain_transparent Sim mapping null_obs). Qed.

Theorem C14_uncovered_step :
  forall (w : wst St Act) (acts : list (nat * Act)),
    NoDup (map fst acts) -> (forall a, In a (map fst acts) -> covered mapping a = false) ->
    w_step w (map (fun kv => EPlain (fst kv) (snd kv)) acts)
    = (WOk, with_sim w (sim_step Sim (w_sim w) acts) [IStep acts]).
Proof. exact (step_plain_spec Sim mapping). Qed.

(* reset: the wrapped simulation is reset once and both flags are cleared, whatever happened
   before *)
Theorem C14_reset :
  forall (w : wst St Act),
    w_call w KReset = (WOk, {| w_sim := sim_reset Sim (w_sim w); w_orep := []; w_rrep := [];
                              w_log := w_log w ++ [IReset] |}).
Proof. exact (reset_spec Sim mapping null_obs). Qed.
End S.

Print Assumptions C14_obs_total.
Print Assumptions C14_mask.
Print Assumptions C14_obs_entry.
Print Assumptions C14_obs_flag_meaning.
Print Assumptions C14_obs_history.
Print Assumptions C14_obs_member.
Print Assumptions C14_reward.
Print Assumptions C14_reward_history.
Print Assumptions C14_done_all.
Print Assumptions C14_action_filter.
Print Assumptions C14_covered_rejected.
Print Assumptions C14_uncovered_transparent.
Print Assumptions C14_uncovered_step.
Print Assumptions C14_reset.

(* the scripted simulation used by the correspondence run satisfies the purity hypothesis *)
Theorem C14_script_done_stable : forall sc, done_stable (script_sim sc).
Proof. exact script_done_stable. Qed.
Print Assumptions C14_script_done_stable.

(* the executable checker accepts the model's behaviour for every script, mapping (valid or not),
   null declaration and call sequence *)
Theorem chk_C14_model :
  forall sc mapping nulls cs,
    chk_C14 sc mapping nulls cs (fst (super_model sc mapping nulls cs))
            (snd (super_model sc mapping nulls cs)) = 0%Z.
Proof. exact chk_C14_model_thm. Qed.
Print Assumptions chk_C14_model.

(* non-vacuity: three agents, super agent 0 covers agents 2 and 0 (agent 1 uncovered), agent 2
   declares a null observation and is done from step 1 on; the second super observation after
   that step shows the null observation, the second reward call no longer reads agent 2 *)
Definition nv_script : script :=
  {| sc_n := 3; sc_learn := [true; true; true];
     sc_rows := [ {| r_done := [false; false; false]; r_all := false; r_next := [0%nat]; r_acc := [0; 0; 0]%Z |};
                  {| r_done := [false; false; true]; r_all := false; r_next := [0%nat]; r_acc := [1; 2; 4]%Z |} ] |}.
Definition nv_calls : list (wcall Z) :=
  [KReset; KStep [ESuper 0 [(2%nat, 7%Z); (0%nat, 8%Z)]; EPlain 1 9%Z];
   KObs (WSuper 0); KObs (WSuper 0); KRew (WSuper 0); KRew (WSuper 0); KDone (WSuper 0);
   KStep [ESuper 0 [(2%nat, 7%Z); (0%nat, 8%Z)]]].

Example C14_nonvacuous :
  done_stable (script_sim nv_script) /\
  valid_mapping (script_sim nv_script) [[2; 0]%nat] = true /\
  map ri_resp (snd (super_model nv_script [[2; 0]%nat] [None; None; Some 900002%Z] nv_calls))
  = [WOk; WOk;
     WSupObs [(2%nat, 102%Z); (0%nat, 100%Z)] [(2%nat, false); (0%nat, true)];
     WSupObs [(2%nat, 900002%Z); (0%nat, 100%Z)] [(2%nat, false); (0%nat, true)];
     WRew 5; WRew 0; WDone false; WOk] /\
  ri_seg (last (snd (super_model nv_script [[2; 0]%nat] [None; None; Some 900002%Z] nv_calls))
               {| ri_resp := WOk; ri_member := true; ri_seg := [] |})
  = [IStep [(0%nat, 8%Z)]].
Proof. split; [apply script_done_stable|]. vm_compute. repeat split. Qed.
