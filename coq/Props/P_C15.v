(* C15 — Gym and OpenSpiel adapters preserve the episode and let it finish.
   Only statements; proofs are in Proofs/Adapters_proofs.v.

   Reading guide.  Sim is ANY simulation (record `simulation`, Ctl/Managers.v); k is the manager
   kind; `applicable k` = all-step or turn-based (the two the OpenSpiel adapter supports);
   `oreach Sim nact disc k st` = st is a state the adapter can be in: newly built, then used by
   any sequence of reset()/step(action_list) calls with any action lists and any shuffle oracle
   (so every theorem below is about every history, every done schedule, every number of
   episodes).  `done_stable Sim` = reading observations/rewards does not change an agent's done
   status (purity of get_done; needed for the turn-based manager only).  `order Sim` = the
   learning agents in listing order, `m_done` = the manager's done_agents. *)
From Coq Require Import ZArith List Bool Arith.
From Abm Require Import Base.Sx Ctl.Managers Ctl.ScriptSim Ctl.MgrCheck Ctl.Adapters
     Proofs.Managers_proofs Proofs.Adapters_proofs.
Import ListNotations.

(* (1) GymWrapper: over every history of reset()/step(action) calls the adapter answers with the
   single agent's entries of what the manager answers to reset() / step({agent: action}); it
   makes exactly these manager calls and leaves the manager in the same state. *)
Theorem C15_gym_projection :
  forall St Obs Info Act (Sim : simulation St Obs Info Act) k a cs m,
    map fst (fst (gym_run Sim k a m cs))
      = map (fun cr => gym_project a (fst cr) (snd cr))
            (combine cs (fst (run Sim k m (map (gym_to_call a) cs)))) /\
    map snd (fst (gym_run Sim k a m cs))
      = map (fun cr => [cr]) (combine (map (gym_to_call a) cs)
                                       (fst (run Sim k m (map (gym_to_call a) cs)))) /\
    snd (gym_run Sim k a m cs) = snd (run Sim k m (map (gym_to_call a) cs)).
Proof. intros. apply gym_projection. Qed.
Print Assumptions C15_gym_projection.

(* (2) every time step's observations, legal actions, rewards and discounts have exactly one
   entry for every learning agent and for nobody else *)
Theorem C15_all_agents_present :
  forall St Obs Info Act (Sim : simulation St Obs Info Act) nact disc,
    order Sim <> [] ->
    forall k st c ts,
      applicable k -> (k = MTurn -> done_stable Sim) -> oreach Sim nact disc k st ->
      ev_resp (fst (os_call Sim nact disc k st c)) = ATime ts ->
      same_agents (map fst (ts_obs ts)) (order Sim) /\
      same_agents (map fst (ts_legal ts)) (order Sim) /\
      (forall r, ts_rew ts = Some r -> same_agents (map fst r) (order Sim)) /\
      (forall d, ts_disc ts = Some d -> same_agents (map fst d) (order Sim)).
Proof. exact @all_agents_present. Qed.
Print Assumptions C15_all_agents_present.

(* (3) in ANY state, for ANY action list (OpenSpiel keeps sending actions for finished agents),
   with or without the repair of F4: a dict that reaches the manager has no key in done_agents *)
Theorem C15_no_done_action :
  forall St Obs Info Act (Sim : simulation St Obs Info Act) nact disc fixd k
         (st : ostate St) c acts shl r,
    In (CStep acts shl, r) (ev_calls (fst (os_call_gen Sim nact disc fixd k st c))) ->
    forall a, In a (map fst acts) -> ~ In a (m_done (os_m st)).
Proof. exact @no_done_action. Qed.
Print Assumptions C15_no_done_action.

(* (4) LAST exactly when the manager's step reports __all__; FIRST exactly on a reset *)
Theorem C15_last_iff_all :
  forall St Obs Info Act (Sim : simulation St Obs Info Act) nact disc,
    order Sim <> [] ->
    forall k st c ts,
      applicable k -> (k = MTurn -> done_stable Sim) -> oreach Sim nact disc k st ->
      ev_resp (fst (os_call Sim nact disc k st c)) = ATime ts ->
      (ts_type ts = LAST <->
         exists acts sh o, ev_calls (fst (os_call Sim nact disc k st c)) = [(CStep acts sh, ROut o)]
                           /\ o_all o = true) /\
      (ts_type ts = FIRST <->
         exists obs, ev_calls (fst (os_call Sim nact disc k st c)) = [(CReset, RObs obs)]).
Proof. exact @last_iff_all. Qed.
Print Assumptions C15_last_iff_all.

(* (5) _should_reset is set exactly by a LAST time step, and while it is set step(anything) is
   reset(): one manager reset, no manager step, a FIRST time step with every agent present
   (`reset_post`) *)
Theorem C15_reset_after_last :
  forall St Obs Info Act (Sim : simulation St Obs Info Act) nact disc,
    order Sim <> [] ->
    forall k st c,
      applicable k -> (k = MTurn -> done_stable Sim) -> oreach Sim nact disc k st ->
      (forall ts, ev_resp (fst (os_call Sim nact disc k st c)) = ATime ts ->
                  (os_sr (snd (os_call Sim nact disc k st c)) = true <-> ts_type ts = LAST)) /\
      (os_sr st = true -> forall al sh,
          os_step Sim nact disc k st al sh = os_reset Sim nact k st /\
          reset_post Sim nact k st (fst (os_reset Sim nact k st)) (snd (os_reset Sim nact k st))).
Proof. exact @reset_after_last. Qed.
Print Assumptions C15_reset_after_last.

(* (6) turn-based play: the current player named by any time step that is not LAST is a learning
   agent outside done_agents, reported by the manager in that very answer with done = False *)
Theorem C15_current_can_act :
  forall St Obs Info Act (Sim : simulation St Obs Info Act) nact disc,
    order Sim <> [] ->
    forall st c ts,
      done_stable Sim -> oreach Sim nact disc MTurn st ->
      ev_resp (fst (os_call Sim nact disc MTurn st c)) = ATime ts -> ts_type ts <> LAST ->
      let st' := snd (os_call Sim nact disc MTurn st c) in
      os_cur st' = Some (ts_cur ts) /\ In (ts_cur ts) (order Sim) /\
      ~ In (ts_cur ts) (m_done (os_m st')) /\
      ((exists obs, ev_calls (fst (os_call Sim nact disc MTurn st c)) = [(CReset, RObs obs)] /\
                    In (ts_cur ts) (map fst obs)) \/
       (exists acts sh o, ev_calls (fst (os_call Sim nact disc MTurn st c)) = [(CStep acts sh, ROut o)]
                          /\ In (ts_cur ts, false) (o_done o))).
Proof. exact @current_can_act. Qed.
Print Assumptions C15_current_can_act.

(* (7) _take_fake_step is never entered *)
Theorem C15_no_fake_step :
  forall St Obs Info Act (Sim : simulation St Obs Info Act) nact disc,
    order Sim <> [] ->
    forall k st c,
      applicable k -> (k = MTurn -> done_stable Sim) -> oreach Sim nact disc k st ->
      ev_fake (fst (os_call Sim nact disc k st c)) = false.
Proof. exact @no_fake_step. Qed.
Print Assumptions C15_no_fake_step.

(* (8) progress.  A step of a running episode with a well-formed action list (one action in
   turn-based play, one per learning agent otherwise) performs exactly one manager step
   (`stepped`: non-empty dict, accepted, the adapter goes on from the manager's new state, LAST
   iff __all__) ... *)
Theorem C15_progress_step :
  forall St Obs Info Act (Sim : simulation St Obs Info Act) nact disc,
    order Sim <> [] ->
    forall k st al sh,
      applicable k -> (k = MTurn -> done_stable Sim) -> oreach Sim nact disc k st ->
      os_sr st = false -> wf_al Sim k al ->
      stepped Sim nact disc k st al sh (fst (os_step Sim nact disc k st al sh))
              (snd (os_step Sim nact disc k st al sh)).
Proof. exact @progress_step. Qed.
Print Assumptions C15_progress_step.

(* ... hence in a play-through (steps until LAST, `play`) every adapter step is one accepted
   manager step and the play-through ends exactly at the step at which the manager reports
   __all__: the adapter never delays the end of the underlying episode. *)
Theorem C15_progress :
  forall St Obs Info Act (Sim : simulation St Obs Info Act) nact disc,
    order Sim <> [] ->
    forall k als st,
      applicable k -> (k = MTurn -> done_stable Sim) -> oreach Sim nact disc k st ->
      os_sr st = false -> Forall (fun p => wf_al Sim k (fst p)) als ->
      Forall one_manager_step (play Sim nact disc k st als).
Proof. exact @progress_play. Qed.
Print Assumptions C15_progress.

(* the executable checker accepts the model's behaviour on every input *)
Theorem chk_C15_model :
  forall i, owf i -> chk_C15 i (osp_model true i) false = true.
Proof. exact chk_C15_model_lemma. Qed.
Print Assumptions chk_C15_model.

Theorem chk_C15_gym_model :
  forall i, chk_C15_gym i (gym_model i) = true.
Proof. exact chk_C15_gym_model_lemma. Qed.
Print Assumptions chk_C15_gym_model.

(* ---- the code before the repair of F4 (next(iter(obs)) as current player) ---- *)
Theorem C15_current_can_act_refuted :
  exists i, owf i /\ chk_C15 i (osp_model false i) false = false.
Proof. exact current_can_act_refuted. Qed.
Print Assumptions C15_current_can_act_refuted.

(* a live-lock: two agents, a0 finishes by its own first action; from the third step on every
   step is a fake step, no manager step happens any more and LAST never comes, for ever *)
Theorem C15_progress_refuted :
  exists sc nact disc,
    forall n,
      let evs := fst (os_run_gen (script_sim sc) nact disc false MTurn (os_init (ss_init sc))
                                 (OReset :: repeat (OStep [0%Z] None) (2 + n))) in
      length evs = 3 + n /\
      Forall (fun ev => is_last ev = false) evs /\
      Forall (fun ev => ev_fake ev = true /\ ev_calls ev = []) (skipn 3 evs).
Proof. exact progress_refuted. Qed.
Print Assumptions C15_progress_refuted.

(* ---- GymABS (finding F5, property C08): after reset() the cache is a new object's ---- *)
Theorem gymabs_reset_fresh :
  forall E Obs Info Act (G : genv E Obs Info Act) e (c : gcache Obs Info),
    snd (gabs_reset G e c) = snd (gabs_reset G e gabs_fresh).
Proof. exact @gymabs_reset_fresh. Qed.
Print Assumptions gymabs_reset_fresh.

Theorem chk_gymabs_model :
  forall i, chk_gymabs i (gabs_model true i) = true.
Proof. exact chk_gymabs_model_lemma. Qed.
Print Assumptions chk_gymabs_model.

Theorem gymabs_reset_fresh_refuted :
  exists i, chk_gymabs i (gabs_model false i) = false.
Proof. exact Adapters_proofs.gymabs_reset_fresh_refuted. Qed.
Print Assumptions gymabs_reset_fresh_refuted.

(* ---- non-vacuity ---- *)
(* the F4 script is a well-formed input; on it the repaired adapter reaches LAST in three steps
   with a done agent in between, and the checker accepts that play-through *)
Example C15_nonvacuous :
  owf (f4_input 3) /\
  map (@is_last Z Z Z) (osp_model true (f4_input 3)) = [false; false; false; true] /\
  chk_C15 (f4_input 3) (osp_model true (f4_input 3)) false = true /\
  chk_C15 (f4_input 3) (osp_model true (f4_input 3)) true = false.
Proof.
  split; [split; [right; reflexivity|discriminate]|]. vm_compute. repeat split.
Qed.

(* the scripted simulation satisfies the purity hypothesis *)
Example C15_done_stable_nonvacuous : forall sc, done_stable (script_sim sc).
Proof. exact script_done_stable. Qed.

(* a state with _should_reset = false is reachable, so the progress theorems are not vacuous *)
Example C15_reach_nonvacuous :
  let Sim := script_sim f4_script in
  let st := snd (os_call Sim (fun _ => 2) (fun _ => 1%Z) MTurn (os_init (ss_init f4_script)) OReset) in
  oreach Sim (fun _ => 2) (fun _ => 1%Z) MTurn st /\ os_sr st = false /\ wf_al Sim MTurn [0%Z].
Proof.
  cbv zeta. split; [apply or_call, or_init|]. split; [vm_compute; reflexivity|discriminate].
Qed.
