(* C06 — Space-converting wrappers commute with the wrapped simulation.
   Only statements; every proof is [exact]/[apply] of a lemma from Proofs/. *)
From Coq Require Import ZArith List Bool.
From Abm Require Import Base.Sx Spaces.Space Spaces.Ravel Spaces.Flatten Spaces.Excl
     Ctl.Managers Ctl.Wrappers
     Proofs.Ravel_proofs Proofs.Flatten_proofs Proofs.Excl_proofs Proofs.Wrappers_proofs.
Import ListNotations.
Open Scope Z_scope.

(* ---------- simulation wrappers: every simulation, every stack, every state ------------------ *)

(* SARWrapper.step: the inner simulation is stepped with the decoded dictionary *)
Theorem C06_step_commutes :
  forall (St Info : Type) (S : simulation St upoint Info upoint) ks sp st acts,
    sim_step (wrap_stack ks sp S) st acts = sim_step S st (decode_dict ks sp acts).
Proof. intros. apply step_commutes. Qed.

(* SARWrapper.get_obs: the wrapped observation is the encoding of the inner observation, and
   the inner simulation is left in the state its own get_obs leaves it in *)
Theorem C06_obs_commutes :
  forall (St Info : Type) (S : simulation St upoint Info upoint) ks sp st a,
    sim_obs (wrap_stack ks sp S) st a =
    (encode_stack ks sp a (fst (sim_obs S st a)), snd (sim_obs S st a)).
Proof. intros. apply obs_commutes. Qed.

(* reset, rewards, done flags, infos, next_agent are forwarded untouched *)
Theorem C06_passthrough :
  forall (St Info : Type) (S : simulation St upoint Info upoint) ks sp,
    sim_n (wrap_stack ks sp S) = sim_n S /\
    sim_learning (wrap_stack ks sp S) = sim_learning S /\
    sim_reset (wrap_stack ks sp S) = sim_reset S /\
    sim_reward (wrap_stack ks sp S) = sim_reward S /\
    sim_done (wrap_stack ks sp S) = sim_done S /\
    sim_all (wrap_stack ks sp S) = sim_all S /\
    sim_info (wrap_stack ks sp S) = sim_info S /\
    sim_next (wrap_stack ks sp S) = sim_next S.
Proof. intros. apply passthrough. Qed.

(* every action sequence: same final state, and the observation trace is the encoded trace *)
Theorem C06_run_commutes :
  forall (St Info : Type) (S : simulation St upoint Info upoint) ks sp who hs st,
    run_hist (wrap_stack ks sp S) who st hs =
    (map (encode_obs_list ks sp) (fst (run_hist S who st (map (decode_dict ks sp) hs))),
     snd (run_hist S who st (map (decode_dict ks sp) hs))).
Proof. intros. apply run_commutes. Qed.

(* the converted spaces the wrapper's own (deep-copied) agents carry *)
Theorem C06_wrapped_spaces :
  forall x,
    (a_obs (wrap_asp WRavel x) = Discrete (size (a_obs x)) /\
     a_act (wrap_asp WRavel x) = Discrete (size (a_act x))) /\
    (a_obs (wrap_asp WFlatten x) = fbox (flatten_space (a_obs x)) /\
     a_act (wrap_asp WFlatten x) = fbox (flatten_space (a_act x))) /\
    (a_obs (wrap_asp WFlattenAct x) = a_obs x /\
     a_act (wrap_asp WFlattenAct x) = fbox (flatten_space (a_act x))).
Proof. intros. repeat split. Qed.

(* with C04 and C05: whenever the inner observation is a point of the inner observation space, the
   wrapped observation is a point of the wrapped observation space - ravel, flatten, any stack *)
Theorem C06_obs_member :
  forall (St Info : Type) (S : simulation St upoint Info upoint) ks sp st a x0 q,
    wfs sp -> stack_ok ks sp = true -> asp_at sp a = Some x0 ->
    fst (sim_obs S st a) = p2u q -> member (a_obs x0) q = true ->
    exists x q', asp_at (level_spaces ks sp) a = Some x /\
                 fst (sim_obs (wrap_stack ks sp S) st a) = p2u q' /\
                 member (a_obs x) q' = true.
Proof. intros St Info S ks sp st a x0 q. apply obs_member_wrapped. Qed.

(* stepping with the encoding (unwrap_action up the stack) of an inner action q hands q itself,
   up to the numpy kind of integer leaves, to the inner simulation *)
Theorem C06_decode_of_encoding :
  forall ks sp a x0 q,
    wfs sp -> stack_ok ks sp = true -> asp_at sp a = Some x0 -> member (a_act x0) q = true ->
    u2p (a_act x0) (decode_stack ks sp a (reencode_act ks sp a (p2u q))) = Some q.
Proof. exact decode_of_encoding. Qed.

(* ... and exactly q, numpy kinds included, when the inner action space has no float Box *)
Theorem C06_decode_of_encoding_exact :
  forall ks sp a x0 q,
    wfs sp -> stack_ok ks sp = true -> asp_at sp a = Some x0 -> member (a_act x0) q = true ->
    has_float (a_act x0) = false ->
    decode_stack ks sp a (reencode_act ks sp a (p2u q)) = p2u q.
Proof. exact decode_of_encoding_int. Qed.

(* the constructors' check_space accepts exactly the stacks without a ravel level over a float *)
Theorem C06_check_space_spec : forall ks sp, stack_ok_spec ks sp = stack_ok ks sp.
Proof. exact stack_ok_spec_eq. Qed.

(* any non-empty stack of wrappers exposes the innermost simulation; a bare simulation has no
   such attribute *)
Theorem C06_unwrapped_innermost :
  forall (St Info : Type) (S : simulation St upoint Info upoint) k ks,
    unwrapped (mk (k :: ks) S) = Some (Bare S).
Proof. intros. apply unwrapped_innermost. Qed.

(* ---------- actor wrappers: every actor, every stack, every grid state ------------------------ *)
Theorem C06_actor_commutes :
  forall (G Res : Type) (A : actor G Res) ks fs g a u,
    ac_supported A a = true ->
    ac_proc (actor_stack ks fs A) g a u = ac_proc A g a (adecode_stack ks fs a u).
Proof. intros. apply actor_commutes. assumption. Qed.

Theorem C06_actor_unsupported :
  forall (G Res : Type) (A : actor G Res) k ks fs g a u,
    ac_supported A a = false -> ac_proc (actor_stack (k :: ks) fs A) g a u = (None, g).
Proof. intros. apply actor_unsupported. assumption. Qed.

Theorem C06_actor_unwrapped :
  forall (G Res : Type) (A : actor G Res) k ks, aunwrapped (amk (k :: ks) A) = Some (ABare A).
Proof. intros. apply aunwrapped_innermost. Qed.

(* the action handed to the innermost actor is a point of the channel space recorded before
   wrapping, and unwrap_point up the stack gives the submitted integer back *)
Theorem C06_actor_decoded_member :
  forall ks fs a s0 st c,
    awfs fs -> astack_ok ks fs = true -> chan_at fs a = Some s0 ->
    chan_at (alevel ks fs) a = Some st -> member st (PI c) = true ->
    exists p0, adecode_stack ks fs a (UI c false) = p2u p0 /\ member s0 p0 = true /\
               areencode ks fs a (p2u p0) = UI c false.
Proof. exact actor_decoded_member. Qed.

(* ---------- the exclusive-channel encoding ----------------------------------------------------- *)
(* wrap_point is a bijection from [0, size) onto exactly the Dict points that use at most one
   channel, unwrap_point is its inverse *)
Theorem C06_excl_bijection :
  forall ss, wf (Dict ss) = true -> ravel_ok (Dict ss) = true ->
    (forall k, 0 <= k < excl_size (map size ss) ->
       member (Dict ss) (excl_decode ss k) = true /\ one_channel ss (excl_decode ss k) /\
       excl_encode ss (excl_decode ss k) = k) /\
    (forall p, member (Dict ss) p = true -> one_channel ss p ->
       0 <= excl_encode ss p < excl_size (map size ss) /\ excl_decode ss (excl_encode ss p) = p).
Proof.
  intros ss Hw Ho. split.
  - intros k Hk. destruct (excl_decode_ok ss k Hw Ho Hk) as (A & B & C & _). auto.
  - intros p Hm H1. exact (excl_encode_ok ss p Hw Ho Hm H1).
Qed.

(* the size declared by wrap_space is 1 + sum (n_c - 1): the number of such points *)
Theorem C06_excl_size :
  forall ss, excl_space ss = Discrete (fold_left (fun a s => a + (size s - 1)) ss 1).
Proof. exact excl_space_size. Qed.

(* the codes 0, 1, ... decode, in this order, to: the zero vector, then channel after channel
   its non-zero values; the enumeration has exactly excl_size entries *)
Theorem C06_excl_enumerates :
  forall ns, allpos ns = true ->
    map (excl_digits ns) (zrange0 (excl_size ns)) = excl_enum ns /\
    length (excl_enum ns) = Z.to_nat (excl_size ns).
Proof. intros ns H. split; [apply excl_enumerates|apply excl_enum_length]; exact H. Qed.

(* no duplicate zero vectors: only code 0 decodes to the all-zero point; decode is injective *)
Theorem C06_excl_zero_unique :
  forall ns k, allpos ns = true -> 0 <= k < excl_size ns ->
    (excl_digits ns k = repeat 0 (length ns) <-> k = 0).
Proof. exact excl_zero_unique. Qed.

Theorem C06_excl_injective :
  forall ns k1 k2, allpos ns = true -> 0 <= k1 < excl_size ns -> 0 <= k2 < excl_size ns ->
    excl_digits ns k1 = excl_digits ns k2 -> k1 = k2.
Proof. exact excl_digits_injective. Qed.

(* "value 0" of a channel is the channel's null point unravel(0) *)
Theorem C06_excl_unused_channel :
  forall s p, wf s = true -> ravel_ok s = true -> member s p = true ->
    (ravel s p = 0 <-> p = unravel s 0).
Proof. exact ravel_zero_iff. Qed.

(* ---------- the executable checkers accept the model's behaviour ------------------------------ *)
Theorem chk_C06_model :
  forall i, twin_good i ->
    chk_twin i (1, 1, 1) (level_spaces (t_ks i) (t_sp i)) (twin_decoded i) (twin_encoded i) = 1.
Proof. exact chk_twin_model. Qed.

Theorem chk_C06_actor_model :
  forall i, actor_good i ->
    chk_actor i 1 (map chan_size (alevel (ai_ks i) (ai_fs i))) (actor_results i) = 1.
Proof. exact chk_actor_model. Qed.

Theorem chk_C06_excl_model :
  forall ss whole ks,
    wf (Dict ss) = true -> ravel_ok (Dict ss) = true ->
    (forall k, In k ks -> 0 <= k < excl_size (map size ss)) ->
    (whole = true -> ks = zrange0 (excl_size (map size ss))) ->
    chk_excl ss whole ks (fst (excl_behaviour ss ks)) (snd (excl_behaviour ss ks)) = 1.
Proof. exact chk_excl_model. Qed.

(* ---------- finding C06-null-truthiness: the constructors before the repair ------------------
   [run_twin_prefix] models the constructors that test the truth value of the null point.  On a
   grid-like agent (null observation = an array inside a Dict) a second wrapper cannot be stacked:
   the first FlattenWrapper stores the flattened null observation, an array of two elements, whose
   truth value the second constructor asks for -> ValueError.  The checker refuses that behaviour
   (clause 1) and accepts the repaired model's. *)
Definition refute_input : sx :=
  L [A 0;
     L [L [A 1; L [A 6; L [A 3; L [A (-2); A 3]; L [A (-2); A 3]]]; L [A 0; A 2];
           L [L [A 3; L [A 1; A 0; A (-2); A (-2)]]]; L []]];
     L [A 1; A 1]; L []; L []].

Theorem C06_null_truthiness_refuted :
  exists x, run_chk_twin (L [x; run_twin x]) = A 1 /\
            run_twin_prefix x = L [A 2] /\
            run_chk_twin (L [x; run_twin_prefix x]) = A (-1).
Proof. exists refute_input. vm_compute. repeat split. Qed.

(* ---------- non-vacuity ---------------------------------------------------------------------- *)
(* Ravel over Flatten over an agent with nested Dict/Tuple spaces *)
Example C06_nonvacuous :
  let x := {| a_obs := Dict [Discrete 3; Tuple [MultiDiscrete [2; 2]; BoxI [(-1, 1)]]];
              a_act := Dict [BoxI [(-1, 1); (-1, 1)]; Discrete 2];
              a_nobs := None; a_nact := Some (UT [UV [0; 0] false; UI 0 false]) |} in
  let sp := [Some x; None] in
  let ks := [WRavel; WFlatten] in
  let i := {| t_sp := sp; t_ks := ks;
              t_steps := [[(0%nat, UI 11 false)]; [(0%nat, UI 0 false)]];
              t_obs := [[(0%nat, p2u (PT [PI 2; PT [PV [1; 0]; PV [-1]]]))]] |} in
  stack_ok ks sp = true /\
  asp_at (level_spaces ks sp) 0 = Some {| a_obs := Discrete 36; a_act := Discrete 18;
                                          a_nobs := None; a_nact := Some (UI 8 false) |} /\
  decode_stack ks sp 0 (UI 11 false) = UT [UV [0; 1] false; UI 1 false] /\
  encode_stack ks sp 0 (p2u (PT [PI 2; PT [PV [1; 0]; PV [-1]]])) = UI 30 false /\
  chk_twin i (1, 1, 1) (level_spaces ks sp) (twin_decoded i) (twin_encoded i) = 1 /\
  stack_ok [WRavel] [Some {| a_obs := BoxF [(0, 1024)]; a_act := Discrete 2;
                             a_nobs := None; a_nact := None |}] = false.
Proof. vm_compute. repeat split. Qed.

(* an exclusive wrapper on a Dict channel {Discrete 3, MultiDiscrete [2;2], Discrete 1} *)
Example C06_excl_nonvacuous :
  let ss := [Discrete 3; MultiDiscrete [2; 2]; Discrete 1] in
  wf (Dict ss) = true /\ ravel_ok (Dict ss) = true /\ excl_size (map size ss) = 6 /\
  map (excl_decode ss) (zrange0 6) =
    [PT [PI 0; PV [0; 0]; PI 0]; PT [PI 1; PV [0; 0]; PI 0]; PT [PI 2; PV [0; 0]; PI 0];
     PT [PI 0; PV [0; 1]; PI 0]; PT [PI 0; PV [1; 0]; PI 0]; PT [PI 0; PV [1; 1]; PI 0]] /\
  chk_excl ss true (zrange0 6) (fst (excl_behaviour ss (zrange0 6)))
           (snd (excl_behaviour ss (zrange0 6))) = 1 /\
  adecode_stack [ARavel; AExcl] [Some (Dict ss)] 0 (UI 4 false) = UT [UI 0 false; UV [1; 0] false; UI 0 false].
Proof. vm_compute. repeat split. Qed.

Print Assumptions C06_step_commutes.
Print Assumptions C06_obs_commutes.
Print Assumptions C06_passthrough.
Print Assumptions C06_run_commutes.
Print Assumptions C06_wrapped_spaces.
Print Assumptions C06_obs_member.
Print Assumptions C06_decode_of_encoding.
Print Assumptions C06_decode_of_encoding_exact.
Print Assumptions C06_check_space_spec.
Print Assumptions C06_unwrapped_innermost.
Print Assumptions C06_actor_commutes.
Print Assumptions C06_actor_unsupported.
Print Assumptions C06_actor_unwrapped.
Print Assumptions C06_actor_decoded_member.
Print Assumptions C06_excl_bijection.
Print Assumptions C06_excl_size.
Print Assumptions C06_excl_enumerates.
Print Assumptions C06_excl_zero_unique.
Print Assumptions C06_excl_injective.
Print Assumptions C06_excl_unused_channel.
Print Assumptions chk_C06_model.
Print Assumptions chk_C06_actor_model.
Print Assumptions chk_C06_excl_model.
Print Assumptions C06_null_truthiness_refuted.
