(* C13 — Reset places every agent legally and as the placement options prescribe.
   Only statements; every proof is [exact] of a lemma from Proofs/.

   Vocabulary (Grid/Place.v): a configuration `cfg` (state class, grid size, raw overlap table,
   agents = encoding + optional initial position, the four options, target, barrier / free
   encodings); `order` = key order of the component's agents dict before the reset (re-ordered for
   good by random.shuffle); `d` = the random draws of this reset (shuffle result, start cell,
   chosen maze cells, chosen placement cells).  `reset cfg order d` = (new key order, maze, result);
   `outcome_of` = what is observable: kind (ROk | RReject = AssertionError | RRuntime =
   RuntimeError | RBad = a draw outside its candidate set), the trace of successful Grid.place
   calls `o_log` (agent, cell), the cell contents, the positions, the maze, the key order.
   Every theorem holds for every grid size, agent list, overlap table, option combination, key
   order (hence after any number of earlier resets) and every draw; the only hypothesis on draws
   is the contract of the random functions (kind <> RBad). *)
From Coq Require Import ZArith List Bool.
From Abm Require Import Base.Sx Grid.Overlap Grid.Maze Grid.Place
                        Proofs.Maze_proofs Proofs.Place_proofs.
Import ListNotations.
Open Scope Z_scope.

(* the symmetric closure computed by the Grid.overlapping setter is symmetric (used below) *)
Theorem C13_overlap_symmetric :
  forall t a b, NoDup (map fst t) ->
    ov_allowed (ov_symmetrise t) a b = ov_allowed (ov_symmetrise t) b a.
Proof. exact ov_symmetrise_sym. Qed.
Print Assumptions C13_overlap_symmetric.

(* availability bookkeeping, one placement: if every list equals "its initial cells minus the
   cells blocked by the placements so far", it still does after Grid.place +
   _update_available_positions *)
Theorem C13_avail_invariant_step :
  forall cfg B s a p, B_nodup B -> av_inv cfg B s ->
    av_inv cfg B (mkPs (ps_log s ++ [(a, p)])
                       (update_available cfg (ps_avail s) (enc cfg a) p)).
Proof. exact av_inv_step. Qed.
Print Assumptions C13_avail_invariant_step.

(* ... and therefore at the end of every reset (or at the point where it failed): avail[e] holds
   exactly the cells an agent of encoding e may use (all cells / wall cells / passage cells)
   that hold no agent which may not overlap e (no agent at all under no_overlap_at_reset) *)
Theorem C13_avail_invariant :
  forall cfg order d, wf_config cfg = true -> order_ok cfg order ->
    res_kind (snd (reset cfg order d)) <> RBad ->
    forall e l, av_get e (ps_avail (res_state (snd (reset cfg order d)))) = Some l ->
    forall k, In k l <->
              In k (spec_avail cfg (snd (fst (reset cfg order d)))
                               (ps_log (res_state (snd (reset cfg order d)))) e).
Proof. exact model_avail. Qed.
Print Assumptions C13_avail_invariant.

(* a successful reset is legal: cells inside the grid; initial positions (and the target's start
   cell) honoured; co-occupants may overlap each other; under no_overlap_at_reset freely placed
   agents are alone; grid = positions = the placements; every agent placed exactly once *)
Theorem C13_legal :
  forall cfg order d, wf_config cfg = true -> order_ok cfg order ->
    o_kind (outcome_of cfg (reset cfg order d)) = ROk ->
    legal cfg d (outcome_of cfg (reset cfg order d)).
Proof. exact model_legal. Qed.
Print Assumptions C13_legal.

(* the same for whatever a failing reset had placed before it failed: never an illegal grid *)
Theorem C13_legal_partial :
  forall cfg order d, wf_config cfg = true -> order_ok cfg order ->
    o_kind (outcome_of cfg (reset cfg order d)) <> RBad ->
    covered cfg (outcome_of cfg (reset cfg order d)) = true ->
    legal cfg d (outcome_of cfg (reset cfg order d)).
Proof. exact model_legal_partial. Qed.
Print Assumptions C13_legal_partial.

(* every agent is in exactly one cell, inside the grid, and that cell is its position *)
Theorem C13_positions :
  forall cfg order d, wf_config cfg = true -> order_ok cfg order ->
    let o := outcome_of cfg (reset cfg order d) in
    o_kind o = ROk ->
    forall a, (a < length (c_agents cfg))%nat ->
    exists p, In (a, p) (o_log o)
      /\ (forall p', In (a, p') (o_log o) -> p' = p)
      /\ in_grid cfg p = true
      /\ nth a (o_pos o) (-1, -1) = p
      /\ (forall k, 0 <= k < ncells cfg ->
            (In a (nth (Z.to_nat k) (o_cells o) []) <-> k = ravel cfg p)).
Proof. exact model_positions. Qed.
Print Assumptions C13_positions.

(* MazePlacementState: freely placed barrier-encoded agents stand on wall cells, free-encoded
   ones on passage cells of the generated maze *)
Theorem C13_partition :
  forall cfg order d m, wf_config cfg = true -> order_ok cfg order ->
    c_kind cfg = KMaze ->
    o_kind (outcome_of cfg (reset cfg order d)) = ROk ->
    o_maze (outcome_of cfg (reset cfg order d)) = Some m ->
    forall a p, In (a, p) (o_log (outcome_of cfg (reset cfg order d))) ->
      prescribed cfg (spec_start cfg d) a = None ->
      (memZ (enc cfg a) (c_barrier cfg) = true -> gget m p = 1)
      /\ (memZ (enc cfg a) (c_free cfg) = true -> gget m p = 0).
Proof. exact model_partition. Qed.
Print Assumptions C13_partition.

(* generate_maze: for every size, start and sequence of chosen cells, the start is a passage and
   every passage is 4-connected to it through passages *)
Theorem C13_maze_connected :
  forall rows cols start ch m, 0 < rows -> 0 < cols ->
    0 <= fst start < rows -> 0 <= snd start < cols ->
    generate_maze rows cols start ch = MOk m ->
    gget m start = 0 /\ (forall p, gget m p = 0 -> conn m start p).
Proof. exact generate_maze_connected. Qed.
Print Assumptions C13_maze_connected.

(* the loop of generate_maze always ends within the stated fuel (rows+2)(cols+2) *)
Theorem C13_maze_terminates :
  forall rows cols start ch, 0 < rows -> 0 < cols -> generate_maze rows cols start ch <> MFuel.
Proof. exact generate_maze_terminates. Qed.
Print Assumptions C13_maze_terminates.

(* the maze used by a MazePlacementState reset: grid-shaped, 0/1, start = the target's cell is a
   passage, all passages connected to it *)
Theorem C13_maze_of_reset :
  forall cfg order d, wf_config cfg = true -> order_ok cfg order ->
    c_kind cfg = KMaze ->
    o_kind (outcome_of cfg (reset cfg order d)) <> RBad ->
    covered cfg (outcome_of cfg (reset cfg order d)) = true ->
    exists m st, o_maze (outcome_of cfg (reset cfg order d)) = Some m
      /\ spec_start cfg d = Some st
      /\ maze_shape_b m (c_rows cfg) (c_cols cfg) = true
      /\ gget m st = 0 /\ (forall p, gget m p = 0 -> conn m st p).
Proof. exact model_maze. Qed.
Print Assumptions C13_maze_of_reset.

(* a freely placed agent gets a cell that was available to it at that moment (pre = the
   placements before it); with cluster_barriers a barrier's cell has minimal distance to the
   target among those cells, with scatter_free_agents a free agent's cell maximal distance *)
Theorem C13_cluster_scatter :
  forall cfg order d, wf_config cfg = true -> order_ok cfg order ->
    o_kind (outcome_of cfg (reset cfg order d)) <> RBad ->
    forall pre a p post st,
      o_log (outcome_of cfg (reset cfg order d)) = pre ++ (a, p) :: post ->
      prescribed cfg (spec_start cfg d) a = None -> spec_start cfg d = Some st ->
      let av := spec_avail cfg (o_maze (outcome_of cfg (reset cfg order d))) pre (enc cfg a) in
      In (ravel cfg p) av
      /\ (clustered cfg (enc cfg a) = true ->
          forall k, In k av -> dist2 cfg st (ravel cfg p) <= dist2 cfg st k)
      /\ (scattered cfg (enc cfg a) = true ->
          forall k, In k av -> dist2 cfg st k <= dist2 cfg st (ravel cfg p)).
Proof. exact model_cluster. Qed.
Print Assumptions C13_cluster_scatter.

(* explicit errors, exactly: the agents placed are a prefix of the handling order; success iff
   everybody was placed (and then the placement is legal); RuntimeError only when the next agent
   is freely placed and no cell is available to it; AssertionError only when an encoding is
   neither barrier nor free, or the next agent's prescribed cell refuses it; nothing else *)
Theorem C13_explicit_error :
  forall cfg order d, wf_config cfg = true -> order_ok cfg order ->
    let o := outcome_of cfg (reset cfg order d) in
    let sq := seq_of cfg (o_order o) in
    o_kind o <> RBad ->
    (o_kind o = ROk \/ o_kind o = RReject \/ o_kind o = RRuntime)
    /\ map fst (o_log o) = firstn (length (o_log o)) sq
    /\ (o_kind o = ROk -> map fst (o_log o) = sq /\ legal cfg d o)
    /\ (o_kind o = RRuntime ->
        exists a, nth_error sq (length (o_log o)) = Some a
                  /\ prescribed cfg (spec_start cfg d) a = None
                  /\ spec_avail cfg (o_maze o) (o_log o) (enc cfg a) = [])
    /\ (o_kind o = RReject ->
        (covered cfg o = false /\ o_log o = [])
        \/ exists a q, nth_error sq (length (o_log o)) = Some a
                       /\ prescribed cfg (spec_start cfg d) a = Some q
                       /\ grid_query cfg (o_log o) a q = false).
Proof. exact model_error. Qed.
Print Assumptions C13_explicit_error.

(* repeated resets: the key order stays a permutation of the agents, so all of the above applies
   to every later reset on the same object *)
Theorem C13_order_preserved :
  forall cfg order d, wf_config cfg = true -> order_ok cfg order ->
    o_kind (outcome_of cfg (reset cfg order d)) <> RBad ->
    chk_reset cfg order d (outcome_of cfg (reset cfg order d)) = true
    /\ order_ok cfg (o_order (outcome_of cfg (reset cfg order d))).
Proof. exact model_chk. Qed.
Print Assumptions C13_order_preserved.

(* the executable checker means what it should: ANY reported outcome it accepts is legal *)
Theorem C13_chk_sound :
  forall cfg order d o, wf_config cfg = true -> order_ok cfg order ->
    chk_reset cfg order d o = true -> covered cfg o = true -> legal cfg d o.
Proof. exact chk_sound_legal. Qed.
Print Assumptions C13_chk_sound.

(* the connectivity decision used by the checker is exact *)
Theorem C13_chk_connected_exact :
  forall m rows cols start, 0 < rows -> 0 < cols ->
    0 <= fst start < rows -> 0 <= snd start < cols ->
    maze_shape_b m rows cols = true ->
    (maze_connected_b m rows cols start = true <->
     gget m start = 0 /\ (forall p, gget m p = 0 -> conn m start p)).
Proof. exact maze_connected_b_exact. Qed.
Print Assumptions C13_chk_connected_exact.

(* the checker accepts the model's behaviour on every well-formed input, over any number of
   resets on the same object, for all draws satisfying their contracts *)
Theorem chk_C13_model :
  forall cfg ds order, wf_config cfg = true -> order_ok cfg order ->
    admissible (run_resets cfg order ds) ->
    chk_C13 cfg order ds (run_resets cfg order ds) = true.
Proof. exact Place_proofs.chk_C13_model. Qed.
Print Assumptions chk_C13_model.

(* ---- non-vacuity: concrete inputs meeting the hypotheses ---- *)
Definition ex_cfg : config :=
  mkConfig KMaze 3 3 [(1, [2])]
           [mkAgent 1 (Some (1, 1)); mkAgent 2 None; mkAgent 2 None; mkAgent 1 None]
           true true true true 0%nat [2] [1].
Definition ex_draws : draws :=
  mkDraws [2; 0; 1; 3]%nat None
          [(1, 2); (2, 1); (3, 2); (3, 3); (1, 3); (1, 1); (2, 3); (3, 1)] [-1; -1; -1; -1].

(* a maze reset with shuffled order, clustering and scattering that succeeds: target on its cell,
   barriers (encoding 2) on the walls nearest to it, the free agent on the farthest passage *)
Example C13_nonvacuous :
  wf_config ex_cfg = true /\ order_okb ex_cfg [0; 1; 2; 3]%nat = true
  /\ (let o := outcome_of ex_cfg (reset ex_cfg [0; 1; 2; 3]%nat ex_draws) in
      o_kind o = ROk
      /\ o_log o = [(0%nat, (1, 1)); (2%nat, (1, 2)); (1%nat, (2, 0)); (3%nat, (2, 2))]
      /\ o_maze o = Some [[1; 0; 0]; [0; 0; 1]; [1; 0; 0]]
      /\ chk_reset ex_cfg [0; 1; 2; 3]%nat ex_draws o = true).
Proof. vm_compute. repeat split. Qed.

(* beyond capacity: two agents, one cell, no overlap -> RuntimeError after the first placement *)
Example C13_nonvacuous_runtime :
  let cfg := mkConfig KPlain 1 1 [] [mkAgent 1 None; mkAgent 1 None]
                      false false false false 0%nat [] [] in
  let o := outcome_of cfg (reset cfg [0; 1]%nat (mkDraws [] None [] [0; -1])) in
  wf_config cfg = true /\ o_kind o = RRuntime /\ o_log o = [(0%nat, (0, 0))].
Proof. vm_compute. repeat split. Qed.

(* two fixed agents on one cell that may not overlap -> AssertionError *)
Example C13_nonvacuous_reject :
  let cfg := mkConfig KPlain 2 2 [(1, [2])] [mkAgent 1 (Some (1, 0)); mkAgent 1 (Some (1, 0))]
                      false false false false 0%nat [] [] in
  let o := outcome_of cfg (reset cfg [0; 1]%nat (mkDraws [] None [] [-1; -1])) in
  wf_config cfg = true /\ o_kind o = RReject /\ o_log o = [(0%nat, (1, 0))].
Proof. vm_compute. repeat split. Qed.
