(* C16 — Episode generation never acts for finished agents and records aligned data.
   Only statements; proofs are in Proofs/Trainer_proofs.v.

   Reading guide.  Sim is ANY simulation, the policies are ANY stateful oracle
   `pol_act : PS -> policy id -> Obs -> Act * PS` with any agent->policy mapping `pmap`, `shuf` is
   any shuffle oracle of the all-step manager, h is ANY horizon, m is ANY manager state
   (generate_episode resets it), k the manager kind.  `er_iters` is the list of loop
   iterations: the policy queries made, the dict sent, the manager's answer.
   `tk k` = all-step, turn-based or dynamic-order manager; `sim_ok Sim k` = the simulation's
   side of the contract: get_done is not changed by reading observations/rewards (turn-based and
   dynamic-order), nominations are duplicate-free lists of agents (dynamic-order), at least
   one learning agent (turn-based). *)
From Coq Require Import ZArith List Bool Arith.
From Abm Require Import Base.Sx Ctl.Managers Ctl.ScriptSim Ctl.MgrCheck Ctl.Adapters Ctl.Trainer
     Proofs.Managers_proofs Proofs.Adapters_proofs Proofs.Trainer_proofs.
Import ListNotations.

(* (1) in every iteration the policies are asked for exactly the agents of the latest output
   (the reset observations at first, nobody flagged) that are not flagged done there, each with
   its own latest observation, in that order (`queries_spec`) — for every manager whatsoever *)
Theorem C16_queries_live_only :
  forall St Obs Info Act PS (Sim : simulation St Obs Info Act) pmap
         (pol_act : PS -> nat -> Obs -> Act * PS) pol_reset shuf h k m ps obs,
    er_reset (generate_episode Sim pmap pol_act pol_reset shuf h k m ps) = RObs obs ->
    queries_spec obs [] (er_iters (generate_episode Sim pmap pol_act pol_reset shuf h k m ps)).
Proof. exact @queries_live_only. Qed.
Print Assumptions C16_queries_live_only.

(* (2) the dict sent to the manager is exactly the answers to this iteration's queries, and each
   query went to the policy the agent is mapped to *)
Theorem C16_sends_exactly_those :
  forall St Obs Info Act PS (Sim : simulation St Obs Info Act) pmap
         (pol_act : PS -> nat -> Obs -> Act * PS) pol_reset shuf h k m ps obs,
    er_reset (generate_episode Sim pmap pol_act pol_reset shuf h k m ps) = RObs obs ->
    Forall (fun it => it_sent it = answers it /\
                      Forall (fun q => q_pid q = pmap (q_agent q)) (it_q it))
           (er_iters (generate_episode Sim pmap pol_act pol_reset shuf h k m ps)).
Proof. exact @sends_exactly_those. Qed.
Print Assumptions C16_sends_exactly_those.

(* (3) the number of manager steps is min(horizon, index of the first __all__): never more than
   the horizon, no step after an answer with __all__, and stopping before the horizon only
   after __all__ *)
Theorem C16_stops :
  forall St Obs Info Act PS (Sim : simulation St Obs Info Act) pmap
         (pol_act : PS -> nat -> Obs -> Act * PS) pol_reset shuf h k m ps obs,
    let r := generate_episode Sim pmap pol_act pol_reset shuf h k m ps in
    er_reset r = RObs obs ->
    length (er_iters r) <= h /\
    Forall (fun it => exists o, it_resp it = ROut o /\ o_all o = false) (removelast (er_iters r)) /\
    (er_status r = EOk -> length (er_iters r) = h \/ last_all (er_iters r)).
Proof. exact @stops. Qed.
Print Assumptions C16_stops.

(* with any of the three managers no exception escapes: every dict the trainer sends is
   accepted (it never acts for a finished agent) and the four dicts are returned *)
Theorem C16_never_fails :
  forall St Obs Info Act PS (Sim : simulation St Obs Info Act) pmap
         (pol_act : PS -> nat -> Obs -> Act * PS) pol_reset shuf h k m ps,
    tk k -> sim_ok Sim k ->
    er_status (generate_episode Sim pmap pol_act pol_reset shuf h k m ps) = EOk /\
    exists obs, er_reset (generate_episode Sim pmap pol_act pol_reset shuf h k m ps) = RObs obs.
Proof. exact @never_fails. Qed.
Print Assumptions C16_never_fails.

(* (4) the returned records are, per agent, exactly the subsequences of what occurred, in order *)
Theorem C16_records_aligned :
  forall St Obs Info Act PS (Sim : simulation St Obs Info Act) pmap
         (pol_act : PS -> nat -> Obs -> Act * PS) pol_reset shuf h k m ps obs,
    let r := generate_episode Sim pmap pol_act pol_reset shuf h k m ps in
    er_reset r = RObs obs -> er_status r = EOk ->
    (forall a,
       rec_get a (ep_obs (er_ep r)) = occ a obs ++ flat_map (fun o => occ a (o_obs o)) (outs_of' (er_iters r)) /\
       rec_get a (ep_act (er_ep r)) = flat_map (fun it => occ a (it_sent it)) (er_iters r) /\
       rec_get a (ep_rew (er_ep r)) = flat_map (fun o => occ a (o_rew o)) (outs_of' (er_iters r)) /\
       rec_get a (ep_done (er_ep r)) = flat_map (fun o => occ a (o_done o)) (outs_of' (er_iters r))) /\
    ep_all (er_ep r) = map o_all (outs_of' (er_iters r)).
Proof. exact @records_aligned. Qed.
Print Assumptions C16_records_aligned.

(* ... and, with any of the three managers: |actions| <= |observations| <= |actions| + 1 and
   |rewards| = |dones| for every agent *)
Theorem C16_records_lengths :
  forall St Obs Info Act PS (Sim : simulation St Obs Info Act) pmap
         (pol_act : PS -> nat -> Obs -> Act * PS) pol_reset shuf h k m ps,
    tk k -> sim_ok Sim k ->
    let ep := er_ep (generate_episode Sim pmap pol_act pol_reset shuf h k m ps) in
    forall a,
      length (rec_get a (ep_act ep)) <= length (rec_get a (ep_obs ep))
        <= S (length (rec_get a (ep_act ep))) /\
      length (rec_get a (ep_rew ep)) = length (rec_get a (ep_done ep)).
Proof. exact @records_lengths. Qed.
Print Assumptions C16_records_lengths.

(* (5) at most one true done flag per agent, and it is the agent's last record *)
Theorem C16_one_done :
  forall St Obs Info Act PS (Sim : simulation St Obs Info Act) pmap
         (pol_act : PS -> nat -> Obs -> Act * PS) pol_reset shuf h k m ps,
    tk k -> sim_ok Sim k ->
    forall a, Forall (eq false)
                (removelast (rec_get a (ep_done (er_ep
                   (generate_episode Sim pmap pol_act pol_reset shuf h k m ps))))).
Proof. exact @one_done. Qed.
Print Assumptions C16_one_done.

(* (6) if the constructor's alignment check passes, every observation handed to a policy comes
   from an agent mapped to that policy, and for a learning agent the policy's observation and
   action spaces are the agent's ... *)
Theorem C16_policy_spaces :
  forall St Obs Info Act PS (Sim : simulation St Obs Info Act) pmap
         (pol_act : PS -> nat -> Obs -> Act * PS) pol_reset shuf npol
         a_obs_sp a_act_sp p_obs_sp p_act_sp h k m ps,
    check_alignment Sim pmap npol a_obs_sp a_act_sp p_obs_sp p_act_sp = AlOk ->
    Forall (fun it => Forall (fun q =>
        q_pid q = pmap (q_agent q) /\
        (In (q_agent q) (order Sim) ->
         q_pid q < npol /\ a_obs_sp (q_agent q) = p_obs_sp (q_pid q) /\
         a_act_sp (q_agent q) = p_act_sp (q_pid q))) (it_q it))
      (er_iters (generate_episode Sim pmap pol_act pol_reset shuf h k m ps)).
Proof. exact @policy_spaces. Qed.
Print Assumptions C16_policy_spaces.

(* ... and with the all-step and turn-based managers only learning agents are ever asked *)
Theorem C16_asks_learning_agents :
  forall St Obs Info Act PS (Sim : simulation St Obs Info Act) pmap
         (pol_act : PS -> nat -> Obs -> Act * PS) pol_reset shuf h k m ps,
    k = MAll \/ k = MTurn -> sim_ok Sim k ->
    Forall (fun it => Forall (fun q => In (q_agent q) (order Sim)) (it_q it))
           (er_iters (generate_episode Sim pmap pol_act pol_reset shuf h k m ps)).
Proof. exact @asks_learning_agents. Qed.
Print Assumptions C16_asks_learning_agents.

(* the executable checker accepts the model's behaviour on every well-formed input *)
Theorem chk_C16_model :
  forall i, twf i -> chk_C16 i (trainer_model i) = true.
Proof. exact chk_C16_model_lemma. Qed.
Print Assumptions chk_C16_model.

(* ---- non-vacuity ---- *)
(* three agents under the turn-based manager, a0 finishes by its own first action while the
   episode goes on, the simulation ends at step 4; horizon 8; two policies *)
Definition c16_script : script :=
  {| sc_n := 3; sc_learn := [true; true; true];
     sc_rows := [ {| r_done := [false; false; false]; r_all := false; r_next := [0]; r_acc := [0; 0; 0]%Z |};
                  {| r_done := [true; false; false]; r_all := false; r_next := [1]; r_acc := [1; 2; 3]%Z |};
                  {| r_done := [true; false; false]; r_all := false; r_next := [2]; r_acc := [1; 2; 3]%Z |};
                  {| r_done := [true; true; false]; r_all := false; r_next := [2]; r_acc := [1; 2; 3]%Z |};
                  {| r_done := [true; true; false]; r_all := true; r_next := [2]; r_acc := [1; 2; 3]%Z |} ] |}.

Definition c16_input (k : mgr) (h : nat) : tinput :=
  {| ti_k := k; ti_sc := c16_script; ti_h := h; ti_pmap := [0; 1; 0];
     ti_asp := [(1, 2); (3, 4); (1, 2)]%Z; ti_psp := [(1, 2); (3, 4)]%Z; ti_seed := 7 |}.

Example C16_nonvacuous :
  twf (c16_input MTurn 8) /\ twf (c16_input MAll 2) /\ twf (c16_input MDyn 8) /\
  sim_ok (script_sim c16_script) MTurn /\
  tb_status (trainer_model (c16_input MTurn 8)) = 0%Z /\
  length (tb_iters (trainer_model (c16_input MTurn 8))) = 4 /\       (* stopped by __all__ *)
  length (tb_iters (trainer_model (c16_input MAll 2))) = 2 /\        (* stopped by the horizon *)
  rec_get 0 (ep_done (tb_ep (trainer_model (c16_input MTurn 8)))) = [true] /\
  rec_get 2 (ep_done (tb_ep (trainer_model (c16_input MTurn 8)))) = [false; false; false] /\
  chk_C16 (c16_input MTurn 8) (trainer_model (c16_input MTurn 8)) = true.
Proof.
  assert (W : forall k h, tk k -> twf (c16_input k h)).
  { intros k h Hk. split; [exact Hk|]. split; [discriminate|reflexivity]. }
  split; [apply W; right; left; reflexivity|]. split; [apply W; left; reflexivity|].
  split; [apply W; right; right; reflexivity|].
  split; [apply (script_sim_ok (c16_input MTurn 8)), W; right; left; reflexivity|].
  vm_compute. repeat split.
Qed.

(* a misaligned policy is refused by the constructor's check *)
Example C16_alignment_nonvacuous :
  t_align (c16_input MTurn 8) = AlOk /\
  t_align {| ti_k := MTurn; ti_sc := c16_script; ti_h := 8; ti_pmap := [0; 1; 1];
             ti_asp := [(1, 2); (3, 4); (1, 2)]%Z; ti_psp := [(1, 2); (3, 4)]%Z; ti_seed := 7 |}
    = AlReject.
Proof. vm_compute. split; reflexivity. Qed.
