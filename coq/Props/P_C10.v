(* C10 — Blocking agents hide exactly the cells in their shadow.
   Only statements; every proof is [exact]/[apply] of a lemma from Proofs/.

   Vocabulary (Grid/Mask.v):
     mask_code R b q      the eight direction cases of create_grid_and_mask, exact rationals:
                          true when blocker offset b makes the loops write mask[q] = 0
     hidden b q           the integer specification of the documented rule
     mask_fold code R v ags   the loop over agents.values(); get R m q = mask[q + (R, R)]
     act s                one of the eight symmetries of the square acting on offsets       *)
From Coq Require Import ZArith List Bool.
From Abm Require Import Base.Sx Grid.Mask Grid.MaskFloat
     Proofs.Mask_proofs Proofs.MaskSFloat_proofs.
Import ListNotations.
Open Scope Z_scope.

(* the code's eight cases decide exactly the specification: every range, every blocker offset
   (inside or outside the window), every cell of the window *)
Theorem C10_code_meets_spec :
  forall R b q, in_window R q = true -> mask_code R b q = hidden b q.
Proof. exact code_meets_spec. Qed.
Print Assumptions C10_code_meets_spec.

(* in exact arithmetic the evaluation order of the unrepaired code decides the same *)
Theorem C10_exact_order_irrelevant :
  forall R b q, in_window R q = true -> mask_code_prefix R b q = mask_code R b q.
Proof. exact exact_order_irrelevant. Qed.
Print Assumptions C10_exact_order_irrelevant.

(* several agents: the mask entry is 0 exactly when some active blocking agent within range
   hides the cell *)
Theorem C10_mask_exact :
  forall R v ags q, in_window R q = true ->
    get R (mask_fold mask_code R v ags) q = spec_visible R v ags q.
Proof. exact mask_exact. Qed.
Print Assumptions C10_mask_exact.

Theorem C10_only_active_blocking :
  forall R v ags q, in_window R q = true ->
    (get R (mask_fold mask_code R v ags) q = false <->
     exists a, In a ags /\ a_active a = true /\ a_blocking a = true /\
               in_window R (off a v) = true /\ hidden (off a v) q = true).
Proof. exact mask_hidden_iff. Qed.
Print Assumptions C10_only_active_blocking.

(* an inactive, non-blocking or out-of-range agent can be deleted without changing the mask *)
Theorem C10_irrelevant_agent_ignored :
  forall R v l1 a l2,
    a_active a && a_blocking a && in_window R (off a v) = false ->
    mask_fold mask_code R v (l1 ++ a :: l2) = mask_fold mask_code R v (l1 ++ l2).
Proof. exact (fold_irrelevant mask_code). Qed.
Print Assumptions C10_irrelevant_agent_ignored.

(* corollaries named in the property text *)
Theorem C10_on_ray_visible :
  forall R b q, in_window R q = true ->
    cross (fst (corners b)) q = 0 \/ cross (snd (corners b)) q = 0 -> mask_code R b q = false.
Proof. intros R b q Hw H. rewrite code_meets_spec by exact Hw. exact (hidden_on_ray b q H). Qed.
Print Assumptions C10_on_ray_visible.

Theorem C10_blocker_cell_visible :
  forall R b, in_window R b = true -> mask_code R b b = false.
Proof. intros R b Hw. rewrite code_meets_spec by exact Hw. exact (hidden_blocker_cell b). Qed.
Print Assumptions C10_blocker_cell_visible.

Theorem C10_nearer_visible :
  forall R b q, in_window R q = true -> nearer b q -> mask_code R b q = false.
Proof. intros R b q Hw H. rewrite code_meets_spec by exact Hw. exact (hidden_nearer b q H). Qed.
Print Assumptions C10_nearer_visible.

Theorem C10_viewer_cell_visible :
  forall R b, 0 <= R -> mask_code R b (0, 0) = false.
Proof.
  intros R b HR. rewrite code_meets_spec. exact (hidden_viewer_cell b).
  unfold in_window; cbn [fst snd]. rewrite !andb_true_iff, !Z.leb_le. repeat split; auto with zarith.
Qed.
Print Assumptions C10_viewer_cell_visible.

(* the two corners used by the specification are the outermost corners of the blocker's cell:
   all four corners of the cell lie (weakly) inside the cone they span *)
Theorem C10_corners_outermost :
  forall b, b <> (0, 0) ->
    let k1 := fst (corners b) in
    let k2 := snd (corners b) in
    let s := Z.sgn (cross k1 k2) in
    is_corner b k1 /\ is_corner b k2 /\ s <> 0 /\
    forall k, is_corner b k -> 0 <= s * cross k1 k /\ s * cross k2 k <= 0.
Proof. exact corners_outermost. Qed.
Print Assumptions C10_corners_outermost.

(* the eight orientations: two generators ... *)
Theorem C10_symmetry_reflect_rows :
  forall br bc qr qc, hidden (- br, bc) (- qr, qc) = hidden (br, bc) (qr, qc).
Proof. exact hidden_refl_rows. Qed.
Print Assumptions C10_symmetry_reflect_rows.

Theorem C10_symmetry_transpose :
  forall br bc qr qc, hidden (bc, br) (qc, qr) = hidden (br, bc) (qr, qc).
Proof. exact hidden_transp. Qed.
Print Assumptions C10_symmetry_transpose.

(* ... every symmetry is a word in them, the eight are all there are and are closed under
   composition ... *)
Theorem C10_d4_generated :
  forall s, Forall (fun g => g = refl_rows \/ g = transp) (d4_word s) /\
            forall p, act s p = fold_right act p (d4_word s).
Proof. exact d4_generated. Qed.
Print Assumptions C10_d4_generated.

Theorem C10_d4_closed :
  forall s u, In (d4_comp s u) d4_all /\ forall p, act (d4_comp s u) p = act s (act u p).
Proof. intros s u. split. apply d4_all_complete. exact (act_comp s u). Qed.
Print Assumptions C10_d4_closed.

(* ... hence the rule is the same in all eight orientations *)
Theorem C10_symmetry : forall s b q, hidden (act s b) (act s q) = hidden b q.
Proof. exact hidden_act. Qed.
Print Assumptions C10_symmetry.

(* lifted to whole layouts with any number of agents: transforming the grid transforms the mask *)
Theorem C10_mask_symmetry :
  forall R s rows cols v ags q, in_window R q = true ->
    get R (mask_fold mask_code R (act_abs s rows cols v) (map (xf_agent s rows cols) ags)) (act s q)
    = get R (mask_fold mask_code R v ags) q.
Proof. exact mask_symmetry. Qed.
Print Assumptions C10_mask_symmetry.

(* the executable checker that is also applied to the implementation's masks accepts the
   model's behaviour on every layout *)
Theorem chk_C10_model :
  forall l Ms, 0 <= l_R l -> masks8 l = Some Ms -> chk_C10 l (map of_matrix Ms) = 1.
Proof. exact Mask_proofs.chk_C10_model. Qed.
Print Assumptions chk_C10_model.

Theorem C10_wire_chk_model :
  forall xi l, dec_layout xi = Some l -> run_chk_C10 (L [xi; run_mask xi]) = A 1.
Proof. exact run_chk_C10_model. Qed.
Print Assumptions C10_wire_chk_model.

(* binary64 (IEEE-754 as specified by Floats.SpecFloat), repaired operation order
   (x_diff +- .5) * t / (y_diff +- .5): same decisions as exact arithmetic for every range <= 15.
   (Primitive-float versions up to range 40: Props/P_C10_float.v.) *)
Theorem C10_binary64_agrees_upto_15 :
  forall R b q, R <= 15 -> in_window R b = true -> in_window R q = true ->
    mask_sfloat R b q = mask_code R b q.
Proof. exact sfloat_agrees_upto_15. Qed.
Print Assumptions C10_binary64_agrees_upto_15.

(* finding F6: the order of the unrepaired code, (x_diff +- .5) / (y_diff +- .5) * t, hides a cell
   whose centre lies exactly on a ray at range 15 ... *)
Theorem C10_float_refuted_15 :
  exists b q, in_window 15 b = true /\ in_window 15 q = true /\
    cross (snd (corners b)) q = 0 /\
    mask_sfloat_prefix 15 b q = true /\ mask_code 15 b q = false /\ mask_sfloat 15 b q = false.
Proof. exact sfloat_refuted_15. Qed.
Print Assumptions C10_float_refuted_15.

(* ... and the checker rejects the masks it produces (clause 2) *)
Theorem C10_float_refuted_15_chk :
  exists Ms, masks8_with mask_sfloat_prefix f6_layout = Some Ms /\
             chk_C10 f6_layout (map of_matrix Ms) = -2.
Proof. exact sfloat_refuted_15_chk. Qed.
Print Assumptions C10_float_refuted_15_chk.

(* non-vacuity: shadows exist, in axis and diagonal cases; a layout with two blockers, an
   inactive and a non-blocking agent has hidden cells and passes the checker *)
Example C10_nonvacuous :
  hidden (1, 1) (2, 2) = true /\ hidden (0, 1) (0, 3) = true /\ hidden (-2, 1) (-3, 2) = true /\
  mask_code 3 (1, 1) (2, 2) = true /\ in_window 3 (2, 2) = true /\
  let l := mkLayout 2 5 6 0 [mkAgent 2 2 true false; mkAgent 2 3 true true; mkAgent 1 1 true true;
                             mkAgent 3 2 false true; mkAgent 3 1 true false] in
  exists Ms, masks8 l = Some Ms /\ chk_C10 l (map of_matrix Ms) = 1 /\
             of_matrix (hd [] Ms) = [[0;0;1;1;1]; [0;1;1;1;0]; [1;1;1;1;0]; [1;1;1;1;0]; [1;1;1;1;1]].
Proof. vm_compute. repeat split. eexists. repeat split. Qed.
