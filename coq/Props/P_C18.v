(* C18 — All simulation builders produce the same simulation for the same layout.
   Only statements; every proof is [exact]/[apply] of a lemma from Proofs/. *)
From Coq Require Import ZArith List Bool.
From Abm Require Import Base.Sx Grid.Amap Grid.Build Proofs.Amap_proofs Proofs.Build_proofs.
Import ListNotations.
Open Scope Z_scope.

(* build_sim_from_array, for every array (any shape, single row/column, empty), registry and
   extra-agent dictionary: it is refused when a character documented as empty space (0, '0', '.',
   '_') is registered or the array has no cell; otherwise the grid has the array's shape and the
   agents are the extra agents updated, in reading order, with the layout's agents
   [layout_spec]; refused when a dictionary key is not its agent's id. *)
Theorem C18_array_spec : forall arr reg extra,
    build_array arr reg extra = spec_build arr reg extra.
Proof. exact array_spec_lemma. Qed.
Print Assumptions C18_array_spec.

(* what [layout_spec] contains: exactly one agent per cell holding a registered character; the
   cell that is j-th in reading order and holds the k-th occurrence (k = rank, counted from 0)
   of character ch yields the agent `registry[ch](k)` with that cell as initial position.
   Unregistered characters (and the reserved ones, which cannot be registered) yield nothing. *)
Theorem C18_layout_members : forall reg cells a,
    In a (layout_spec reg cells) <->
    exists j r c ch f, nth_error cells j = Some (r, c, ch) /\ registered reg ch = Some f /\
                       a = set_ipos (f (rank cells j ch)) r c.
Proof. exact layout_members. Qed.
Print Assumptions C18_layout_members.

(* reading order is row-major: entry (i, c) of an array whose rows all have w entries is the
   (i*w + c)-th cell *)
Theorem C18_reading_order : forall arr w i c row ch,
    (forall rw, In rw arr -> length rw = w) ->
    nth_error arr i = Some row -> nth_error row c = Some ch ->
    nth_error (arr_cells 0 arr) (i * w + c) = Some (i, c, ch).
Proof. intros arr w i c row ch. exact (arr_cells_nth arr 0 w i c row ch). Qed.
Print Assumptions C18_reading_order.

(* build_sim_from_file on the text holding an array's entries (one blank between entries, one
   line per row) builds the same simulation as build_sim_from_array on that array *)
Theorem C18_file_eq_array : forall arr reg extra,
    file_able arr = true -> rectangular arr = true ->
    build_file (unparse (map (map str_of) arr)) reg extra = build_array arr reg extra.
Proof. exact file_eq_array_lemma. Qed.
Print Assumptions C18_file_eq_array.

(* and on every text whose lines have equally many entries it is build_sim_from_array on the
   array of those entries (no line at all: IndexError; ragged: refused; see chk_C18_file) *)
Theorem C18_file_text : forall text reg extra,
    parse_file text <> [] -> rectangular (parse_file text) = true ->
    build_file text reg extra = build_array (parse_file text) reg extra.
Proof. exact file_text_lemma. Qed.
Print Assumptions C18_file_text.

(* build_sim_from_grid = build_sim on the extra agents updated with the grid's agents in reading
   order, refused when an agent's initial position is not its cell *)
Theorem C18_grid_eq_direct : forall g extra,
    build_grid g extra =
    if grid_pos_ok 0 g
    then build_direct (length g) (ncols g) (am_update Z.eqb (start extra) (grid_items g))
    else BErr 1.
Proof. exact grid_eq_direct_lemma. Qed.
Print Assumptions C18_grid_eq_direct.

(* the grid holding the layout's agents gives the simulation of the array, and so does the direct
   build from the dictionary of those agents *)
Theorem C18_grid_eq_array : forall arr reg extra, markers_registered reg = false ->
    build_grid (grid_of_array arr reg) extra = build_array arr reg extra /\
    build_direct (length arr) (ncols arr)
                 (am_update Z.eqb (start extra) (layout_agents arr reg)) =
    build_array arr reg extra.
Proof.
  intros arr reg extra M. split.
  - apply grid_eq_array_lemma. exact M.
  - rewrite array_spec_lemma. apply direct_spec. exact M.
Qed.
Print Assumptions C18_grid_eq_array.

(* extra agents: kept unless a layout agent has the same id, in which case the layout's agent
   (the last one with that id) is in the simulation; extras stay in front, in their order *)
Theorem C18_extra_priority : forall (extra : agents) (layout : list bagent),
    let final := am_update Z.eqb extra (keyed layout) in
    (forall k a, am_get Z.eqb extra k = Some a -> (forall b, In b layout -> b_id b <> k) ->
                 am_get Z.eqb final k = Some a) /\
    (forall b, In b layout -> exists b', am_get Z.eqb final (b_id b) = Some b' /\
                                         In b' layout /\ b_id b' = b_id b) /\
    (exists tail, map fst final = map fst extra ++ tail) /\
    (forall k a, am_get Z.eqb final k = Some a ->
                 am_get Z.eqb extra k = Some a \/ (In a layout /\ b_id a = k)).
Proof. exact extra_priority_lemma. Qed.
Print Assumptions C18_extra_priority.

(* after a reset that is not refused every agent with an initial position stands on it; the
   reset is refused exactly when two initial positions coincide *)
Theorem C18_reset_positions : forall ags,
    reset18 ags = spec_reset ags /\
    forall ps, reset18 ags = inl (Some ps) ->
      length ps = length ags /\
      forall j k a, nth_error ags j = Some (k, a) -> nth_error ps j = Some (b_ipos a).
Proof. intros ags. split; [apply reset18_spec|apply reset_positions_lemma]. Qed.
Print Assumptions C18_reset_positions.

(* the executable checkers accept the model's behaviour on every input *)
Theorem chk_C18_model : forall arr reg extra, rectangular arr = true ->
    chk_C18 arr reg extra (four_builders reserved arr reg extra) = 1.
Proof. exact chk_C18_model_lemma. Qed.
Print Assumptions chk_C18_model.

Theorem chk_C18_file_model : forall text reg extra,
    chk_C18_file text reg extra (enc_bres reset18 (build_file text reg extra)) = 1.
Proof. exact chk_C18_file_model_lemma. Qed.
Print Assumptions chk_C18_file_model.

Theorem chk_C18_grid_model : forall g extra,
    chk_C18_grid g extra (enc_bres reset18 (build_grid g extra)) = 1.
Proof. exact chk_C18_grid_model_lemma. Qed.
Print Assumptions chk_C18_grid_model.

(* finding C18-reserved-zero: the reserved-character test of the unrepaired code (0, '.', '_')
   lets a registry with the character '0' through, and cells marked '0' then produce agents *)
Theorem C18_reserved_zero_refuted :
  exists arr reg extra, rectangular arr = true /\
    chk_C18 arr reg extra (four_builders reserved_prefix arr reg extra) = -1.
Proof. exact reserved_zero_refuted_lemma. Qed.
Print Assumptions C18_reserved_zero_refuted.

(* ---- non-vacuity: the layout of the documentation, with a clashing extra agent ------------------ *)
Example C18_nonvacuous :
  let A := CS [65] in let B := CS [66] in let C := CS [67] in
  let arr := [[A; CS [46]; B; CS [48]; CS [95]]; [B; CS [95]; CS []; C; A]] in
  let reg := [(A, mk_regfun 0 1 1 0); (B, mk_regfun 0 2 2 0); (C, mk_regfun 0 3 3 0)] in
  let extra := Some [(201, mkB 201 4 0 (Some (1, 0))); (900, mkB 900 5 0 (Some (0, 1)))] in
  rectangular arr = true /\ file_able arr = true /\
  build_array arr reg extra =
  BOk 2 5 [(201, mkB 201 2 0 (Some (1, 0))); (900, mkB 900 5 0 (Some (0, 1)));
           (100, mkB 100 1 0 (Some (0, 0))); (200, mkB 200 2 0 (Some (0, 2)));
           (300, mkB 300 3 0 (Some (1, 3))); (101, mkB 101 1 0 (Some (1, 4)))] /\
  build_file (unparse (map (map str_of) arr)) reg extra = build_array arr reg extra /\
  build_grid (grid_of_array arr reg) extra = build_array arr reg extra.
Proof. vm_compute. repeat split. Qed.
