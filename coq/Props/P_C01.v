(* C01 — Simulation managers honour the done protocol on every step.
   Only statements; the proofs are in Proofs/Managers_proofs.v (search loops),
   Proofs/Managers_hist.v (per-step statements, histories) and Proofs/MgrCheck_proofs.v
   (scripted simulation, executable checker).

   Reading guide.  [Sim] is an arbitrary simulation (record of reset/step/getters over an
   arbitrary state type; get_obs and get_reward may have effects).  A manager state [m] is
   (simulation state, done_agents in insertion order, position in the turn cycle).
   [keys o] are the agents of an output, [wfo o] says the four dictionaries have that same
   key list, [submits_done d acts] says some submitted key is in [d],
   [greach Sim s s'] says s' is reached from s by get_obs/get_reward effects only (no
   reset, no step), [done_stable Sim] says those effects do not change get_done. *)
From Coq Require Import ZArith List Bool Arith.
From Abm Require Import Base.Sx Ctl.Managers Ctl.ScriptSim Ctl.MgrCheck
     Proofs.Managers_proofs Proofs.Managers_hist Proofs.MgrCheck_proofs.
Import ListNotations.
Open Scope nat_scope.

Section AnySimulation.
  Context {St Obs Info Act : Type}.
  Variable Sim : simulation St Obs Info Act.

  (* ---- the four dictionaries have the same keys ---- *)
  Theorem C01_keys_agree_all : forall m acts sh o m',
    all_step Sim m acts sh = (ROut o, m') -> wfo o.
  Proof. exact (all_keys_agree Sim). Qed.

  Theorem C01_keys_agree_turn : forall m acts o m',
    tinv Sim m -> turn_step Sim m acts = (ROut o, m') -> wfo o.
  Proof. exact (turn_keys_agree Sim). Qed.

  Theorem C01_keys_agree_dyn : forall m acts o m',
    nom_ok Sim (sim_step Sim (m_sim m) acts) -> dyn_step Sim m acts = (ROut o, m') -> wfo o.
  Proof. exact (dyn_keys_agree Sim). Qed.

  (* ---- an agent already in done_agents is never reported ---- *)
  Theorem C01_never_reports_done_all : forall m acts sh o m',
    all_step Sim m acts sh = (ROut o, m') -> forall a, In a (keys o) -> ~ In a (m_done m).
  Proof. exact (all_never_reports_done Sim). Qed.

  Theorem C01_never_reports_done_turn : forall m acts o m',
    tinv Sim m -> turn_step Sim m acts = (ROut o, m') ->
    forall a, In a (keys o) -> ~ In a (m_done m).
  Proof. exact (turn_never_reports_done Sim). Qed.

  Theorem C01_never_reports_done_dyn : forall m acts o m',
    nom_ok Sim (sim_step Sim (m_sim m) acts) -> dyn_step Sim m acts = (ROut o, m') ->
    forall a, In a (keys o) -> ~ In a (m_done m).
  Proof. exact (dyn_never_reports_done Sim). Qed.

  (* ---- ANY submitted key of a done agent: rejected, nothing changed (in particular the
          simulation state: sim.step was not called) ---- *)
  Theorem C01_rejects_before_advance_all : forall m acts sh,
    submits_done (m_done m) acts -> all_step Sim m acts sh = (RReject, m).
  Proof. exact (all_rejects_before_advance Sim). Qed.

  Theorem C01_rejects_before_advance_turn : forall m acts,
    submits_done (m_done m) acts -> turn_step Sim m acts = (RReject, m).
  Proof. exact (turn_rejects_before_advance Sim). Qed.

  Theorem C01_rejects_before_advance_dyn : forall m acts,
    submits_done (m_done m) acts -> dyn_step Sim m acts = (RReject, m).
  Proof. exact (dyn_rejects_before_advance Sim). Qed.

  (* ---- otherwise sim.step is called exactly once, with the submitted list (all-step with
          randomize_action_input: with the shuffled list [sh] the oracle supplies); after it
          only getters run ---- *)
  Theorem C01_actions_unchanged_all : forall m acts sh,
    ~ submits_done (m_done m) acts ->
    exists o m', all_step Sim m acts sh = (ROut o, m') /\
                 greach Sim (sim_step Sim (m_sim m) sh) (m_sim m').
  Proof. exact (all_actions_unchanged Sim). Qed.

  Theorem C01_actions_unchanged_turn : forall m acts,
    tinv Sim m -> acts <> [] -> ~ submits_done (m_done m) acts ->
    exists o m', turn_step Sim m acts = (ROut o, m') /\
                 greach Sim (sim_step Sim (m_sim m) acts) (m_sim m').
  Proof. exact (turn_actions_unchanged Sim). Qed.

  Theorem C01_actions_unchanged_dyn : forall m acts,
    nom_ok Sim (sim_step Sim (m_sim m) acts) -> ~ submits_done (m_done m) acts ->
    exists o m', dyn_step Sim m acts = (ROut o, m') /\
                 greach Sim (sim_step Sim (m_sim m) acts) (m_sim m').
  Proof. exact (dyn_actions_unchanged Sim). Qed.

  (* ---- __all__ = the simulation is finished, or every agent is in done_agents; when the
          simulation is finished (turn-based, dynamic order) every agent not yet reported
          done is reported ---- *)
  Theorem C01_all_flag_all : forall m acts sh o m',
    all_step Sim m acts sh = (ROut o, m') ->
    o_all o = sim_all Sim (m_sim m') || all_in Sim (m_done m').
  Proof. exact (all_all_flag Sim). Qed.

  Theorem C01_all_flag_turn : forall m acts o m',
    tinv Sim m -> turn_step Sim m acts = (ROut o, m') ->
    o_all o = sim_all Sim (sim_step Sim (m_sim m) acts) || all_in Sim (m_done m') /\
    (sim_all Sim (sim_step Sim (m_sim m) acts) = true ->
       keys o = filter (fun a => negb (memb a (m_done m))) (agents Sim) /\ m_done m' = m_done m).
  Proof. exact (turn_all_flag Sim). Qed.

  Theorem C01_all_flag_dyn : forall m acts o m',
    nom_ok Sim (sim_step Sim (m_sim m) acts) -> all_in Sim (m_done m) = false ->
    dyn_step Sim m acts = (ROut o, m') ->
    o_all o = sim_all Sim (sim_step Sim (m_sim m) acts) || all_in Sim (m_done m') /\
    (sim_all Sim (sim_step Sim (m_sim m) acts) = true ->
       keys o = filter (fun a => negb (memb a (m_done m))) (agents Sim) /\ m_done m' = m_done m).
  Proof. exact (dyn_all_flag Sim). Qed.

  (* ---- done bookkeeping: done_agents only grows; an entry done = true puts the agent into
          done_agents, an entry done = false does not (turn/dyn: outside the flush branch,
          in which the episode ends) ---- *)
  Theorem C01_done_bookkeeping_all : forall m acts sh o m',
    all_step Sim m acts sh = (ROut o, m') ->
    incl (m_done m) (m_done m') /\
    forall a, (In (a, true) (o_done o) -> In a (m_done m')) /\
              (In (a, false) (o_done o) -> ~ In a (m_done m')).
  Proof. exact (all_bookkeeping Sim). Qed.

  Theorem C01_done_bookkeeping_turn : forall m acts o m',
    done_stable Sim -> tinv Sim m -> turn_step Sim m acts = (ROut o, m') ->
    incl (m_done m) (m_done m') /\
    (sim_all Sim (sim_step Sim (m_sim m) acts) = false ->
     forall a, (In (a, true) (o_done o) -> In a (m_done m')) /\
               (In (a, false) (o_done o) -> ~ In a (m_done m'))).
  Proof. exact (turn_bookkeeping Sim). Qed.

  Theorem C01_done_bookkeeping_dyn : forall m acts o m',
    done_stable Sim -> nom_ok Sim (sim_step Sim (m_sim m) acts) ->
    dyn_step Sim m acts = (ROut o, m') ->
    incl (m_done m) (m_done m') /\
    (sim_all Sim (sim_step Sim (m_sim m) acts) = false ->
     forall a, (In (a, true) (o_done o) -> In a (m_done m')) /\
               (In (a, false) (o_done o) -> ~ In a (m_done m'))).
  Proof. exact (dyn_bookkeeping Sim). Qed.

  (* ---- histories: any list of calls [cs] from the initial state.  [trace] lists (state
          before, phase, call, response, state after); in_protocol = a step is made only while
          an episode is in progress (after a reset, before __all__).  Every state such a
          history reaches satisfies the invariant the per-step theorems ask for, and every
          entry is a call of the manager made in that state. ---- *)
  Theorem C01_invariant_all : forall s0 cs,
    in_protocol (trace Sim MAll (init s0) Fresh cs) ->
    forall e, In e (trace Sim MAll (init s0) Fresh cs) ->
      (te_ph e <> Fresh -> incl (nonlearning Sim) (m_done (te_pre e))) /\
      do_call Sim MAll (te_pre e) (te_call e) = (te_resp e, te_post e).
  Proof. exact (hist_inv_all Sim). Qed.

  Theorem C01_invariant_turn : forall s0 cs,
    in_protocol (trace Sim MTurn (init s0) Fresh cs) ->
    forall e, In e (trace Sim MTurn (init s0) Fresh cs) ->
      (length (order Sim) <> 0 -> m_ptr (te_pre e) < length (order Sim)) /\
      (te_ph e <> Fresh -> incl (nonlearning Sim) (m_done (te_pre e))) /\
      (te_ph e = Live -> tinv Sim (te_pre e)) /\
      do_call Sim MTurn (te_pre e) (te_call e) = (te_resp e, te_post e).
  Proof. exact (hist_inv_turn Sim). Qed.

  Theorem C01_invariant_dyn : forall s0 cs,
    dyn_sim_ok Sim -> in_protocol (trace Sim MDyn (init s0) Fresh cs) ->
    forall e, In e (trace Sim MDyn (init s0) Fresh cs) ->
      (te_ph e = Live -> all_in Sim (m_done (te_pre e)) = false) /\
      do_call Sim MDyn (te_pre e) (te_call e) = (te_resp e, te_post e).
  Proof. exact (hist_inv_dyn Sim). Qed.

  (* ---- every response to a step of an in-protocol history satisfies the per-step clauses ---- *)
  Theorem C01_history_steps_all : forall s0 cs,
    in_protocol (trace Sim MAll (init s0) Fresh cs) ->
    forall e acts sh, In e (trace Sim MAll (init s0) Fresh cs) -> te_call e = CStep acts sh ->
      match te_resp e with
      | ROut o =>
          wfo o /\ NoDup (keys o) /\ (forall a, In a (keys o) -> ~ In a (m_done (te_pre e))) /\
          ~ submits_done (m_done (te_pre e)) acts /\ incl (m_done (te_pre e)) (m_done (te_post e)) /\
          greach Sim (sim_step Sim (m_sim (te_pre e)) sh) (m_sim (te_post e)) /\
          o_all o = sim_all Sim (m_sim (te_post e)) || all_in Sim (m_done (te_post e)) /\
          (o_all o = false -> forall a, In (a, true) (o_done o) -> In a (m_done (te_post e)))
      | RObs _ => False
      | _ => te_post e = te_pre e
      end.
  Proof. exact (steps_ok_all Sim). Qed.

  Theorem C01_history_steps_turn : forall s0 cs,
    in_protocol (trace Sim MTurn (init s0) Fresh cs) ->
    forall e acts sh, In e (trace Sim MTurn (init s0) Fresh cs) -> te_call e = CStep acts sh ->
      match te_resp e with
      | ROut o =>
          wfo o /\ NoDup (keys o) /\ (forall a, In a (keys o) -> ~ In a (m_done (te_pre e))) /\
          ~ submits_done (m_done (te_pre e)) acts /\ incl (m_done (te_pre e)) (m_done (te_post e)) /\
          greach Sim (sim_step Sim (m_sim (te_pre e)) acts) (m_sim (te_post e)) /\
          o_all o = sim_all Sim (sim_step Sim (m_sim (te_pre e)) acts)
                    || all_in Sim (m_done (te_post e)) /\
          (done_stable Sim -> o_all o = false ->
           forall a, In (a, true) (o_done o) -> In a (m_done (te_post e)))
      | RObs _ => False
      | _ => te_post e = te_pre e
      end.
  Proof. exact (steps_ok_turn Sim). Qed.

  Theorem C01_history_steps_dyn : forall s0 cs,
    dyn_sim_ok Sim -> in_protocol (trace Sim MDyn (init s0) Fresh cs) ->
    forall e acts sh, In e (trace Sim MDyn (init s0) Fresh cs) -> te_call e = CStep acts sh ->
      match te_resp e with
      | ROut o =>
          wfo o /\ NoDup (keys o) /\ (forall a, In a (keys o) -> ~ In a (m_done (te_pre e))) /\
          ~ submits_done (m_done (te_pre e)) acts /\ incl (m_done (te_pre e)) (m_done (te_post e)) /\
          greach Sim (sim_step Sim (m_sim (te_pre e)) acts) (m_sim (te_post e)) /\
          o_all o = sim_all Sim (sim_step Sim (m_sim (te_pre e)) acts)
                    || all_in Sim (m_done (te_post e)) /\
          (done_stable Sim -> o_all o = false ->
           forall a, In (a, true) (o_done o) -> In a (m_done (te_post e)))
      | RObs _ => False
      | _ => te_post e = te_pre e
      end.
  Proof. exact (steps_ok_dyn Sim). Qed.

  (* ---- within one episode no agent is reported done twice: [ep_dones t []] lists the
          agents with an entry done = true since the last reset, in order of report ---- *)
  Theorem C01_done_at_most_once_all : forall s0 cs,
    in_protocol (trace Sim MAll (init s0) Fresh cs) ->
    NoDup (ep_dones (trace Sim MAll (init s0) Fresh cs) []).
  Proof. exact (once_all Sim). Qed.

  Theorem C01_done_at_most_once_turn : forall s0 cs,
    done_stable Sim -> in_protocol (trace Sim MTurn (init s0) Fresh cs) ->
    NoDup (ep_dones (trace Sim MTurn (init s0) Fresh cs) []).
  Proof. exact (once_turn Sim). Qed.

  Theorem C01_done_at_most_once_dyn : forall s0 cs,
    dyn_sim_ok Sim -> done_stable Sim -> in_protocol (trace Sim MDyn (init s0) Fresh cs) ->
    NoDup (ep_dones (trace Sim MDyn (init s0) Fresh cs) []).
  Proof. exact (once_dyn Sim). Qed.

  (* the trace is the history of the model's [run] *)
  Theorem C01_trace_is_run : forall k cs m ph,
    map te_resp (trace Sim k m ph cs) = fst (run Sim k m cs).
  Proof. exact (trace_run Sim). Qed.
End AnySimulation.

(* ---- the tree before the fix of finding F2 (turn_step_prefix asserts only on the first
        submitted key) is refuted: the checker reports clause 101 on the model of the old
        code and nothing on the model of the repaired code; and directly: a submission naming
        a done agent that the old code accepts ---- *)
Theorem C01_rejects_before_advance_turn_prefix_refuted :
  chk_run f2_sc MTurnPrefix 1 f2_cs = 101%Z /\ chk_run f2_sc MTurn 1 f2_cs = 0%Z /\
  exists m acts o m',
    submits_done (m_done m) acts /\
    turn_step_prefix (script_sim f2_sc) m acts = (ROut o, m').
Proof. exact f2_refuted. Qed.

(* ---- reward conservation on the scripted (accumulate-and-reset) simulation, one accepted
        step of any manager: [p1] is what is pending per agent once the step's accruals are
        added; every reported agent receives exactly that, its accumulator is zero afterwards;
        the others keep their pending amount; get_reward is read exactly once per reported
        agent, in key order, and for nobody else ---- *)
Theorem C01_reward_conservation_step : forall sc k m acts sh o m',
  k <> MTurnPrefix -> ss_do_call sc k m (CStep acts sh) = (ROut o, m') ->
  NoDup (keys o) -> (forall a, In a (keys o) -> a < length (s_pend (m_sim m))) ->
  let p1 := add_lists (s_pend (m_sim m)) (r_acc (row_at sc (S (s_t (m_sim m))))) in
  o_rew o = map (fun a => (a, nth a p1 0%Z)) (keys o) /\
  (forall a, In a (keys o) -> nth a (s_pend (m_sim m')) 0%Z = 0%Z) /\
  (forall a, ~ In a (keys o) -> nth a (s_pend (m_sim m')) 0%Z = nth a p1 0%Z) /\
  s_reads (m_sim m') = s_reads (m_sim m) ++ keys o.
Proof. exact reward_conservation_step. Qed.

(* ---- the scripted simulation meets the purity hypothesis ---- *)
Theorem C01_script_done_stable : forall sc, done_stable (script_sim sc).
Proof. exact ss_done_stable. Qed.

(* ---- the executable checker accepts the model's own history: every script (any number of
        agents, any learning flags, any rows, also too short ones), every manager, every list
        of calls, in or out of protocol.  [wf_script]: nothing for all-step and turn-based;
        for dynamic order at least one agent and, in every row, duplicate-free nominations
        among the agents.  [wf_call]: the oracle's shuffled list is a permutation of the
        submission (all-step) resp. the submission itself.  Clauses 101-112, 120-122, 140-146,
        among them 110/111 = delivered + pending = accrued and one get_reward read per
        report. ---- *)
Theorem chk_C01_model : forall sc k cs,
  wf_script k sc = true -> forallb (wf_call k) cs = true ->
  let r := ss_run sc k (init (ss_init sc)) cs in
  chk_hist sc k 1 ghost0 cs (fst r) (s_steps (m_sim (snd r))) (s_reads (m_sim (snd r))) = 0%Z.
Proof. exact chk_C01_model_all. Qed.

(* ---- non-vacuity: a history on the scripted simulation that is in protocol, meets the
        invariant wherever a step is made, and reaches the error, reject, skip, newly-done,
        live and flush arms of turn_step; a second one reaches the everybody-done arm ---- *)
Example C01_nonvacuous :
  let t := trace (script_sim nv_sc) MTurn (init (ss_init nv_sc)) Fresh nv_cs in
  in_protocol t /\ done_stable (script_sim nv_sc) /\
  map te_resp t = nv_expected /\
  (forall e, In e t -> te_ph e = Live -> tinv (script_sim nv_sc) (te_pre e)) /\
  chk_run nv_sc MTurn 1 nv_cs = 0%Z /\ chk_run nv_sc MTurn 7 nv_cs = 0%Z.
Proof. exact nv_turn. Qed.

Example C01_nonvacuous_all_done :
  fst (run (script_sim nv2_sc) MTurn (init (ss_init nv2_sc)) [CReset; st1 0 1])
  = [RObs [(0, 0%Z)];
     ROut (mkout [(1, 101%Z); (0, 100%Z)] [(1, 5%Z); (0, 4%Z)]
                 [(1, true); (0, true)] [(1, (-101)%Z); (0, (-100)%Z)] true)] /\
  chk_run nv2_sc MTurn 1 [CReset; st1 0 1] = 0%Z /\ chk_run nv2_sc MTurn 7 [CReset; st1 0 1] = 0%Z.
Proof. exact nv_turn_all_done. Qed.

Print Assumptions C01_keys_agree_all.
Print Assumptions C01_keys_agree_turn.
Print Assumptions C01_keys_agree_dyn.
Print Assumptions C01_never_reports_done_all.
Print Assumptions C01_never_reports_done_turn.
Print Assumptions C01_never_reports_done_dyn.
Print Assumptions C01_rejects_before_advance_all.
Print Assumptions C01_rejects_before_advance_turn.
Print Assumptions C01_rejects_before_advance_dyn.
Print Assumptions C01_actions_unchanged_all.
Print Assumptions C01_actions_unchanged_turn.
Print Assumptions C01_actions_unchanged_dyn.
Print Assumptions C01_all_flag_all.
Print Assumptions C01_all_flag_turn.
Print Assumptions C01_all_flag_dyn.
Print Assumptions C01_done_bookkeeping_all.
Print Assumptions C01_done_bookkeeping_turn.
Print Assumptions C01_done_bookkeeping_dyn.
Print Assumptions C01_invariant_all.
Print Assumptions C01_invariant_turn.
Print Assumptions C01_invariant_dyn.
Print Assumptions C01_history_steps_all.
Print Assumptions C01_history_steps_turn.
Print Assumptions C01_history_steps_dyn.
Print Assumptions C01_done_at_most_once_all.
Print Assumptions C01_done_at_most_once_turn.
Print Assumptions C01_done_at_most_once_dyn.
Print Assumptions C01_trace_is_run.
Print Assumptions C01_rejects_before_advance_turn_prefix_refuted.
Print Assumptions C01_reward_conservation_step.
Print Assumptions C01_script_done_stable.
Print Assumptions chk_C01_model.

(* ==== reward conservation over WHOLE HISTORIES (proofs: Proofs/RewardHist_proofs.v) ====
   Scripted accumulate-and-reset simulation, any of the three managers ([k <> MTurnPrefix]),
   ANY list of calls [cs] from the initial state: resets and steps, accepted, rejected or
   failing, in or out of protocol, any number of episodes.  Since [cs] is arbitrary the
   statements hold at every point of every history (take the prefix).  Vocabulary:
     rew_sum a l        sum of the entries of agent a in the reward dictionary l
     ep_delivered a rs 0   delivered to a by the outputs in rs since the last successful reset
     ep_time rs 0       number of accepted steps in rs since the last successful reset
     acc_at sc t a      what row t of the script accrues for a;  accrued sc a T = rows 1..T
     pending s a        a's accumulator in the simulation state (accrued, not yet read)
     resp_keys r        keys of the reward dictionary of response r (none unless an output)
   No NoDup / range hypothesis on the nominations is needed for conservation itself. *)
From Abm Require Import Proofs.RewardHist_proofs.
Open Scope nat_scope.

(* ---- at every point: simulation time = accepted steps of the episode; delivered + pending
        = accrued since the last reset; the get_reward read log of the WHOLE history is the
        concatenation of the reward keys of the outputs (no read for an agent that is not
        in the output, one read per reported entry); the four dictionaries of every output
        have the same keys ---- *)
Theorem C01_reward_conservation_history : forall sc k, k <> MTurnPrefix -> forall cs a,
  let r := run (script_sim sc) k (init (ss_init sc)) cs in
  s_t (m_sim (snd r)) = ep_time (fst r) 0 /\
  (ep_delivered a (fst r) 0 + pending (m_sim (snd r)) a = accrued sc a (ep_time (fst r) 0))%Z /\
  s_reads (m_sim (snd r)) = concat (map resp_keys (fst r)) /\
  Forall resp_wfo (fst r).
Proof. exact conservation_history. Qed.

(* ---- whenever a call (after any history cs) reports agent a, everything the script accrued
        for a since the episode's reset up to this simulation time has been delivered, each
        amount once, and nothing is left pending: in particular at a's final report ---- *)
Theorem C01_reward_delivered_at_report : forall sc k, k <> MTurnPrefix -> forall cs c a o,
  let r := run (script_sim sc) k (init (ss_init sc)) cs in
  fst (do_call (script_sim sc) k (snd r) c) = ROut o -> In a (keys o) ->
  ep_delivered a (fst r ++ [ROut o]) 0%Z = accrued sc a (ep_time (fst r ++ [ROut o]) 0) /\
  pending (m_sim (snd (do_call (script_sim sc) k (snd r) c))) a = 0%Z.
Proof. exact delivered_at_report. Qed.

(* ---- the final report.  In-protocol history cs1 ++ c :: cs2 where call c reports a with
        done = true and the responses to cs2 contain no successful reset (the same episode
        goes on, however long): what the whole episode delivers to a is exactly what accrued
        for a up to the time of that report; later accruals of the script for the finished
        agent are never delivered.  Hypotheses: [wf_script] (dynamic order: at least one
        agent, nominations duplicate-free and among the agents, as for the done protocol;
        nothing for all-step and turn-based) and [in_protocol] ---- *)
Theorem C01_reward_final_report : forall sc k, wf_script k sc = true -> forall cs1 c cs2 a o,
  in_protocol (trace (script_sim sc) k (init (ss_init sc)) Fresh (cs1 ++ c :: cs2)) ->
  let r1 := run (script_sim sc) k (init (ss_init sc)) cs1 in
  let r := do_call (script_sim sc) k (snd r1) c in
  let r2 := run (script_sim sc) k (snd r) cs2 in
  fst r = ROut o -> In (a, true) (o_done o) ->
  (forall obs, ~ In (RObs obs) (fst r2)) ->
  fst (run (script_sim sc) k (init (ss_init sc)) (cs1 ++ c :: cs2)) = fst r1 ++ ROut o :: fst r2 /\
  ep_delivered a (fst r1 ++ ROut o :: fst r2) 0%Z = accrued sc a (ep_time (fst r1 ++ [ROut o]) 0).
Proof. exact final_report. Qed.

(* ---- non-vacuity: two episodes of three agents under the turn-based manager; a1 finishes
        at t = 1 (delivered 2 of the 222 the script accrues for it), a0 and a2 are cut by the
        simulation-level finish at t = 3 (111 and 333, all delivered) ---- *)
Example C01_reward_history_nonvacuous :
  let SS := script_sim rh_sc in
  let rs := fst (run SS MTurn (init (ss_init rh_sc)) rh_cs) in
  wf_script MTurn rh_sc = true /\
  in_protocol (trace SS MTurn (init (ss_init rh_sc)) Fresh rh_cs) /\
  map resp_rewards rs
  = [[]; [(1, 2%Z); (2, 3%Z)]; [(0, 11%Z)]; [(0, 100%Z); (2, 330%Z)];
     []; [(1, 2%Z); (2, 3%Z)]; [(0, 11%Z)]; [(0, 100%Z); (2, 330%Z)]] /\
  map resp_dones rs
  = [[]; [(1, true); (2, false)]; [(0, false)]; [(0, false); (2, false)];
     []; [(1, true); (2, false)]; [(0, false)]; [(0, false); (2, false)]] /\
  (ep_delivered 1 (firstn 4 rs) 0%Z = 2%Z /\ accrued rh_sc 1 1 = 2%Z /\ accrued rh_sc 1 3 = 222%Z) /\
  (ep_delivered 2 (firstn 4 rs) 0%Z = 333%Z /\ accrued rh_sc 2 3 = 333%Z) /\
  (ep_delivered 0 (firstn 4 rs) 0%Z = 111%Z /\ accrued rh_sc 0 3 = 111%Z) /\
  (ep_delivered 1 rs 0%Z = 2%Z /\ ep_delivered 2 rs 0%Z = 333%Z /\ ep_delivered 0 rs 0%Z = 111%Z /\
   ep_time rs 0 = 3) /\
  (exists o, fst (do_call SS MTurn (snd (run SS MTurn (init (ss_init rh_sc)) (rh_ep ++ [CReset])))
                          (st1 0 1)) = ROut o /\ In (1, true) (o_done o) /\
             forall obs, ~ In (RObs obs)
               (fst (run SS MTurn
                      (snd (do_call SS MTurn
                              (snd (run SS MTurn (init (ss_init rh_sc)) (rh_ep ++ [CReset])))
                              (st1 0 1)))
                      [st1 2 1; st1 0 1]))).
Proof. exact rh_nonvacuous. Qed.

Print Assumptions C01_reward_conservation_history.
Print Assumptions C01_reward_delivered_at_report.
Print Assumptions C01_reward_final_report.

(* =====================================================================================================
   Fourth end-to-end instance (supports C01, C07, C08, C14, C16, C20): MultiCorridor of
   abmarl/examples/sim/multi_corridor.py -- the simulation the library's own tests run under every
   manager and wrapper.  Ctl/Corridor.v transcribes reset (np.random.choice(end-1, n, False) as an
   oracle stream inside the state), step (LEFT / STAY / RIGHT, the three penalty rules, + end^2 on
   arrival, an arrived agent is NOT written into the array), get_obs, the read-AND-reset get_reward,
   get_done, get_all_done as `corridor_sim end n : simulation cstate cobs unit Z` (all agents learn).
   Vocabulary (Proofs/Corridor_proofs.v):
     cinv end n s      n positions in [0, end-1], n reward entries, end cells, and a cell names agent j
                       exactly when j stands there and has not arrived
     adm end n d       d is a possible result of the reset draw: n distinct cells below end-1
     co_bad s          the flag: an exception escaped from the simulation (IndexError of
                       corridor[position + 1] at position end-1 = the error arm; unknown agent;
                       impossible draw)
     same_seed s1 s2   the random generators of the two objects are in the same state
     polite t          the caller answers only for agents the previous answer asked to act
                       (observation given, not reported done), without duplicate keys
   ===================================================================================================== *)
From Abm Require Import Spaces.Flatten Ctl.Super Ctl.Comms Ctl.Wrappers Ctl.Stack Ctl.Trainer
     Ctl.Corridor Proofs.Stack_proofs Proofs.Corridor_proofs.
Open Scope Z_scope.

(* the invariant is established by EVERY successful reset from ANY state (which also clears the flag
   and leaves nobody arrived) and kept by EVERY step: any keys, any action values, also an arrived
   agent walking back, also the arms that raise *)
Theorem C01_corridor_inv : forall cend n,
  (forall s, adm cend n (co_draws s (co_ep s)) ->
     cinv cend n (co_reset cend n s) /\ co_bad (co_reset cend n s) = false /\
     co_pos (co_reset cend n s) = co_draws s (co_ep s) /\ co_rew (co_reset cend n s) = repeat 0 n /\
     (forall i, co_done cend (co_reset cend n s) i = false) /\
     co_draws (co_reset cend n s) = co_draws s /\ co_ep (co_reset cend n s) = S (co_ep s)) /\
  (forall s, cinv cend n s -> cinv cend n (co_reset cend n s)) /\
  (forall s acts, cinv cend n s -> cinv cend n (co_step cend s acts)).
Proof.
  exact (fun cend n => conj (co_reset_ok cend n) (conj (co_reset_cinv cend n)
                         (fun s acts => co_step_cinv cend n acts s))).
Qed.
Print Assumptions C01_corridor_inv.

(* the invariant in words: every agent has a position in the corridor and a reward entry; agents
   that have not arrived stand on distinct cells and are in the array; an arrived agent is in no
   cell; whoever the array names stands there *)
Theorem C01_corridor_inv_readable : forall cend n s, cinv cend n s ->
  (forall i, (i < n)%nat -> exists p r, nth_error (co_pos s) i = Some p /\ 0 <= p <= cend - 1 /\
                                        nth_error (co_rew s) i = Some r) /\
  (forall i j p, nth_error (co_pos s) i = Some p -> nth_error (co_pos s) j = Some p ->
                 p < cend - 1 -> i = j) /\
  (forall j p, nth_error (co_pos s) j = Some p -> p < cend - 1 -> cell s p = Some (Some j)) /\
  (forall j, nth_error (co_pos s) j = Some (cend - 1) -> forall c, cell s c <> Some (Some j)) /\
  (forall c j, cell s c = Some (Some j) -> nth_error (co_pos s) j = Some c /\ 0 <= c < cend - 1).
Proof. exact cinv_readable. Qed.
Print Assumptions C01_corridor_inv_readable.

(* under the invariant one iteration of step's loop raises exactly for an unknown agent and for an
   agent that has arrived and moves RIGHT *)
Theorem C01_corridor_error_arm_iff : forall cend n s i a, cinv cend n s -> co_bad s = false ->
  (co_bad (step_one cend s (i, a)) = true <-> (n <= i)%nat \/ (a = 2 /\ co_done cend s i = true)).
Proof. exact step_one_error_arm. Qed.
Print Assumptions C01_corridor_error_arm_iff.

(* a step whose keys are distinct known agents that have not arrived raises nothing *)
Theorem C01_corridor_step_raises_nothing : forall cend n l s,
  cinv cend n s /\ co_bad s = false -> NoDup (map fst l) ->
  (forall a, In a (map fst l) -> (a < n)%nat /\ co_done cend s a = false) ->
  cinv cend n (co_step cend s l) /\ co_bad (co_step cend s l) = false.
Proof. exact co_step_good. Qed.
Print Assumptions C01_corridor_step_raises_nothing.

(* get_obs / get_reward, in any number and order, leave positions, array and generator alone; hence
   get_done / get_all_done / get_info are pure: the hypothesis of the turn-based, dynamic-order and
   trainer theorems *)
Theorem C01_corridor_getters_pure : forall cend n s s', greach (corridor_sim cend n) s s' ->
  (co_pos s' = co_pos s /\ co_arr s' = co_arr s /\ length (co_rew s') = length (co_rew s) /\
   co_draws s' = co_draws s /\ co_ep s' = co_ep s) /\
  (forall a, co_done cend s' a = co_done cend s a) /\ co_all cend s' = co_all cend s /\
  (forall a, sim_info (corridor_sim cend n) s' a = sim_info (corridor_sim cend n) s a).
Proof. exact (fun cend n s s' G => conj (co_greach_frame cend n s s' G) (corridor_getters_pure cend n s s' G)). Qed.
Print Assumptions C01_corridor_getters_pure.

Theorem C01_corridor_done_stable : forall cend n, done_stable (corridor_sim cend n).
Proof. exact corridor_done_stable. Qed.
Print Assumptions C01_corridor_done_stable.

(* get_reward reads AND resets: every accrued amount is handed out once *)
Theorem C01_corridor_reward_read_once : forall s i x,
  co_bad s = false -> nth_error (co_rew s) i = Some x ->
  fst (co_reward s i) = x /\ nth_error (co_rew (snd (co_reward s i))) i = Some 0 /\
  (forall j, j <> i -> nth_error (co_rew (snd (co_reward s i))) j = nth_error (co_rew s) j) /\
  co_bad (snd (co_reward s i)) = false.
Proof. exact co_reward_read_once. Qed.
Print Assumptions C01_corridor_reward_read_once.

(* the invariant in every simulation state any manager (all-step, turn-based, dynamic order, the
   pre-repair turn manager) reaches by ANY call list, in or out of protocol, any draws *)
Theorem C01_corridor_inv_reachable : forall cend n k s0 cs, cinv cend n s0 ->
  cinv cend n (m_sim (snd (run (corridor_sim cend n) k (init s0) cs))) /\
  forall e, In e (trace (corridor_sim cend n) k (init s0) Fresh cs) ->
    cinv cend n (m_sim (te_pre e)) /\ cinv cend n (m_sim (te_post e)).
Proof. exact corridor_cinv_reachable. Qed.
Print Assumptions C01_corridor_inv_reachable.

(* C01 / C07 along in-protocol histories of the corridor: `done_stable` discharged *)
Theorem C01_corridor_invariants_all : forall cend n s0 cs,
  in_protocol (trace (corridor_sim cend n) MAll (init s0) Fresh cs) ->
  forall e, In e (trace (corridor_sim cend n) MAll (init s0) Fresh cs) ->
    (te_ph e <> Fresh -> incl (nonlearning (corridor_sim cend n)) (m_done (te_pre e))) /\
    do_call (corridor_sim cend n) MAll (te_pre e) (te_call e) = (te_resp e, te_post e) /\
    (cinv cend n s0 -> cinv cend n (m_sim (te_pre e)) /\ cinv cend n (m_sim (te_post e))) /\
    NoDup (ep_dones (trace (corridor_sim cend n) MAll (init s0) Fresh cs) []).
Proof. exact corridor_invariants_all. Qed.
Print Assumptions C01_corridor_invariants_all.

Theorem C01_corridor_invariants_turn : forall cend n s0 cs,
  in_protocol (trace (corridor_sim cend n) MTurn (init s0) Fresh cs) ->
  forall e, In e (trace (corridor_sim cend n) MTurn (init s0) Fresh cs) ->
    (te_ph e = Live -> tinv (corridor_sim cend n) (te_pre e)) /\
    do_call (corridor_sim cend n) MTurn (te_pre e) (te_call e) = (te_resp e, te_post e) /\
    (cinv cend n s0 -> cinv cend n (m_sim (te_pre e)) /\ cinv cend n (m_sim (te_post e))) /\
    NoDup (ep_dones (trace (corridor_sim cend n) MTurn (init s0) Fresh cs) []).
Proof. exact corridor_invariants_turn. Qed.
Print Assumptions C01_corridor_invariants_turn.

Theorem C01_corridor_history_steps_turn : forall cend n s0 cs,
  in_protocol (trace (corridor_sim cend n) MTurn (init s0) Fresh cs) ->
  forall e acts sh, In e (trace (corridor_sim cend n) MTurn (init s0) Fresh cs) ->
    te_call e = CStep acts sh ->
    match te_resp e with
    | ROut o =>
        wfo o /\ NoDup (keys o) /\ (forall a, In a (keys o) -> ~ In a (m_done (te_pre e))) /\
        ~ submits_done (m_done (te_pre e)) acts /\ incl (m_done (te_pre e)) (m_done (te_post e)) /\
        greach (corridor_sim cend n) (co_step cend (m_sim (te_pre e)) acts) (m_sim (te_post e)) /\
        o_all o = co_all cend (co_step cend (m_sim (te_pre e)) acts)
                  || all_in (corridor_sim cend n) (m_done (te_post e)) /\
        (o_all o = false -> forall a, In (a, true) (o_done o) -> In a (m_done (te_post e)))
    | RObs _ => False
    | _ => te_post e = te_pre e
    end.
Proof. exact corridor_steps_turn. Qed.
Print Assumptions C01_corridor_history_steps_turn.

(* THE ERROR ARM.  An in-protocol history (steps only while an episode runs) whose caller answers
   only for the agents it was asked for, under the all-step or the turn-based manager, from ANY start
   state whose flag is clear, with admissible reset draws: no call raises; the invariant holds from the first reset on; and every agent that acts in a step is known and has NOT arrived in the
   state the step starts from -- `self.corridor[agent.position + 1]` with position = end-1 is never
   evaluated.  (Without `polite` the turn-based manager accepts an action for an agent that arrived
   on its own turn and has not been reported yet: IndexError.) *)
Theorem C01_corridor_no_error_arm : forall cend n k s0 cs, k = MAll \/ k = MTurn ->
  co_bad s0 = false -> (forall j, admb cend n (co_draws s0 j) = true) ->
  in_protocol (trace (corridor_sim cend n) k (init s0) Fresh cs) ->
  polite [] (trace (corridor_sim cend n) k (init s0) Fresh cs) ->
  forall e, In e (trace (corridor_sim cend n) k (init s0) Fresh cs) ->
    co_bad (m_sim (te_pre e)) = false /\ co_bad (m_sim (te_post e)) = false /\
    (te_ph e <> Fresh -> cinv cend n (m_sim (te_pre e))) /\
    (next_phase (te_ph e) (te_resp e) <> Fresh -> cinv cend n (m_sim (te_post e))) /\
    forall acts sh, te_call e = CStep acts sh ->
      forall a, In a (map fst acts) \/ In a (map fst sh) ->
        (a < n)%nat /\ co_done cend (m_sim (te_pre e)) a = false.
Proof. exact corridor_no_error_arm. Qed.
Print Assumptions C01_corridor_no_error_arm.

(* the extracted checker 2502, snapshot clauses (2511 flag, 2512 shape, 2513 array <-> positions, 2514
   distinct cells): `snap_chk` answers 0 on every state with the invariant, hence on every record of
   the model's own run (wire entry 2501 = run_snap) of a polite in-protocol history that starts with a
   reset.  (The response clauses 2515-2522 have no model theorem; see design/E2E.md.) *)
Theorem C01_corridor_snap_chk_complete : forall cend n s,
  0 <= cend -> cinv cend n s -> snap_chk cend n (snap_of s) = 0.
Proof. exact snap_chk_complete. Qed.
Print Assumptions C01_corridor_snap_chk_complete.

Theorem C01_corridor_chk_snapshots_partial : forall cend n k s0 cs, 0 <= cend -> k = MAll \/ k = MTurn ->
  co_bad s0 = false -> (forall j, admb cend n (co_draws s0 j) = true) -> (k = MTurn -> n <> O) ->
  in_protocol (trace (corridor_sim cend n) k (init s0) Fresh (CReset :: cs)) ->
  polite [] (trace (corridor_sim cend n) k (init s0) Fresh (CReset :: cs)) ->
  forall r sn, In (r, sn) (fst (run_snap (corridor_sim cend n) (fun s => s) k (init s0) (CReset :: cs))) ->
    sn_bad sn = false /\ snap_chk cend n sn = 0.
Proof. exact corridor_chk_snapshots. Qed.
Print Assumptions C01_corridor_chk_snapshots_partial.

(* C16_never_fails over the corridor: episode generation never acts for a finished agent *)
Theorem C01_corridor_trainer_never_fails :
  forall PS cend n pmap (pol_act : PS -> nat -> cobs -> Z * PS) pol_reset shuf h k m ps,
  n <> O -> k = MAll \/ k = MTurn ->
  er_status (generate_episode (corridor_sim cend n) pmap pol_act pol_reset shuf h k m ps) = EOk /\
  exists obs, er_reset (generate_episode (corridor_sim cend n) pmap pol_act pol_reset shuf h k m ps)
              = RObs obs.
Proof. exact corridor_trainer_never_fails. Qed.
Print Assumptions C01_corridor_trainer_never_fails.

(* C08 over the corridor.  reset forgets positions, array, reward table and flag: everything but the
   generator; hence an episode after reset depends on the generator's state only, whatever the
   manager's and the simulation's past *)
Theorem C01_corridor_reset_forgets : forall cend n s1 s2, same_seed s1 s2 ->
  admb cend n (co_draws s1 (co_ep s1)) = true -> co_reset cend n s1 = co_reset cend n s2.
Proof. exact co_reset_forgets. Qed.
Print Assumptions C01_corridor_reset_forgets.

Theorem C01_corridor_episode_indistinguishable : forall cend n k m1 m2 cs,
  n <> O -> k <> MTurnPrefix -> same_seed (m_sim m1) (m_sim m2) ->
  admb cend n (co_draws (m_sim m1) (co_ep (m_sim m1))) = true ->
  fst (run (corridor_sim cend n) k m1 (CReset :: cs)) =
  fst (run (corridor_sim cend n) k m2 (CReset :: cs)).
Proof. exact corridor_episode_indistinguishable. Qed.
Print Assumptions C01_corridor_episode_indistinguishable.

(* a manager driven through ANY history h, its simulation then re-seeded, against a new one *)
Theorem C01_corridor_used_vs_fresh : forall cend n k s0 h cs f j,
  n <> O -> k <> MTurnPrefix -> admb cend n (f j) = true ->
  fst (run (corridor_sim cend n) k
           (m_reseed (snd (run (corridor_sim cend n) k (init s0) h)) f j) (CReset :: cs)) =
  fst (run (corridor_sim cend n) k (init (reseed s0 f j)) (CReset :: cs)).
Proof. exact corridor_used_vs_fresh. Qed.
Print Assumptions C01_corridor_used_vs_fresh.

(* the C08 stack theorems over the corridor: managers over SuperAgentWrapper / Communication-
   HandshakeWrapper / any stack of Ravel and Flatten wrappers / all three, for ANY two
   manager-over-stack states (done_agents, pointer, wrapper flags, message tables, positions,
   rewards arbitrary) whose innermost generators are in the same state: the inner-reset hypothesis
   of C08_stack_used_vs_fresh_* is discharged by C01_corridor_reset_forgets *)
Theorem C01_corridor_stack_super : forall cend n mapping k (m1 m2 : mstate (wst cstate Z)) cs,
  mgr_ok (corr_super cend n mapping) k ->
  same_seed (w_sim (m_sim m1)) (w_sim (m_sim m2)) ->
  admb cend n (co_draws (w_sim (m_sim m1)) (co_ep (w_sim (m_sim m1)))) = true ->
  fst (run (corr_super cend n mapping) k m1 (CReset :: cs)) =
  fst (run (corr_super cend n mapping) k m2 (CReset :: cs)).
Proof. exact corridor_stack_super. Qed.
Print Assumptions C01_corridor_stack_super.

Theorem C01_corridor_stack_comm : forall cend n k (m1 m2 : mstate (cst cstate Z)) cs,
  mgr_ok (corr_comm cend n) k ->
  same_seed (c_sim (m_sim m1)) (c_sim (m_sim m2)) ->
  admb cend n (co_draws (c_sim (m_sim m1)) (co_ep (c_sim (m_sim m1)))) = true ->
  fst (run (corr_comm cend n) k m1 (CReset :: cs)) = fst (run (corr_comm cend n) k m2 (CReset :: cs)).
Proof. exact corridor_stack_comm. Qed.
Print Assumptions C01_corridor_stack_comm.

Theorem C01_corridor_stack_sar : forall cend n ks k (m1 m2 : mstate cstate) cs,
  mgr_ok (corr_sar cend n ks) k ->
  same_seed (m_sim m1) (m_sim m2) ->
  admb cend n (co_draws (m_sim m1) (co_ep (m_sim m1))) = true ->
  fst (run (corr_sar cend n ks) k m1 (CReset :: cs)) = fst (run (corr_sar cend n ks) k m2 (CReset :: cs)).
Proof. exact corridor_stack_sar. Qed.
Print Assumptions C01_corridor_stack_sar.

Theorem C01_corridor_stack_deep : forall cend n ks mapping k
  (m1 m2 : mstate (wst (cst cstate upoint) (cact upoint))) cs,
  mgr_ok (corr_deep cend n ks mapping) k ->
  same_seed (c_sim (w_sim (m_sim m1))) (c_sim (w_sim (m_sim m2))) ->
  admb cend n (co_draws (c_sim (w_sim (m_sim m1))) (co_ep (c_sim (w_sim (m_sim m1))))) = true ->
  fst (run (corr_deep cend n ks mapping) k m1 (CReset :: cs)) =
  fst (run (corr_deep cend n ks mapping) k m2 (CReset :: cs)).
Proof. exact corridor_stack_deep. Qed.
Print Assumptions C01_corridor_stack_deep.

Theorem C01_corridor_stack_super_used_vs_fresh : forall cend n mapping k (w0 : wst cstate Z) h cs f j,
  mgr_ok (corr_super cend n mapping) k -> admb cend n (f j) = true ->
  fst (run (corr_super cend n mapping) k
           (mw_reseed (snd (run (corr_super cend n mapping) k (init w0) h)) f j) (CReset :: cs)) =
  fst (run (corr_super cend n mapping) k (init (w_reseed w0 f j)) (CReset :: cs)).
Proof. exact corridor_stack_super_used_vs_fresh. Qed.
Print Assumptions C01_corridor_stack_super_used_vs_fresh.

(* get_done is pure on every level of the stacks, so the C01 / C07 manager theorems apply to them;
   e.g. no agent of the three-layer stack is reported done twice in an episode *)
Theorem C01_corridor_stack_done_stable : forall cend n mapping ks,
  done_stable (corr_super cend n mapping) /\ done_stable (corr_comm cend n) /\
  done_stable (corr_sar cend n ks) /\ done_stable (corr_deep cend n ks mapping).
Proof. exact corridor_stack_done_stable. Qed.
Print Assumptions C01_corridor_stack_done_stable.

Theorem C01_corridor_deep_done_once_turn : forall cend n ks mapping w0 cs,
  in_protocol (trace (corr_deep cend n ks mapping) MTurn (init w0) Fresh cs) ->
  NoDup (ep_dones (trace (corr_deep cend n ks mapping) MTurn (init w0) Fresh cs) []).
Proof. exact corridor_deep_done_once_turn. Qed.
Print Assumptions C01_corridor_deep_done_once_turn.

(* non-vacuity: end = 5, three agents drawn onto cells 1, 2, 3.  All-step: agent0 stays (-1), agent1
   moves RIGHT into agent2 (-5, agent2 -2), agent2 moves RIGHT onto the last cell (+25): reported done
   with 25 - 2 = 23 and taken off the array; then agent0 bumps into agent1 (-5 / -2) and agent1 moves
   on (-1): -3.  Turn-based: penalties are delivered on the offended agent's own turn; agent2 arrives
   on its turn and is reported done, with its 25, when the cycle comes back to it.  Both histories
   are in protocol and polite, all draws admissible. *)
Example C01_corridor_nonvacuous :
  let S := corridor_sim 5 3 in
  (forall j, admb 5 3 (co_draws nv_s0 j) = true) /\ co_bad nv_s0 = false /\
  in_protocol (trace S MAll (init nv_s0) Fresh Corridor_proofs.nv_cs) /\
  polite [] (trace S MAll (init nv_s0) Fresh Corridor_proofs.nv_cs) /\
  fst (run S MAll (init nv_s0) Corridor_proofs.nv_cs) =
    [RObs [(0%nat, mkobs 1 0 1); (1%nat, mkobs 2 1 1); (2%nat, mkobs 3 1 0)];
     ROut {| o_obs := [(0%nat, mkobs 1 0 1); (1%nat, mkobs 2 1 0); (2%nat, mkobs 4 0 0)];
             o_rew := [(0%nat, -1); (1%nat, -5); (2%nat, 23)];
             o_done := [(0%nat, false); (1%nat, false); (2%nat, true)];
             o_info := [(0%nat, tt); (1%nat, tt); (2%nat, tt)]; o_all := false |};
     ROut {| o_obs := [(0%nat, mkobs 1 0 0); (1%nat, mkobs 3 0 0)];
             o_rew := [(0%nat, -5); (1%nat, -3)];
             o_done := [(0%nat, false); (1%nat, false)];
             o_info := [(0%nat, tt); (1%nat, tt)]; o_all := false |}] /\
  map snd (fst (run_snap S (fun s => s) MAll (init nv_s0) Corridor_proofs.nv_cs)) =
    [{| sn_pos := [1; 2; 3]; sn_arr := [None; Some 0%nat; Some 1%nat; Some 2%nat; None];
        sn_rew := [0; 0; 0]; sn_bad := false |};
     {| sn_pos := [1; 2; 4]; sn_arr := [None; Some 0%nat; Some 1%nat; None; None];
        sn_rew := [0; 0; 0]; sn_bad := false |};
     {| sn_pos := [1; 3; 4]; sn_arr := [None; Some 0%nat; None; Some 1%nat; None];
        sn_rew := [0; 0; 0]; sn_bad := false |}] /\
  m_done (snd (run S MAll (init nv_s0) Corridor_proofs.nv_cs)) = [2%nat] /\
  in_protocol (trace S MTurn (init nv_s0) Fresh nv_cs_turn) /\
  polite [] (trace S MTurn (init nv_s0) Fresh nv_cs_turn) /\
  fst (run S MTurn (init nv_s0) nv_cs_turn) =
    [RObs [(0%nat, mkobs 1 0 1)];
     mkout1 1 (mkobs 2 1 1) (-2) false; mkout1 2 (mkobs 3 1 0) (-2) false;
     mkout1 0 (mkobs 1 0 1) (-5) false; mkout1 1 (mkobs 2 1 0) (-5) false;
     ROut {| o_obs := [(2%nat, mkobs 4 1 0); (0%nat, mkobs 1 0 0)];
             o_rew := [(2%nat, 25); (0%nat, -1)];
             o_done := [(2%nat, true); (0%nat, false)];
             o_info := [(2%nat, tt); (0%nat, tt)]; o_all := false |}].
Proof. exact corridor_nonvacuous. Qed.
