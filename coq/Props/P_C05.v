(* C05 — Flattening round-trips and lands inside the flattened Box.
   Only statements; proofs are in Proofs/Flatten_proofs.v. *)
From Coq Require Import ZArith List Bool.
From Abm Require Import Base.Sx Spaces.Space Spaces.Ravel Spaces.Flatten
     Proofs.Ravel_proofs Proofs.Flatten_proofs.
Import ListNotations.
Open Scope Z_scope.

(* the flattened point has the space's flat dimension *)
Theorem C05_length :
  forall s p, wf s = true -> member s p = true -> length (fst (flatten s p)) = flatdim s.
Proof. exact flatten_length. Qed.

(* ... and is a member of the flattened Box (same numpy kind, same length, within bounds) *)
Theorem C05_in_box :
  forall s p, wf s = true -> member s p = true ->
    box_member (flatten_space s) (flatten s p) = true.
Proof. exact flatten_in_box. Qed.

Theorem C05_box_has_flatdim :
  forall s, wf s = true -> length (fst (flatten_space s)) = flatdim s.
Proof. exact fspace_length. Qed.

(* unflattening returns the same structure and the same values *)
Theorem C05_roundtrip :
  forall s p, wf s = true -> member s p = true ->
    same_values p (unflatten s (fst (flatten s p)) (snd (flatten s p))) = true.
Proof. exact flatten_roundtrip. Qed.

(* also when the vector was upcast to float by an enclosing concatenation *)
Theorem C05_roundtrip_upcast :
  forall s p, wf s = true -> member s p = true ->
    same_values p (unflatten s (castv true (has_float s) (fst (flatten s p))) true) = true.
Proof. exact flatten_roundtrip_upcast. Qed.

(* the flattened Box is integer-typed exactly when every leaf is *)
Theorem C05_int_iff :
  forall s, wf s = true -> snd (flatten_space s) = has_float s.
Proof. exact fspace_kind. Qed.

Theorem C05_kind_matches :
  forall s p, wf s = true -> member s p = true -> snd (flatten s p) = has_float s.
Proof. exact flatten_kind. Qed.

(* all-integer spaces: unflatten (flatten p) is p itself, hence a member of the space *)
Theorem C05_int_exact :
  forall s p, wf s = true -> member s p = true -> has_float s = false ->
    to_point s (unflatten s (fst (flatten s p)) (snd (flatten s p))) = Some p.
Proof. exact flatten_roundtrip_int. Qed.

(* the executable checker applied to the model's own behaviour *)
Theorem C05_chk_model :
  forall s p, wf s = true -> member s p = true ->
    let fl := flatten s p in
    let fs := flatten_space s in
    let u := unflatten s (fst fl) (snd fl) in
    chk_C05 s p (flatdim s) (snd fl) (fst fl) (box_member fs fl) fs u
            (if has_float s then 2
             else match to_point s u with
                  | Some q => if member s q then 1 else 0
                  | None => 0
                  end) = true.
Proof. exact chk_C05_model. Qed.

Example C05_nonvacuous :
  let s := Dict [Discrete 3; Tuple [BoxF [(-512, 512)]; MultiDiscrete [2; 2]]] in
  let p := PT [PI 2; PT [PF [100]; PV [1; 0]]] in
  wf s = true /\ member s p = true /\ has_float s = true /\
  flatten s p = ([2048; 100; 1024; 0], true) /\
  flatten_space s = ([(0, 2048); (-512, 512); (0, 1024); (0, 1024)], true).
Proof. vm_compute. repeat split. Qed.

Print Assumptions C05_length.
Print Assumptions C05_in_box.
Print Assumptions C05_box_has_flatdim.
Print Assumptions C05_roundtrip.
Print Assumptions C05_roundtrip_upcast.
Print Assumptions C05_int_iff.
Print Assumptions C05_kind_matches.
Print Assumptions C05_int_exact.
Print Assumptions C05_chk_model.
