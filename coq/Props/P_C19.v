(* C19 — Invalid configuration is rejected and the overlap relation is symmetric; the package's
   Box accepts exactly the scalars, lists and arrays of matching shape within its bounds.
   Only statements; every proof is [exact]/[apply] of a lemma from Proofs/. *)
From Coq Require Import ZArith QArith List Bool.
From Abm Require Import Base.Sx Spaces.PyVal Spaces.BoxMem Grid.Overlap Grid.Validate
  Proofs.Overlap_proofs Proofs.BoxMem_proofs Proofs.Validate_proofs.
Import ListNotations.
Open Scope Z_scope.

(* ===== overlap: the table stored by the Grid.overlapping setter (Grid/Overlap.v) =========
   A table is an association list standing for a Python dict; a Python dict has distinct keys,
   which is the hypothesis NoDup (map fst tbl).  (Without it the list is no dict: with keys
   repeated, lookup sees the first entry only and C19_symmetrise_minimal_any is what holds.) *)
Theorem C19_overlap_symmetric : forall tbl a b,
  NoDup (map fst tbl) ->
  ov_allowed (ov_symmetrise tbl) a b = ov_allowed (ov_symmetrise tbl) b a.
Proof. exact overlap_symmetric. Qed.

Theorem C19_overlap_closed_form : forall tbl a b,
  NoDup (map fst tbl) ->
  ov_allowed (ov_symmetrise tbl) a b = ov_allowed tbl a b || ov_allowed tbl b a.
Proof. exact allowed_symmetrise. Qed.

Theorem C19_symmetrise_extends : forall tbl a b,
  ov_allowed tbl a b = true -> ov_allowed (ov_symmetrise tbl) a b = true.
Proof. exact symmetrise_extends. Qed.

Theorem C19_symmetrise_minimal : forall tbl a b,
  NoDup (map fst tbl) ->
  ov_allowed (ov_symmetrise tbl) a b = true ->
  ov_allowed tbl a b = true \/ ov_allowed tbl b a = true.
Proof. exact symmetrise_minimal. Qed.

Theorem C19_symmetrise_minimal_any : forall tbl a b,
  ov_allowed (ov_symmetrise tbl) a b = true ->
  ov_allowed tbl a b = true \/ exists s, In (b, s) tbl /\ In a s.
Proof. exact symmetrise_minimal_gen. Qed.

Theorem C19_symmetrise_reverse : forall tbl a b s,
  In (b, s) tbl -> In a s -> ov_allowed (ov_symmetrise tbl) a b = true.
Proof. exact symmetrise_reverse. Qed.

(* Grid.query: a cell is available to A iff every occupant's encoding is related to A's *)
Theorem C19_query_iff : forall tbl a occ,
  ov_query tbl a occ = true <-> (forall o, In o occ -> ov_allowed tbl a o = true).
Proof. exact query_iff. Qed.

(* a cell holding only B is available to A exactly when a cell holding only A is available to B *)
Theorem C19_query_symmetric : forall tbl a b,
  NoDup (map fst tbl) ->
  ov_query (ov_symmetrise tbl) a [b] = ov_query (ov_symmetrise tbl) b [a].
Proof. exact query_symmetric. Qed.

(* the whole setter on an arbitrary Python value (int or set values, one-sided entries, wrong
   types): it accepts exactly well-formed tables, and what it stores is the either-direction
   closure of what was supplied -- hence symmetric.  nodupZ (int_keys v): v is a Python dict. *)
Theorem C19_setter_accepts : forall v,
  fst (overlap_setter v) = Accept <-> dom_overlapping v = true.
Proof. intro v. rewrite <- setter_accepts. symmetry. apply accepted_true. Qed.

Theorem C19_setter_stores_closure : forall v t a b,
  nodupZ (int_keys v) = true -> overlap_setter v = (Accept, t) ->
  ov_allowed t a b = related v a b /\ ov_allowed t a b = ov_allowed t b a.
Proof.
  intros v t a b Hn H. split; [exact (setter_related v t a b Hn H)|].
  rewrite (setter_related v t a b Hn H), (setter_related v t b a Hn H). apply related_sym.
Qed.

(* ===== Box membership (Spaces/BoxMem.v), repaired code ================================== *)
Theorem C19_box_contains_iff : forall B x,
  box_contains B x = BOk true <->
  exists sh vs, candidate_point x = Some (sh, vs) /\ sh = b_shape B /\
                kind_ok B x vs = true /\ Within vs (b_low B) (b_high B).
Proof. exact box_contains_iff. Qed.

(* the code as found (finding F7): the same statement with the exact side condition ... *)
Theorem C19_box_prefix_iff : forall B x, f7_class B x = false ->
  (box_contains_prefix B x = BOk true <->
   exists sh vs, candidate_point x = Some (sh, vs) /\ sh = b_shape B /\
                 kind_ok B x vs = true /\ Within vs (b_low B) (b_high B)).
Proof. exact box_prefix_iff. Qed.

(* ... which holds whenever the components of a sequence are integral, or the Box is a float
   Box ... *)
Theorem C19_box_side_condition_integral : forall B x,
  (forall sh vs, point_of x = Some (sh, vs) -> forallb Qintegral vs = true) ->
  f7_class B x = false.
Proof. exact f7_integral. Qed.

Theorem C19_box_side_condition_float : forall B x,
  is_int_dtype (b_dt B) = false -> f7_class B x = false.
Proof. exact f7_float_box. Qed.

(* ... and is exact: on the excluded class the code as found answers True for a non-point;
   off it the two versions agree *)
Theorem C19_box_f7_exact : forall B x, f7_class B x = true ->
  box_contains_prefix B x = BOk true /\ box_spec B x = false.
Proof. exact prefix_f7. Qed.

Theorem C19_box_repair_conservative : forall B x,
  f7_class B x = false -> box_contains_prefix B x = box_contains B x.
Proof. exact prefix_agrees. Qed.

(* Box(0, 5, (1,), int64).contains([5.5]) = True on the code as found *)
Theorem C19_box_contains_refuted :
  exists B x, box_wf B = true /\ chk_C19_box B x (box_contains_prefix B x) = false.
Proof. exact box_prefix_refuted. Qed.

(* ===== configuration checks (Grid/Validate.v) ========================================== *)
(* every attribute at once: the transcribed check accepts exactly the documented domain *)
Theorem C19_validators : forall a v, validate a v = Accept <-> domain a v = true.
Proof. exact validate_iff. Qed.

(* the same, spelled out for the attributes the property names *)
Theorem C19_valid_id : forall v, validate_id v = Accept <-> exists c, v = PStr c.
Proof. exact valid_id. Qed.

Theorem C19_valid_agents : forall v,
  validate_agents v = Accept <->
  exists l, v = PDict l /\ forall k a, In (k, a) l -> exists c, k = PStr c /\ a = PAgent c.
Proof. exact valid_agents. Qed.

Theorem C19_valid_encoding : forall v,
  validate_encoding v = Accept <-> exists z, v = PInt z /\ z <> -2 /\ z <> -1 /\ z <> 0.
Proof. exact valid_encoding. Qed.

Theorem C19_valid_strength_accuracy : forall v,
  (validate_attack_strength v = Accept <->
   (exists z, v = PInt z /\ (z = 0 \/ z = 1)) \/
   (exists q, v = PFloat q /\ (0 <= q)%Q /\ (q <= 1)%Q)) /\
  (validate_attack_accuracy v = Accept <->
   (exists z, v = PInt z /\ (z = 0 \/ z = 1)) \/
   (exists q, v = PFloat q /\ (0 <= q)%Q /\ (q <= 1)%Q)).
Proof. intro v. split; exact (valid_unit v). Qed.

Theorem C19_valid_ranges : forall v,
  (validate_view_range v = Accept <-> v = PStr 1 \/ exists z, v = PInt z /\ 0 <= z) /\
  (validate_move_range v = Accept <-> v = PStr 1 \/ exists z, v = PInt z /\ 0 <= z) /\
  (validate_attack_range v = Accept <-> v = PStr 1 \/ exists z, v = PInt z /\ 0 <= z).
Proof. intro v. repeat split; try exact (proj1 (valid_range v)); exact (proj2 (valid_range v)). Qed.

Theorem C19_valid_initial_health : forall v,
  validate_initial_health v = Accept <->
  v = PNone \/ v = PInt 1 \/ exists q, v = PFloat q /\ (0 < q)%Q /\ (q <= 1)%Q.
Proof. exact valid_initial_health. Qed.

Theorem C19_valid_orientation : forall v,
  validate_orientation v = Accept <->
  exists q, one_value v = Some q /\ (q == 1 \/ q == 2 \/ q == 3 \/ q == 4)%Q.
Proof. exact valid_orientation. Qed.

Theorem C19_valid_null_point : forall s v,
  validate_null_point s v = Accept <->
  truthy v = Some false \/
  (truthy v = Some true /\
   match s with
   | NDiscrete n => discrete_contains n v = true
   | NBox B => box_spec B v = true
   end).
Proof. exact valid_null_point. Qed.

Theorem C19_valid_attack_mapping : forall encs v,
  validate_attack_mapping encs v = Accept <->
  exists l, v = PDict l /\
    forall k a, In (k, a) l ->
      mentions_enc encs k = true /\
      ((exists z, a = PInt z /\ In z encs) \/
       (exists s, a = PSet s /\ forall e, In e s -> mentions_enc encs e = true)).
Proof. exact valid_attack_mapping. Qed.

(* ===== the executable checkers accept the model's behaviour ============================= *)
Theorem chk_C19_model :
  (forall a v, chk_C19_validate a v (outcome_code (validate a v)) = true) /\
  (forall v univ qs,
     nodupZ (int_keys v) = true ->
     forallb (fun z => memZ z univ) (mentioned v) = true ->
     chk_C19_overlap v univ qs (fst (overlap_behaviour v univ qs))
                     (snd (overlap_behaviour v univ qs)) = 0) /\
  (forall B x, chk_C19_box B x (box_contains B x) = true).
Proof. exact (conj chk_validate_model (conj chk_overlap_model chk_box_model)). Qed.

(* ===== non-vacuity ======================================================================= *)
(* a one-sided table {1: {2, 3}, 3: 1}: 2 -> 1 and 1 -> 3 are added, nothing else *)
Example C19_overlap_nonvacuous :
  let t := [(1, [2; 3]); (3, [1])] in
  NoDup (map fst t) /\
  ov_allowed t 2 1 = false /\ ov_allowed (ov_symmetrise t) 2 1 = true /\
  ov_allowed (ov_symmetrise t) 2 3 = false /\
  ov_query (ov_symmetrise t) 1 [2; 3] = true /\ ov_query (ov_symmetrise t) 2 [1; 3] = false /\
  overlap_setter (PDict [(PInt 1, PSet [PInt 2; PInt 3]); (PInt 3, PInt 1)])
  = (Accept, ov_symmetrise t).
Proof.
  cbv zeta. split; [repeat constructor; simpl; intuition discriminate|]. vm_compute. repeat split.
Qed.

(* the F7 witness: in the class, accepted by the code as found, refused by the repaired code;
   and an ordinary point of a 2-component Box given as a nested mixture *)
Example C19_box_nonvacuous :
  f7_class f7_box f7_x = true /\
  box_contains_prefix f7_box f7_x = BOk true /\ box_contains f7_box f7_x = BOk false /\
  box_contains f7_box (PArr (DFloat 64) [1] [11 # 2]) = BOk false /\
  box_contains f7_box (PList [PFloat 5]) = BOk true /\
  let B := {| b_dt := DFloat 32; b_shape := [2]; b_low := [0%Q; (-3)%Q];
             b_high := [5%Q; (5 # 2)%Q] |} in
  box_wf B = true /\ box_contains B (PTuple [PNpInt 5; PFloat (5 # 2)]) = BOk true /\
  box_contains B (PList [PInt 5; PFloat (3)]) = BOk false /\
  box_contains B (PArr (DInt 64) [2] [5; 2]%Q) = BOk false.
Proof. vm_compute. repeat split. Qed.

Example C19_validate_nonvacuous :
  validate AEncoding (PInt 3) = Accept /\ validate AEncoding (PInt (-1)) = Reject /\
  validate AEncoding (PBool true) = Reject /\
  validate AAttackStrength (PFloat (1 # 2)) = Accept /\
  validate AAttackStrength (PFloat (3 # 2)) = Reject /\
  validate AViewRange (PStr 1) = Accept /\ validate AViewRange (PArr (DInt 64) [2] [1; 2]%Q) = RaiseValue /\
  validate (AAttackMapping [1; 2]) (PDict [(PInt 1, PSet [PInt 2])]) = Accept /\
  validate (AAttackMapping [1; 2]) (PDict [(PInt 1, PSet [PInt 3])]) = Reject /\
  validate (AAttackMapping [1; 2]) (PDict [(PInt 1, PList [PInt 2])]) = RaiseType /\
  validate (ANullAction (NBox f7_box)) (PList [PInt 7]) = Reject /\
  validate (ANullAction (NBox f7_box)) (PList [PInt 5]) = Accept.
Proof. vm_compute. repeat split. Qed.

Print Assumptions C19_overlap_symmetric.
Print Assumptions C19_overlap_closed_form.
Print Assumptions C19_symmetrise_extends.
Print Assumptions C19_symmetrise_minimal.
Print Assumptions C19_symmetrise_minimal_any.
Print Assumptions C19_symmetrise_reverse.
Print Assumptions C19_query_iff.
Print Assumptions C19_query_symmetric.
Print Assumptions C19_setter_accepts.
Print Assumptions C19_setter_stores_closure.
Print Assumptions C19_box_contains_iff.
Print Assumptions C19_box_prefix_iff.
Print Assumptions C19_box_side_condition_integral.
Print Assumptions C19_box_side_condition_float.
Print Assumptions C19_box_f7_exact.
Print Assumptions C19_box_repair_conservative.
Print Assumptions C19_box_contains_refuted.
Print Assumptions C19_validators.
Print Assumptions C19_valid_id.
Print Assumptions C19_valid_agents.
Print Assumptions C19_valid_encoding.
Print Assumptions C19_valid_strength_accuracy.
Print Assumptions C19_valid_ranges.
Print Assumptions C19_valid_initial_health.
Print Assumptions C19_valid_orientation.
Print Assumptions C19_valid_null_point.
Print Assumptions C19_valid_attack_mapping.
Print Assumptions chk_C19_model.
