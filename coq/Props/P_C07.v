(* C07 — Managers schedule turns fairly and an unfinished episode can always progress.
   Only statements; the proofs are in Proofs/Managers_proofs.v (search loops),
   Proofs/Managers_hist.v and Proofs/MgrCheck_proofs.v.  Vocabulary as in Props/P_C01.v;
   [order Sim] is the list of learning agents in listing order (the cycle of the turn-based
   manager), [m_ptr m] the position in it of the next agent to consider, [tinv Sim m] the
   invariant of the turn-based manager during an episode (pointer inside the cycle,
   non-learning entities in done_agents, some learning agent not in done_agents);
   Props/P_C01.v (C01_invariant_turn) shows that every in-protocol history maintains it. *)
From Coq Require Import ZArith List Bool Arith.
From Abm Require Import Base.Sx Ctl.Managers Ctl.ScriptSim Ctl.MgrCheck
     Proofs.Managers_proofs Proofs.Managers_hist Proofs.MgrCheck_proofs.
Import ListNotations.
Open Scope nat_scope.

Section AnySimulation.
  Context {St Obs Info Act : Type}.
  Variable Sim : simulation St Obs Info Act.

  (* ---- all-step: reset reports the learning agents, in listing order; every accepted step
          reports exactly the agents not in done_agents before the call ---- *)
  Theorem C07_allstep_reset_reports_learning : forall m,
    exists obs m', all_reset Sim m = (RObs obs, m') /\ map fst obs = order Sim /\
                   m_done m' = nonlearning Sim /\ m_ptr m' = m_ptr m /\
                   greach Sim (sim_reset Sim (m_sim m)) (m_sim m').
  Proof. exact (all_reset_reports_learning Sim). Qed.

  Theorem C07_allstep_reports_all_live : forall m acts sh o m',
    all_step Sim m acts sh = (ROut o, m') ->
    keys o = filter (fun a => negb (memb a (m_done m))) (agents Sim).
  Proof. exact (all_reports_all_live Sim). Qed.

  (* ---- turn-based, simulation not finished: zero or more entries done = true followed by
          exactly one more entry; that one is done = false unless __all__ is reported ---- *)
  Theorem C07_turn_shape : forall m acts o m',
    done_stable Sim -> tinv Sim m -> turn_step Sim m acts = (ROut o, m') ->
    sim_all Sim (sim_step Sim (m_sim m) acts) = false ->
    exists front last b,
      o_done o = map (fun a => (a, true)) front ++ [(last, b)] /\
      (b = true -> o_all o = true) /\ (b = false -> o_all o = false).
  Proof. exact (turn_shape Sim). Qed.

  (* ---- turns go round in listing order: the search passes over k consecutive positions of
          the cycle starting at the pointer; every agent passed over before the last is in
          done_agents afterwards (it was there already, or it is reported done in this very
          output: [front]); the last one was not in done_agents, is the final key of the output
          and, when its entry is done = false, it is the agent whose turn it is (not in
          done_agents afterwards); the pointer ends right behind it ---- *)
  Theorem C07_turn_order : forall m acts o m',
    done_stable Sim -> tinv Sim m -> turn_step Sim m acts = (ROut o, m') ->
    sim_all Sim (sim_step Sim (m_sim m) acts) = false ->
    let L := length (order Sim) in
    exists k front b, 1 <= k <= S L /\ m_ptr m' = (m_ptr m + k) mod L /\
      (forall i, i < k - 1 -> In (nth ((m_ptr m + i) mod L) (order Sim) 0) (m_done m')) /\
      ~ In (nth ((m_ptr m + (k - 1)) mod L) (order Sim) 0) (m_done m) /\
      keys o = front ++ [nth ((m_ptr m + (k - 1)) mod L) (order Sim) 0] /\
      o_done o = map (fun a => (a, true)) front
                 ++ [(nth ((m_ptr m + (k - 1)) mod L) (order Sim) 0, b)] /\
      (b = true -> o_all o = true) /\
      (b = false -> o_all o = false /\
                    ~ In (nth ((m_ptr m + (k - 1)) mod L) (order Sim) 0) (m_done m')).
  Proof. exact (turn_order Sim). Qed.

  (* ---- after reset the first turn goes to the first learning agent, whatever happened
          before; the pointer is 1 mod L (no learning agent at all: the call fails) ---- *)
  Theorem C07_turn_first_turn : forall m,
    (order Sim = [] /\ turn_reset Sim m = (RError, m)) \/
    (exists a0 rest ob m', order Sim = a0 :: rest /\
       turn_reset Sim m = (RObs [(a0, ob)], m') /\
       m_ptr m' = 1 mod length (order Sim) /\ m_done m' = nonlearning Sim /\
       greach Sim (sim_reset Sim (m_sim m)) (m_sim m')).
  Proof. exact (turn_reset_first_turn Sim). Qed.

  (* ---- dynamic order: the nominated agents minus those already done, in nomination
          order (duplicate-free nominations among the simulation's agents) ---- *)
  Theorem C07_dyn_reset_reports_nominated : forall m,
    exists obs m', dyn_reset Sim m = (RObs obs, m') /\
                   map fst obs = sim_next Sim (sim_reset Sim (m_sim m)) /\ m_done m' = [] /\
                   greach Sim (sim_reset Sim (m_sim m)) (m_sim m').
  Proof. exact (dyn_reset_reports_nominated Sim). Qed.

  Theorem C07_dyn_reports_nominated : forall m acts o m',
    nom_ok Sim (sim_step Sim (m_sim m) acts) -> dyn_step Sim m acts = (ROut o, m') ->
    sim_all Sim (sim_step Sim (m_sim m) acts) = false ->
    keys o = filter (fun a => negb (memb a (m_done m))) (sim_next Sim (sim_step Sim (m_sim m) acts)).
  Proof. exact (dyn_reports_nominated Sim). Qed.

  (* ---- progress: __all__ = false -> some reported agent has done = false and is not in
          done_agents afterwards, so its action will be accepted ---- *)
  Theorem C07_progress_all : forall m acts sh o m',
    all_step Sim m acts sh = (ROut o, m') -> o_all o = false ->
    exists a, In (a, false) (o_done o) /\ ~ In a (m_done m').
  Proof. exact (all_progress Sim). Qed.

  Theorem C07_progress_turn : forall m acts o m',
    done_stable Sim -> tinv Sim m -> turn_step Sim m acts = (ROut o, m') -> o_all o = false ->
    exists a, In (a, false) (o_done o) /\ ~ In a (m_done m').
  Proof. exact (turn_progress Sim). Qed.

  (* dynamic order: under the condition the manager's docstring puts on the simulation *)
  Theorem C07_progress_dyn : forall m acts o m',
    done_stable Sim -> nom_ok Sim (sim_step Sim (m_sim m) acts) ->
    dyn_step Sim m acts = (ROut o, m') -> o_all o = false ->
    (exists a, In a (sim_next Sim (sim_step Sim (m_sim m) acts)) /\ ~ In a (m_done m) /\
               sim_done Sim (sim_step Sim (m_sim m) acts) a = false) ->
    exists a, In (a, false) (o_done o) /\ ~ In a (m_done m').
  Proof. exact (dyn_progress Sim). Qed.

  (* ---- every call returns: the turn search (fuel = number of learning agents + 1) never
          runs out of fuel under the invariant; all other loops are structural ---- *)
  Theorem C07_turn_search_terminates : forall s d p o,
    length (order Sim) <> 0 -> p < length (order Sim) -> incl (nonlearning Sim) d ->
    (exists a, In a (order Sim) /\ ~ In a d) ->
    turn_search Sim (S (length (order Sim))) s d p o <> SFuel.
  Proof. exact (turn_search_terminates Sim). Qed.

  Theorem C07_turn_step_returns : forall m acts,
    tinv Sim m -> fst (turn_step Sim m acts) <> ROutOfFuel.
  Proof. exact (turn_search_no_fuel_error Sim). Qed.
End AnySimulation.

(* ---- the tree before the fix of finding F1 (reset kept the cycle position) is refuted: after
        reset; step; reset the old model gives the first turn to a2 (clause 711) ---- *)
Theorem C07_first_turn_prefix_refuted :
  chk_run f1_sc MTurnPrefix 7 f1_cs = 711%Z /\ chk_run f1_sc MTurn 7 f1_cs = 0%Z /\
  fst (run (script_sim f1_sc) MTurnPrefix (init (ss_init f1_sc)) f1_cs)
  = [RObs [(0, 0%Z)];
     ROut {| o_obs := [(1, 101%Z)]; o_rew := [(1, 1%Z)]; o_done := [(1, false)];
             o_info := [(1, (-101)%Z)]; o_all := false |};
     RObs [(2, 2%Z)]].
Proof. exact f1_refuted. Qed.

(* ---- the executable checker (family 7: clauses 701-705, 710-712) accepts the model's own
        history, for every script, every manager and every list of calls; hypotheses as for
        chk_C01_model in Props/P_C01.v ---- *)
Theorem chk_C07_model : forall sc k cs,
  wf_script k sc = true -> forallb (wf_call k) cs = true ->
  let r := ss_run sc k (init (ss_init sc)) cs in
  chk_hist sc k 7 ghost0 cs (fst r) (s_steps (m_sim (snd r))) (s_reads (m_sim (snd r))) = 0%Z.
Proof. exact chk_C07_model_all. Qed.

Example C07_nonvacuous :
  let t := trace (script_sim nv_sc) MTurn (init (ss_init nv_sc)) Fresh nv_cs in
  in_protocol t /\ done_stable (script_sim nv_sc) /\
  map te_resp t = nv_expected /\
  (forall e, In e t -> te_ph e = Live -> tinv (script_sim nv_sc) (te_pre e)) /\
  chk_run nv_sc MTurn 1 nv_cs = 0%Z /\ chk_run nv_sc MTurn 7 nv_cs = 0%Z.
Proof. exact nv_turn. Qed.

Print Assumptions C07_allstep_reset_reports_learning.
Print Assumptions C07_allstep_reports_all_live.
Print Assumptions C07_turn_shape.
Print Assumptions C07_turn_order.
Print Assumptions C07_turn_first_turn.
Print Assumptions C07_dyn_reset_reports_nominated.
Print Assumptions C07_dyn_reports_nominated.
Print Assumptions C07_progress_all.
Print Assumptions C07_progress_turn.
Print Assumptions C07_progress_dyn.
Print Assumptions C07_turn_search_terminates.
Print Assumptions C07_turn_step_returns.
Print Assumptions C07_first_turn_prefix_refuted.
Print Assumptions chk_C07_model.

(* ==== fairness over ROUNDS of the turn-based manager (proofs: Proofs/Fairness_proofs.v) ====
   Any simulation with stable done flags, any in-protocol history [cs] from the initial state,
   [t] its trace; positions i < j in t in the same episode ([same_episode t i j]: no response
   strictly between them is a successful reset; rejected, failing and repeated calls may occur
   anywhere).  [has_turn e a]: the response of entry e is an output with __all__ = false that
   reports a with done = false, i.e. a is the agent who may act next.  "Live" means: not in the
   manager's done set ([m_done]) -- for the second theorem after entry j, the weakest reading
   (the done set only grows within an episode). *)
From Abm Require Import Proofs.Fairness_proofs.
Open Scope nat_scope.

Section Rounds.
  Context {St Obs Info Act : Type}.
  Variable Sim : simulation St Obs Info Act.

  (* ---- each such output gives the turn to exactly one agent: a learning agent that is not in
          the done set before the call nor after it ---- *)
  Theorem C07_turn_one_at_a_time : done_stable Sim -> forall s0 cs,
    let t := trace Sim MTurn (init s0) Fresh cs in
    in_protocol t ->
    forall j ej a, nth_error t j = Some ej -> has_turn ej a ->
    In a (order Sim) /\ ~ In a (m_done (te_pre ej)) /\ ~ In a (m_done (te_post ej)) /\
    forall a', has_turn ej a' -> a' = a.
  Proof. exact (one_turn_per_output Sim). Qed.

  (* ---- once per round.  If a has the turn at entry i and again at entry j > i of the same
          episode, then every other learning agent b that is not in the done set after entry
          j had the turn at some entry strictly between; and if a had no turn in between
          (two CONSECUTIVE turns of a) b had it at exactly one entry.  So no live agent is
          passed over while another is served twice.  (Agents in the done set after j were
          reported done=true on the way or earlier: C07_turn_order, C01_done_bookkeeping.) ---- *)
  Theorem C07_turn_fair_round : done_stable Sim -> forall s0 cs,
    let t := trace Sim MTurn (init s0) Fresh cs in
    in_protocol t ->
    forall i j ei ej a, i < j -> nth_error t i = Some ei -> nth_error t j = Some ej ->
    has_turn ei a -> has_turn ej a -> same_episode t i j ->
    forall b, In b (order Sim) -> b <> a -> ~ In b (m_done (te_post ej)) ->
    (exists l e, i < l < j /\ nth_error t l = Some e /\ has_turn e b) /\
    ((forall l e, i < l < j -> nth_error t l = Some e -> ~ has_turn e a) ->
     forall l1 l2 e1 e2, i < l1 < j -> i < l2 < j ->
       nth_error t l1 = Some e1 -> nth_error t l2 = Some e2 ->
       has_turn e1 b -> has_turn e2 b -> l1 = l2).
  Proof. exact (fair_round Sim). Qed.

  (* ---- the sequence of turns: if a has the turn at entry i, c at entry j > i of the same
          episode and nobody in between, then c is the first agent behind a in cyclic listing
          order that is not in the done set: the D positions passed over all hold agents that
          are in the done set after entry j ---- *)
  Theorem C07_turn_next_in_cycle : done_stable Sim -> forall s0 cs,
    let t := trace Sim MTurn (init s0) Fresh cs in
    in_protocol t ->
    forall i j ei ej a c, i < j -> nth_error t i = Some ei -> nth_error t j = Some ej ->
    has_turn ei a -> has_turn ej c -> same_episode t i j ->
    (forall l e b, i < l < j -> nth_error t l = Some e -> ~ has_turn e b) ->
    let L := length (order Sim) in
    exists pa D, pa < L /\ a = nth pa (order Sim) 0 /\ c = nth ((pa + 1 + D) mod L) (order Sim) 0 /\
      ~ In a (m_done (te_post ei)) /\ ~ In c (m_done (te_post ej)) /\
      forall x, x < D -> In (nth ((pa + 1 + x) mod L) (order Sim) 0) (m_done (te_post ej)).
  Proof. exact (next_in_cycle Sim). Qed.
End Rounds.

(* ---- non-vacuity: five learning agents under the turn-based manager; a0 has the turn at
        entry 5 and again at entry 8; in between a1 and a3 finish and are passed over (done set
        [1; 3] afterwards), the live a2 and a4 get one turn each (entries 6 and 7) ---- *)
Example C07_fair_round_nonvacuous :
  let SS := script_sim fr_sc in
  let t := trace SS MTurn (init (ss_init fr_sc)) Fresh fr_cs in
  done_stable SS /\ in_protocol t /\
  map turn_of t = [[]; [1]; [2]; [3]; [4]; [0]; [2]; [4]; [0]] /\
  map (fun e => m_done (te_post e)) t = [[]; []; []; []; []; []; [1]; [1; 3]; [1; 3]] /\
  order SS = [0; 1; 2; 3; 4] /\
  same_episode t 5 8 /\
  exists ei ej, nth_error t 5 = Some ei /\ nth_error t 8 = Some ej /\
    has_turn ei 0 /\ has_turn ej 0 /\
    ~ In 2 (m_done (te_post ej)) /\ ~ In 4 (m_done (te_post ej)) /\
    In 1 (m_done (te_post ej)) /\ In 3 (m_done (te_post ej)).
Proof. exact fr_nonvacuous. Qed.

Print Assumptions C07_turn_one_at_a_time.
Print Assumptions C07_turn_fair_round.
Print Assumptions C07_turn_next_in_cycle.
