(* C08 — Reset starts a fresh episode that does not depend on earlier episodes.
   Statements only; proofs in Proofs/Reset_proofs.v (manager layer, arbitrary simulation).
   The reset theorems of the other layers are stated with their properties and re-exported in the
   second half of this file as they are merged: placement states (C13: the outcome of a reset is
   a function of configuration, key order and draws only; C13_legal), super-agent wrapper (C14),
   communication wrapper (C20), gym/OpenSpiel adapters (C15). *)
From Coq Require Import ZArith List Bool Arith Lia.
From Abm Require Import Base.Sx Ctl.Managers Ctl.ScriptSim Proofs.Reset_proofs.
Import ListNotations.

(* reset of every manager forgets done_agents and the turn pointer: the result depends only on
   the simulation's own state after its reset *)
Theorem C08_reset_indep_manager :
  forall (St Obs Info Act : Type) (Sim : simulation St Obs Info Act) k m1 m2,
  k <> MTurnPrefix -> (k = MTurn -> order Sim <> []) ->
  sim_reset Sim (m_sim m1) = sim_reset Sim (m_sim m2) ->
  fst (do_call Sim k m1 CReset) = fst (do_call Sim k m2 CReset) /\
  meq k (snd (do_call Sim k m1 CReset)) (snd (do_call Sim k m2 CReset)).
Proof. exact @reset_indep. Qed.
Print Assumptions C08_reset_indep_manager.

(* no agent is remembered as done (but the non-learning entities), the first turn goes to the
   first learning agent *)
Theorem C08_reset_state_manager :
  forall (St Obs Info Act : Type) (Sim : simulation St Obs Info Act) k m,
  k <> MTurnPrefix -> (k = MTurn -> order Sim <> []) ->
  m_done (snd (do_call Sim k m CReset)) = (match k with MDyn => [] | _ => nonlearning Sim end) /\
  (k = MTurn -> m_ptr (snd (do_call Sim k m CReset)) = (1 mod length (order Sim))%nat /\
                exists ob, fst (do_call Sim k m CReset) = RObs [(nth 0 (order Sim) 0%nat, ob)]).
Proof. exact @reset_state. Qed.
Print Assumptions C08_reset_state_manager.

(* an episode played after reset is indistinguishable, for every later call sequence, from the
   same episode on any other manager state over an equally reset simulation *)
Theorem C08_episode_indistinguishable :
  forall (St Obs Info Act : Type) (Sim : simulation St Obs Info Act) k m1 m2 cs,
  k <> MTurnPrefix -> (k = MTurn -> order Sim <> []) ->
  sim_reset Sim (m_sim m1) = sim_reset Sim (m_sim m2) ->
  fst (run Sim k m1 (CReset :: cs)) = fst (run Sim k m2 (CReset :: cs)).
Proof. exact @episode_indistinguishable. Qed.
Print Assumptions C08_episode_indistinguishable.

(* used (any history h, cut anywhere) versus newly built *)
Theorem C08_used_vs_fresh :
  forall (St Obs Info Act : Type) (Sim : simulation St Obs Info Act) k s0 h cs,
  k <> MTurnPrefix -> (k = MTurn -> order Sim <> []) ->
  sim_reset Sim (m_sim (snd (run Sim k (init s0) h))) = sim_reset Sim s0 ->
  fst (run Sim k (snd (run Sim k (init s0) h)) (CReset :: cs)) =
  fst (run Sim k (init s0) (CReset :: cs)).
Proof. exact @used_vs_fresh. Qed.
Print Assumptions C08_used_vs_fresh.

(* the turn-based manager before the repair (F1): the first turn after reset depended on the
   previous episode — refuted on a two-agent script *)
Definition f1_script : script :=
  {| sc_n := 2; sc_learn := [true; true];
     sc_rows := [ {| r_done := [false; false]; r_all := false; r_next := []; r_acc := [0; 0]%Z |} ] |}.

Theorem C08_turn_prefix_refuted :
  fst (run (script_sim f1_script) MTurnPrefix (init (ss_init f1_script)) [CReset; CReset])
  <> fst (run (script_sim f1_script) MTurnPrefix (init (ss_init f1_script)) [CReset])
     ++ fst (run (script_sim f1_script) MTurnPrefix (init (ss_init f1_script)) [CReset])
  /\ fst (run (script_sim f1_script) MTurn (init (ss_init f1_script)) [CReset; CReset])
   = fst (run (script_sim f1_script) MTurn (init (ss_init f1_script)) [CReset])
     ++ fst (run (script_sim f1_script) MTurn (init (ss_init f1_script)) [CReset]).
Proof. split; [vm_compute; discriminate|vm_compute; reflexivity]. Qed.
Print Assumptions C08_turn_prefix_refuted.

(* ---- other layers ---------------------------------------------------------------------------- *)
From Abm Require Import Ctl.Adapters Proofs.Adapters_proofs.

(* GymABS (after the repair of F5): whatever the cache held, reset leaves it exactly as a reset
   of a newly built object does *)
Theorem C08_reset_fresh_gymabs :
  forall E Obs Info Act (G : genv E Obs Info Act) e (c : gcache Obs Info),
    snd (gabs_reset G e c) = snd (gabs_reset G e gabs_fresh).
Proof. exact @gymabs_reset_fresh. Qed.
Print Assumptions C08_reset_fresh_gymabs.
