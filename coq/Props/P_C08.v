(* C08 — Reset starts a fresh episode that does not depend on earlier episodes.
   Statements only; proofs in Proofs/Reset_proofs.v (manager layer, arbitrary simulation).
   The reset theorems of the other layers are stated with their properties and re-exported in the
   second half of this file as they are merged: placement states (C13: the outcome of a reset is
   a function of configuration, key order and draws only; C13_legal), super-agent wrapper (C14),
   communication wrapper (C20), gym/OpenSpiel adapters (C15). *)
From Coq Require Import ZArith List Bool Arith Lia.
From Abm Require Import Base.Sx Ctl.Managers Ctl.ScriptSim Proofs.Reset_proofs.
Import ListNotations.

(* reset of every manager forgets done_agents and the turn pointer: the result depends only on
   the simulation's own state after its reset *)
Theorem C08_reset_indep_manager :
  forall (St Obs Info Act : Type) (Sim : simulation St Obs Info Act) k m1 m2,
  k <> MTurnPrefix -> (k = MTurn -> order Sim <> []) ->
  sim_reset Sim (m_sim m1) = sim_reset Sim (m_sim m2) ->
  fst (do_call Sim k m1 CReset) = fst (do_call Sim k m2 CReset) /\
  meq k (snd (do_call Sim k m1 CReset)) (snd (do_call Sim k m2 CReset)).
Proof. exact @reset_indep. Qed.
Print Assumptions C08_reset_indep_manager.

(* no agent is remembered as done (but the non-learning entities), the first turn goes to the
   first learning agent *)
Theorem C08_reset_state_manager :
  forall (St Obs Info Act : Type) (Sim : simulation St Obs Info Act) k m,
  k <> MTurnPrefix -> (k = MTurn -> order Sim <> []) ->
  m_done (snd (do_call Sim k m CReset)) = (match k with MDyn => [] | _ => nonlearning Sim end) /\
  (k = MTurn -> m_ptr (snd (do_call Sim k m CReset)) = (1 mod length (order Sim))%nat /\
                exists ob, fst (do_call Sim k m CReset) = RObs [(nth 0 (order Sim) 0%nat, ob)]).
Proof. exact @reset_state. Qed.
Print Assumptions C08_reset_state_manager.

(* an episode played after reset is indistinguishable, for every later call sequence, from the
   same episode on any other manager state over an equally reset simulation *)
Theorem C08_episode_indistinguishable :
  forall (St Obs Info Act : Type) (Sim : simulation St Obs Info Act) k m1 m2 cs,
  k <> MTurnPrefix -> (k = MTurn -> order Sim <> []) ->
  sim_reset Sim (m_sim m1) = sim_reset Sim (m_sim m2) ->
  fst (run Sim k m1 (CReset :: cs)) = fst (run Sim k m2 (CReset :: cs)).
Proof. exact @episode_indistinguishable. Qed.
Print Assumptions C08_episode_indistinguishable.

(* used (any history h, cut anywhere) versus newly built *)
Theorem C08_used_vs_fresh :
  forall (St Obs Info Act : Type) (Sim : simulation St Obs Info Act) k s0 h cs,
  k <> MTurnPrefix -> (k = MTurn -> order Sim <> []) ->
  sim_reset Sim (m_sim (snd (run Sim k (init s0) h))) = sim_reset Sim s0 ->
  fst (run Sim k (snd (run Sim k (init s0) h)) (CReset :: cs)) =
  fst (run Sim k (init s0) (CReset :: cs)).
Proof. exact @used_vs_fresh. Qed.
Print Assumptions C08_used_vs_fresh.

(* the turn-based manager before the repair (F1): the first turn after reset depended on the
   previous episode — refuted on a two-agent script *)
Definition f1_script : script :=
  {| sc_n := 2; sc_learn := [true; true];
     sc_rows := [ {| r_done := [false; false]; r_all := false; r_next := []; r_acc := [0; 0]%Z |} ] |}.

Theorem C08_turn_prefix_refuted :
  fst (run (script_sim f1_script) MTurnPrefix (init (ss_init f1_script)) [CReset; CReset])
  <> fst (run (script_sim f1_script) MTurnPrefix (init (ss_init f1_script)) [CReset])
     ++ fst (run (script_sim f1_script) MTurnPrefix (init (ss_init f1_script)) [CReset])
  /\ fst (run (script_sim f1_script) MTurn (init (ss_init f1_script)) [CReset; CReset])
   = fst (run (script_sim f1_script) MTurn (init (ss_init f1_script)) [CReset])
     ++ fst (run (script_sim f1_script) MTurn (init (ss_init f1_script)) [CReset]).
Proof. split; [vm_compute; discriminate|vm_compute; reflexivity]. Qed.
Print Assumptions C08_turn_prefix_refuted.

(* ---- other layers ---------------------------------------------------------------------------- *)
From Abm Require Import Ctl.Adapters Proofs.Adapters_proofs.

(* GymABS (after the repair of F5): whatever the cache held, reset leaves it exactly as a reset
   of a newly built object does *)
Theorem C08_reset_fresh_gymabs :
  forall E Obs Info Act (G : genv E Obs Info Act) e (c : gcache Obs Info),
    snd (gabs_reset G e c) = snd (gabs_reset G e gabs_fresh).
Proof. exact @gymabs_reset_fresh. Qed.
Print Assumptions C08_reset_fresh_gymabs.

(* ---- composition: manager over wrapper(s) over simulation -------------------------------------
   Ctl/Stack.v packages the wrapper models as instances of the `simulation` record
   (super_sim, comm_sim, sar_sim = Wrappers.wrap_stack), Proofs/Stack_proofs.v composes the reset
   facts of the layers.  A congruence (`sim_congr Sim R`) is a relation on simulation states that
   reset, step and every getter respect; `eq` is one for every simulation, "equal up to the call
   logs" is the one for models that carry a ghost log (w_log, c_log, the scripted simulation's
   s_steps/s_reads, which survive reset). *)
From Abm Require Import Spaces.Space Spaces.Flatten Ctl.Super Ctl.Comms Ctl.Wrappers Ctl.Stack.
From Abm Require Import Proofs.Managers_proofs Proofs.Stack_proofs.

(* every manager call, hence every run, is a function of the congruence class of the simulation
   state, the done set and (turn-based) the pointer: generalises C08_episode_indistinguishable's
   induction from `eq` to any congruence *)
Theorem C08_run_respects_congruence :
  forall (St Obs Info Act : Type) (Sim : simulation St Obs Info Act) (R : St -> St -> Prop),
  sim_congr Sim R -> forall k cs m1 m2, mrel R k m1 m2 ->
  fst (run Sim k m1 cs) = fst (run Sim k m2 cs) /\
  mrel R k (snd (run Sim k m1 cs)) (snd (run Sim k m2 cs)).
Proof. exact @run_rel. Qed.
Print Assumptions C08_run_respects_congruence.

Theorem C08_episode_indistinguishable_upto :
  forall (St Obs Info Act : Type) (Sim : simulation St Obs Info Act) (R : St -> St -> Prop),
  sim_congr Sim R -> forall k m1 m2 cs, mgr_ok Sim k ->
  R (sim_reset Sim (m_sim m1)) (sim_reset Sim (m_sim m2)) ->
  fst (run Sim k m1 (CReset :: cs)) = fst (run Sim k m2 (CReset :: cs)).
Proof. exact @episode_rel. Qed.
Print Assumptions C08_episode_indistinguishable_upto.

Theorem C08_used_vs_fresh_upto :
  forall (St Obs Info Act : Type) (Sim : simulation St Obs Info Act) (R : St -> St -> Prop),
  sim_congr Sim R -> forall k s0 h cs, mgr_ok Sim k ->
  R (sim_reset Sim (m_sim (snd (run Sim k (init s0) h)))) (sim_reset Sim s0) ->
  fst (run Sim k (snd (run Sim k (init s0) h)) (CReset :: cs)) =
  fst (run Sim k (init s0) (CReset :: cs)).
Proof. exact @used_vs_fresh_rel. Qed.
Print Assumptions C08_used_vs_fresh_upto.

Theorem C08_eq_is_congruence :
  forall (St Obs Info Act : Type) (Sim : simulation St Obs Info Act), sim_congr Sim eq.
Proof. exact @congr_eq. Qed.
Print Assumptions C08_eq_is_congruence.

(* ---- the layers: each lifts a congruence of the simulation below, and its reset sends ANY two
   wrapper states (whatever flags / tables / logs they hold) whose inner states reset into related
   states to related wrapper states -------------------------------------------------------------- *)
Theorem C08_layer_super :
  forall (St Obs Info Act : Type) (Sim : simulation St Obs Info Act) mapping null_obs
         (R : St -> St -> Prop), sim_congr Sim R ->
  sim_congr (super_sim Sim mapping null_obs) (super_rel R) /\
  (forall w1 w2 : wst St Act,
     R (sim_reset Sim (w_sim w1)) (sim_reset Sim (w_sim w2)) ->
     super_rel R (sim_reset (super_sim Sim mapping null_obs) w1)
                 (sim_reset (super_sim Sim mapping null_obs) w2)) /\
  (reset_forgets Sim R -> reset_forgets (super_sim Sim mapping null_obs) (super_rel R)).
Proof.
  exact (fun St Obs Info Act Sim mapping null_obs R C =>
           conj (super_congr Sim mapping null_obs R C)
                (conj (super_reset_rel Sim mapping null_obs R)
                      (super_forgets Sim mapping null_obs R))).
Qed.
Print Assumptions C08_layer_super.

Theorem C08_layer_comm :
  forall (St Obs Info Act : Type) (Sim : simulation St Obs Info Act) s_fobs
         (R : St -> St -> Prop), sim_congr Sim R -> fobs_congr s_fobs R ->
  sim_congr (comm_sim Sim s_fobs) (comm_rel R) /\
  (forall c1 c2 : cst St Act,
     R (sim_reset Sim (c_sim c1)) (sim_reset Sim (c_sim c2)) ->
     comm_rel R (sim_reset (comm_sim Sim s_fobs) c1) (sim_reset (comm_sim Sim s_fobs) c2)) /\
  (reset_forgets Sim R -> reset_forgets (comm_sim Sim s_fobs) (comm_rel R)).
Proof.
  exact (fun St Obs Info Act Sim s_fobs R C F =>
           conj (comm_congr Sim s_fobs R C F)
                (conj (comm_reset_rel Sim s_fobs R) (comm_forgets Sim s_fobs R))).
Qed.
Print Assumptions C08_layer_comm.

(* any list of stacked Ravel / Flatten / FlattenAction wrappers *)
Theorem C08_layer_sar :
  forall (St Info : Type) (R : St -> St -> Prop) ks sp (S : simulation St upoint Info upoint),
  sim_congr S R ->
  sim_congr (sar_sim ks sp S) R /\
  sim_reset (sar_sim ks sp S) = sim_reset S /\
  (reset_forgets S R -> reset_forgets (sar_sim ks sp S) R).
Proof.
  exact (fun St Info R ks sp S C =>
           conj (sar_congr R ks sp S C) (conj (sar_reset_eq ks sp S) (sar_forgets R ks sp S))).
Qed.
Print Assumptions C08_layer_sar.

(* ---- used versus fresh for stacks: every inner simulation, congruence, manager kind, start
   state, history h and follow-up call list; the only reset hypothesis is on the INNER simulation,
   at the inner state the history reached ------------------------------------------------------- *)
Theorem C08_stack_used_vs_fresh_super :
  forall (St Obs Info Act : Type) (Sim : simulation St Obs Info Act) (R : St -> St -> Prop),
  sim_congr Sim R -> forall mapping null_obs k (w0 : wst St Act) h cs,
  mgr_ok (super_sim Sim mapping null_obs) k ->
  R (sim_reset Sim (w_sim (m_sim (snd (run (super_sim Sim mapping null_obs) k (init w0) h)))))
    (sim_reset Sim (w_sim w0)) ->
  fst (run (super_sim Sim mapping null_obs) k
           (snd (run (super_sim Sim mapping null_obs) k (init w0) h)) (CReset :: cs)) =
  fst (run (super_sim Sim mapping null_obs) k (init w0) (CReset :: cs)).
Proof. exact @stack_super. Qed.
Print Assumptions C08_stack_used_vs_fresh_super.

Theorem C08_stack_used_vs_fresh_comm :
  forall (St Obs Info Act : Type) (Sim : simulation St Obs Info Act) (R : St -> St -> Prop),
  sim_congr Sim R -> forall s_fobs k (c0 : cst St Act) h cs,
  fobs_congr s_fobs R ->
  mgr_ok (comm_sim Sim s_fobs) k ->
  R (sim_reset Sim (c_sim (m_sim (snd (run (comm_sim Sim s_fobs) k (init c0) h)))))
    (sim_reset Sim (c_sim c0)) ->
  fst (run (comm_sim Sim s_fobs) k (snd (run (comm_sim Sim s_fobs) k (init c0) h)) (CReset :: cs)) =
  fst (run (comm_sim Sim s_fobs) k (init c0) (CReset :: cs)).
Proof. exact @stack_comm. Qed.
Print Assumptions C08_stack_used_vs_fresh_comm.

Theorem C08_stack_used_vs_fresh_sar :
  forall (St Info : Type) (S : simulation St upoint Info upoint) (R : St -> St -> Prop),
  sim_congr S R -> forall ks sp k (s0 : St) h cs,
  mgr_ok (sar_sim ks sp S) k ->
  R (sim_reset S (m_sim (snd (run (sar_sim ks sp S) k (init s0) h)))) (sim_reset S s0) ->
  fst (run (sar_sim ks sp S) k (snd (run (sar_sim ks sp S) k (init s0) h)) (CReset :: cs)) =
  fst (run (sar_sim ks sp S) k (init s0) (CReset :: cs)).
Proof. exact @stack_sar. Qed.
Print Assumptions C08_stack_used_vs_fresh_sar.

(* the Leibniz instances (R = eq): exactly the hypothesis of C08_used_vs_fresh, on the inner
   simulation *)
Theorem C08_stack_used_vs_fresh_super_eq :
  forall (St Obs Info Act : Type) (Sim : simulation St Obs Info Act) mapping null_obs k
         (w0 : wst St Act) h cs,
  mgr_ok (super_sim Sim mapping null_obs) k ->
  sim_reset Sim (w_sim (m_sim (snd (run (super_sim Sim mapping null_obs) k (init w0) h)))) =
  sim_reset Sim (w_sim w0) ->
  fst (run (super_sim Sim mapping null_obs) k
           (snd (run (super_sim Sim mapping null_obs) k (init w0) h)) (CReset :: cs)) =
  fst (run (super_sim Sim mapping null_obs) k (init w0) (CReset :: cs)).
Proof. exact @stack_super_eq. Qed.
Print Assumptions C08_stack_used_vs_fresh_super_eq.

Theorem C08_stack_used_vs_fresh_comm_eq :
  forall (St Obs Info Act : Type) (Sim : simulation St Obs Info Act) s_fobs k (c0 : cst St Act) h cs,
  mgr_ok (comm_sim Sim s_fobs) k ->
  sim_reset Sim (c_sim (m_sim (snd (run (comm_sim Sim s_fobs) k (init c0) h)))) =
  sim_reset Sim (c_sim c0) ->
  fst (run (comm_sim Sim s_fobs) k (snd (run (comm_sim Sim s_fobs) k (init c0) h)) (CReset :: cs)) =
  fst (run (comm_sim Sim s_fobs) k (init c0) (CReset :: cs)).
Proof. exact @stack_comm_eq. Qed.
Print Assumptions C08_stack_used_vs_fresh_comm_eq.

Theorem C08_stack_used_vs_fresh_sar_eq :
  forall (St Info : Type) (S : simulation St upoint Info upoint) ks sp k (s0 : St) h cs,
  mgr_ok (sar_sim ks sp S) k ->
  sim_reset S (m_sim (snd (run (sar_sim ks sp S) k (init s0) h))) = sim_reset S s0 ->
  fst (run (sar_sim ks sp S) k (snd (run (sar_sim ks sp S) k (init s0) h)) (CReset :: cs)) =
  fst (run (sar_sim ks sp S) k (init s0) (CReset :: cs)).
Proof. exact @stack_sar_eq. Qed.
Print Assumptions C08_stack_used_vs_fresh_sar_eq.

(* depth three, obtained by applying the layer theorems in sequence: manager over
   SuperAgentWrapper over CommunicationHandshakeWrapper over any stack of Ravel/Flatten wrappers
   over S; with a forgetful innermost reset no hypothesis about reached states is left *)
Theorem C08_stack_used_vs_fresh_super_comm_sar :
  forall (St Info : Type) (S : simulation St upoint Info upoint) (R : St -> St -> Prop),
  sim_congr S R -> forall ks sp s_fobs mapping null_obs k
         (w0 : wst (cst St upoint) (cact upoint)) h cs,
  fobs_congr s_fobs R -> reset_forgets S R ->
  mgr_ok (super_sim (comm_sim (sar_sim ks sp S) s_fobs) mapping null_obs) k ->
  fst (run (super_sim (comm_sim (sar_sim ks sp S) s_fobs) mapping null_obs) k
           (snd (run (super_sim (comm_sim (sar_sim ks sp S) s_fobs) mapping null_obs) k (init w0) h))
           (CReset :: cs)) =
  fst (run (super_sim (comm_sim (sar_sim ks sp S) s_fobs) mapping null_obs) k (init w0) (CReset :: cs)).
Proof. exact @stack_super_comm_sar_forgets. Qed.
Print Assumptions C08_stack_used_vs_fresh_super_comm_sar.

(* ---- purity of get_done transfers through every layer, so the theorems of C01 / C07 that are
   stated under `done_stable` apply to wrapped simulations --------------------------------------- *)
Theorem C08_done_stable_super :
  forall (St Obs Info Act : Type) (Sim : simulation St Obs Info Act) mapping null_obs,
  done_stable Sim -> done_stable (super_sim Sim mapping null_obs).
Proof. exact @super_done_stable. Qed.
Print Assumptions C08_done_stable_super.

Theorem C08_done_stable_comm :
  forall (St Obs Info Act : Type) (Sim : simulation St Obs Info Act) s_fobs,
  (forall s a fm, greach Sim s (snd (s_fobs s a fm))) ->
  done_stable Sim -> done_stable (comm_sim Sim s_fobs).
Proof. exact @comm_done_stable. Qed.
Print Assumptions C08_done_stable_comm.

Theorem C08_done_stable_sar :
  forall (St Info : Type) ks sp (S : simulation St upoint Info upoint),
  done_stable S -> done_stable (sar_sim ks sp S).
Proof. exact @sar_done_stable. Qed.
Print Assumptions C08_done_stable_sar.

(* ---- the scripted simulation: its reset keeps the two call logs, so it is NOT forgetful up to
   `eq` — it is up to script_rel (clock and pending rewards), which is a congruence; hence for
   every script, mapping, null declaration, manager, start state, history and follow-up: -------- *)
Theorem C08_script_congruence :
  forall sc, sim_congr (script_sim sc) script_rel /\ reset_forgets (script_sim sc) script_rel /\
             fobs_congr ss_fobs script_rel.
Proof. exact (fun sc => conj (script_congr sc) (conj (script_forgets sc) script_fobs_congr)). Qed.
Print Assumptions C08_script_congruence.

Theorem C08_script_super_used_vs_fresh :
  forall sc mapping nulls k (w0 : wst sst Z) h cs,
  mgr_ok (super_sim (script_sim sc) mapping nulls) k ->
  fst (run (super_sim (script_sim sc) mapping nulls) k
           (snd (run (super_sim (script_sim sc) mapping nulls) k (init w0) h)) (CReset :: cs)) =
  fst (run (super_sim (script_sim sc) mapping nulls) k (init w0) (CReset :: cs)).
Proof. exact script_super_used_vs_fresh. Qed.
Print Assumptions C08_script_super_used_vs_fresh.

Theorem C08_script_comm_used_vs_fresh :
  forall sc k (c0 : cst sst Z) h cs,
  mgr_ok (comm_sim (script_sim sc) ss_fobs) k ->
  fst (run (comm_sim (script_sim sc) ss_fobs) k
           (snd (run (comm_sim (script_sim sc) ss_fobs) k (init c0) h)) (CReset :: cs)) =
  fst (run (comm_sim (script_sim sc) ss_fobs) k (init c0) (CReset :: cs)).
Proof. exact script_comm_used_vs_fresh. Qed.
Print Assumptions C08_script_comm_used_vs_fresh.

(* non-vacuity (vm_compute).  SuperAgentWrapper over a 3-agent script (super agent 0 covers
   agents 0 and 1, agent 0 done from t = 1): the history raises both flags of agent 0 and leaves
   an uncollected reward; the hypotheses of C08_stack_used_vs_fresh_super hold with
   R = script_rel for both managers while the Leibniz hypothesis is false (the logs differ), the
   follow-up episode is the same on the used stack and on a new one (the first follow-up step
   shows agent 0's own observation 100 again, not its null observation 7), and without the reset
   the two stacks are told apart. *)
Example C08_stack_nonvacuous_super :
  let Sim := script_sim nv_script in
  let used := snd (run nv_super MAll (init nv_w0) nv_h) in
  mgr_ok nv_super MAll /\ mgr_ok nv_super MTurn /\
  script_rel (sim_reset Sim (w_sim (m_sim used))) (sim_reset Sim (w_sim nv_w0)) /\
  w_orep (m_sim used) = [0%nat] /\ w_rrep (m_sim used) = [0%nat] /\
  s_pend (w_sim (m_sim used)) = [4; 0; 0]%Z /\
  sim_reset Sim (w_sim (m_sim used)) <> sim_reset Sim (w_sim nv_w0) /\
  fst (run nv_super MAll used (CReset :: nv_cs)) = fst (run nv_super MAll (init nv_w0) (CReset :: nv_cs)) /\
  nth 1 (fst (run nv_super MAll used (CReset :: nv_cs))) RError =
    ROut {| o_obs := [(0%nat, WSupObs [(0%nat, 100%Z); (1%nat, 101%Z)] [(0%nat, false); (1%nat, true)]);
                      (1%nat, WPlainObs 102%Z)];
            o_rew := [(0%nat, 3%Z); (1%nat, 3%Z)];
            o_done := [(0%nat, false); (1%nat, false)];
            o_info := [(0%nat, WSupInfo [(0%nat, (-100)%Z); (1%nat, (-101)%Z)]);
                       (1%nat, WPlainInfo (-102)%Z)];
            o_all := false |} /\
  fst (run nv_super MAll used nv_cs) <> fst (run nv_super MAll (init nv_w0) nv_cs).
Proof.
  cbv zeta. split; [split; [discriminate|discriminate]|].
  split; [split; [discriminate|intros _; vm_compute; discriminate]|].
  split; [split; reflexivity|].
  repeat split; try (vm_compute; reflexivity); vm_compute; discriminate.
Qed.

(* CommunicationHandshakeWrapper over the same script: the history leaves message_buffer[2][1]
   and received_message[1][0] set; after reset the follow-up is the same as on a new stack, and
   in its second step agent 2's observation is fused with agent 1's (code 2^1 * 10000). *)
Example C08_stack_nonvacuous_comm :
  let Sim := script_sim nv_script in
  let used := snd (run nv_comm MAll (init nv_c0) nv_ch) in
  mgr_ok nv_comm MAll /\ mgr_ok nv_comm MTurn /\
  script_rel (sim_reset Sim (c_sim (m_sim used))) (sim_reset Sim (c_sim nv_c0)) /\
  entry_of_rows (c_buf (m_sim used)) 2 1 = Some true /\
  entry_of_rows (c_rcv (m_sim used)) 1 0 = Some true /\
  m_done used = [0%nat] /\
  sim_reset Sim (c_sim (m_sim used)) <> sim_reset Sim (c_sim nv_c0) /\
  fst (run nv_comm MAll used (CReset :: nv_ccs)) = fst (run nv_comm MAll (init nv_c0) (CReset :: nv_ccs)) /\
  nth 2 (fst (run nv_comm MAll used (CReset :: nv_ccs))) RError =
    ROut {| o_obs := [(1%nat, CObs 201%Z [(0%nat, false); (2%nat, false)]);
                      (2%nat, CObs 20202%Z [(0%nat, false); (1%nat, false)])];
            o_rew := [(1%nat, 5%Z); (2%nat, 6%Z)];
            o_done := [(1%nat, false); (2%nat, false)];
            o_info := [(1%nat, (-201)%Z); (2%nat, (-202)%Z)];
            o_all := false |} /\
  fst (run nv_comm MAll used nv_ccs) <> fst (run nv_comm MAll (init nv_c0) nv_ccs).
Proof.
  cbv zeta. split; [split; [discriminate|discriminate]|].
  split; [split; [discriminate|intros _; vm_compute; discriminate]|].
  split; [split; reflexivity|].
  repeat split; try (vm_compute; reflexivity); vm_compute; discriminate.
Qed.

(* SARWrapper.get_obs drops keyword arguments: over a SAR stack the communication wrapper's fused
   getter is the plain getter (drop_fm), which respects every congruence of the stack *)
Theorem C08_drop_fm_congruence :
  forall (St Obs Info Act : Type) (S : simulation St Obs Info Act) (R : St -> St -> Prop),
  sim_congr S R -> fobs_congr (drop_fm S) R.
Proof. exact @drop_fm_congr. Qed.
Print Assumptions C08_drop_fm_congruence.

(* manager over SuperAgentWrapper over CommunicationHandshakeWrapper over any Ravel/Flatten stack
   over any script (seen through structured spaces, script_usim): no hypothesis but mgr_ok *)
Theorem C08_script_deep_used_vs_fresh :
  forall sc ks sp mapping nulls k (w0 : wst (cst sst upoint) (cact upoint)) h cs,
  mgr_ok (super_sim (comm_sim (sar_sim ks sp (script_usim sc))
                              (drop_fm (sar_sim ks sp (script_usim sc)))) mapping nulls) k ->
  fst (run (super_sim (comm_sim (sar_sim ks sp (script_usim sc))
                                (drop_fm (sar_sim ks sp (script_usim sc)))) mapping nulls) k
           (snd (run (super_sim (comm_sim (sar_sim ks sp (script_usim sc))
                                          (drop_fm (sar_sim ks sp (script_usim sc)))) mapping nulls) k
                     (init w0) h)) (CReset :: cs)) =
  fst (run (super_sim (comm_sim (sar_sim ks sp (script_usim sc))
                                (drop_fm (sar_sim ks sp (script_usim sc)))) mapping nulls) k
           (init w0) (CReset :: cs)).
Proof. exact script_deep_used_vs_fresh. Qed.
Print Assumptions C08_script_deep_used_vs_fresh.

(* non-vacuity of the deep stack (nv_deep: super agent {0,1} over the communication wrapper over
   RavelDiscreteWrapper over the 3-agent script): the history raises the super-agent flags, leaves
   message_buffer[2][1] and received_message[1][0] set and a reward uncollected; ravelled actions
   11, 5, 7 reach the script as (2,3), (1,1), (1,3) = 11, 5, 7 after decoding; after reset the
   follow-up equals the one on a new stack, without it they differ *)
Example C08_stack_nonvacuous_deep :
  let used := snd (run nv_deep MAll (init nv_d0) nv_dh) in
  mgr_ok nv_deep MAll /\ mgr_ok nv_deep MTurn /\
  w_orep (m_sim used) = [0%nat] /\ w_rrep (m_sim used) = [0%nat] /\
  entry_of_rows (c_buf (w_sim (m_sim used))) 2 1 = Some true /\
  entry_of_rows (c_rcv (w_sim (m_sim used))) 1 0 = Some true /\
  s_pend (c_sim (w_sim (m_sim used))) = [4; 0; 0]%Z /\
  s_steps (c_sim (w_sim (m_sim used))) =
    [[(0%nat, 11%Z); (1%nat, 5%Z); (2%nat, 7%Z)]; [(1%nat, 6%Z); (2%nat, 2%Z)]] /\
  fst (run nv_deep MAll used (CReset :: nv_dcs)) = fst (run nv_deep MAll (init nv_d0) (CReset :: nv_dcs)) /\
  fst (run nv_deep MTurn used (CReset :: nv_dcs)) = fst (run nv_deep MTurn (init nv_d0) (CReset :: nv_dcs)) /\
  length (fst (run nv_deep MAll used (CReset :: nv_dcs))) = 3%nat /\
  fst (run nv_deep MAll used nv_dcs) <> fst (run nv_deep MAll (init nv_d0) nv_dcs).
Proof.
  cbv zeta. split; [split; [discriminate|discriminate]|].
  split; [split; [discriminate|intros _; vm_compute; discriminate]|].
  repeat split; try (vm_compute; reflexivity); vm_compute; discriminate.
Qed.

(* ---- placement order under randomize_placement_order (Grid/Shuffle.v, Proofs/Shuffle_proofs.v):
   random.shuffle applies a permutation [p] that depends on the generator's stream and the length
   only.  The repaired code shuffles the id-sorted list, so the order a reset leaves behind depends
   on that reset's own shuffle and on the SET of agents only; the code as found (F15) shuffled the
   order left behind by the previous reset and is refuted. ---- *)
From Coq Require Import Permutation.
From Abm Require Import Grid.Shuffle Proofs.Shuffle_proofs.

Theorem C08_placement_order_indep : forall p cur1 cur2,
    Permutation cur1 cur2 -> order_fixed p cur1 = order_fixed p cur2.
Proof. exact order_fixed_indep. Qed.
Print Assumptions C08_placement_order_indep.

(* every agent is placed exactly once: the shuffled order is a permutation of the agents *)
Theorem C08_placement_order_is_permutation : forall p cur,
    Permutation p (seq 0 (length cur)) -> Permutation (order_fixed p cur) cur.
Proof. exact order_fixed_perm. Qed.
Print Assumptions C08_placement_order_is_permutation.

(* any history of earlier resets, then one more: same order as on a newly built state *)
Theorem C08_placement_order_used_vs_fresh : forall ps p cur,
    good (length cur) ps ->
    orders_fixed (ps ++ [p]) cur = order_fixed p cur.
Proof. exact orders_fixed_used_vs_fresh. Qed.
Print Assumptions C08_placement_order_used_vs_fresh.

Theorem C08_placement_order_prefix_refuted :
  exists p0 p cur, good (length cur) [p0; p] /\
    orders_prefix ([p0] ++ [p]) cur <> order_prefix p cur.
Proof. exact order_prefix_refuted. Qed.
Print Assumptions C08_placement_order_prefix_refuted.

Example C08_placement_order_nonvacuous :
  good 4 [[2; 0; 3; 1]; [3; 2; 1; 0]] /\
  orders_fixed ([[2; 0; 3; 1]; [3; 2; 1; 0]] ++ [[1; 3; 0; 2]]) [7; 5; 9; 6] = [6; 9; 5; 7] /\
  order_fixed [1; 3; 0; 2] [7; 5; 9; 6] = [6; 9; 5; 7].
Proof.
  split; [|split; vm_compute; reflexivity].
  repeat constructor.
  - change (Permutation [2; 0; 3; 1] [0; 1; 2; 3]).
    apply (Permutation_trans (l' := [0; 2; 3; 1])); [apply perm_swap|]. apply perm_skip.
    apply (Permutation_trans (l' := [2; 1; 3])); [apply perm_skip, perm_swap|].
    apply (Permutation_trans (l' := [1; 2; 3])); [apply perm_swap|]. apply Permutation_refl.
  - change (Permutation [3; 2; 1; 0] [0; 1; 2; 3]).
    apply Permutation_sym. change [3; 2; 1; 0] with (rev [0; 1; 2; 3]). apply Permutation_rev.
Qed.

(* ---- the grid state components: the complete reset of a smart simulation -------------------------
   Grid/FullReset.v: SmartGridWorldSimulation.reset = PositionState (the placement model of C13),
   HealthState, AmmoState and OrientationState, in any iteration order of the component set, applied
   to the state the previous episode left behind; draws are oracle streams.  `statics cfg g`: g is a
   state of configuration cfg (grid size, overlap table, per agent encoding / blocking / which
   agents have ammunition and orientation at all); everything else in g is arbitrary. *)
From Abm Require Import Grid.Overlap Grid.Grid Grid.Attack Grid.BattleSim Grid.FullReset Grid.BattleFull
  Proofs.Grid_proofs Proofs.FullReset_proofs Proofs.BattleFull_proofs.
Open Scope Z_scope.

(* whatever the previous episode did to health, ammunition, orientation, positions and cells:
   the outcome of the reset (the new state, or that it raises) depends on configuration and draws
   only *)
Theorem C08_full_reset_indep :
  forall cfg orc g1 g2, order_complete cfg = true -> statics cfg g1 -> statics cfg g2 ->
  full_reset cfg orc g1 = full_reset cfg orc g2.
Proof. exact full_reset_indep. Qed.
Print Assumptions C08_full_reset_indep.

(* a reset that does not raise: the grid invariant of C03 holds; every agent is active with health
   in (0,1], the declared value or the drawn one; ammunition is the declared one (negative -> 0);
   orientation is the declared one or a drawn one in 1..4; the position is the declared one or a
   cell of the grid (C13: under no_overlap_at_reset a freely placed agent is alone on it); every
   agent stands in exactly the cell of its position, and the cells hold nothing but the agents *)
Theorem C08_full_reset_fresh :
  forall cfg orc g s,
  wf_fcfg cfg = true -> statics cfg g -> Forall (fun u => 0 < u) (fo_unif orc) ->
  full_reset cfg orc g = Some s ->
  ginv s /\ statics cfg s /\
  (forall i fa, nth_error (fc_agents cfg) i = Some fa ->
     exists a p, agent s i = Some a /\ a_active a = true /\ 0 < a_health a <= HD /\
       (forall h, fa_health fa = Some h -> a_health a = h) /\
       (fa_health fa = None -> In (a_health a) (fo_unif orc)) /\
       a_ammo a = option_map (Z.max 0) (fa_ammo fa) /\
       match fa_orient fa with
       | None => a_orient a = None
       | Some io => exists o, a_orient a = Some o /\ 1 <= o <= 4 /\
                    (forall o', io = Some o' -> o = o') /\ (io = None -> In o (fo_randint orc))
       end /\
       a_pos a = Some p /\ inside s p = true /\ (forall q, fa_pos fa = Some q -> p = q) /\
       (forall q, In i (cell_get (g_cells s) q) <-> q = p) /\
       (fc_noov cfg = true -> fa_pos fa = None -> cell_get (g_cells s) p = [i])) /\
  (forall q i, In i (cell_get (g_cells s) q) -> (i < length (fc_agents cfg))%nat) /\
  (forall q, NoDup (cell_get (g_cells s) q)).
Proof. exact full_reset_fresh. Qed.
Print Assumptions C08_full_reset_fresh.

(* the executable checker (dispatch 2202) accepts the model's outcome from every previous state *)
Theorem chk_full_reset_model :
  forall cfg orc g, wf_fcfg cfg = true -> statics cfg g -> Forall (fun u => 0 < u) (fo_unif orc) ->
  chk_full_reset cfg orc (full_reset cfg orc g) = true.
Proof. exact FullReset_proofs.chk_full_reset_model. Qed.
Print Assumptions chk_full_reset_model.

(* every state a manager history reaches is a state of the configuration *)
Theorem C08_battle_statics_reachable :
  forall cf k s0 h, order_complete (bf_states cf) = true ->
  statics (bf_states cf) (bs_grid (bf_core s0)) ->
  statics (bf_states cf) (bs_grid (bf_core (m_sim (snd (run (battle_full_sim cf) k (init s0) h))))).
Proof. exact (fun cf k s0 h Ho Hs => bf_run_inv cf Ho k h (init s0) Hs). Qed.
Print Assumptions C08_battle_statics_reachable.

(* the end-to-end simulation with its reset computed (Grid/BattleFull.v): for every configuration
   with the four state components, all-step and turn-based manager, new object s0 (any draw
   streams), history h and follow-up calls cs: once the used object's draw streams are those of
   the new one (reseed: seeding the generators before the follow-up reset), the follow-up reset
   and everything after it answer as on the new object.  The two side conditions: the follow-up
   reset does not raise on the new object, and the history did not leave the model's domain
   differently (the flag) *)
Theorem C08_battle_used_vs_fresh :
  forall cf k s0 h cs,
  k = MAll \/ k = MTurn -> bc_agents (bf_battle cf) <> [] ->
  order_complete (bf_states cf) = true ->
  statics (bf_states cf) (bs_grid (bf_core s0)) -> next_reset_ok cf s0 = true ->
  let used := snd (run (battle_full_sim cf) k (init s0) h) in
  bs_bad (bf_core (m_sim used)) = bs_bad (bf_core s0) ->
  fst (run (battle_full_sim cf) k (reseed_m used s0) (CReset :: cs)) =
  fst (run (battle_full_sim cf) k (init s0) (CReset :: cs)).
Proof. exact battle_used_vs_fresh. Qed.
Print Assumptions C08_battle_used_vs_fresh.

(* non-vacuity: 3x3 grid; agent 0 (declared everything, 3 rounds), agent 1 (health and orientation
   drawn), agent 2 (placed at random, no orientation); component order Orientation, Position,
   Ammo, Health.  In the history agent 0 shoots agent 1 dead (one round spent) and agent 2 moves *)
Definition fr_fa (p : option cell) (h am : option Z) (o : option (option Z)) : fagent :=
  mkFa 1 false p h am o.
Definition fr_fc : fcfg :=
  mkFc 3 3 [] [fr_fa (Some (1, 1)) (Some HD) (Some 3) (Some (Some 2));
               fr_fa (Some (1, 2)) None None (Some None);
               fr_fa None (Some 524288) (Some 1) None] false [SOrient; SPos; SAmmo; SHealth].
Definition fr_b : bagent :=
  {| b_att := {| c_range := 1; c_strength := HD; c_accuracy := HD; c_simul := 1; c_mapping := [1];
                 c_stacked := false |}; b_view := 1 |}.
Definition fr_cf : bfcfg :=
  {| bf_battle := {| bc_agents := [fr_b; fr_b; fr_b]; bc_self := true; bc_oneteam := false |};
     bf_states := fr_fc |}.
Definition fr_orc : foracle := mkFo [-1; -1; 0] [786432] [4].
Definition fr_s0 : bfstate :=
  bf_init fr_cf [fr_orc; fr_orc; fr_orc]
          {| o_unif := [0; 0; 0; 0]; o_choice := [[1%nat]; [2%nat]] |} (repeat 1 200).
Definition fr_acts : list (nat * bact) :=
  [(0%nat, {| ba_move := (0, 0); ba_attack := 1 |});
   (1%nat, {| ba_move := (0, 0); ba_attack := 0 |});
   (2%nat, {| ba_move := (0, 1); ba_attack := 0 |})].
Definition fr_h : list (call bact) := [CReset; CStep fr_acts fr_acts].
Definition fr_cs : list (call bact) := [CStep fr_acts fr_acts].

Example C08_battle_nonvacuous :
  let used := snd (run (battle_full_sim fr_cf) MAll (init fr_s0) fr_h) in
  let g := bs_grid (bf_core (m_sim used)) in
  wf_fcfg fr_fc = true /\ statics fr_fc (bs_grid (bf_core fr_s0)) /\ next_reset_ok fr_cf fr_s0 = true /\
  bs_bad (bf_core (m_sim used)) = false /\
  option_map a_active (agent g 1) = Some false /\ option_map a_ammo (agent g 0) = Some (Some 2) /\
  option_map a_pos (agent g 2) = Some (Some (0, 1)) /\ cell_get (g_cells g) (1, 2) = [] /\
  fst (run (battle_full_sim fr_cf) MAll (reseed_m used fr_s0) (CReset :: fr_cs)) =
  fst (run (battle_full_sim fr_cf) MAll (init fr_s0) (CReset :: fr_cs)) /\
  length (fst (run (battle_full_sim fr_cf) MAll (reseed_m used fr_s0) (CReset :: fr_cs))) = 2%nat /\
  (* after the reset every agent is back: the state equals the new object's after its reset *)
  option_map (fun s => map (fun a => (a_pos a, a_health a, a_ammo a, a_orient a)) (g_agents s))
             (full_reset fr_fc fr_orc g) =
  Some [(Some (1, 1), HD, Some 3, Some 2); (Some (1, 2), 786432, None, Some 4);
        (Some (0, 0), 524288, Some 1, None)] /\
  (* without the reset the follow-up differs *)
  fst (run (battle_full_sim fr_cf) MAll (reseed_m used fr_s0) fr_cs) <>
  fst (run (battle_full_sim fr_cf) MAll (init fr_s0) (CReset :: fr_cs)).
Proof.
  cbv zeta. split; [vm_compute; reflexivity|]. split; [apply blank_statics|].
  repeat split; try (vm_compute; reflexivity). vm_compute. discriminate.
Qed.
