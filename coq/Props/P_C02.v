(* C02 — Observations and actions always live in the agents' declared spaces.
   Statements only; proofs in Proofs/Member_proofs.v, Proofs/AttackTotal_proofs.v,
   Proofs/AttackAdm_proofs.v, Proofs/ObsHist_proofs.v and Proofs/ObsMember_proofs.v.

   What is a theorem here (on the existing models Grid/Move.v, Grid/Attack.v, Spaces/*, Ctl/Super.v,
   Ctl/Comms.v; declared channels and null points in Grid/ActSpace.v):
     * every point of the channel an ACTOR declares is processed without an error arm, in every
       state satisfying the consistency invariant `ginv` (C03), for every placed active agent;
     * the declared NULL POINTS of the actor channels (and of the communication wrapper) are members
       of the declared spaces;
     * the WRAPPED observation is a member of the wrapped space (corollaries of C04, C05, C14, C20).
     * every value the five built-in OBSERVERS (models: Grid/Observe.v, property C09) emit lies in the
       Box their constructor declares (Grid/ObsSpace.v) and has the declared shape, the declared null
       observations are members (last part of this file).
   What is NOT a theorem here: the packaged example simulations' bespoke components and the
   composition of components into simulations: those are covered by the monitor run of
   harness/gen_C02.py only (testing).  The monitors' reference behaviour and checker are
   Spaces/Monitor02.v. *)
From Coq Require Import ZArith List Bool Arith Lia.
From Abm Require Import Base.Sx Spaces.Space Spaces.Ravel Spaces.Flatten Spaces.Monitor02
  Grid.Overlap Grid.Grid Grid.Move Grid.Attack Grid.Vis Grid.ActSpace
  Ctl.Managers Ctl.Super Ctl.Comms
  Proofs.Ravel_proofs Proofs.Flatten_proofs Proofs.Grid_proofs Proofs.Move_proofs Proofs.Attack_proofs
  Proofs.Managers_proofs Proofs.Super_proofs Proofs.Comms_proofs
  Proofs.Member_proofs Proofs.AttackTotal_proofs.
From Abm Require Import Grid.AttackRun Grid.Play Grid.Observe Grid.ObsSpace
  Proofs.Play_proofs Proofs.Observe_proofs Proofs.ObsHist_proofs Proofs.ObsMember_proofs.
Import ListNotations.
Open Scope Z_scope.

(* ---- move actors --------------------------------------------------------------------------------- *)
(* MoveActor returns a result (never KeyError / TypeError / assertion) for EVERY offset, in
   particular for every point of its Box(-R, R, (2,)); CrossMoveActor for every point of
   Discrete(5); DriftMoveActor likewise for an agent with an orientation (1..4 by the invariant).
   The state after the move satisfies the invariant again, so this holds along every history. *)
Theorem C02_move_actions_total : forall s i a from,
  ginv s -> agent s i = Some a -> a_active a = true -> a_pos a = Some from ->
  (forall d, exists b s', move_free s i d = MOk b s' /\ ginv s') /\
  (forall R p, member (move_space R) p = true ->
     exists d b s', move_of_point p = Some d /\ - R <= fst d <= R /\ - R <= snd d <= R /\
                    move_free s i d = MOk b s' /\ ginv s') /\
  (forall p, member cross_space p = true ->
     exists ca b s', cross_of_point p = Some ca /\ move_cross s i ca = MOk b s' /\ ginv s') /\
  (forall o0 p, a_orient a = Some o0 -> member cross_space p = true ->
     exists ca b s', cross_of_point p = Some ca /\ move_drift s i ca = MOk b s' /\ ginv s').
Proof. exact move_actions_total. Qed.
Print Assumptions C02_move_actions_total.

(* ---- attack actors ------------------------------------------------------------------------------- *)
(* The error arm PErr of process_action is unreachable for a placed attacker: for every oracle and
   every action, member of the channel or not.  (The only other non-result outcome of the model is
   PBadOracle, which the model returns exactly where a recorded random draw is missing or violates
   the contract of numpy's uniform / choice.) *)
Theorem C02_attack_no_error : forall vis s cf att a p o act,
  agent s att = Some a -> a_pos a = Some p -> process_attack vis s cf att o act <> PErr.
Proof. exact process_attack_no_error. Qed.
Print Assumptions C02_attack_no_error.

(* Every random-choice request made on the way is satisfiable (non-empty population, count not
   negative, count <= population when drawing without replacement, ammunition not negative):
   there is N such that for EVERY stream of at least N uniform draws (of any value) there are
   admissible np.random.choice answers cs with which process_action returns a result, and the
   state after it satisfies the invariant.  act_ok: the counts carried by the action are >= 0. *)
Theorem C02_attack_completes : forall vis s cf att a p act,
  ginv s -> agent s att = Some a -> a_pos a = Some p -> act_ok act ->
  exists N, forall us, (N <= length us)%nat ->
    exists cs st hits s' o',
      process_attack vis s cf att {| o_unif := us; o_choice := cs |} act = POk st hits s' o' /\ ginv s'.
Proof. exact process_attack_completes. Qed.
Print Assumptions C02_attack_completes.

(* For each of the four attack actors (k) and every point of the channel it declares
   (Discrete(n+1) / Dict enc -> Discrete(n+1) / Box (2R+1)^2 in 0..n / MultiDiscrete[(2R+1)^2+1]^n):
   the point decodes to the actor's input, no error arm is reachable with any oracle, and an
   admissible oracle exists for every uniform stream. *)
Theorem C02_attack_actions_total : forall k vis s cf att a p pt,
  ginv s -> agent s att = Some a -> a_pos a = Some p ->
  member (attack_space k cf) pt = true ->
  exists act, attack_of_point k cf pt = Some act /\
    attack_completes vis s cf att act /\
    forall o, process_attack vis s cf att o act <> PErr.
Proof. exact attack_actions_total. Qed.
Print Assumptions C02_attack_actions_total.

(* ---- null points --------------------------------------------------------------------------------- *)
Theorem C02_null_actions_member :
  (forall R, 0 <= R -> member (move_space R) move_null = true) /\
  member cross_space cross_null = true /\
  (forall k cf, 0 <= c_simul cf -> member (attack_space k cf) (attack_null k cf) = true) /\
  (* an agent with a move and an attack channel: Dict(move, attack) *)
  (forall ms as_ mn an, member ms mn = true -> member as_ an = true ->
     member (both_space ms as_) (both_null mn an) = true).
Proof. exact null_actions_member. Qed.
Print Assumptions C02_null_actions_member.

(* communication wrapper (as repaired, findings/C02-comm-null-points): the wrapped agents' null
   points are points of the wrapped spaces whenever the inner ones are *)
Theorem C02_comm_null_member : forall inner p k,
  member inner p = true ->
  member (comm_obs_space inner k) (comm_null_obs p k) = true /\
  member (comm_act_space inner k) (comm_null_act p k) = true.
Proof. exact comm_null_member. Qed.
Print Assumptions C02_comm_null_member.

(* the wrapper before the repair copied the inner null points unchanged: not members *)
Theorem C02_comm_null_prefix_refuted :
  exists inner p k, member inner p = true /\
    member (comm_obs_space inner k) (comm_null_obs_prefix p k) = false /\
    member (comm_act_space inner k) (comm_null_act_prefix p k) = false.
Proof. exact comm_null_prefix_refuted. Qed.
Print Assumptions C02_comm_null_prefix_refuted.

(* ---- wrapped observations ------------------------------------------------------------------------ *)
(* ravel (C04): the ravelled observation is a point of Discrete(size) *)
Theorem C02_wrapped_member_ravel : forall s p,
  wf s = true -> ravel_ok s = true -> member s p = true ->
  member (ravel_space s) (PI (ravel s p)) = true.
Proof. exact ravel_member. Qed.
Print Assumptions C02_wrapped_member_ravel.

(* flatten (C05): the flattened observation is a point of the flattened Box *)
Theorem C02_wrapped_member_flatten : forall s p,
  wf s = true -> member s p = true -> box_member (flatten_space s) (flatten s p) = true.
Proof. exact flatten_in_box. Qed.
Print Assumptions C02_wrapped_member_flatten.

(* super agent (C14): given that the wrapped simulation's observations and declared nulls are
   members, the super observation is a member of Dict(mask, covered agents) *)
Theorem C02_wrapped_member_super :
  forall (St Obs Info Act : Type) (Sim : simulation St Obs Info Act) (mapping : list (list nat))
         (null_obs : nat -> option Obs) (obs_in : nat -> Obs -> bool) (w : wst St Act) j cv ents mask w',
    done_stable Sim -> valid_mapping Sim mapping = true -> nth_error mapping j = Some cv ->
    (forall s c, In c cv -> obs_in c (fst (sim_obs Sim s c)) = true) ->
    (forall c v, In c cv -> null_obs c = Some v -> obs_in c v = true) ->
    w_obs Sim mapping null_obs w (WSuper j) = (WSupObs ents mask, w') ->
    sup_member obs_in cv ents mask = true.
Proof. intros St Obs Info Act. exact (@super_obs_member St Obs Info Act). Qed.
Print Assumptions C02_wrapped_member_super.

(* communication (C20): the wrapped observation lies in Dict(obs: inner, message_buffer: flags) *)
Theorem C02_wrapped_member_comm :
  forall (St Obs Info Act : Type) (Sim : simulation St Obs Info Act)
         (s_fobs : St -> nat -> row -> Obs * St) (obs_in : nat -> Obs -> bool)
         (c : cst St Act) h a o b c',
    tables_are Sim c h -> (a < sim_n Sim)%nat ->
    (forall s m, obs_in a (fst (s_fobs s a m)) = true) ->
    c_call Sim s_fobs c (QObs a) = (CObs o b, c') ->
    cobs_member Sim obs_in a o b = true.
Proof. intros St Obs Info Act. exact (@obs_member St Obs Info Act). Qed.
Print Assumptions C02_wrapped_member_comm.

(* ---- the monitors' checker ------------------------------------------------------------------------ *)
(* the reference behaviour ("no violation", for every input) is accepted ... *)
Theorem chk_C02_model : forall x,
  run_chk_C02 (L [x; run_mon_examples x]) = A 1 /\
  run_chk_C02 (L [x; run_mon_grid x]) = A 1 /\
  run_chk_C02 (L [x; run_mon_stacks x]) = A 1.
Proof. exact chk_C02_model_lemma. Qed.
Print Assumptions chk_C02_model.

(* ... and nothing else is: any recorded violation makes the checker answer a negative clause *)
Theorem C02_chk_only_empty : forall beh, chk_C02 beh = 1 <-> beh = L [].
Proof. exact chk_C02_only_empty. Qed.
Print Assumptions C02_chk_only_empty.

(* ---- non-vacuity ---------------------------------------------------------------------------------- *)
(* 2x3 grid; agent 0 (encoding 1, one round of ammunition) at (0,0) attacks encoding 2 with range 1,
   two simultaneous attacks, full strength and accuracy; agents 1, 2 (encoding 2) at (0,1), (1,1). *)
Definition nv_agent (e : Z) (p : cell) (am : option Z) : arec :=
  {| a_enc := e; a_pos := Some p; a_health := HD; a_active := true; a_ammo := am;
     a_orient := Some 3; a_blocking := false |}.
Definition nv_state : gstate :=
  init_state 2 3 [] [nv_agent 1 (0, 0) (Some 1); nv_agent 2 (0, 1) None; nv_agent 2 (1, 1) None].
Definition nv_cf : acfg :=
  {| c_range := 1; c_strength := HD; c_accuracy := HD; c_simul := 2; c_mapping := [2]; c_stacked := false |}.

Example C02_nonvacuous_inv : ginv nv_state.
Proof.
  apply init_state_inv.
  - intros a b. reflexivity.
  - apply (forallb_Forall vitals_okb); [exact vitals_okb_ok|reflexivity].
  - apply (forallb_Forall a_active); [auto|reflexivity].
  - apply (forallb_Forall (fun a => match a_pos a with
                                    | Some q => (0 <=? fst q) && (fst q <? 2) && (0 <=? snd q) && (snd q <? 3)
                                    | None => true end)); [|reflexivity].
    intros x. destruct (a_pos x); auto.
Qed.

Example C02_nonvacuous :
  (* the hypotheses of the actor theorems are met by agent 0 of nv_state *)
  (exists a, agent nv_state 0 = Some a /\ a_active a = true /\ a_pos a = Some (0, 0)
             /\ a_orient a = Some 3) /\
  (* points of the declared channels and their null points *)
  member (attack_space KBinary nv_cf) (PI 2) = true /\
  member (attack_space KEncoding nv_cf) (PT [PI 1]) = true /\
  member (attack_space KSelective nv_cf) (PV [0; 1; 0; 0; 0; 2; 0; 0; 0]) = true /\
  member (attack_space KRestricted nv_cf) (PV [6; 5]) = true /\
  member (attack_space KRestricted nv_cf) (PV [10; 0]) = false /\
  member (move_space 1) (PV [1; -1]) = true /\ member (move_space 1) (PV [2; 0]) = false /\
  (* a run: two attacks requested, both enemies pass the criteria (draws 0, 0), the choice picks
     both, one round of ammunition keeps agent 2 only, which dies; the ammunition is spent *)
  (exists s' o',
     process_attack vis_model nv_state nv_cf 0 {| o_unif := [0; 0]; o_choice := [[2; 1]%nat; [2%nat]] |}
                    (ABinary 2) = POk true [2%nat] s' o' /\
     option_map a_active (agent s' 2) = Some false /\
     option_map a_ammo (agent s' 0) = Some (Some 0) /\ o_choice o' = []) /\
  (* an inadmissible recorded choice (an agent that is not attackable) is PBadOracle, not an error *)
  process_attack vis_model nv_state nv_cf 0 {| o_unif := [0; 0]; o_choice := [[0; 1]%nat] |} (ABinary 2)
    = PBadOracle /\
  (* moves: down is free, right is occupied by a non-overlappable agent *)
  (exists s', move_cross nv_state 0 2 = MOk true s') /\
  (exists s', move_cross nv_state 0 3 = MOk false s').
Proof.
  split; [eexists; vm_compute; repeat split; reflexivity|].
  repeat split; try (vm_compute; reflexivity); eexists; try eexists; vm_compute; repeat split; reflexivity.
Qed.

(* ==================================================================================================
   The five built-in observers (abmarl/sim/gridworld/observer.py).  Models: Grid/Observe.v (C09);
   declared spaces and null observations: Grid/ObsSpace.v, transcribed from the constructors.  A
   multi-dimensional Box is the BoxI of Spaces/Space.v with one (low, high) pair per component in C
   order, its point the row-major flattening of the array (flat2 = concat of the rows; flat3 = index
   ((r * W) + c) * E + e); the two-dimensional shape is stated beside it (`shape`), the length of
   the layer lists for the stacked view.  Every theorem: every grid size, viewer, range R >= 0 (the
   resolved view_range), every state satisfying ginv (C03), every oracle `o` (np.random.choice),
   every visibility function `vis` (the mask, C10).  Hypotheses and where they come from:
     ginv s             the consistency invariant; holds after reset and after every operation (C03);
     agent/a_pos/inside the viewer stands in the grid (Grid.place; a dead viewer keeps its position);
     encs_fit s         no encoding is below -2 and max_encoding >= 0.  An ASSUMPTION ABOUT THE
                        INPUTS: the encoding setter only refuses -2, -1, 0 (encs_ok), so -5 is a legal
                        encoding for the code, is emitted by the two encoding observers and lies
                        below the declared low -2 (C02_encoding_condition_needed).  For encodings the
                        setter accepts it says exactly: every encoding is positive
                        (C02_encoding_condition_positive).  Not needed for the stacked, position and
                        ammunition observers;
     max_encoding       is the largest encoding among the agents (C02_max_encoding_is_max); the
                        emitted encodings are encodings of agents of the state (C09);
     stacked counts     a cell's occupants are distinct agent indices (C09_occupants_exact), so a count
                        is at most len(agents);
     ammunition         0 <= ammo from ginv; ammo <= initial_ammo is a HISTORY fact: no operation of
                        Grid/Play.v increases anybody's ammunition (C02_ammo_never_increases), stated
                        for every state play reaches from a state in which the ammunition is
                        initial_ammo (AmmoState.reset).
   ================================================================================================== *)

(* max(self._encodings_in_sim) *)
Theorem C02_max_encoding_is_max : forall s,
  (forall j b, agent s j = Some b -> a_enc b <= max_encoding s) /\
  (g_agents s <> [] -> exists j b, agent s j = Some b /\ a_enc b = max_encoding s).
Proof. exact max_encoding_is_max. Qed.
Print Assumptions C02_max_encoding_is_max.

(* AbsoluteEncodingObserver: Box(-2, max_encoding, (rows, cols)) *)
Theorem C02_obs_member_absolute : forall vis s i a p R o arr o',
  ginv s -> encs_fit s -> agent s i = Some a -> a_pos a = Some p -> inside s p = true -> 0 <= R ->
  obs_absolute vis s i R o = OOk arr o' ->
  shape arr (g_rows s) (g_cols s) /\ member (abs_space s) (flat2 arr) = true.
Proof. exact obs_member_absolute. Qed.
Print Assumptions C02_obs_member_absolute.

(* PositionCenteredEncodingObserver, observe_self = os: Box(-2, max_encoding, (2R+1, 2R+1)) *)
Theorem C02_obs_member_centered : forall vis s i a p R os o arr o',
  ginv s -> encs_fit s -> agent s i = Some a -> a_pos a = Some p -> inside s p = true -> 0 <= R ->
  obs_centered vis s i R os o = OOk arr o' ->
  shape arr (2 * R + 1) (2 * R + 1) /\ member (cent_space s R) (flat2 arr) = true.
Proof. exact obs_member_centered. Qed.
Print Assumptions C02_obs_member_centered.

(* StackedPositionCenteredEncodingObserver: Box(-2, len(agents), (2R+1, 2R+1, number_of_encodings));
   no condition on the encodings *)
Theorem C02_obs_member_stacked : forall vis s i a p R arr,
  ginv s -> agent s i = Some a -> a_pos a = Some p -> inside s p = true -> 0 <= R ->
  obs_stacked vis s i R = Some arr ->
  shape arr (2 * R + 1) (2 * R + 1) /\
  (forall r c l, get2 arr r c = Some l -> Z.of_nat (length l) = Z.max 0 (number_of_encodings s)) /\
  member (stk_space s R) (flat3 arr) = true.
Proof. exact obs_member_stacked. Qed.
Print Assumptions C02_obs_member_stacked.

(* AbsolutePositionObserver: Box([0, 0], [rows - 1, cols - 1]), for a living agent in any ginv state *)
Theorem C02_obs_member_position : forall s i a p,
  ginv s -> agent s i = Some a -> a_active a = true -> obs_position s i = Some p ->
  member (pos_space s) (pos_point p) = true.
Proof. exact obs_member_position. Qed.
Print Assumptions C02_obs_member_position.

(* ... and for any agent, also one that has died since and reports its last position, in every
   state reached by any operations from a state in which everybody was alive (after reset) *)
Theorem C02_obs_member_position_reachable : forall vis s0 ops i p,
  ginv s0 -> (forall j b, agent s0 j = Some b -> a_active b = true) ->
  obs_position (play vis s0 ops) i = Some p ->
  pos_space (play vis s0 ops) = pos_space s0 /\ member (pos_space s0) (pos_point p) = true.
Proof. exact obs_member_position_reachable. Qed.
Print Assumptions C02_obs_member_position_reachable.

(* history fact: whatever sequence of moves and attacks is played (any agents, any oracles, well
   formed or not), every agent is still there and its ammunition is at most what it was; an agent
   without ammunition stays without *)
Theorem C02_ammo_never_increases : forall vis s0 ops j b,
  agent s0 j = Some b ->
  exists b', agent (play vis s0 ops) j = Some b' /\
    match a_ammo b with
    | Some m0 => exists m, a_ammo b' = Some m /\ m <= m0
    | None => a_ammo b' = None
    end.
Proof. exact ammo_never_increases. Qed.
Print Assumptions C02_ammo_never_increases.

(* AmmoObserver: Box(0, initial_ammo, (1,)), in every state reached from one in which the agent's
   ammunition is initial_ammo *)
Theorem C02_obs_member_ammo : forall vis s0 ops i a0 initial_ammo,
  ginv s0 -> agent s0 i = Some a0 -> a_ammo a0 = Some initial_ammo ->
  exists m, obs_ammo (play vis s0 ops) i = Some m /\ 0 <= m <= initial_ammo /\
            member (ammo_space initial_ammo) (ammo_point m) = true.
Proof. exact obs_member_ammo. Qed.
Print Assumptions C02_obs_member_ammo.

(* the declared spaces are computed once, by the constructors: they are the same in every state
   reached (grid size, number of agents and encodings never change), and so is encs_fit *)
Theorem C02_declared_spaces_stable : forall vis s0 ops R,
  let s := play vis s0 ops in
  abs_space s = abs_space s0 /\ cent_space s R = cent_space s0 R /\ stk_space s R = stk_space s0 R /\
  pos_space s = pos_space s0 /\ (encs_fit s0 -> encs_fit s).
Proof. exact declared_spaces_stable. Qed.
Print Assumptions C02_declared_spaces_stable.

(* the null observations: -2 * ones(shape), zeros((2,)), 0.  Side conditions: -2 <= max_encoding
   (from encs_fit), a grid with at least one cell (the Grid constructor; any placed agent),
   0 <= initial_ammo (from ginv of the reset state, where ammo = initial_ammo) *)
Theorem C02_null_observations_member : forall s R initial_ammo,
  (-2 <= max_encoding s ->
     member (abs_space s) (abs_null s) = true /\ member (cent_space s R) (cent_null R) = true) /\
  member (stk_space s R) (stk_null s R) = true /\
  (1 <= g_rows s -> 1 <= g_cols s -> member (pos_space s) pos_null = true) /\
  (0 <= initial_ammo -> member (ammo_space initial_ammo) ammo_null = true).
Proof. exact null_observations_member. Qed.
Print Assumptions C02_null_observations_member.

(* encs_fit for encodings the setter accepts = every encoding is positive; positive encodings and
   one agent suffice *)
Theorem C02_encoding_condition_positive : forall s,
  (encs_ok s -> encs_fit s -> forall j b, agent s j = Some b -> 1 <= a_enc b) /\
  (forall i a, agent s i = Some a -> (forall j b, agent s j = Some b -> 1 <= a_enc b) -> encs_fit s).
Proof. intros s. split; [exact (encs_fit_positive s)|exact (encs_positive_fit s)]. Qed.
Print Assumptions C02_encoding_condition_positive.

(* ... and it is needed: a 1x2 grid, the viewer beside an agent of encoding -5 (accepted by the
   setter): both encoding observers emit -5, not a point of Box(-2, max_encoding, ...) *)
Theorem C02_encoding_condition_needed :
  encs_okb neg_state = true /\
  (exists arr, obs_centered vis_model neg_state 0 1 true [1; -5] = OOk arr [] /\
               member (cent_space neg_state 1) (flat2 arr) = false) /\
  (exists arr, obs_absolute vis_model neg_state 0 1 [-5] = OOk arr [] /\
               member (abs_space neg_state) (flat2 arr) = false).
Proof. exact negative_encoding_escapes. Qed.
Print Assumptions C02_encoding_condition_needed.

(* ---- non-vacuity of the observer theorems: nv_state above (2x3; agent 0 of encoding 1 with one
   round at (0,0), agents 1, 2 of encoding 2 at (0,1), (1,1)) ------------------------------------------- *)
Example C02_obs_nonvacuous :
  encs_fit nv_state /\
  (exists a, agent nv_state 0 = Some a /\ a_pos a = Some (0, 0) /\ inside nv_state (0, 0) = true /\
             a_ammo a = Some 1 /\ a_active a = true) /\
  max_encoding nv_state = 2 /\ n_agents nv_state = 3 /\
  obs_centered vis_model nv_state 0 1 false [2; 2] = OOk [[-1; -1; -1]; [-1; 0; 2]; [-1; 0; 2]] [] /\
  member (cent_space nv_state 1) (flat2 [[-1; -1; -1]; [-1; 0; 2]; [-1; 0; 2]]) = true /\
  member (cent_space nv_state 1) (flat2 [[-1; -1; -1]; [-1; 0; 3]; [-1; 0; 2]]) = false /\
  member (cent_space nv_state 1) (flat2 [[-1; -1; -1]; [-1; 0; 2]]) = false /\
  obs_absolute vis_model nv_state 0 1 [2; 2] = OOk [[-1; 2; -2]; [0; 2; -2]] [] /\
  member (abs_space nv_state) (flat2 [[-1; 2; -2]; [0; 2; -2]]) = true /\
  member (abs_space nv_state) (flat2 [[-1; 2; -3]; [0; 2; -2]]) = false /\
  (exists arr, obs_stacked vis_model nv_state 0 1 = Some arr /\
     flat3 arr = PV [-1; -1; -1; -1; -1; -1; -1; -1; 1; 0; 0; 1; -1; -1; 0; 0; 0; 1] /\
     member (stk_space nv_state 1) (flat3 arr) = true) /\
  member (stk_space nv_state 1) (PV [-1; -1; -1; -1; -1; -1; -1; -1; 1; 0; 0; 4; -1; -1; 0; 0; 0; 1]) = false /\
  obs_position nv_state 0 = Some (0, 0) /\ member (pos_space nv_state) (pos_point (0, 0)) = true /\
  member (pos_space nv_state) (pos_point (2, 0)) = false /\
  (* after the attack of C02_nonvacuous (one round spent, agent 2 dead) *)
  (let s := play vis_model nv_state
              [PAttack {| op_att := 0; op_cfg := nv_cf; op_act := ABinary 2;
                          op_orc := {| o_unif := [0; 0]; o_choice := [[2; 1]%nat; [2%nat]] |} |}] in
   obs_ammo s 0 = Some 0 /\ member (ammo_space 1) (ammo_point 0) = true /\
   member (ammo_space 1) (ammo_point 2) = false /\
   option_map a_active (agent s 2) = Some false /\ obs_position s 2 = Some (1, 1)).
Proof.
  split; [apply encs_fitb_ok; vm_compute; reflexivity|].
  split; [eexists; vm_compute; repeat split; reflexivity|].
  repeat split; try (vm_compute; reflexivity).
  eexists. split; [vm_compute; reflexivity|]. split; vm_compute; reflexivity.
Qed.

(* ==================================================================================================
   Attack actors, EVERY admissible oracle (Grid/AttackAdm.v, Proofs/AttackAdm_proofs.v).
   C02_attack_completes above says: for every uniform stream SOME admissible choice answers complete
   the call.  Here: ALL of them do.  Grid/AttackAdm.v writes the read pattern of a call as a decision
   tree (one node per np.random.uniform() / np.random.choice(...) call, children indexed by the
   answer; `t_process vis s cf att a p act` for process_action, built from the trees of
   _basic_criteria, _subset_attackables, the window scan and the four _determine_attack loops) and
   defines on it, by recursion along the run:
     adm t o       o is ADMISSIBLE for the call: every uniform read finds a value (any integer: also
                   outside [0,1)), every choice read finds an answer numpy can give for the request
                   presented at that read (req_ok: the right length, elements of the presented list,
                   distinct when drawn without replacement; one element for np.random.choice(l); a
                   sub-multiset of the hit list for the ammunition filter) — whatever the list is;
     bad_read t o  some read finds the oracle dry or an answer numpy cannot give;
     sat t         on EVERY path of admissible answers every request is one numpy accepts without
                   ValueError (req_pre: population not empty, size >= 0, size <= population without
                   replacement) and has an admissible answer.
   ================================================================================================== *)
From Abm Require Import Grid.AttackChk Grid.AttackAdm Proofs.AttackAdm_proofs.

(* the tree is the model: for every oracle (admissible or not), every action, every visibility
   function, process_attack is the run of the oracle along the tree; likewise _determine_attack *)
Theorem C02_attack_tree_is_model : forall vis s cf att a p act o,
  (determine vis s cf att p o act = run_tree (t_determine vis s cf att p act) o) /\
  (agent s att = Some a -> a_pos a = Some p ->
   process_attack vis s cf att o act = pres_of (run_tree (t_process vis s cf att a p act) o)).
Proof. exact attack_tree_is_model. Qed.
Print Assumptions C02_attack_tree_is_model.

(* for each of the four attack actors (k), every state satisfying the invariant, every placed
   attacker, every point of the declared channel: the point decodes to the actor's input; no request
   on any admissible path makes numpy raise, and each has an answer (sat); and with EVERY admissible
   oracle the call returns a result (never PBadOracle, never PErr) in a state satisfying ginv *)
Theorem C02_attack_total_all_oracles : forall k vis s cf att a p pt,
  ginv s -> agent s att = Some a -> a_pos a = Some p ->
  member (attack_space k cf) pt = true ->
  exists act, attack_of_point k cf pt = Some act /\
    sat (t_process vis s cf att a p act) /\
    forall o, adm (t_process vis s cf att a p act) o ->
      exists st hits s' o', process_attack vis s cf att o act = POk st hits s' o' /\ ginv s'.
Proof. exact attack_total_all_oracles. Qed.
Print Assumptions C02_attack_total_all_oracles.

(* the same for any action with non-negative counts (act_ok), member of a channel or not *)
Theorem C02_attack_total_act_ok : forall vis s cf att a p act,
  ginv s -> agent s att = Some a -> a_pos a = Some p -> act_ok act ->
  sat (t_process vis s cf att a p act) /\
  forall o, adm (t_process vis s cf att a p act) o ->
    exists st hits s' o', process_attack vis s cf att o act = POk st hits s' o' /\ ginv s'.
Proof. exact attack_total_act_ok. Qed.
Print Assumptions C02_attack_total_act_ok.

(* _determine_attack alone, for each of the four actors (act = ABinary / AEncoding / ASelective /
   ARestricted), before the ammunition filter: all requests acceptable and answerable, and a result
   exactly with an admissible oracle *)
Theorem C02_determine_total_all_oracles : forall vis s cf att p act,
  ginv s -> act_ok act ->
  sat (t_determine vis s cf att p act) /\
  forall o, adm (t_determine vis s cf att p act) o <->
            exists st hits o', determine vis s cf att p o act = AOk (st, hits) o'.
Proof. exact determine_total_all_oracles. Qed.
Print Assumptions C02_determine_total_all_oracles.

(* conversely, for every oracle and every action of a placed attacker: a result is returned exactly
   with an admissible oracle; PBadOracle exactly when a read found the oracle dry or an answer numpy
   cannot give; one of the two is the case, never both (and PErr never: C02_attack_no_error) *)
Theorem C02_attack_bad_oracle_only : forall vis s cf att a p act o,
  agent s att = Some a -> a_pos a = Some p ->
  ((exists st hits s' o', process_attack vis s cf att o act = POk st hits s' o')
     <-> adm (t_process vis s cf att a p act) o) /\
  (process_attack vis s cf att o act = PBadOracle <-> bad_read (t_process vis s cf att a p act) o) /\
  (adm (t_process vis s cf att a p act) o \/ bad_read (t_process vis s cf att a p act) o) /\
  (adm (t_process vis s cf att a p act) o -> ~ bad_read (t_process vis s cf att a p act) o).
Proof. exact attack_outcomes. Qed.
Print Assumptions C02_attack_bad_oracle_only.

(* ... and the result satisfies every clause of C11 (chk_attack = 0: status, eligibility, targeted
   cell, limits, no double hit, no skipped target at full accuracy, ammunition, health / active /
   frame, cells).  Extra hypotheses, as in chk_C11_model: the mapping's keys are a set, range and
   strength are not negative, uniform draws <= 1 when the accuracy is 1 *)
Theorem C02_attack_total_C11 : forall k vis s cf att a p pt o,
  ginv s -> agent s att = Some a -> a_pos a = Some p ->
  NoDup (c_mapping cf) -> 0 <= c_range cf -> 0 <= c_strength cf ->
  (c_accuracy cf = HD -> Forall (fun u => u <= HD) (o_unif o)) ->
  member (attack_space k cf) pt = true ->
  exists act, attack_of_point k cf pt = Some act /\
    (adm (t_process vis s cf att a p act) o ->
     exists st hits s' o', process_attack vis s cf att o act = POk st hits s' o' /\ ginv s' /\
       chk_attack vis s s' cf att act st hits = 0).
Proof. exact attack_total_C11. Qed.
Print Assumptions C02_attack_total_C11.

(* oracles as functions: a responder answers the j-th choice read with r_choice rc j r for WHATEVER
   request r is presented, and the i-th uniform read with r_unif rc i (any integer).  `responsive`:
   every request numpy accepts and can answer is answered with one of numpy's answers.  For every
   responsive responder the call completes; the transcript of its answers (play) is an admissible
   oracle and is consumed exactly.  Responsive responders exist (first fit, any uniform stream). *)
Theorem C02_attack_total_responders : forall vis s cf att a p act rc,
  ginv s -> agent s att = Some a -> a_pos a = Some p -> act_ok act -> responsive rc ->
  let r := play (t_process vis s cf att a p act) rc 0 0 in
  let o := {| o_unif := fst (snd r); o_choice := snd (snd r) |} in
  adm (t_process vis s cf att a p act) o /\
  process_attack vis s cf att o act
    = POk (fst (fst (fst r))) (snd (fst (fst r))) (snd (fst r)) {| o_unif := []; o_choice := [] |} /\
  ginv (snd (fst r)).
Proof. exact attack_total_responders. Qed.
Print Assumptions C02_attack_total_responders.

Theorem C02_responsive_exists : forall us, responsive (first_fit_responder us).
Proof. exact first_fit_responsive. Qed.
Print Assumptions C02_responsive_exists.

(* ---- non-vacuity: 3x3 grid, agent 0 (encoding 1, one round) in the middle, three agents of encoding
   2 at (0,0), (0,2), (2,1); range 1, two simultaneous attacks, full accuracy.  Scan order: 1, 2, 3. *)
Definition adm_state : gstate :=
  init_state 3 3 [] [nv_agent 1 (1, 1) (Some 1); nv_agent 2 (0, 0) None; nv_agent 2 (0, 2) None;
                     nv_agent 2 (2, 1) None].
Definition adm_tree (act : aaction) : otree (bool * list nat * gstate) :=
  t_process vis_model adm_state nv_cf 0 (nv_agent 1 (1, 1) (Some 1)) (1, 1) act.

Example C02_adm_nonvacuous :
  agent adm_state 0 = Some (nv_agent 1 (1, 1) (Some 1)) /\
  member (attack_space KBinary nv_cf) (PI 2) = true /\
  (* three draws, np.random.choice([1, 2, 3], size=2, replace=False) = [3, 1], then the ammunition
     filter np.random.choice([3, 1], size=1, replace=False) = [1]: admissible, and the call completes *)
  adm (adm_tree (ABinary 2)) {| o_unif := [0; 5; HD]; o_choice := [[3; 1]%nat; [1%nat]] |} /\
  (exists s' o', process_attack vis_model adm_state nv_cf 0
                   {| o_unif := [0; 5; HD]; o_choice := [[3; 1]%nat; [1%nat]] |} (ABinary 2)
                 = POk true [1%nat] s' o' /\ option_map a_active (agent s' 1) = Some false) /\
  (* every other pair is admissible as well; a failed draw (HD + 1 > accuracy) shrinks the list *)
  adm (adm_tree (ABinary 2)) {| o_unif := [0; 0; 0]; o_choice := [[2; 3]%nat; [3%nat]] |} /\
  adm (adm_tree (ABinary 2)) {| o_unif := [0; HD + 1; 0]; o_choice := [[3; 1]%nat; [3%nat]] |} /\
  (* the selective and the restricted actor aiming at the cells of agents 1 and 3 *)
  adm (adm_tree (ASelective [1; 0; 0; 0; 0; 0; 0; 2; 0]))
      {| o_unif := [0; 0]; o_choice := [[1%nat]; [3%nat]] |} /\
  adm (adm_tree (ARestricted false [1; 8]))
      {| o_unif := [0; 0]; o_choice := [[1%nat]; [3%nat]; [3%nat]] |} /\
  adm (adm_tree (AEncoding [(2, 2)]))
      {| o_unif := [0; 0; 0]; o_choice := [[1; 2]%nat; [2%nat]] |} /\
  (* inadmissible: the same agent twice without replacement; an agent that is not a candidate; an
     answer of the wrong length; an oracle that runs dry: bad_read, and the model says PBadOracle *)
  bad_read (adm_tree (ABinary 2)) {| o_unif := [0; 0; 0]; o_choice := [[3; 3]%nat; [3%nat]] |} /\
  process_attack vis_model adm_state nv_cf 0
    {| o_unif := [0; 0; 0]; o_choice := [[3; 3]%nat; [3%nat]] |} (ABinary 2) = PBadOracle /\
  bad_read (adm_tree (ABinary 2)) {| o_unif := [0; 0; 0]; o_choice := [[0; 1]%nat; [1%nat]] |} /\
  bad_read (adm_tree (ABinary 2)) {| o_unif := [0; 0; 0]; o_choice := [[1; 2; 3]%nat] |} /\
  bad_read (adm_tree (ABinary 2)) {| o_unif := [0; 0]; o_choice := [[1; 2]%nat; [1%nat]] |} /\
  bad_read (adm_tree (ABinary 2)) {| o_unif := [0; 0; 0]; o_choice := [[1; 2]%nat] |} /\
  process_attack vis_model adm_state nv_cf 0
    {| o_unif := [0; 0; 0]; o_choice := [[1; 2]%nat] |} (ABinary 2) = PBadOracle /\
  (* the first-fit responder: picks [1; 2], then [1] *)
  (let r := play (adm_tree (ABinary 2)) (first_fit_responder (fun _ => 0)) 0 0 in
   snd r = ([0; 0; 0], [[1; 2]%nat; [1%nat]]) /\ fst (fst r) = (true, [1%nat])).
Proof.
  split; [reflexivity|]. split; [reflexivity|].
  split; [vm_compute; repeat split; reflexivity|].
  split; [eexists; eexists; vm_compute; split; reflexivity|].
  repeat split; try (vm_compute; auto; repeat split; reflexivity).
Qed.

Example C02_adm_nonvacuous_inv : ginv adm_state.
Proof.
  apply init_state_inv.
  - intros a b. reflexivity.
  - apply (forallb_Forall vitals_okb); [exact vitals_okb_ok|reflexivity].
  - apply (forallb_Forall a_active); [auto|reflexivity].
  - apply (forallb_Forall (fun a => match a_pos a with
                                    | Some q => (0 <=? fst q) && (fst q <? 3) && (0 <=? snd q) && (snd q <? 3)
                                    | None => true end)); [|reflexivity].
    intros x. destruct (a_pos x); auto.
Qed.
