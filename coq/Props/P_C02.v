(* C02 — Observations and actions always live in the agents' declared spaces.
   Statements only; proofs in Proofs/Member_proofs.v and Proofs/AttackTotal_proofs.v.

   What is a theorem here (on the existing models Grid/Move.v, Grid/Attack.v, Spaces/*, Ctl/Super.v,
   Ctl/Comms.v; declared channels and null points in Grid/ActSpace.v):
     * every point of the channel an ACTOR declares is processed without an error arm, in every
       state satisfying the consistency invariant `ginv` (C03), for every placed active agent;
     * the declared NULL POINTS of the actor channels (and of the communication wrapper) are members
       of the declared spaces;
     * the WRAPPED observation is a member of the wrapped space (corollaries of C04, C05, C14, C20).
   What is NOT a theorem here: the five observers (their per-cell theorems are C09's; the statements
   wanted are in the TODO block at the end), the packaged example simulations' bespoke components and
   the composition of components into simulations: those are covered by the monitor run of
   harness/gen_C02.py only (testing).  The monitors' reference behaviour and checker are
   Spaces/Monitor02.v. *)
From Coq Require Import ZArith List Bool Arith Lia.
From Abm Require Import Base.Sx Spaces.Space Spaces.Ravel Spaces.Flatten Spaces.Monitor02
  Grid.Overlap Grid.Grid Grid.Move Grid.Attack Grid.Vis Grid.ActSpace
  Ctl.Managers Ctl.Super Ctl.Comms
  Proofs.Ravel_proofs Proofs.Flatten_proofs Proofs.Grid_proofs Proofs.Move_proofs Proofs.Attack_proofs
  Proofs.Managers_proofs Proofs.Super_proofs Proofs.Comms_proofs
  Proofs.Member_proofs Proofs.AttackTotal_proofs.
Import ListNotations.
Open Scope Z_scope.

(* ---- move actors --------------------------------------------------------------------------------- *)
(* MoveActor returns a result (never KeyError / TypeError / assertion) for EVERY offset, in
   particular for every point of its Box(-R, R, (2,)); CrossMoveActor for every point of
   Discrete(5); DriftMoveActor likewise for an agent with an orientation (1..4 by the invariant).
   The state after the move satisfies the invariant again, so this holds along every history. *)
Theorem C02_move_actions_total : forall s i a from,
  ginv s -> agent s i = Some a -> a_active a = true -> a_pos a = Some from ->
  (forall d, exists b s', move_free s i d = MOk b s' /\ ginv s') /\
  (forall R p, member (move_space R) p = true ->
     exists d b s', move_of_point p = Some d /\ - R <= fst d <= R /\ - R <= snd d <= R /\
                    move_free s i d = MOk b s' /\ ginv s') /\
  (forall p, member cross_space p = true ->
     exists ca b s', cross_of_point p = Some ca /\ move_cross s i ca = MOk b s' /\ ginv s') /\
  (forall o0 p, a_orient a = Some o0 -> member cross_space p = true ->
     exists ca b s', cross_of_point p = Some ca /\ move_drift s i ca = MOk b s' /\ ginv s').
Proof. exact move_actions_total. Qed.
Print Assumptions C02_move_actions_total.

(* ---- attack actors ------------------------------------------------------------------------------- *)
(* The error arm PErr of process_action is unreachable for a placed attacker: for every oracle and
   every action, member of the channel or not.  (The only other non-result outcome of the model is
   PBadOracle, which the model returns exactly where a recorded random draw is missing or violates
   the contract of numpy's uniform / choice.) *)
Theorem C02_attack_no_error : forall vis s cf att a p o act,
  agent s att = Some a -> a_pos a = Some p -> process_attack vis s cf att o act <> PErr.
Proof. exact process_attack_no_error. Qed.
Print Assumptions C02_attack_no_error.

(* Every random-choice request made on the way is satisfiable (non-empty population, count not
   negative, count <= population when drawing without replacement, ammunition not negative):
   there is N such that for EVERY stream of at least N uniform draws (of any value) there are
   admissible np.random.choice answers cs with which process_action returns a result, and the
   state after it satisfies the invariant.  act_ok: the counts carried by the action are >= 0. *)
Theorem C02_attack_completes : forall vis s cf att a p act,
  ginv s -> agent s att = Some a -> a_pos a = Some p -> act_ok act ->
  exists N, forall us, (N <= length us)%nat ->
    exists cs st hits s' o',
      process_attack vis s cf att {| o_unif := us; o_choice := cs |} act = POk st hits s' o' /\ ginv s'.
Proof. exact process_attack_completes. Qed.
Print Assumptions C02_attack_completes.

(* For each of the four attack actors (k) and every point of the channel it declares
   (Discrete(n+1) / Dict enc -> Discrete(n+1) / Box (2R+1)^2 in 0..n / MultiDiscrete[(2R+1)^2+1]^n):
   the point decodes to the actor's input, no error arm is reachable with any oracle, and an
   admissible oracle exists for every uniform stream. *)
Theorem C02_attack_actions_total : forall k vis s cf att a p pt,
  ginv s -> agent s att = Some a -> a_pos a = Some p ->
  member (attack_space k cf) pt = true ->
  exists act, attack_of_point k cf pt = Some act /\
    attack_completes vis s cf att act /\
    forall o, process_attack vis s cf att o act <> PErr.
Proof. exact attack_actions_total. Qed.
Print Assumptions C02_attack_actions_total.

(* ---- null points --------------------------------------------------------------------------------- *)
Theorem C02_null_actions_member :
  (forall R, 0 <= R -> member (move_space R) move_null = true) /\
  member cross_space cross_null = true /\
  (forall k cf, 0 <= c_simul cf -> member (attack_space k cf) (attack_null k cf) = true) /\
  (* an agent with a move and an attack channel: Dict(move, attack) *)
  (forall ms as_ mn an, member ms mn = true -> member as_ an = true ->
     member (both_space ms as_) (both_null mn an) = true).
Proof. exact null_actions_member. Qed.
Print Assumptions C02_null_actions_member.

(* communication wrapper (as repaired, findings/C02-comm-null-points): the wrapped agents' null
   points are points of the wrapped spaces whenever the inner ones are *)
Theorem C02_comm_null_member : forall inner p k,
  member inner p = true ->
  member (comm_obs_space inner k) (comm_null_obs p k) = true /\
  member (comm_act_space inner k) (comm_null_act p k) = true.
Proof. exact comm_null_member. Qed.
Print Assumptions C02_comm_null_member.

(* the wrapper before the repair copied the inner null points unchanged: not members *)
Theorem C02_comm_null_prefix_refuted :
  exists inner p k, member inner p = true /\
    member (comm_obs_space inner k) (comm_null_obs_prefix p k) = false /\
    member (comm_act_space inner k) (comm_null_act_prefix p k) = false.
Proof. exact comm_null_prefix_refuted. Qed.
Print Assumptions C02_comm_null_prefix_refuted.

(* ---- wrapped observations ------------------------------------------------------------------------ *)
(* ravel (C04): the ravelled observation is a point of Discrete(size) *)
Theorem C02_wrapped_member_ravel : forall s p,
  wf s = true -> ravel_ok s = true -> member s p = true ->
  member (ravel_space s) (PI (ravel s p)) = true.
Proof. exact ravel_member. Qed.
Print Assumptions C02_wrapped_member_ravel.

(* flatten (C05): the flattened observation is a point of the flattened Box *)
Theorem C02_wrapped_member_flatten : forall s p,
  wf s = true -> member s p = true -> box_member (flatten_space s) (flatten s p) = true.
Proof. exact flatten_in_box. Qed.
Print Assumptions C02_wrapped_member_flatten.

(* super agent (C14): given that the wrapped simulation's observations and declared nulls are
   members, the super observation is a member of Dict(mask, covered agents) *)
Theorem C02_wrapped_member_super :
  forall (St Obs Info Act : Type) (Sim : simulation St Obs Info Act) (mapping : list (list nat))
         (null_obs : nat -> option Obs) (obs_in : nat -> Obs -> bool) (w : wst St Act) j cv ents mask w',
    done_stable Sim -> valid_mapping Sim mapping = true -> nth_error mapping j = Some cv ->
    (forall s c, In c cv -> obs_in c (fst (sim_obs Sim s c)) = true) ->
    (forall c v, In c cv -> null_obs c = Some v -> obs_in c v = true) ->
    w_obs Sim mapping null_obs w (WSuper j) = (WSupObs ents mask, w') ->
    sup_member obs_in cv ents mask = true.
Proof. intros St Obs Info Act. exact (@super_obs_member St Obs Info Act). Qed.
Print Assumptions C02_wrapped_member_super.

(* communication (C20): the wrapped observation lies in Dict(obs: inner, message_buffer: flags) *)
Theorem C02_wrapped_member_comm :
  forall (St Obs Info Act : Type) (Sim : simulation St Obs Info Act)
         (s_fobs : St -> nat -> row -> Obs * St) (obs_in : nat -> Obs -> bool)
         (c : cst St Act) h a o b c',
    tables_are Sim c h -> (a < sim_n Sim)%nat ->
    (forall s m, obs_in a (fst (s_fobs s a m)) = true) ->
    c_call Sim s_fobs c (QObs a) = (CObs o b, c') ->
    cobs_member Sim obs_in a o b = true.
Proof. intros St Obs Info Act. exact (@obs_member St Obs Info Act). Qed.
Print Assumptions C02_wrapped_member_comm.

(* ---- the monitors' checker ------------------------------------------------------------------------ *)
(* the reference behaviour ("no violation", for every input) is accepted ... *)
Theorem chk_C02_model : forall x,
  run_chk_C02 (L [x; run_mon_examples x]) = A 1 /\
  run_chk_C02 (L [x; run_mon_grid x]) = A 1 /\
  run_chk_C02 (L [x; run_mon_stacks x]) = A 1.
Proof. exact chk_C02_model_lemma. Qed.
Print Assumptions chk_C02_model.

(* ... and nothing else is: any recorded violation makes the checker answer a negative clause *)
Theorem C02_chk_only_empty : forall beh, chk_C02 beh = 1 <-> beh = L [].
Proof. exact chk_C02_only_empty. Qed.
Print Assumptions C02_chk_only_empty.

(* ---- non-vacuity ---------------------------------------------------------------------------------- *)
(* 2x3 grid; agent 0 (encoding 1, one round of ammunition) at (0,0) attacks encoding 2 with range 1,
   two simultaneous attacks, full strength and accuracy; agents 1, 2 (encoding 2) at (0,1), (1,1). *)
Definition nv_agent (e : Z) (p : cell) (am : option Z) : arec :=
  {| a_enc := e; a_pos := Some p; a_health := HD; a_active := true; a_ammo := am;
     a_orient := Some 3; a_blocking := false |}.
Definition nv_state : gstate :=
  init_state 2 3 [] [nv_agent 1 (0, 0) (Some 1); nv_agent 2 (0, 1) None; nv_agent 2 (1, 1) None].
Definition nv_cf : acfg :=
  {| c_range := 1; c_strength := HD; c_accuracy := HD; c_simul := 2; c_mapping := [2]; c_stacked := false |}.

Example C02_nonvacuous_inv : ginv nv_state.
Proof.
  apply init_state_inv.
  - intros a b. reflexivity.
  - apply (forallb_Forall vitals_okb); [exact vitals_okb_ok|reflexivity].
  - apply (forallb_Forall a_active); [auto|reflexivity].
  - apply (forallb_Forall (fun a => match a_pos a with
                                    | Some q => (0 <=? fst q) && (fst q <? 2) && (0 <=? snd q) && (snd q <? 3)
                                    | None => true end)); [|reflexivity].
    intros x. destruct (a_pos x); auto.
Qed.

Example C02_nonvacuous :
  (* the hypotheses of the actor theorems are met by agent 0 of nv_state *)
  (exists a, agent nv_state 0 = Some a /\ a_active a = true /\ a_pos a = Some (0, 0)
             /\ a_orient a = Some 3) /\
  (* points of the declared channels and their null points *)
  member (attack_space KBinary nv_cf) (PI 2) = true /\
  member (attack_space KEncoding nv_cf) (PT [PI 1]) = true /\
  member (attack_space KSelective nv_cf) (PV [0; 1; 0; 0; 0; 2; 0; 0; 0]) = true /\
  member (attack_space KRestricted nv_cf) (PV [6; 5]) = true /\
  member (attack_space KRestricted nv_cf) (PV [10; 0]) = false /\
  member (move_space 1) (PV [1; -1]) = true /\ member (move_space 1) (PV [2; 0]) = false /\
  (* a run: two attacks requested, both enemies pass the criteria (draws 0, 0), the choice picks
     both, one round of ammunition keeps agent 2 only, which dies; the ammunition is spent *)
  (exists s' o',
     process_attack vis_model nv_state nv_cf 0 {| o_unif := [0; 0]; o_choice := [[2; 1]%nat; [2%nat]] |}
                    (ABinary 2) = POk true [2%nat] s' o' /\
     option_map a_active (agent s' 2) = Some false /\
     option_map a_ammo (agent s' 0) = Some (Some 0) /\ o_choice o' = []) /\
  (* an inadmissible recorded choice (an agent that is not attackable) is PBadOracle, not an error *)
  process_attack vis_model nv_state nv_cf 0 {| o_unif := [0; 0]; o_choice := [[0; 1]%nat] |} (ABinary 2)
    = PBadOracle /\
  (* moves: down is free, right is occupied by a non-overlappable agent *)
  (exists s', move_cross nv_state 0 2 = MOk true s') /\
  (exists s', move_cross nv_state 0 3 = MOk false s').
Proof.
  split; [eexists; vm_compute; repeat split; reflexivity|].
  repeat split; try (vm_compute; reflexivity); eexists; try eexists; vm_compute; repeat split; reflexivity.
Qed.

(* ---- TODO (integrator): observer membership, from C09's per-cell theorems (Grid/Observe.v) --------
   The observer models are property C09's and are not part of this development yet.  Wanted, for
   every state satisfying ginv, every placed observing agent i, every oracle (np.random.choice of
   one encoding among a cell's occupants), with R = the resolved view range, maxenc = the largest
   encoding in the simulation (encodings positive, as the agent setter documents), n = number of
   agents:

   Theorem C02_obs_member_absolute :          [ AbsoluteEncodingObserver, observer.py:81-86 ]
     member (BoxI (repeat (-2, maxenc) (rows * cols))) (PV (obs_absolute s i o)) = true.
       -- every emitted cell value is -2 (masked / outside the view), -1 (self), 0 (empty) or an
          occupant's encoding <= maxenc; the array has rows*cols entries.
   Theorem C02_obs_member_centered :          [ PositionCenteredEncodingObserver, both observe_self
                                                 settings, observer.py:176-182 ]
     member (BoxI (repeat (-2, maxenc) ((2R+1)^2))) (PV (obs_centered self s i o)) = true.
       -- values: -2 masked, -1 out of bounds, 0 empty (or only the observer itself when
          observe_self = false), an occupant's encoding.
   Theorem C02_obs_member_stacked :           [ StackedPositionCenteredEncodingObserver, 276-285 ]
     member (BoxI (repeat (-2, n) ((2R+1)^2 * maxenc))) (PV (obs_stacked s i)) = true.
       -- values: -2, -1, 0, or a count of occupants of one encoding; a count is at most the
          number of agents in the cell <= n (cell dictionaries are duplicate-free lists of valid
          agent indices: gi_nodup, gi_cell_agent).
   Theorem C02_obs_member_position :          [ AbsolutePositionObserver, 353-358 ]
     a_pos a = Some (r, c) -> member (BoxI [(0, rows - 1); (0, cols - 1)]) (PV [r; c]) = true.
       -- from gi_agent_cell: a placed active agent stands inside the grid.  (For an agent that has
          died the position is the last one it had, inside the grid as well: needs the invariant
          "positions of inactive agents stay inside", which hit / kill_inv preserve.)
   Theorem C02_obs_member_ammo :              [ AmmoObserver, 391-397 ]
     a_ammo a = Some m -> m <= initial_ammo -> member (BoxI [(0, initial_ammo)]) (PV [m]) = true.
       -- 0 <= m is gi_vitals; m <= initial_ammo needs the history invariant "ammunition never
          increases" (process_attack only subtracts; AmmoState.reset sets it to initial_ammo).
   Theorem C02_obs_null_member_<observer> :   the null observations (-2 everywhere; zeros; 0) are
       members of the same Boxes (needs 0 <= initial_ammo for the ammo observer, 1 <= rows, cols).
   Merged Dict of several observers: member_Dict / member_list, as C02_null_actions_member does for
   the two actor channels. *)
