(* C11 — Attacks hit only eligible agents, within limits, with exact bookkeeping.
   Statements only; proofs in Proofs/Attack_proofs.v.  The model (Grid/Attack.v) transcribes
   process_action, _basic_criteria, _subset_attackables and the four _determine_attack bodies;
   random draws are oracle arguments, so every theorem holds for every draw; the visibility
   function `vis` (the mask, C10) is an arbitrary argument.  `eligible` is the specification used
   by the executable checker (Grid/AttackChk.v): another, active agent whose encoding the mapping
   allows, standing inside the attack window on a cell that is not masked. *)
From Coq Require Import ZArith List Bool Arith Lia.
From Abm Require Import Base.Sx Grid.Overlap Grid.Grid Grid.Move Grid.Attack Grid.Vis Grid.AttackRun
  Grid.AttackChk Proofs.Grid_proofs Proofs.Move_proofs Proofs.Attack_proofs Proofs.GridChk_proofs
  Proofs.AttackLim_proofs Proofs.AttackChk_proofs.
Import ListNotations.
Open Scope Z_scope.

Theorem C11_binary_hits_eligible : forall vis s cf att p o n st hits o',
  ginv s -> att_pos s att = Some p ->
  det_binary vis s cf att p o n = AOk (st, hits) o' ->
  forall v, In v hits -> eligible vis s cf att v = true.
Proof. exact det_binary_eligible. Qed.
Print Assumptions C11_binary_hits_eligible.

Theorem C11_encoding_hits_eligible : forall vis s cf att p o l st hits o',
  ginv s -> att_pos s att = Some p ->
  det_encoding vis s cf att p o l = AOk (st, hits) o' ->
  forall v, In v hits -> eligible vis s cf att v = true.
Proof. exact det_encoding_eligible. Qed.
Print Assumptions C11_encoding_hits_eligible.

(* cell-directed: the hit agent stands on a window cell for which the action asked for attacks *)
Theorem C11_selective_hits_eligible : forall vis s cf att p o l st hits o',
  ginv s -> att_pos s att = Some p ->
  det_selective vis s cf att p o l = AOk (st, hits) o' ->
  forall v, In v hits ->
    eligible vis s cf att v = true /\
    exists d n, In (d, n) (combine (window (c_range cf)) l) /\ n <> 0 /\ offset_of s att v = Some d.
Proof. exact det_selective_eligible. Qed.
Print Assumptions C11_selective_hits_eligible.

(* restricted selective, for the documented row-major numbering (cm = false) and for any other:
   each hit stands on the cell named by a non-zero entry of the action; no agent is hit twice
   unless stacked attacks are on; at most one hit per non-zero entry *)
Theorem C11_restricted_hits_eligible : forall vis cm s cf att p o l st hits o',
  ginv s -> att_pos s att = Some p -> 0 <= c_range cf ->
  Forall (fun k => 0 <= k <= (2 * c_range cf + 1) * (2 * c_range cf + 1)) l ->
  det_restricted vis cm s cf att p o l = AOk (st, hits) o' ->
  (forall v, In v hits ->
     eligible vis s cf att v = true /\
     exists k, In k l /\ k <> 0 /\ offset_of s att v = Some (cell_of_id (c_range cf) cm k)) /\
  (c_stacked cf = false -> NoDup hits) /\
  (length hits <= length (filter (fun k => negb (k =? 0)%Z) l))%nat.
Proof. exact det_restricted_eligible. Qed.
Print Assumptions C11_restricted_hits_eligible.

(* cell numbers count row by row from the top left: id 1 is the top left cell of the window, id 2
   the cell to its right, id W+1 the first cell of the second row *)
Theorem C11_cell_numbering : forall R, 0 < R ->
  cell_of_id R false 1 = (- R, - R) /\ cell_of_id R false 2 = (- R, - R + 1)
  /\ cell_of_id R false (2 * R + 2) = (- R + 1, - R).
Proof. exact cell_numbering. Qed.
Print Assumptions C11_cell_numbering.

(* each hit lowers the victim's health by exactly the strength, clamped at zero, as long as it is
   alive; nothing else of any agent changes (positions, ammunition, orientation, encoding) *)
Theorem C11_health_bookkeeping : forall hits s st j b,
  ginv s -> 0 <= st -> agent s j = Some b ->
  exists b', agent (apply_hits s st hits) j = Some b' /\
    a_enc b' = a_enc b /\ a_pos b' = a_pos b /\ a_ammo b' = a_ammo b /\ a_orient b' = a_orient b /\
    a_blocking b' = a_blocking b /\
    a_health b' = (if a_active b then Z.max 0 (a_health b - st * Z.of_nat (countn j hits))
                   else a_health b) /\
    a_active b' = (if a_active b then 0 <? a_health b - st * Z.of_nat (countn j hits) else false).
Proof. exact apply_hits_bookkeeping. Qed.
Print Assumptions C11_health_bookkeeping.

(* agents reaching zero health die and leave the grid; the whole attack keeps the state consistent *)
Theorem C11_state_consistent : forall vis s cf att o act, ginv s ->
  match process_attack vis s cf att o act with
  | POk _ _ s' _ => ginv s'
  | _ => True
  end.
Proof. exact process_attack_inv. Qed.
Print Assumptions C11_state_consistent.

(* ---- limits ------------------------------------------------------------------------------------ *)
(* binary: at most n agents per step *)
Theorem C11_binary_limit : forall vis s cf att p o n st hits o',
  0 <= n -> det_binary vis s cf att p o n = AOk (st, hits) o' -> Z.of_nat (length hits) <= n.
Proof. exact det_binary_limit. Qed.
Print Assumptions C11_binary_limit.

(* encoding-based (the action is a dict: duplicate-free keys, non-negative counts): per encoding at
   most the requested number, and no agent of an encoding the action does not name *)
Theorem C11_encoding_limits : forall vis s cf att p o l st hits o',
  NoDup (map fst l) -> Forall (fun kv => 0 <= snd kv) l ->
  det_encoding vis s cf att p o l = AOk (st, hits) o' ->
  (forall e num, In (e, num) l -> Z.of_nat (length (filter (fun v => enc_of s v =? e) hits)) <= num) /\
  (forall v, In v hits -> In (enc_of s v) (map fst l)).
Proof. exact det_encoding_limits. Qed.
Print Assumptions C11_encoding_limits.

(* selective: per window cell d at most the count the action holds at d's scan position (widx) *)
Theorem C11_selective_limits : forall vis s cf att p o l st hits o',
  ginv s -> att_pos s att = Some p -> Forall (fun n => 0 <= n) l ->
  det_selective vis s cf att p o l = AOk (st, hits) o' ->
  forall d, In d (window (c_range cf)) -> hits_at s att hits d <= aimed_at cf (ASelective l) d.
Proof. exact det_selective_limits. Qed.
Print Assumptions C11_selective_limits.

(* ---- no agent is hit twice unless stacked attacks are enabled ------------------------------------ *)
Theorem C11_binary_nodup : forall vis s cf att p o n st hits o',
  ginv s -> c_stacked cf = false ->
  det_binary vis s cf att p o n = AOk (st, hits) o' -> NoDup hits.
Proof. exact det_binary_nodup. Qed.
Print Assumptions C11_binary_nodup.

Theorem C11_encoding_nodup : forall vis s cf att p o l st hits o',
  ginv s -> c_stacked cf = false -> NoDup (map fst l) ->
  det_encoding vis s cf att p o l = AOk (st, hits) o' -> NoDup hits.
Proof. exact det_encoding_nodup. Qed.
Print Assumptions C11_encoding_nodup.

Theorem C11_selective_nodup : forall vis s cf att p o l st hits o',
  ginv s -> att_pos s att = Some p -> Forall (fun n => 0 <= n) l -> c_stacked cf = false ->
  det_selective vis s cf att p o l = AOk (st, hits) o' -> NoDup hits.
Proof. exact det_selective_nodup. Qed.
Print Assumptions C11_selective_nodup.

(* ---- ammunition ------------------------------------------------------------------------------------ *)
(* the returned hit list is no longer than the ammunition; afterwards the attacker holds exactly
   ammo - hits (never negative); nobody else's ammunition changes *)
Theorem C11_ammunition : forall vis s cf att o act st hits s' o' a,
  agent s att = Some a ->
  process_attack vis s cf att o act = POk st hits s' o' ->
  (forall am, a_ammo a = Some am -> Z.of_nat (length hits) <= am) /\
  (forall j b, agent s j = Some b ->
     exists b', agent s' j = Some b' /\
       a_ammo b' = if Nat.eqb j att
                   then option_map (fun am => am - Z.of_nat (length hits)) (a_ammo b)
                   else a_ammo b).
Proof. exact process_attack_ammo. Qed.
Print Assumptions C11_ammunition.

(* ---- with full accuracy no eligible target is skipped --------------------------------------------- *)
(* accuracy 1 and uniform draws in [0,1]: the criteria filter keeps exactly the candidates that are
   not the attacker, active and allowed by the mapping *)
Theorem C11_full_accuracy_filter : forall s cf att o cands l o',
  c_accuracy cf = HD -> Forall (fun u => u <= HD) (o_unif o) ->
  filter_criteria s cf att o cands = AOk l o' ->
  l = filter (fun v => negb (Nat.eqb v att) &&
                       match agent s v with
                       | Some b => a_active b && memZ (a_enc b) (c_mapping cf)
                       | None => false end) cands.
Proof. exact filter_criteria_full. Qed.
Print Assumptions C11_full_accuracy_filter.

(* hence the number of hits before the ammunition filter is the checker's expected_full: computed
   from the eligible agents alone (min(requested, available), or requested when stacked) *)
Theorem C11_binary_full : forall vis s cf att p o n st hits o',
  ginv s -> att_pos s att = Some p -> c_accuracy cf = HD -> Forall (fun u => u <= HD) (o_unif o) ->
  0 <= n -> det_binary vis s cf att p o n = AOk (st, hits) o' ->
  Z.of_nat (length hits) = expected_full vis s cf att (ABinary n).
Proof. exact det_binary_full. Qed.
Print Assumptions C11_binary_full.

Theorem C11_encoding_full : forall vis s cf att p o l st hits o',
  ginv s -> att_pos s att = Some p -> c_accuracy cf = HD -> Forall (fun u => u <= HD) (o_unif o) ->
  Forall (fun kv => 0 <= snd kv) l ->
  det_encoding vis s cf att p o l = AOk (st, hits) o' ->
  Z.of_nat (length hits) = expected_full vis s cf att (AEncoding l).
Proof. exact det_encoding_full. Qed.
Print Assumptions C11_encoding_full.

Theorem C11_selective_full : forall vis s cf att p o l st hits o',
  ginv s -> att_pos s att = Some p -> c_accuracy cf = HD -> Forall (fun u => u <= HD) (o_unif o) ->
  Forall (fun n => 0 <= n) l ->
  det_selective vis s cf att p o l = AOk (st, hits) o' ->
  Z.of_nat (length hits) = expected_full vis s cf att (ASelective l).
Proof. exact det_selective_full. Qed.
Print Assumptions C11_selective_full.

(* restricted selective actor at full accuracy: the count is again the checker's expected_full *)
Theorem C11_restricted_full : forall vis cm s cf att p o l st hits o',
  ginv s -> att_pos s att = Some p -> 0 <= c_range cf ->
  Forall (fun k => 0 <= k <= (2 * c_range cf + 1) * (2 * c_range cf + 1)) l ->
  c_accuracy cf = HD -> Forall (fun u => u <= HD) (o_unif o) ->
  det_restricted vis cm s cf att p o l = AOk (st, hits) o' ->
  Z.of_nat (length hits) = expected_full vis s cf att (ARestricted cm l).
Proof. exact det_restricted_full. Qed.
Print Assumptions C11_restricted_full.

(* ---- the executable checker accepts the model's own behaviour ----------------------------------- *)
(* act_wf: the action lies in the actor's action space (binary: n >= 0; encoding: a dict with
   non-negative counts; selective: non-negative counts; restricted: range >= 0, cell ids in
   0..W*W).  limits_ok is the checker's limit clause (per step / per encoding / per cell, for the
   restricted actor per cell and in total). *)
Theorem C11_limits_all_actors : forall vis s cf att p o act st hits o1,
  ginv s -> att_pos s att = Some p -> act_wf cf act ->
  determine vis s cf att p o act = AOk (st, hits) o1 ->
  limits_ok s cf att act hits = true /\ (c_stacked cf = false -> NoDup hits).
Proof. exact determine_limits_ok. Qed.
Print Assumptions C11_limits_all_actors.

(* one attack, any actor, any visibility function, any admissible draws: every clause of the
   checker (status, eligibility, targeted cell, limits, no double hit, no skipped target at full
   accuracy, ammunition, health/active/frame, cell consistency) holds of the model's output *)
Theorem chk_C11_model : forall vis s cf att o act st hits s' o',
  ginv s -> act_wf cf act -> 0 <= c_strength cf ->
  (c_accuracy cf = HD -> Forall (fun u => u <= HD) (o_unif o)) ->
  process_attack vis s cf att o act = POk st hits s' o' ->
  chk_attack vis s s' cf att act st hits = 0.
Proof. exact chk_attack_model. Qed.
Print Assumptions chk_C11_model.

(* every sequence of attacks, through the snapshot codec (aops_ok: each operation is well formed
   and its recorded draws are admissible), and the wire entry points *)
Theorem C11_chk_model_seq : forall s0 ops, ginv s0 -> aops_ok s0 ops ->
  chk_aops s0 s0 ops (run_aops s0 ops) = 0.
Proof. exact chk_C11_model_seq. Qed.
Print Assumptions C11_chk_model_seq.

Theorem C11_run_chk_model : forall xin s0 xops ops,
  dec_grid_input xin = Some (s0, xops) -> all_some (map dec_aop xops) = Some ops ->
  ginv s0 -> aops_ok s0 ops ->
  run_chk_C11 (L [xin; run_attacks xin]) = A 1.
Proof. exact run_chk_C11_model. Qed.
Print Assumptions C11_run_chk_model.

(* the code before the repair numbered the cells column by column: refuted on a 1x2 grid *)
Definition f3_state : gstate :=
  init_state 1 2 [] [ {| a_enc := 1; a_pos := Some (0, 0); a_health := HD; a_active := true;
                         a_ammo := None; a_orient := None; a_blocking := false |};
                      {| a_enc := 2; a_pos := Some (0, 1); a_health := HD; a_active := true;
                         a_ammo := None; a_orient := None; a_blocking := false |} ].
Definition f3_cf : acfg :=
  {| c_range := 1; c_strength := HD; c_accuracy := HD; c_simul := 1; c_mapping := [2]; c_stacked := false |}.
Definition f3_orc : oracle := {| o_unif := [0]; o_choice := [[1%nat]] |}.

Theorem C11_colmajor_refuted :
  (* cell id 6 of a 3x3 window = second row, third column = the cell to the right of the attacker *)
  (exists s' o', process_attack vis_model f3_state f3_cf 0 f3_orc (ARestricted false [6]) = POk true [1%nat] s' o')
  /\ (exists s' o', process_attack vis_model f3_state f3_cf 0 f3_orc (ARestricted true [6]) = POk true [] s' o').
Proof. split; eexists; eexists; vm_compute; reflexivity. Qed.
Print Assumptions C11_colmajor_refuted.

(* ---- non-vacuity of chk_C11_model: two attacks at full accuracy, half strength; the second kills -- *)
Definition nv_cf : acfg :=
  {| c_range := 1; c_strength := HD / 2; c_accuracy := HD; c_simul := 1; c_mapping := [2]; c_stacked := false |}.
Definition nv_ops : list aop :=
  [ {| op_att := 0; op_cfg := nv_cf; op_act := ABinary 1;
       op_orc := {| o_unif := [0]; o_choice := [[1%nat]] |} |};
    {| op_att := 0; op_cfg := nv_cf; op_act := ARestricted false [6; 0];
       op_orc := {| o_unif := [HD]; o_choice := [[1%nat]] |} |} ].

Example C11_nonvacuous_chk :
  aops_ok f3_state nv_ops /\ chk_aops f3_state f3_state nv_ops (run_aops f3_state nv_ops) = 0 /\
  match process_attack vis_model f3_state nv_cf 0 {| o_unif := [0]; o_choice := [[1%nat]] |} (ABinary 1) with
  | POk st hits s' _ => st = true /\ hits = [1%nat] /\ option_map a_health (agent s' 1) = Some (HD / 2)
  | _ => False
  end.
Proof.
  split; [|split; vm_compute; auto].
  cbn [aops_ok nv_ops]. split.
  - unfold aop_wf. cbn [op_cfg op_act op_orc act_wf nv_cf c_strength c_accuracy o_unif].
    split; [lia|]. split; [unfold HD; apply Z.div_pos; lia|]. intros _. repeat constructor. unfold HD. lia.
  - set (r := process_attack _ _ _ _ _ _). vm_compute in r. subst r. cbv beta iota. split.
    + unfold aop_wf. cbn [op_cfg op_act op_orc act_wf nv_cf c_strength c_accuracy c_range o_unif].
      split; [split; [lia|repeat constructor; lia]|].
      split; [unfold HD; apply Z.div_pos; lia|]. intros _. repeat constructor. lia.
    + set (r := process_attack _ _ _ _ _ _). vm_compute in r. subst r. exact I.
Qed.

(* ---- binary64 layer (Grid/HealthFloat.v, Proofs/HealthFloat_proofs.v): "each hit lowers the victim's
   health by exactly the attack strength (clamped at zero), agents reaching zero health die and leave the
   grid" for health and strength that are ANY doubles, on the standard library's executable
   specification of IEEE-754 binary64 (Floats.SpecFloat): the subtraction rounds as CPython's does, so
   0.9 - 0.3 - 0.3 - 0.3 leaves 2^-53 and the victim alive.  The integer theorems above are the
   special case of multiples of 2^-20, where the subtraction is exact. ---- *)
From Coq Require Import SpecFloat.
From Abm Require Grid.HealthFloat Proofs.HealthFloat_proofs.

(* whatever double is assigned (infinities, NaN): the stored health is never below 0 nor above 1 *)
Theorem C11_float_health_in_unit : forall v,
    SFltb (HealthFloat.set_health v) HealthFloat.f_zero = false /\
    SFltb HealthFloat.f_one (HealthFloat.set_health v) = false.
Proof. exact HealthFloat_proofs.set_health_unit. Qed.
Print Assumptions C11_float_health_in_unit.

Theorem C11_float_zero_never_active : forall s, HealthFloat.is_active (S754_zero s) = false.
Proof. exact HealthFloat_proofs.zero_not_active. Qed.
Print Assumptions C11_float_zero_never_active.

(* active = (health > 0) leaves no third case: a stored health that is a number and not active is zero *)
Theorem C11_float_inactive_is_zero : forall v h, h = HealthFloat.set_health v -> h <> S754_nan ->
    HealthFloat.is_active h = false -> exists s, h = S754_zero s.
Proof. exact HealthFloat_proofs.inactive_is_zero. Qed.
Print Assumptions C11_float_inactive_is_zero.

(* any number of attacks on a victim, any health, any strength: in every record the victim is stored
   in its cell exactly when it is active, and active only with positive health *)
Theorem C11_float_hits_records : forall n h s alive,
    Forall (fun r => let '(h', a, g) := r in g = a /\ (a = true -> HealthFloat.is_active h' = true))
           (HealthFloat.hits h s alive n).
Proof. exact HealthFloat_proofs.hits_records. Qed.
Print Assumptions C11_float_hits_records.

Theorem chk_C11_float_model : forall n h s alive,
    HealthFloat.chk_sem h s alive (HealthFloat.hits h s alive n) = 0.
Proof. exact HealthFloat_proofs.chk_sem_model. Qed.
Print Assumptions chk_C11_float_model.

(* what the checker demands of an observed hit on a living victim *)
Theorem C11_float_chk_sound : forall h s h' a g r,
    HealthFloat.chk_sem h s true ((h', a, g) :: r) = 0 ->
    HealthFloat.sf_eqb h' (HealthFloat.hit h s) = true /\ a = HealthFloat.is_active h' /\ g = a.
Proof. exact HealthFloat_proofs.chk_sem_sound_head. Qed.
Print Assumptions C11_float_chk_sound.

(* 0.9 hit with 0.3: 0.6000000000000001, 0.30000000000000004, 2^-53 (alive!), then dead; the wire
   checker accepts the model's answer and rejects the answer with the third health snapped to 0 *)
Example C11_float_nonvacuous :
  let inp := L [A 8106479329266893; A (-53); A 5404319552844595; A (-54); A 5] in
  HealthFloat.run_health_float inp =
    L [L [L [A 1351079888211149; A (-51)]; A 1; A 1]; L [L [A 5404319552844597; A (-54)]; A 1; A 1];
       L [L [A 1; A (-53)]; A 1; A 1]; L [L [A 0; A 0]; A 0; A 0]; L [L [A 0; A 0]; A 0; A 0]] /\
  HealthFloat.run_chk_health_float (L [inp; HealthFloat.run_health_float inp]) = A 1 /\
  HealthFloat.run_chk_health_float
    (L [inp; L [L [L [A 1351079888211149; A (-51)]; A 1; A 1]; L [L [A 5404319552844597; A (-54)]; A 1; A 1];
                L [L [A 0; A 0]; A 0; A 0]; L [L [A 0; A 0]; A 0; A 0]; L [L [A 0; A 0]; A 0; A 0]]]) = A (-1101).
Proof. cbv zeta. repeat split; vm_compute; reflexivity. Qed.
