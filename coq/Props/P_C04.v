(* C04 — Ravelling is a bijection between a space and Discrete(n).
   Only statements; every proof is [exact]/[apply] of a lemma from Proofs/. *)
From Coq Require Import ZArith List Bool.
From Abm Require Import Base.Sx Spaces.Space Spaces.Ravel Proofs.Sx_proofs Proofs.Ravel_proofs.
Import ListNotations.
Open Scope Z_scope.

(* supported space = well-formed (what gymnasium's constructors guarantee) and accepted by
   check_space *)
Definition supported (s : space) : Prop := wf s = true /\ ravel_ok s = true.

Theorem C04_size_pos : forall s, supported s -> 0 < size s.
Proof. intros s [H1 H2]. exact (proj1 (all_good s H1 H2)). Qed.

Theorem C04_ravel_range :
  forall s p, supported s -> member s p = true -> 0 <= ravel s p < size s.
Proof. intros s p [H1 H2] Hm. exact (proj1 (proj2 (proj1 (proj2 (all_good s H1 H2)) p Hm))). Qed.

Theorem C04_helper_dim_is_size :
  forall s p, supported s -> member s p = true -> snd (ravel_h s p) = size s.
Proof. intros s p [H1 H2] Hm. exact (proj1 (proj1 (proj2 (all_good s H1 H2)) p Hm)). Qed.

Theorem C04_unravel_ravel :
  forall s p, supported s -> member s p = true -> unravel s (ravel s p) = p.
Proof. intros s p [H1 H2] Hm. exact (proj2 (proj2 (proj1 (proj2 (all_good s H1 H2)) p Hm))). Qed.

Theorem C04_unravel_member :
  forall s k, supported s -> 0 <= k < size s -> member s (unravel s k) = true.
Proof. intros s k [H1 H2] Hk. exact (proj1 (proj2 (proj2 (all_good s H1 H2)) k Hk)). Qed.

Theorem C04_ravel_unravel :
  forall s k, supported s -> 0 <= k < size s -> ravel s (unravel s k) = k.
Proof. intros s k [H1 H2] Hk. exact (proj2 (proj2 (proj2 (all_good s H1 H2)) k Hk)). Qed.

(* one-to-one and onto: the two round trips give a bijection members <-> [0, size) *)
Theorem C04_injective :
  forall s p q, supported s -> member s p = true -> member s q = true ->
    ravel s p = ravel s q -> p = q.
Proof. exact ravel_injective. Qed.

Theorem C04_surjective :
  forall s k, supported s -> 0 <= k < size s ->
    exists p, member s p = true /\ ravel s p = k.
Proof. exact ravel_surjective. Qed.

Theorem C04_ravel_space : forall s, ravel_space s = Discrete (size s).
Proof. reflexivity. Qed.

(* check_space admits exactly the spaces without a float Box *)
Theorem C04_check_space_sound : forall s, ravel_ok s = negb (has_float s).
Proof. exact ravel_ok_float. Qed.

(* the executable checker that is also run on the implementation's answers *)
Theorem C04_chk_model :
  forall s p k, supported s -> member s p = true -> 0 <= k < size s ->
    chk_C04 s p k (ravel s p) (unravel s k) (ravel s (unravel s k))
            (unravel s (ravel s p)) (size s) = true.
Proof. exact chk_C04_model. Qed.

(* non-vacuity: a nested space satisfying the hypotheses, with 72 points *)
Example C04_nonvacuous :
  let s := Dict [Discrete 3; Tuple [MultiDiscrete [2; 2]; BoxI [(-1, 1); (0, 1)]]] in
  wf s = true /\ ravel_ok s = true /\ size s = 72 /\
  member s (PT [PI 2; PT [PV [1; 0]; PV [-1; 1]]]) = true /\
  ravel s (PT [PI 2; PT [PV [1; 0]; PV [-1; 1]]]) = 61.
Proof. vm_compute. repeat split. Qed.

Print Assumptions C04_size_pos.
Print Assumptions C04_ravel_range.
Print Assumptions C04_helper_dim_is_size.
Print Assumptions C04_unravel_ravel.
Print Assumptions C04_unravel_member.
Print Assumptions C04_ravel_unravel.
Print Assumptions C04_injective.
Print Assumptions C04_surjective.
Print Assumptions C04_ravel_space.
Print Assumptions C04_check_space_sound.
Print Assumptions C04_chk_model.
