(* C10, binary64 layer over Coq's primitive floats (hardware binary64, the arithmetic CPython and
   numpy use).  Finite statements decided by vm_compute.  `Print Assumptions` lists exactly the
   kernel primitives involved (PrimFloat / Uint63 operations and the types float, int); there is
   no axiom of ours.  The closed counterparts over Floats.SpecFloat are in Props/P_C10.v. *)
From Coq Require Import ZArith List Bool PrimFloat.
From Abm Require Import Base.Sx Grid.Mask Grid.MaskFloat Proofs.MaskFloat_proofs.
Import ListNotations.
Open Scope Z_scope.

(* repaired order, every range <= 40 *)
Theorem C10_float_agrees_upto_40 :
  forall R b q, R <= 40 -> in_window R b = true -> in_window R q = true ->
    mask_float R b q = mask_code R b q.
Proof. exact float_agrees_upto_40. Qed.
Print Assumptions C10_float_agrees_upto_40.

(* order of the unrepaired code: right up to range 14 ... *)
Theorem C10_float_prefix_agrees_upto_14 :
  forall R b q, R <= 14 -> in_window R b = true -> in_window R q = true ->
    mask_float_prefix R b q = mask_code R b q.
Proof. exact float_prefix_agrees_upto_14. Qed.
Print Assumptions C10_float_prefix_agrees_upto_14.

(* ... wrong at range 15 on exactly these (blocker, cell) pairs, all with the cell centre on a ray *)
Theorem C10_float_prefix_disagreements_15 :
  disagreements mask_float_prefix 15 =
  [((-8, -6), (-15, -13)); ((-8, -5), (-15, -11)); ((-8, 5), (-15, 11)); ((-8, 6), (-15, 13));
   ((8, -6), (15, -13)); ((8, -5), (15, -11)); ((8, 5), (15, 11)); ((8, 6), (15, 13))].
Proof. exact float_prefix_disagreements_15. Qed.
Print Assumptions C10_float_prefix_disagreements_15.

Theorem C10_primfloat_refuted_15 :
  exists b q, in_window 15 b = true /\ in_window 15 q = true /\
    cross (snd (corners b)) q = 0 /\
    mask_float_prefix 15 b q = true /\ mask_code 15 b q = false /\ mask_float 15 b q = false.
Proof. exact float_refuted_15. Qed.
Print Assumptions C10_primfloat_refuted_15.

Theorem C10_primfloat_refuted_15_chk :
  exists Ms, masks8_with mask_float_prefix f6_layout = Some Ms /\
             chk_C10 f6_layout (map of_matrix Ms) = -2.
Proof. exact float_refuted_15_chk. Qed.
Print Assumptions C10_primfloat_refuted_15_chk.
