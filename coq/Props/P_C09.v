(* C09 — Grid observers report exactly what is in view.
   Statements only; the proofs are in Proofs/Observe_proofs.v.
   The model (Grid/Observe.v) transcribes the local-window copy of utils.create_grid_and_mask
   (r_lower .. c_upper and the shifted slice assignment, numpy slices as the list operations
   slice / slice_set), the per-cell convolution of the three grid observers, the re-embedding
   slice of the absolute view, and the position and ammo observers.  np.random.choice is the
   oracle `o` (list of chosen encodings in scan order); the mask is the function `vis`
   (vis s viewer R (dr, dc) = the window cell at that offset is not masked); every theorem holds
   for every oracle and every vis.  `occupant s q j b` = agent j has record b, is active and is
   positioned at q: the right-hand sides speak about agent POSITIONS, never about the cell
   dictionaries; ginv is the grid/position consistency invariant of C03. *)
From Coq Require Import ZArith List Bool Arith Lia.
From Abm Require Import Base.Sx Grid.Overlap Grid.Grid Grid.Move Grid.Attack Grid.Vis Grid.Observe
  Proofs.Grid_proofs Proofs.Move_proofs Proofs.Observe_proofs.
Import ListNotations.
Open Scope Z_scope.

(* the transcribed slice copy puts at local (i, j) exactly the cell p + (i - R, j - R) when that is
   inside the grid and None otherwise: every grid size, every viewer position (all border and
   corner clippings), every range R >= 0 (also larger than the grid) *)
Theorem C09_window_is_offset : forall s p R, inside s p = true -> 0 <= R ->
  shape (local_window s p R) (2 * R + 1) (2 * R + 1) /\
  forall i j, 0 <= i < 2 * R + 1 -> 0 <= j < 2 * R + 1 ->
    get2 (local_window s p R) i j =
    Some (let q := (fst p + (i - R), snd p + (j - R)) in
          if inside s q then Some (cell_get (g_cells s) q) else None).
Proof. exact window_is_offset. Qed.
Print Assumptions C09_window_is_offset.

(* PositionCenteredEncodingObserver, observe_self = os *)
Theorem C09_centered_cell : forall vis s i a p R os o arr o',
  ginv s -> encs_ok s -> agent s i = Some a -> a_pos a = Some p -> inside s p = true -> 0 <= R ->
  obs_centered vis s i R os o = OOk arr o' ->
  shape arr (2 * R + 1) (2 * R + 1) /\
  forall di dj, - R <= di <= R -> - R <= dj <= R ->
    exists v, get2 arr (di + R) (dj + R) = Some v /\
      let q := (fst p + di, snd p + dj) in
      (v = -2 <-> vis s i R (di, dj) = false) /\
      (v = -1 <-> vis s i R (di, dj) = true /\ inside s q = false) /\
      (v = 0 <-> vis s i R (di, dj) = true /\ inside s q = true /\
                 forall j b, occupant s q j b -> (os = false -> j <> i) -> False) /\
      (v <> -2 -> v <> -1 -> v <> 0 ->
       exists j b, occupant s q j b /\ (os = false -> j <> i) /\ a_enc b = v).
Proof. exact centered_cell_clauses. Qed.
Print Assumptions C09_centered_cell.

(* StackedPositionCenteredEncodingObserver: layer e holds the exact number of occupants of
   encoding e + 1; -1 / -2 in every layer *)
Theorem C09_stacked_cell : forall vis s i a p R arr,
  ginv s -> agent s i = Some a -> a_pos a = Some p -> inside s p = true -> 0 <= R ->
  obs_stacked vis s i R = Some arr ->
  shape arr (2 * R + 1) (2 * R + 1) /\
  forall di dj, - R <= di <= R -> - R <= dj <= R ->
    exists l, get2 arr (di + R) (dj + R) = Some l /\
      Z.of_nat (length l) = Z.max 0 (number_of_encodings s) /\
      forall e, 0 <= e < number_of_encodings s ->
        exists v, get l e = Some v /\
          let q := (fst p + di, snd p + dj) in
          (v = -2 <-> vis s i R (di, dj) = false) /\
          (v = -1 <-> vis s i R (di, dj) = true /\ inside s q = false) /\
          (vis s i R (di, dj) = true -> inside s q = true ->
           v = count_enc s (occupants s q) (e + 1)).
Proof. exact stacked_cell_clauses. Qed.
Print Assumptions C09_stacked_cell.

(* what `occupants` is: each active agent positioned on q exactly once (from positions); under the
   invariant the cell dictionary has the same members *)
Theorem C09_occupants_exact : forall s q,
  NoDup (occupants s q) /\
  (forall j, In j (occupants s q) <-> exists b, occupant s q j b) /\
  (ginv s -> forall j, In j (cell_get (g_cells s) q) <-> In j (occupants s q)).
Proof. exact occupants_exact. Qed.
Print Assumptions C09_occupants_exact.

(* AbsoluteEncodingObserver: the array has the grid's shape; local cell (li, lj) of the convolved
   window lands at absolute p + (li - R, lj - R) (true coordinates); a cell beyond the range is
   -2; -1 is the cell of the viewer itself if it is alive (a dead viewer is in no cell and sees
   its former cell like any other) *)
Theorem C09_absolute_cell : forall vis s i a p R o arr o',
  ginv s -> encs_ok s -> agent s i = Some a -> a_pos a = Some p -> inside s p = true -> 0 <= R ->
  obs_absolute vis s i R o = OOk arr o' ->
  shape arr (g_rows s) (g_cols s) /\
  (exists conv, abs_convolved vis s i R o = OOk conv o' /\ shape conv (2 * R + 1) (2 * R + 1) /\
     forall li lj, 0 <= li < 2 * R + 1 -> 0 <= lj < 2 * R + 1 ->
       inside s (fst p + (li - R), snd p + (lj - R)) = true ->
       get2 arr (fst p + (li - R)) (snd p + (lj - R)) = get2 conv li lj) /\
  forall q, inside s q = true ->
    exists v, get2 arr (fst q) (snd q) = Some v /\
      let d := (fst q - fst p, snd q - snd p) in
      (in_range R d = false -> v = -2) /\
      (v = -2 <-> in_range R d = false \/ vis s i R d = false) /\
      (v = -1 <-> in_range R d = true /\ vis s i R d = true /\ a_active a = true /\ q = p) /\
      (v = 0 <-> in_range R d = true /\ vis s i R d = true /\ forall j b, occupant s q j b -> False) /\
      (v <> -2 -> v <> -1 -> v <> 0 -> exists j b, occupant s q j b /\ j <> i /\ a_enc b = v).
Proof. exact absolute_cell_clauses. Qed.
Print Assumptions C09_absolute_cell.

(* AbsolutePositionObserver reports agent.position; for a living agent that is the cell whose
   dictionary holds it, inside the grid *)
Theorem C09_position : forall s i a, ginv s -> agent s i = Some a ->
  obs_position s i = a_pos a /\
  (a_active a = true -> forall p, obs_position s i = Some p ->
     In i (cell_get (g_cells s) p) /\ inside s p = true).
Proof. exact position_true. Qed.
Print Assumptions C09_position.

(* AmmoObserver reports agent.ammo (nothing for an agent without), never negative *)
Theorem C09_ammo : forall s i a, ginv s -> agent s i = Some a ->
  obs_ammo s i = a_ammo a /\ forall m, obs_ammo s i = Some m -> 0 <= m.
Proof. exact ammo_true. Qed.
Print Assumptions C09_ammo.

(* the executable checker accepts the model's own output for every state satisfying the
   invariant, every request on which the model produces an observation (viewer standing in the
   grid, recorded draws admissible and used up), every vis -- stated on the decoded requests, the
   observation going through the wire encoder and the checker's decoder *)
Theorem chk_C09_model : forall vis s qs, ginv s -> Forall (req_ok vis s) qs ->
  chk_oreqs vis s qs (map (run_oreq vis s) qs) = 0.
Proof. exact chk_oreqs_model. Qed.
Print Assumptions chk_C09_model.

(* every state of the correspondence run (placement through Grid.place, then kills) satisfies the
   invariant *)
Theorem C09_states_inv : forall rows cols ov ags kills,
  NoDup (map fst ov) -> Forall vitals_ok ags -> Forall (fun a => a_active a = true) ags ->
  Forall (fun a => match a_pos a with
                   | Some q => (0 <=? fst q) && (fst q <? rows) && (0 <=? snd q) && (snd q <? cols) = true
                   | None => True end) ags ->
  ginv (obs_state (init_state rows cols ov ags) kills).
Proof. exact obs_state_inv. Qed.
Print Assumptions C09_states_inv.

(* ---- non-vacuity: 3x4 grid; viewer (enc 1) in the top border at (0,1); a pile-up of encodings
   2 and 3 at (1,2); agent 3 (enc 2) at (0,0) is killed ------------------------------------------- *)
Definition ex_agent (e : Z) (p : cell) (am : option Z) : arec :=
  {| a_enc := e; a_pos := Some p; a_health := HD; a_active := true; a_ammo := am;
     a_orient := None; a_blocking := false |}.
Definition ex_state : gstate :=
  obs_state (init_state 3 4 [(2, [3])]
               [ex_agent 1 (0, 1) (Some 4); ex_agent 2 (1, 2) None; ex_agent 3 (1, 2) None;
                ex_agent 2 (0, 0) None]) [3%nat].

Example C09_nonvacuous_inv : ginv ex_state /\ encs_ok ex_state.
Proof.
  split; [|apply encs_okb_ok; reflexivity]. apply obs_state_inv.
  - repeat constructor; intros [].
  - apply (forallb_Forall vitals_okb); [exact vitals_okb_ok|reflexivity].
  - apply (forallb_Forall a_active); [auto|reflexivity].
  - apply (forallb_Forall (fun a => match a_pos a with
                                    | Some q => (0 <=? fst q) && (fst q <? 3) && (0 <=? snd q) && (snd q <? 4)
                                    | None => true end)); [|reflexivity].
    intros x. destruct (a_pos x); auto.
Qed.

Example C09_nonvacuous_views :
  obs_centered vis_model ex_state 0 1 false [3] =
    OOk [[-1; -1; -1]; [0; 0; 0]; [0; 0; 3]] []
  /\ obs_centered vis_model ex_state 0 1 true [1; 2] =
    OOk [[-1; -1; -1]; [0; 1; 0]; [0; 0; 2]] []
  /\ obs_centered vis_model ex_state 0 1 true [1; 1] = OBad          (* 1 is not on that cell *)
  /\ obs_absolute vis_model ex_state 0 1 [2] =
    OOk [[0; -1; 0; -2]; [0; 0; 2; -2]; [-2; -2; -2; -2]] []
  /\ obs_stacked vis_model ex_state 0 1 =
    Some [[[-1; -1; -1]; [-1; -1; -1]; [-1; -1; -1]];
          [[0; 0; 0]; [1; 0; 0]; [0; 0; 0]];
          [[0; 0; 0]; [0; 0; 0]; [0; 1; 1]]]
  /\ obs_absolute vis_model ex_state 3 1 [1] =                       (* the dead agent's view *)
    OOk [[0; 1; -2; -2]; [0; 0; -2; -2]; [-2; -2; -2; -2]] []
  /\ obs_position ex_state 0 = Some (0, 1) /\ obs_ammo ex_state 0 = Some 4
  /\ obs_ammo ex_state 1 = None.
Proof. repeat split; vm_compute; reflexivity. Qed.

(* the checker is not trivially true: it accepts these observations and refuses wrong ones *)
Example C09_nonvacuous_checker :
  chk_centered vis_model ex_state 0 1 false [[-1; -1; -1]; [0; 0; 0]; [0; 0; 3]] = true
  /\ chk_centered vis_model ex_state 0 1 false [[-1; -1; -1]; [0; 0; 0]; [0; 0; 2]] = true
  /\ chk_centered vis_model ex_state 0 1 false [[-1; -1; -1]; [0; 1; 0]; [0; 0; 2]] = false
  /\ chk_centered vis_model ex_state 0 1 true [[-1; -1; -1]; [0; 0; 0]; [0; 0; 2]] = false
  /\ chk_centered vis_model ex_state 0 1 true [[-1; -1; -1]; [0; 1; 0]; [0; 0; 1]] = false
  /\ chk_centered vis_model ex_state 0 1 true [[-1; -1; -1]; [0; 1; 0]; [0; 2; 0]] = false
  /\ chk_absolute vis_model ex_state 0 1 [[0; -1; 0; -2]; [0; 0; 3; -2]; [-2; -2; -2; -2]] = true
  /\ chk_absolute vis_model ex_state 0 1 [[0; -1; 0; 0]; [0; 0; 3; -2]; [-2; -2; -2; -2]] = false
  /\ chk_absolute vis_model ex_state 0 1 [[-1; 0; 0; -2]; [0; 0; 3; -2]; [-2; -2; -2; -2]] = false
  /\ chk_stacked vis_model ex_state 0 1
       [[[-1; -1; -1]; [-1; -1; -1]; [-1; -1; -1]];
        [[0; 0; 0]; [1; 0; 0]; [0; 0; 0]];
        [[0; 0; 0]; [0; 0; 0]; [0; 1; 0]]] = false.
Proof. repeat split; vm_compute; reflexivity. Qed.
