(* C20 — Messages are delivered only after a send followed by a matching receive.
   Only statements; proofs are in Proofs/Comms_proofs.v.  Every theorem holds for every wrapped
   simulation Sim with any number of agents and any fusing get_obs (s_fobs), every wrapper state
   before the reset, every call sequence after it.  wf_acts = the action dict is in the augmented
   action space as far as the two communication dicts are concerned (known agents, each sends only
   to others, 'receive' names every other agent). *)
From Coq Require Import ZArith List Bool.
From Abm Require Import Base.Sx Ctl.Managers Ctl.ScriptSim Ctl.MgrCheck Ctl.Super Ctl.Comms
     Proofs.Managers_proofs Proofs.Super_proofs Proofs.Comms_proofs.
Import ListNotations.

Section S.
Context {St Obs Info Act : Type}.
Variable Sim : simulation St Obs Info Act.
Variable s_fobs : St -> nat -> row -> Obs * St.
Notation n := (sim_n Sim).
Notation c_exec := (c_exec Sim s_fobs).
Notation c_call := (c_call Sim s_fobs).
Notation c_reset := (c_reset Sim).
Notation c_step := (c_step Sim).

(* one step from tables B (message_buffer) and R (received_message): no exception; the buffer
   then shows exactly this step's sends; the receive table changes only for acting agents, to
   "was pending and chose to receive"; the wrapped simulation is stepped once with exactly the
   'action' parts, in order *)
Theorem C20_step :
  forall (c : cst St Act) acts B R r s,
    c_buf c = table n B -> c_rcv c = table n R -> wf_acts Sim acts = true ->
    (r < n)%nat -> (s < n)%nat -> s <> r ->
    let c' := snd (c_step c acts) in
    fst (c_step c acts) = COk /\
    entry (c_buf c') r s = Some (sent acts s r) /\
    entry (c_rcv c') r s = Some (match alookup acts r with
                                 | Some a => B r s && wants a s
                                 | None => R r s
                                 end) /\
    c_sim c' = sim_step Sim (c_sim c) (sim_acts acts) /\
    c_log c' = c_log c ++ [LStep (sim_acts acts)].
Proof. exact (step_rules Sim). Qed.

(* for every state and every action dict (well-formed or not): the wrapped simulation is stepped
   at most once, and then with exactly the agents' original 'action' parts *)
Theorem C20_inner_actions :
  forall (c : cst St Act) acts,
    let c' := snd (c_step c acts) in
    (fst (c_step c acts) = COk ->
       c_sim c' = sim_step Sim (c_sim c) (sim_acts acts) /\
       c_log c' = c_log c ++ [LStep (sim_acts acts)]) /\
    ((c_sim c' = c_sim c /\ c_log c' = c_log c) \/
     (c_sim c' = sim_step Sim (c_sim c) (sim_acts acts) /\
      c_log c' = c_log c ++ [LStep (sim_acts acts)])).
Proof. exact (C20_inner_actions_l Sim). Qed.

(* in an episode (any state c0 before the reset, any calls qs after it, no further reset):
   message_buffer[r][s] is true exactly when s acted in the most recent step and sent to r *)
Theorem C20_buffer_rule :
  forall (c0 : cst St Act) qs r s,
    no_qreset qs -> steps_wf Sim qs -> (r < n)%nat -> (s < n)%nat -> s <> r ->
    entry (c_buf (c_exec (c_reset c0) qs)) r s
    = Some (match steps_of qs [] with [] => false | acts :: _ => sent acts s r end).
Proof. exact (C20_buffer_rule_l Sim s_fobs). Qed.

(* received_message[r][s] = r's most recent action of this episode chose to receive from s and s
   had sent to r in the step before that action (spec_rcv, unfolded in C20_receive_meaning) *)
Theorem C20_receive_rule :
  forall (c0 : cst St Act) qs r s,
    no_qreset qs -> steps_wf Sim qs -> (r < n)%nat -> (s < n)%nat -> s <> r ->
    entry (c_rcv (c_exec (c_reset c0) qs)) r s = Some (spec_rcv (steps_of qs []) r s).
Proof. exact (C20_receive_rule_l Sim s_fobs). Qed.

Theorem C20_receive_meaning :
  forall (r s : nat) (acts : list (nat * cact Act)) older,
    spec_rcv (@nil (list (nat * cact Act))) r s = false /\
    spec_rcv (acts :: older) r s
    = match alookup acts r with
      | Some a => (match older with [] => false | prev :: _ => sent prev s r end) && wants a s
      | None => spec_rcv older r s
      end.
Proof. intros. split; reflexivity. Qed.

(* the literal statement, for a receiver that acts in the step: fused iff the message was pending
   (sent in the immediately preceding step) and the receiver chose to receive it *)
Theorem C20_receive_all_act :
  forall (acts prev : list (nat * cact Act)) older r s a,
    alookup acts r = Some a ->
    spec_rcv (acts :: prev :: older) r s = sent prev s r && wants a s /\
    spec_rcv [acts] r s = false.
Proof. exact C20_all_act_l. Qed.

(* buffers are cleared at reset and every step: after a reset every entry of both tables is false;
   after a step every buffer entry whose sender did not act is false *)
Theorem C20_cleared :
  forall (c : cst St Act) r s,
    (r < n)%nat -> (s < n)%nat -> s <> r ->
    entry (c_buf (c_reset c)) r s = Some false /\ entry (c_rcv (c_reset c)) r s = Some false /\
    (forall acts B R, c_buf c = table n B -> c_rcv c = table n R -> wf_acts Sim acts = true ->
       alookup acts s = None -> entry (c_buf (snd (c_step c acts))) r s = Some false).
Proof. exact (C20_cleared_l Sim). Qed.

(* the tables of an episode, as a whole (also under interleaved getter calls) *)
Theorem C20_tables :
  forall qs (c : cst St Act) h,
    tables_are Sim c h -> no_qreset qs -> steps_wf Sim qs ->
    tables_are Sim (c_exec c qs) (steps_of qs h).
Proof. exact (exec_tables Sim s_fobs). Qed.

(* get_obs passes received_message[a] as the fusion matrix and returns message_buffer[a] *)
Theorem C20_obs_fusion :
  forall (c : cst St Act) h a,
    tables_are Sim c h -> (a < n)%nat ->
    let fm := map (fun s => (s, spec_rcv h a s)) (others n a) in
    c_call c (QObs a) =
      (CObs (fst (s_fobs (c_sim c) a fm)) (map (fun s => (s, spec_buf h a s)) (others n a)),
       {| c_sim := snd (s_fobs (c_sim c) a fm); c_buf := c_buf c; c_rcv := c_rcv c;
          c_log := c_log c ++ [LObs a fm] |}).
Proof. exact (obs_rule Sim s_fobs). Qed.

(* the wrapped observation lies in Dict(obs: inner space, message_buffer: Dict(other: Discrete(2))) *)
Theorem C20_members :
  forall (obs_in : nat -> Obs -> bool) (c : cst St Act) h a o b c',
    tables_are Sim c h -> (a < n)%nat ->
    (forall s m, obs_in a (fst (s_fobs s a m)) = true) ->
    c_call c (QObs a) = (CObs o b, c') ->
    cobs_member Sim obs_in a o b = true.
Proof. exact (obs_member Sim s_fobs). Qed.
End S.

Print Assumptions C20_step.
Print Assumptions C20_inner_actions.
Print Assumptions C20_buffer_rule.
Print Assumptions C20_receive_rule.
Print Assumptions C20_receive_meaning.
Print Assumptions C20_receive_all_act.
Print Assumptions C20_cleared.
Print Assumptions C20_tables.
Print Assumptions C20_obs_fusion.
Print Assumptions C20_members.

(* the executable checker accepts the model's behaviour for every script and call sequence *)
Theorem chk_C20_model : forall sc qs, chk_C20 sc qs (comms_model sc qs) = 0%Z.
Proof. exact chk_C20_model_thm. Qed.
Print Assumptions chk_C20_model.

(* non-vacuity: two agents; step 1: agent 0 sends to 1; step 2: agent 1 receives, agent 0 does
   not act; agent 1's observation is then fused with agent 0's (code 2^0 * 10000), the buffer is
   empty again; in step 3 agent 1 acts without receiving and the fusion is gone *)
Definition nv_sc : script :=
  {| sc_n := 2; sc_learn := [true; true];
     sc_rows := [ {| r_done := [false; false]; r_all := false; r_next := [0%nat]; r_acc := [0; 0]%Z |} ] |}.
Definition nv_qs : list (ccall Z) :=
  [QReset;
   QStep [(0%nat, {| ca_act := 1%Z; ca_send := [(1%nat, true)]; ca_recv := [(1%nat, false)] |})];
   QObs 1;
   QStep [(1%nat, {| ca_act := 2%Z; ca_send := [(0%nat, false)]; ca_recv := [(0%nat, true)] |})];
   QObs 1;
   QStep [(1%nat, {| ca_act := 3%Z; ca_send := [(0%nat, false)]; ca_recv := [(0%nat, false)] |})];
   QObs 1].

Example C20_nonvacuous :
  forallb (fun q => match q with QStep acts => wf_acts (script_sim nv_sc) acts | _ => true end) nv_qs = true /\
  map qi_resp (comms_model nv_sc nv_qs)
  = [COk; COk; CObs 101 [(0%nat, true)]; COk; CObs 10201 [(0%nat, false)]; COk;
     CObs 301 [(0%nat, false)]].
Proof. vm_compute. split; reflexivity. Qed.
