(* C12 — Moves succeed exactly when the destination is free, and change only the mover.
   Statements only; proofs are in Proofs/Grid_proofs.v and Proofs/Move_proofs.v.
   The model (Grid/Grid.v, Grid/Move.v) transcribes Grid.query/place/remove and the three
   process_action bodies; can_move is the independent specification computed from the agents'
   positions alone; ginv is the consistency invariant of C03. *)
From Coq Require Import ZArith List Bool Arith Lia.
From Abm Require Import Base.Sx Grid.Overlap Grid.Grid Grid.Move Proofs.Grid_proofs Proofs.Move_proofs Proofs.Init_proofs.
Import ListNotations.
Open Scope Z_scope.

(* free-range move: for every grid size, overlap table, crowding, offset d (any integers) *)
Theorem C12_free_iff : forall s i a from d,
  ginv s -> agent s i = Some a -> a_active a = true -> a_pos a = Some from ->
  exists s', move_free s i d = MOk (can_move s i d) s' /\ ginv s' /\
    (can_move s i d = false -> s' = s) /\
    (can_move s i d = true -> dest from d = from -> s' = s) /\
    (can_move s i d = true -> dest from d <> from -> displaced s s' i a from (dest from d)).
Proof. exact move_by_spec. Qed.
Print Assumptions C12_free_iff.

Theorem C12_cross_iff : forall s i a from ca d,
  ginv s -> agent s i = Some a -> a_active a = true -> a_pos a = Some from ->
  grid_action ca = Some d ->
  exists s', move_cross s i ca = MOk (can_move s i d) s' /\ ginv s' /\
    (can_move s i d = false -> s' = s) /\
    (can_move s i d = true -> dest from d = from -> s' = s) /\
    (can_move s i d = true -> dest from d <> from -> displaced s s' i a from (dest from d)).
Proof. exact move_cross_spec. Qed.
Print Assumptions C12_cross_iff.

(* 0 stay, 1 left, 2 down, 3 right, 4 up (the orientation numbering); nothing else is an action *)
Theorem C12_cross_table :
  grid_action 0 = Some (0, 0) /\ grid_action 1 = Some (0, -1) /\ grid_action 2 = Some (1, 0) /\
  grid_action 3 = Some (0, 1) /\ grid_action 4 = Some (-1, 0) /\
  (forall ca d, grid_action ca = Some d -> 0 <= ca <= 4) /\
  (forall s i ca, grid_action ca = None -> move_cross s i ca = MReject).
Proof. exact cross_table. Qed.
Print Assumptions C12_cross_table.

(* drift: a request for a new direction that can move turns and advances; otherwise (also for
   request 0) one step along the current orientation is attempted and the orientation is kept *)
Theorem C12_drift : forall s i a from o0 ca,
  ginv s -> agent s i = Some a -> a_active a = true -> a_pos a = Some from ->
  a_orient a = Some o0 ->
  match grid_action ca with
  | None => move_drift s i ca = MReject
  | Some d =>
      if negb (ca =? 0) && can_move s i d then
        exists s1, move_cross s i ca = MOk true s1 /\
          move_drift s i ca =
            MOk true (set_agent s1 i (with_orient (with_pos a (Some (dest from d))) (Some ca)))
      else move_drift s i ca = move_cross s i o0
  end.
Proof. exact move_drift_spec. Qed.
Print Assumptions C12_drift.

(* no other agent is ever affected, whatever the operation and whoever issues it *)
Theorem C12_frame : forall s o j, j <> mop_agent o ->
  agent (state_after s (do_mop s o)) j = agent s j.
Proof. exact do_mop_frame. Qed.
Print Assumptions C12_frame.

(* every sequence of moves, by any agents (placed, dead or absent), keeps grid, positions and
   vitals consistent *)
Theorem C12_inv_reachable : forall ops s, ginv s ->
  ginv (fold_left (fun st o => state_after st (do_mop st o)) ops s).
Proof. exact mops_inv. Qed.
Print Assumptions C12_inv_reachable.

Theorem C12_init_inv : forall rows cols ov ags,
  NoDup (map fst ov) -> Forall vitals_ok ags -> Forall (fun a => a_active a = true) ags ->
  Forall (fun a => match a_pos a with
                   | Some q => (0 <=? fst q) && (fst q <? rows) && (0 <=? snd q) && (snd q <? cols) = true
                   | None => True end) ags ->
  ginv (init_state rows cols ov ags).
Proof. exact init_state_inv_table. Qed.
Print Assumptions C12_init_inv.

(* ---- non-vacuity: a 2x3 grid, two agents that may not overlap, one that may ------------------ *)
Definition ex_agent (e : Z) (p : cell) (o : Z) : arec :=
  {| a_enc := e; a_pos := Some p; a_health := HD; a_active := true; a_ammo := None;
     a_orient := Some o; a_blocking := false |}.
Definition ex_state : gstate :=
  init_state 2 3 [] [ex_agent 1 (0, 0) 3; ex_agent 1 (0, 1) 3; ex_agent 2 (1, 2) 4].

Example C12_nonvacuous_inv : ginv ex_state.
Proof.
  apply init_state_inv.
  - intros a b. reflexivity.
  - apply (forallb_Forall vitals_okb); [exact vitals_okb_ok|reflexivity].
  - apply (forallb_Forall a_active); [auto|reflexivity].
  - apply (forallb_Forall (fun a => match a_pos a with
                                    | Some q => (0 <=? fst q) && (fst q <? 2) && (0 <=? snd q) && (snd q <? 3)
                                    | None => true end)); [|reflexivity].
    intros x. destruct (a_pos x); auto.
Qed.

Example C12_nonvacuous_moves :
  can_move ex_state 0 (0, 1) = false      (* right: occupied by a non-overlappable agent *)
  /\ can_move ex_state 0 (1, 0) = true    (* down: free *)
  /\ can_move ex_state 0 (-1, 0) = false  (* up: outside *)
  /\ can_move ex_state 0 (0, 0) = true    (* same cell *)
  /\ (exists s', move_drift ex_state 0 2 = MOk true s' /\
                 option_map a_orient (agent s' 0) = Some (Some 2) /\
                 option_map a_pos (agent s' 0) = Some (Some (1, 0)))
  /\ (exists s', move_drift ex_state 1 4 = MOk true s' /\       (* cannot turn up: drifts right *)
                 option_map a_orient (agent s' 1) = Some (Some 3) /\
                 option_map a_pos (agent s' 1) = Some (Some (0, 2))).
Proof.
  repeat split; try (vm_compute; reflexivity); eexists; vm_compute; repeat split; reflexivity.
Qed.
