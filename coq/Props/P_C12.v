(* C12 — Moves succeed exactly when the destination is free, and change only the mover.
   Statements only; proofs are in Proofs/Grid_proofs.v and Proofs/Move_proofs.v.
   The model (Grid/Grid.v, Grid/Move.v) transcribes Grid.query/place/remove and the three
   process_action bodies; can_move is the independent specification computed from the agents'
   positions alone; ginv is the consistency invariant of C03. *)
From Coq Require Import ZArith List Bool Arith Lia.
From Abm Require Import Base.Sx Grid.Overlap Grid.Grid Grid.Move Proofs.Grid_proofs Proofs.Move_proofs Proofs.Init_proofs
  Proofs.GridChk_proofs Proofs.MoveChk_proofs.
Import ListNotations.
Open Scope Z_scope.

(* free-range move: for every grid size, overlap table, crowding, offset d (any integers) *)
Theorem C12_free_iff : forall s i a from d,
  ginv s -> agent s i = Some a -> a_active a = true -> a_pos a = Some from ->
  exists s', move_free s i d = MOk (can_move s i d) s' /\ ginv s' /\
    (can_move s i d = false -> s' = s) /\
    (can_move s i d = true -> dest from d = from -> s' = s) /\
    (can_move s i d = true -> dest from d <> from -> displaced s s' i a from (dest from d)).
Proof. exact move_by_spec. Qed.
Print Assumptions C12_free_iff.

Theorem C12_cross_iff : forall s i a from ca d,
  ginv s -> agent s i = Some a -> a_active a = true -> a_pos a = Some from ->
  grid_action ca = Some d ->
  exists s', move_cross s i ca = MOk (can_move s i d) s' /\ ginv s' /\
    (can_move s i d = false -> s' = s) /\
    (can_move s i d = true -> dest from d = from -> s' = s) /\
    (can_move s i d = true -> dest from d <> from -> displaced s s' i a from (dest from d)).
Proof. exact move_cross_spec. Qed.
Print Assumptions C12_cross_iff.

(* 0 stay, 1 left, 2 down, 3 right, 4 up (the orientation numbering); nothing else is an action *)
Theorem C12_cross_table :
  grid_action 0 = Some (0, 0) /\ grid_action 1 = Some (0, -1) /\ grid_action 2 = Some (1, 0) /\
  grid_action 3 = Some (0, 1) /\ grid_action 4 = Some (-1, 0) /\
  (forall ca d, grid_action ca = Some d -> 0 <= ca <= 4) /\
  (forall s i ca, grid_action ca = None -> move_cross s i ca = MReject).
Proof. exact cross_table. Qed.
Print Assumptions C12_cross_table.

(* drift: a request for a new direction that can move turns and advances; otherwise (also for
   request 0) one step along the current orientation is attempted and the orientation is kept *)
Theorem C12_drift : forall s i a from o0 ca,
  ginv s -> agent s i = Some a -> a_active a = true -> a_pos a = Some from ->
  a_orient a = Some o0 ->
  match grid_action ca with
  | None => move_drift s i ca = MReject
  | Some d =>
      if negb (ca =? 0) && can_move s i d then
        exists s1, move_cross s i ca = MOk true s1 /\
          move_drift s i ca =
            MOk true (set_agent s1 i (with_orient (with_pos a (Some (dest from d))) (Some ca)))
      else move_drift s i ca = move_cross s i o0
  end.
Proof. exact move_drift_spec. Qed.
Print Assumptions C12_drift.

(* no other agent is ever affected, whatever the operation and whoever issues it *)
Theorem C12_frame : forall s o j, j <> mop_agent o ->
  agent (state_after s (do_mop s o)) j = agent s j.
Proof. exact do_mop_frame. Qed.
Print Assumptions C12_frame.

(* every sequence of moves, by any agents (placed, dead or absent), keeps grid, positions and
   vitals consistent *)
Theorem C12_inv_reachable : forall ops s, ginv s ->
  ginv (fold_left (fun st o => state_after st (do_mop st o)) ops s).
Proof. exact mops_inv. Qed.
Print Assumptions C12_inv_reachable.

Theorem C12_init_inv : forall rows cols ov ags,
  NoDup (map fst ov) -> Forall vitals_ok ags -> Forall (fun a => a_active a = true) ags ->
  Forall (fun a => match a_pos a with
                   | Some q => (0 <=? fst q) && (fst q <? rows) && (0 <=? snd q) && (snd q <? cols) = true
                   | None => True end) ags ->
  ginv (init_state rows cols ov ags).
Proof. exact init_state_inv_table. Qed.
Print Assumptions C12_init_inv.

(* ---- the executable checker accepts the model's own behaviour ---------------------------------- *)
(* drift_wf s ops: every drift operation in ops is issued for an agent that has an orientation
   (the drift actor's precondition; an agent without one raises in the implementation). *)

(* the cell/position consistency test of the checker holds in every state satisfying the invariant *)
Theorem C12_cells_consistent : forall s, ginv s -> cells_consistent s = true.
Proof. exact ginv_cells_consistent. Qed.
Print Assumptions C12_cells_consistent.

(* and what it establishes when it answers true: every cell of the grid holds exactly, without
   repetition, the active agents positioned there *)
Theorem C12_cells_consistent_sound : forall s, cells_consistent s = true ->
  forall p, inside s p = true ->
    NoDup (cell_get (g_cells s) p) /\
    forall j, In j (cell_get (g_cells s) p) <->
              exists b, agent s j = Some b /\ a_active b = true /\ a_pos b = Some p.
Proof. exact cells_consistent_sound. Qed.
Print Assumptions C12_cells_consistent_sound.

(* the checker's agent comparison accepts equal agent lists only *)
Theorem C12_agents_eqb_exact : forall l m, arecs_eqb l m = true <-> l = m.
Proof. exact arecs_eqb_eq. Qed.
Print Assumptions C12_agents_eqb_exact.

(* snapshot codec: a snapshot read back is the state up to the representation of the cell
   dictionaries (same agents, dimensions, table; same dictionary in every cell of the grid) *)
Theorem C12_snapshot_roundtrip : forall s0 s,
  g_rows s = g_rows s0 -> g_cols s = g_cols s0 -> g_ov s = g_ov s0 ->
  length (g_agents s) = length (g_agents s0) ->
  exists s', dec_snapshot s0 (enc_snapshot s) = Some s' /\
    (g_rows s' = g_rows s /\ g_cols s' = g_cols s /\ g_ov s' = g_ov s /\ g_agents s' = g_agents s) /\
    forall p, In p (all_cells s) -> cell_get (g_cells s') p = cell_get (g_cells s) p.
Proof. exact dec_enc_snapshot. Qed.
Print Assumptions C12_snapshot_roundtrip.

(* one operation: the checker clause for (state, operation, model result, model state after) is 0 *)
Theorem C12_chk_mop_model : forall s o, ginv s -> drift_ok s o ->
  chk_mop s (state_after s (do_mop s o)) o (enc_mres (do_mop s o)) = 0.
Proof. exact chk_mop_model. Qed.
Print Assumptions C12_chk_mop_model.

(* every sequence, on decoded states *)
Theorem C12_chk_model_states : forall ops s, ginv s -> drift_wf s ops ->
  chk_mops_st s ops (mops_trace s ops) = 0.
Proof. exact chk_mops_st_model. Qed.
Print Assumptions C12_chk_model_states.

(* every sequence, through the snapshot codec: the extracted checker loop applied to the records
   the extracted model emits *)
Theorem chk_C12_model : forall s0 ops, ginv s0 -> drift_wf s0 ops ->
  chk_mops s0 s0 ops (run_mops s0 ops) = 0.
Proof. exact chk_C12_model. Qed.
Print Assumptions chk_C12_model.

(* the wire entry points: run_chk_C12 on (input, run_moves input) answers 1 *)
Theorem C12_run_chk_model : forall xin s0 xops ops,
  dec_grid_input xin = Some (s0, xops) -> all_some (map dec_mop xops) = Some ops ->
  ginv s0 -> drift_wf s0 ops ->
  run_chk_C12 (L [xin; run_moves xin]) = A 1.
Proof. exact run_chk_C12_model. Qed.
Print Assumptions C12_run_chk_model.

(* ---- non-vacuity: a 2x3 grid, two agents that may not overlap, one that may ------------------ *)
Definition ex_agent (e : Z) (p : cell) (o : Z) : arec :=
  {| a_enc := e; a_pos := Some p; a_health := HD; a_active := true; a_ammo := None;
     a_orient := Some o; a_blocking := false |}.
Definition ex_state : gstate :=
  init_state 2 3 [] [ex_agent 1 (0, 0) 3; ex_agent 1 (0, 1) 3; ex_agent 2 (1, 2) 4].

Example C12_nonvacuous_inv : ginv ex_state.
Proof.
  apply init_state_inv.
  - intros a b. reflexivity.
  - apply (forallb_Forall vitals_okb); [exact vitals_okb_ok|reflexivity].
  - apply (forallb_Forall a_active); [auto|reflexivity].
  - apply (forallb_Forall (fun a => match a_pos a with
                                    | Some q => (0 <=? fst q) && (fst q <? 2) && (0 <=? snd q) && (snd q <? 3)
                                    | None => true end)); [|reflexivity].
    intros x. destruct (a_pos x); auto.
Qed.

Example C12_nonvacuous_moves :
  can_move ex_state 0 (0, 1) = false      (* right: occupied by a non-overlappable agent *)
  /\ can_move ex_state 0 (1, 0) = true    (* down: free *)
  /\ can_move ex_state 0 (-1, 0) = false  (* up: outside *)
  /\ can_move ex_state 0 (0, 0) = true    (* same cell *)
  /\ (exists s', move_drift ex_state 0 2 = MOk true s' /\
                 option_map a_orient (agent s' 0) = Some (Some 2) /\
                 option_map a_pos (agent s' 0) = Some (Some (1, 0)))
  /\ (exists s', move_drift ex_state 1 4 = MOk true s' /\       (* cannot turn up: drifts right *)
                 option_map a_orient (agent s' 1) = Some (Some 3) /\
                 option_map a_pos (agent s' 1) = Some (Some (0, 2))).
Proof.
  repeat split; try (vm_compute; reflexivity); eexists; vm_compute; repeat split; reflexivity.
Qed.

Definition ex_ops : list mop := [ODrift 0 2; ODrift 1 4; OCross 2 1; OFree 0 (5, 5); OCross 1 9; ODrift 2 0].
Example C12_nonvacuous_chk :
  drift_wf ex_state ex_ops /\ chk_mops ex_state ex_state ex_ops (run_mops ex_state ex_ops) = 0
  /\ map (fun r => enc_mres (fst r)) (mops_trace ex_state ex_ops)
     = [A 1; A 1; A 1; A 0; L [A (-1); A 1]; A 1].
Proof. split; [apply drift_wf_all; reflexivity|]. split; vm_compute; reflexivity. Qed.
