(* C03 — Grid contents, agent positions and agent vitals stay mutually consistent.
   Statements only; proofs in Proofs/Grid_proofs.v, Move_proofs.v, Attack_proofs.v, Play_proofs.v.
   ginv (Proofs/Grid_proofs.v) is the invariant; ginv_readable spells it out clause by clause. *)
From Coq Require Import ZArith List Bool Arith Lia.
From Abm Require Import Base.Sx Grid.Overlap Grid.Grid Grid.Move Grid.Attack Grid.Vis Grid.AttackRun
  Grid.Play Proofs.Grid_proofs Proofs.Move_proofs Proofs.Init_proofs Proofs.Attack_proofs Proofs.Play_proofs
  Proofs.GridChk_proofs Proofs.PlayChk_proofs.
Import ListNotations.
Open Scope Z_scope.

(* the invariant holds once the agents have been placed on an empty grid *)
Theorem C03_inv_init : forall rows cols ov ags,
  NoDup (map fst ov) -> Forall vitals_ok ags -> Forall (fun a => a_active a = true) ags ->
  Forall (fun a => match a_pos a with
                   | Some q => (0 <=? fst q) && (fst q <? rows) && (0 <=? snd q) && (snd q <? cols) = true
                   | None => True end) ags ->
  ginv (init_state rows cols ov ags).
Proof. exact init_state_inv_table. Qed.
Print Assumptions C03_inv_init.

(* every move operation (free, cross, drift; any agent, any action value) preserves it *)
Theorem C03_inv_move : forall s o, ginv s -> ginv (state_after s (do_mop s o)).
Proof. exact do_mop_inv. Qed.
Print Assumptions C03_inv_move.

(* every attack (any of the four actors, any action, any visibility function, any random draws)
   preserves it: health is clamped, dead agents become inactive and leave their cell *)
Theorem C03_inv_attack : forall vis s cf att o act, ginv s ->
  match process_attack vis s cf att o act with
  | POk _ _ s' _ => ginv s'
  | _ => True
  end.
Proof. exact process_attack_inv. Qed.
Print Assumptions C03_inv_attack.

(* hence every state reachable by any interleaving of moves and attacks, of any length *)
Theorem C03_inv_reachable : forall vis ops s, ginv s -> ginv (play vis s ops).
Proof. exact play_inv. Qed.
Print Assumptions C03_inv_reachable.

(* the invariant, clause by clause, as the property states it *)
Theorem C03_readable : forall s, ginv s ->
  (forall i a p, agent s i = Some a -> a_active a = true -> a_pos a = Some p ->
     inside s p = true /\ In i (cell_get (g_cells s) p) /\ NoDup (cell_get (g_cells s) p) /\
     forall q, In i (cell_get (g_cells s) q) -> q = p) /\
  (forall p i, In i (cell_get (g_cells s) p) ->
     exists a, agent s i = Some a /\ a_active a = true /\ a_pos a = Some p) /\
  (forall p i j, In i (cell_get (g_cells s) p) -> In j (cell_get (g_cells s) p) -> i <> j ->
     ov_allowed (g_ov s) (enc_of s i) (enc_of s j) = true) /\
  (forall i a, agent s i = Some a ->
     0 <= a_health a <= HD /\ (a_health a = 0 -> a_active a = false) /\
     (a_active a = true <-> 0 < a_health a) /\
     (forall m, a_ammo a = Some m -> 0 <= m) /\ (forall o, a_orient a = Some o -> 1 <= o <= 4)).
Proof. exact ginv_readable. Qed.
Print Assumptions C03_readable.

(* the implementation's `del cell[id]` on death is safe: no KeyError arm is ever taken *)
Theorem C03_no_keyerror : forall s v b st q,
  ginv s -> agent s v = Some b -> a_active b = true -> a_pos b = Some q ->
  a_active (with_health b (a_health b - st)) = false ->
  exists s2, remove (set_agent s v (with_health b (a_health b - st))) v q = Some s2 /\ ginv s2.
Proof. exact death_removal_succeeds. Qed.
Print Assumptions C03_no_keyerror.

(* ---- the executable invariant test ginvb against the invariant ---------------------------------- *)
(* all_placed s: every active agent has a position (true after a reset that places every agent;
   an agent whose initial placement failed stays active without a cell, which ginv tolerates and
   ginvb reports as 302) *)

(* it is preserved by every operation, hence along every interleaving *)
Theorem C03_placed_preserved : forall vis s o, all_placed s -> all_placed (do_pop vis s o).
Proof. exact all_placed_do_pop. Qed.
Print Assumptions C03_placed_preserved.

(* completeness: ginvb answers 0 on every state satisfying the invariant *)
Theorem C03_ginvb_complete : forall s,
  ginv s -> (forall a, In a (g_agents s) -> a_active a = true -> exists p, a_pos a = Some p) ->
  ginvb s = 0.
Proof. exact ginvb_complete. Qed.
Print Assumptions C03_ginvb_complete.

(* soundness: answer 0 establishes the property's clauses for the cells of the grid *)
Theorem C03_ginvb_sound : forall s, ginvb s = 0 ->
  (forall i a, agent s i = Some a ->
     0 <= a_health a <= HD /\ (a_health a = 0 -> a_active a = false) /\
     (a_active a = true <-> 0 < a_health a) /\
     (forall m, a_ammo a = Some m -> 0 <= m) /\ (forall o, a_orient a = Some o -> 1 <= o <= 4)) /\
  (forall i a, agent s i = Some a -> a_active a = true ->
     exists p, a_pos a = Some p /\ inside s p = true /\ In i (cell_get (g_cells s) p) /\
               NoDup (cell_get (g_cells s) p) /\
               forall q, inside s q = true -> In i (cell_get (g_cells s) q) -> q = p) /\
  (forall p i, inside s p = true -> In i (cell_get (g_cells s) p) ->
     exists a, agent s i = Some a /\ a_active a = true /\ a_pos a = Some p) /\
  (forall p i j, inside s p = true -> In i (cell_get (g_cells s) p) -> In j (cell_get (g_cells s) p) ->
     i <> j -> ov_allowed (g_ov s) (enc_of s i) (enc_of s j) = true).
Proof. exact ginvb_sound. Qed.
Print Assumptions C03_ginvb_sound.

(* chk_C03_model on decoded states: ginvb answers 0 in every state reachable by any interleaving of
   moves and attacks, for every visibility function and all random draws *)
Theorem chk_C03_model : forall vis ops s, ginv s -> all_placed s -> ginvb (play vis s ops) = 0.
Proof. exact ginvb_play. Qed.
Print Assumptions chk_C03_model.

(* through the snapshot codec: the extracted checker loop on the records the extracted model emits,
   and the wire entry points *)
Theorem C03_chk_snaps_model : forall ops s0, ginv s0 -> all_placed s0 ->
  chk_snaps s0 (run_pops s0 ops) = 0.
Proof. exact chk_snaps_model0. Qed.
Print Assumptions C03_chk_snaps_model.

Theorem C03_run_chk_model : forall xin s0 xops ops,
  dec_grid_input xin = Some (s0, xops) -> all_some (map dec_pop xops) = Some ops ->
  ginv s0 -> all_placed s0 ->
  run_chk_C03 (L [xin; run_play xin]) = A 1.
Proof. exact run_chk_C03_model. Qed.
Print Assumptions C03_run_chk_model.

(* ---- non-vacuity: 3x3 grid, two overlappable agents piled on one cell, an attack kills one ---- *)
Definition ex_ag (e : Z) (p : cell) (h : Z) (am : option Z) : arec :=
  {| a_enc := e; a_pos := Some p; a_health := h; a_active := true; a_ammo := am;
     a_orient := Some 1; a_blocking := false |}.
Definition ex0 : gstate :=
  init_state 3 3 [] [ex_ag 1 (1, 1) HD (Some 2); ex_ag 2 (0, 1) (HD / 2) None; ex_ag 2 (2, 2) HD None].
Definition ex_cf : acfg :=
  {| c_range := 1; c_strength := HD / 2; c_accuracy := HD; c_simul := 2; c_mapping := [2]; c_stacked := false |}.
Definition ex_ops : list pop :=
  [PAttack {| op_att := 0; op_cfg := ex_cf; op_act := ABinary 2;
              op_orc := {| o_unif := [0; 0]; o_choice := [[1%nat; 2%nat]] |} |};
   PMove (OCross 0 4)].

Example C03_nonvacuous :
  ginv ex0 /\ ginvb ex0 = 0 /\ ginvb (play vis_model ex0 ex_ops) = 0 /\
  option_map a_active (agent (play vis_model ex0 ex_ops) 1) = Some false /\
  cell_get (g_cells (play vis_model ex0 ex_ops)) (0, 1) = [0%nat] /\
  option_map a_ammo (agent (play vis_model ex0 ex_ops) 0) = Some (Some 0).
Proof.
  split.
  - apply init_state_inv.
    + intros a b. reflexivity.
    + apply (forallb_Forall vitals_okb); [exact vitals_okb_ok|reflexivity].
    + apply (forallb_Forall a_active); [auto|reflexivity].
    + apply (forallb_Forall (fun a => match a_pos a with
                                      | Some q => (0 <=? fst q) && (fst q <? 3) && (0 <=? snd q) && (snd q <? 3)
                                      | None => true end)); [|reflexivity].
      intros x. destruct (a_pos x); auto.
  - repeat split; vm_compute; reflexivity.
Qed.

Example C03_nonvacuous_chk :
  all_placed ex0 /\ chk_snaps ex0 (run_pops ex0 ex_ops) = 0 /\
  (* an agent whose placement failed (cell taken by a non-overlappable agent): ginv holds, 302 reported *)
  ginvb (init_state 1 2 [] [ex_ag 1 (0, 0) HD None; ex_ag 1 (0, 0) HD None]) = 302.
Proof. split; [apply all_placed_b; reflexivity|]. split; vm_compute; reflexivity. Qed.
