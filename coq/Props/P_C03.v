(* C03 — Grid contents, agent positions and agent vitals stay mutually consistent.
   Statements only; proofs in Proofs/Grid_proofs.v, Move_proofs.v, Attack_proofs.v, Play_proofs.v.
   ginv (Proofs/Grid_proofs.v) is the invariant; ginv_readable spells it out clause by clause. *)
From Coq Require Import ZArith List Bool Arith Lia.
From Abm Require Import Base.Sx Grid.Overlap Grid.Grid Grid.Move Grid.Attack Grid.Vis Grid.AttackRun
  Grid.Play Proofs.Grid_proofs Proofs.Move_proofs Proofs.Init_proofs Proofs.Attack_proofs Proofs.Play_proofs
  Proofs.GridChk_proofs Proofs.PlayChk_proofs.
Import ListNotations.
Open Scope Z_scope.

(* the invariant holds once the agents have been placed on an empty grid *)
Theorem C03_inv_init : forall rows cols ov ags,
  NoDup (map fst ov) -> Forall vitals_ok ags -> Forall (fun a => a_active a = true) ags ->
  Forall (fun a => match a_pos a with
                   | Some q => (0 <=? fst q) && (fst q <? rows) && (0 <=? snd q) && (snd q <? cols) = true
                   | None => True end) ags ->
  ginv (init_state rows cols ov ags).
Proof. exact init_state_inv_table. Qed.
Print Assumptions C03_inv_init.

(* every move operation (free, cross, drift; any agent, any action value) preserves it *)
Theorem C03_inv_move : forall s o, ginv s -> ginv (state_after s (do_mop s o)).
Proof. exact do_mop_inv. Qed.
Print Assumptions C03_inv_move.

(* every attack (any of the four actors, any action, any visibility function, any random draws)
   preserves it: health is clamped, dead agents become inactive and leave their cell *)
Theorem C03_inv_attack : forall vis s cf att o act, ginv s ->
  match process_attack vis s cf att o act with
  | POk _ _ s' _ => ginv s'
  | _ => True
  end.
Proof. exact process_attack_inv. Qed.
Print Assumptions C03_inv_attack.

(* hence every state reachable by any interleaving of moves and attacks, of any length *)
Theorem C03_inv_reachable : forall vis ops s, ginv s -> ginv (play vis s ops).
Proof. exact play_inv. Qed.
Print Assumptions C03_inv_reachable.

(* the invariant, clause by clause, as the property states it *)
Theorem C03_readable : forall s, ginv s ->
  (forall i a p, agent s i = Some a -> a_active a = true -> a_pos a = Some p ->
     inside s p = true /\ In i (cell_get (g_cells s) p) /\ NoDup (cell_get (g_cells s) p) /\
     forall q, In i (cell_get (g_cells s) q) -> q = p) /\
  (forall p i, In i (cell_get (g_cells s) p) ->
     exists a, agent s i = Some a /\ a_active a = true /\ a_pos a = Some p) /\
  (forall p i j, In i (cell_get (g_cells s) p) -> In j (cell_get (g_cells s) p) -> i <> j ->
     ov_allowed (g_ov s) (enc_of s i) (enc_of s j) = true) /\
  (forall i a, agent s i = Some a ->
     0 <= a_health a <= HD /\ (a_health a = 0 -> a_active a = false) /\
     (a_active a = true <-> 0 < a_health a) /\
     (forall m, a_ammo a = Some m -> 0 <= m) /\ (forall o, a_orient a = Some o -> 1 <= o <= 4)).
Proof. exact ginv_readable. Qed.
Print Assumptions C03_readable.

(* the implementation's `del cell[id]` on death is safe: no KeyError arm is ever taken *)
Theorem C03_no_keyerror : forall s v b st q,
  ginv s -> agent s v = Some b -> a_active b = true -> a_pos b = Some q ->
  a_active (with_health b (a_health b - st)) = false ->
  exists s2, remove (set_agent s v (with_health b (a_health b - st))) v q = Some s2 /\ ginv s2.
Proof. exact death_removal_succeeds. Qed.
Print Assumptions C03_no_keyerror.

(* ---- the executable invariant test ginvb against the invariant ---------------------------------- *)
(* all_placed s: every active agent has a position (true after a reset that places every agent;
   an agent whose initial placement failed stays active without a cell, which ginv tolerates and
   ginvb reports as 302) *)

(* it is preserved by every operation, hence along every interleaving *)
Theorem C03_placed_preserved : forall vis s o, all_placed s -> all_placed (do_pop vis s o).
Proof. exact all_placed_do_pop. Qed.
Print Assumptions C03_placed_preserved.

(* completeness: ginvb answers 0 on every state satisfying the invariant *)
Theorem C03_ginvb_complete : forall s,
  ginv s -> (forall a, In a (g_agents s) -> a_active a = true -> exists p, a_pos a = Some p) ->
  ginvb s = 0.
Proof. exact ginvb_complete. Qed.
Print Assumptions C03_ginvb_complete.

(* soundness: answer 0 establishes the property's clauses for the cells of the grid *)
Theorem C03_ginvb_sound : forall s, ginvb s = 0 ->
  (forall i a, agent s i = Some a ->
     0 <= a_health a <= HD /\ (a_health a = 0 -> a_active a = false) /\
     (a_active a = true <-> 0 < a_health a) /\
     (forall m, a_ammo a = Some m -> 0 <= m) /\ (forall o, a_orient a = Some o -> 1 <= o <= 4)) /\
  (forall i a, agent s i = Some a -> a_active a = true ->
     exists p, a_pos a = Some p /\ inside s p = true /\ In i (cell_get (g_cells s) p) /\
               NoDup (cell_get (g_cells s) p) /\
               forall q, inside s q = true -> In i (cell_get (g_cells s) q) -> q = p) /\
  (forall p i, inside s p = true -> In i (cell_get (g_cells s) p) ->
     exists a, agent s i = Some a /\ a_active a = true /\ a_pos a = Some p) /\
  (forall p i j, inside s p = true -> In i (cell_get (g_cells s) p) -> In j (cell_get (g_cells s) p) ->
     i <> j -> ov_allowed (g_ov s) (enc_of s i) (enc_of s j) = true).
Proof. exact ginvb_sound. Qed.
Print Assumptions C03_ginvb_sound.

(* chk_C03_model on decoded states: ginvb answers 0 in every state reachable by any interleaving of
   moves and attacks, for every visibility function and all random draws *)
Theorem chk_C03_model : forall vis ops s, ginv s -> all_placed s -> ginvb (play vis s ops) = 0.
Proof. exact ginvb_play. Qed.
Print Assumptions chk_C03_model.

(* through the snapshot codec: the extracted checker loop on the records the extracted model emits,
   and the wire entry points *)
Theorem C03_chk_snaps_model : forall ops s0, ginv s0 -> all_placed s0 ->
  chk_snaps s0 (run_pops s0 ops) = 0.
Proof. exact chk_snaps_model0. Qed.
Print Assumptions C03_chk_snaps_model.

Theorem C03_run_chk_model : forall xin s0 xops ops,
  dec_grid_input xin = Some (s0, xops) -> all_some (map dec_pop xops) = Some ops ->
  ginv s0 -> all_placed s0 ->
  run_chk_C03 (L [xin; run_play xin]) = A 1.
Proof. exact run_chk_C03_model. Qed.
Print Assumptions C03_run_chk_model.

(* ---- non-vacuity: 3x3 grid, two overlappable agents piled on one cell, an attack kills one ---- *)
Definition ex_ag (e : Z) (p : cell) (h : Z) (am : option Z) : arec :=
  {| a_enc := e; a_pos := Some p; a_health := h; a_active := true; a_ammo := am;
     a_orient := Some 1; a_blocking := false |}.
Definition ex0 : gstate :=
  init_state 3 3 [] [ex_ag 1 (1, 1) HD (Some 2); ex_ag 2 (0, 1) (HD / 2) None; ex_ag 2 (2, 2) HD None].
Definition ex_cf : acfg :=
  {| c_range := 1; c_strength := HD / 2; c_accuracy := HD; c_simul := 2; c_mapping := [2]; c_stacked := false |}.
Definition ex_ops : list pop :=
  [PAttack {| op_att := 0; op_cfg := ex_cf; op_act := ABinary 2;
              op_orc := {| o_unif := [0; 0]; o_choice := [[1%nat; 2%nat]] |} |};
   PMove (OCross 0 4)].

Example C03_nonvacuous :
  ginv ex0 /\ ginvb ex0 = 0 /\ ginvb (play vis_model ex0 ex_ops) = 0 /\
  option_map a_active (agent (play vis_model ex0 ex_ops) 1) = Some false /\
  cell_get (g_cells (play vis_model ex0 ex_ops)) (0, 1) = [0%nat] /\
  option_map a_ammo (agent (play vis_model ex0 ex_ops) 0) = Some (Some 0).
Proof.
  split.
  - apply init_state_inv.
    + intros a b. reflexivity.
    + apply (forallb_Forall vitals_okb); [exact vitals_okb_ok|reflexivity].
    + apply (forallb_Forall a_active); [auto|reflexivity].
    + apply (forallb_Forall (fun a => match a_pos a with
                                      | Some q => (0 <=? fst q) && (fst q <? 3) && (0 <=? snd q) && (snd q <? 3)
                                      | None => true end)); [|reflexivity].
      intros x. destruct (a_pos x); auto.
  - repeat split; vm_compute; reflexivity.
Qed.

Example C03_nonvacuous_chk :
  all_placed ex0 /\ chk_snaps ex0 (run_pops ex0 ex_ops) = 0 /\
  (* an agent whose placement failed (cell taken by a non-overlappable agent): ginv holds, 302 reported *)
  ginvb (init_state 1 2 [] [ex_ag 1 (0, 0) HD None; ex_ag 1 (0, 0) HD None]) = 302.
Proof. split; [apply all_placed_b; reflexivity|]. split; vm_compute; reflexivity. Qed.

(* =====================================================================================================
   End-to-end instance (supports C01, C03, C07, C08, C16).  Grid/BattleSim.v packages the component
   models (grid state, binary attack actor, move actor, centred observer, ActiveDone /
   OneTeamRemainingDone, read-and-reset rewards) with a transcription of TeamBattleSim.step as
   `battle_sim cf : simulation bstate (list (list Z)) unit bact`, an instance of the record over which
   the manager, wrapper and trainer theorems are proved.  Random draws and the state after each reset
   are oracle streams inside the state, so "for every bstate" quantifies over every oracle.
   Discharged here: done_stable (getters never touch the grid), order <> [] (every agent learns),
   preservation of the invariant by reset / step / getters.  Remaining hypotheses of the generic
   theorems: in_protocol histories (steps only while an episode runs) for the manager invariants;
   ginv of the given start states (placement is C13: C13_legal).
   ===================================================================================================== *)
From Abm Require Import Ctl.Managers Ctl.Trainer Grid.BattleSim
  Proofs.Managers_proofs Proofs.Managers_hist Proofs.BattleSim_proofs.

(* TeamBattleSim.step keeps the invariant: every action dictionary (any keys, any offsets, any attack
   counts, duplicates, dead agents), every oracle content *)
Theorem C03_e2e_step_ginv : forall cf st acts,
  ginv (bs_grid st) -> ginv (bs_grid (bs_step cf st acts)).
Proof. exact bs_step_ginv. Qed.
Print Assumptions C03_e2e_step_ginv.

(* get_obs / get_reward, in any number and order, leave the grid and the start-state stream alone *)
Theorem C03_e2e_getters_pure : forall cf s s',
  greach (battle_sim cf) s s' -> bs_grid s' = bs_grid s /\ bs_starts s' = bs_starts s.
Proof. exact greach_frame. Qed.
Print Assumptions C03_e2e_getters_pure.

(* hence the purity hypothesis of the turn-based / dynamic-order / trainer theorems holds *)
Theorem C03_e2e_done_stable : forall cf, done_stable (battle_sim cf).
Proof. exact battle_done_stable. Qed.
Print Assumptions C03_e2e_done_stable.

(* the invariant holds in every simulation state any manager (all-step, turn-based, dynamic order,
   also the pre-repair turn manager) reaches by ANY call list, in or out of protocol *)
Theorem C03_e2e_ginv_reachable : forall cf k s0 cs,
  ginv (bs_grid s0) -> Forall ginv (bs_starts s0) ->
  ginv (bs_grid (m_sim (snd (run (battle_sim cf) k (init s0) cs)))) /\
  forall e, In e (trace (battle_sim cf) k (init s0) Fresh cs) ->
    ginv (bs_grid (m_sim (te_pre e))) /\ ginv (bs_grid (m_sim (te_post e))).
Proof. exact battle_ginv_reachable. Qed.
Print Assumptions C03_e2e_ginv_reachable.

(* C01/C07 along in-protocol histories of the battle simulation *)
Theorem C03_e2e_invariants_all : forall cf s0 cs,
  ginv (bs_grid s0) -> Forall ginv (bs_starts s0) ->
  in_protocol (trace (battle_sim cf) MAll (init s0) Fresh cs) ->
  forall e, In e (trace (battle_sim cf) MAll (init s0) Fresh cs) ->
    ginv (bs_grid (m_sim (te_pre e))) /\ ginv (bs_grid (m_sim (te_post e))) /\
    do_call (battle_sim cf) MAll (te_pre e) (te_call e) = (te_resp e, te_post e) /\
    NoDup (ep_dones (trace (battle_sim cf) MAll (init s0) Fresh cs) []).
Proof. exact battle_invariants_all. Qed.
Print Assumptions C03_e2e_invariants_all.

Theorem C03_e2e_invariants_turn : forall cf s0 cs,
  ginv (bs_grid s0) -> Forall ginv (bs_starts s0) ->
  in_protocol (trace (battle_sim cf) MTurn (init s0) Fresh cs) ->
  forall e, In e (trace (battle_sim cf) MTurn (init s0) Fresh cs) ->
    (te_ph e = Live -> tinv (battle_sim cf) (te_pre e)) /\
    ginv (bs_grid (m_sim (te_pre e))) /\ ginv (bs_grid (m_sim (te_post e))) /\
    do_call (battle_sim cf) MTurn (te_pre e) (te_call e) = (te_resp e, te_post e).
Proof. exact battle_invariants_turn. Qed.
Print Assumptions C03_e2e_invariants_turn.

Theorem C03_e2e_history_steps_turn : forall cf s0 cs,
  in_protocol (trace (battle_sim cf) MTurn (init s0) Fresh cs) ->
  forall e acts sh, In e (trace (battle_sim cf) MTurn (init s0) Fresh cs) -> te_call e = CStep acts sh ->
    match te_resp e with
    | ROut o =>
        wfo o /\ NoDup (keys o) /\ (forall a, In a (keys o) -> ~ In a (m_done (te_pre e))) /\
        ~ submits_done (m_done (te_pre e)) acts /\ incl (m_done (te_pre e)) (m_done (te_post e)) /\
        greach (battle_sim cf) (bs_step cf (m_sim (te_pre e)) acts) (m_sim (te_post e)) /\
        o_all o = bs_all cf (bs_step cf (m_sim (te_pre e)) acts)
                  || all_in (battle_sim cf) (m_done (te_post e)) /\
        (o_all o = false -> forall a, In (a, true) (o_done o) -> In a (m_done (te_post e)))
    | RObs _ => False
    | _ => te_post e = te_pre e
    end.
Proof. exact battle_steps_turn. Qed.
Print Assumptions C03_e2e_history_steps_turn.

Theorem C03_e2e_done_at_most_once_turn : forall cf s0 cs,
  in_protocol (trace (battle_sim cf) MTurn (init s0) Fresh cs) ->
  NoDup (ep_dones (trace (battle_sim cf) MTurn (init s0) Fresh cs) []).
Proof. exact battle_done_once_turn. Qed.
Print Assumptions C03_e2e_done_at_most_once_turn.

(* manager o simulation: a done flag in a manager's output is the negation of the agent's `active`
   flag in the grid the call leaves behind, and an agent reported done stands in no cell *)
Theorem C03_e2e_done_entries_all : forall cf m acts sh o m',
  all_step (battle_sim cf) m acts sh = (ROut o, m') ->
  forall a b rec, In (a, b) (o_done o) -> agent (bs_grid (m_sim m')) a = Some rec ->
    b = negb (a_active rec) /\
    (b = true -> ginv (bs_grid (m_sim m')) ->
     forall p, ~ In a (cell_get (g_cells (bs_grid (m_sim m'))) p)).
Proof. exact battle_all_done_entries. Qed.
Print Assumptions C03_e2e_done_entries_all.

Theorem C03_e2e_done_entries_turn : forall cf m acts o m',
  tinv (battle_sim cf) m -> turn_step (battle_sim cf) m acts = (ROut o, m') ->
  bs_all cf (bs_step cf (m_sim m) acts) = false ->
  forall a b rec, In (a, b) (o_done o) -> agent (bs_grid (m_sim m')) a = Some rec ->
    b = negb (a_active rec) /\
    (b = true -> ginv (bs_grid (m_sim m')) ->
     forall p, ~ In a (cell_get (g_cells (bs_grid (m_sim m'))) p)).
Proof. exact battle_turn_done_entries. Qed.
Print Assumptions C03_e2e_done_entries_turn.

(* C16 over the battle simulation: episode generation never acts for a finished agent *)
Theorem C03_e2e_trainer_never_fails :
  forall PS cf pmap (pol_act : PS -> nat -> list (list Z) -> bact * PS) pol_reset shuf h k m ps,
  bc_agents cf <> [] -> k = MAll \/ k = MTurn ->
  er_status (generate_episode (battle_sim cf) pmap pol_act pol_reset shuf h k m ps) = EOk /\
  exists obs, er_reset (generate_episode (battle_sim cf) pmap pol_act pol_reset shuf h k m ps) = RObs obs.
Proof. exact battle_trainer_never_fails. Qed.
Print Assumptions C03_e2e_trainer_never_fails.

(* the error arms of the two loop bodies of TeamBattleSim.step are unreachable: with the invariant,
   every active agent placed and as many agents as configured (wfn), for a key naming an agent, both
   bodies keep these facts, the move body never flags, and the attack body flags only where the model
   reports a missing / inadmissible recorded draw (PBadOracle), never an exception arm *)
Theorem C03_e2e_no_error_arms : forall cf st ia,
  wfn (length (bc_agents cf)) (bs_grid st) -> (fst ia < length (bc_agents cf))%nat ->
  wfn (length (bc_agents cf)) (bs_grid (attack_one cf st ia)) /\
  wfn (length (bc_agents cf)) (bs_grid (move_one st ia)) /\
  bs_bad (move_one st ia) = bs_bad st /\
  (bs_bad (attack_one cf st ia) = bs_bad st \/
   exists b, nth_error (bc_agents cf) (fst ia) = Some b /\
     process_attack vis_model (bs_grid st) (b_att b) (fst ia) (bs_orc st)
                    (ABinary (ba_attack (snd ia))) = PBadOracle).
Proof. exact battle_no_error_arms. Qed.
Print Assumptions C03_e2e_no_error_arms.

(* the tree as found (findings/C02-binary-attack-ndarray): BinaryAttackActor returns numpy's ndarray
   and TeamBattleSim.step tests its truth value -- two hits in one step raise ValueError.  The model
   of that code flags the step (clause 308 of the component's checker); the documented behaviour
   (a list) does not.  Witness: 3x3, agent 0 with simultaneous_attacks = 2 between two enemies. *)
Theorem C03_e2e_multi_attack_prefix_refuted :
  exists cf st acts,
    wfn (length (bc_agents cf)) (bs_grid st) /\ bs_bad st = false /\
    bs_bad (bs_step_prefix cf st acts) = true /\
    bs_bad (bs_step cf st acts) = false /\ bs_rew (bs_step cf st acts) = [199; -100; -100].
Proof. exact multi_attack_prefix_refuted. Qed.
Print Assumptions C03_e2e_multi_attack_prefix_refuted.

(* the recorded run is the managers' run *)
Theorem C03_e2e_run_snap_is_run : forall cf k cs m,
  map fst (fst (run_snap cf k m cs)) = fst (run (battle_sim cf) k m cs) /\
  snd (run_snap cf k m cs) = snd (run (battle_sim cf) k m cs).
Proof. exact run_snap_run. Qed.
Print Assumptions C03_e2e_run_snap_is_run.

(* the extracted checker of the end-to-end component (ginvb on every recorded snapshot, flag clear)
   answers 1 on the extracted model's own output, for every decodable input whose start states are
   legal and on which the recorded draws were admissible *)
Theorem C03_e2e_chk_model : forall xin i,
  dec_e2e xin = Some i -> NoDup (map fst (ei_ov i)) ->
  Forall (fun g => ginv g /\ all_placed g) (bs_starts (ei_init i)) ->
  bs_bad (m_sim (snd (e2e_records i))) = false ->
  run_chk_e2e (L [xin; run_e2e xin]) = A 1.
Proof. exact run_chk_e2e_model. Qed.
Print Assumptions C03_e2e_chk_model.

(* non-vacuity: a legal start state, an all-step step in which agent 0 kills agent 1 (+1 / -1), agent 2
   walks into the wall (-0.1), everybody pays 0.01; the turn-based newly-done arm *)
Example C03_e2e_nonvacuous :
  bs_good 3 3 [] (e2_s0 [2; 1; 2; 1; 2; 2; 1; 2; 1; 1; 2; 1]) /\
  (let r := run_snap e2_cf MAll (init (e2_s0 [2; 1; 2; 1; 2; 2; 1; 2; 1; 1; 2; 1]))
                     [CReset; CStep e2_acts e2_acts] in
   map fst (fst r) = e2_out_all /\ bs_bad (m_sim (snd r)) = false /\ m_done (snd r) = [1%nat] /\
   map (fun rg => ginvb (snd rg)) (fst r) = [0; 0] /\
   cell_get (g_cells (bs_grid (m_sim (snd r)))) (1, 2) = []) /\
  (let r := run_snap e2_cf MTurn (init (e2_s0 [2; 1; 2; 1; 2; 1])) [CReset; CStep [e2_a0] []] in
   in_protocol (trace (battle_sim e2_cf) MTurn (init (e2_s0 [2; 1; 2; 1; 2; 1])) Fresh
                      [CReset; CStep [e2_a0] []]) /\
   map fst (fst r) =
     [RObs [(0%nat, [[2; 0; 0]; [0; 1; 2]; [0; 0; 0]])];
      ROut {| o_obs := [(1%nat, [[0; 0; -1]; [1; 0; -1]; [0; 0; -1]]); (2%nat, [[-1; -1; -1]; [-1; 2; 0]; [-1; 0; 1]])];
              o_rew := [(1%nat, -100); (2%nat, 0)]; o_done := [(1%nat, true); (2%nat, false)];
              o_info := [(1%nat, tt); (2%nat, tt)]; o_all := false |}] /\
   bs_bad (m_sim (snd r)) = false /\ m_done (snd r) = [1%nat] /\ m_ptr (snd r) = 0%nat).
Proof. exact e2_nonvacuous. Qed.

(* =====================================================================================================
   Second end-to-end instance (supports C01, C03, C07, C08, C16): ReachTheTargetSim of
   abmarl/examples/sim/reach_the_target.py, a plain GridWorldSimulation with its own reset / step /
   getters.  Grid/ReachSim.v transcribes its step (loop 1: attacks, only the target is supported by the
   SelectiveAttackActor; loop 2: moves of the runners and the target-reached handling in the same
   iteration; loop 3: entropy for the runners), get_obs / get_reward / get_done by agent class /
   get_all_done = OnlyAgentLeftDone as `reach_sim cf : simulation rstate (list (list Z)) unit ract`
   (target and runners learn, barriers do not).  A runner that reaches the target leaves the grid and
   becomes inactive with POSITIVE health, so the invariant here is
     rinv s  :=  ginv (zh s) /\ every health in [0, 1]       zh = forget the health of inactive agents
   i.e. the C03 invariant with `active = (health > 0)` weakened to `health = 0 -> inactive`
   (C03_reach_rinv_readable) -- the property's general clause; the equivalence is claimed "under the
   built-in components alone".  Every grid operation of the component models commutes with zh, which
   reduces the preservation of rinv to C03_inv_move / C03_inv_attack.
     arrival cf g g'  :=  a runner that is active on the target's cell in g' was so, on the same cell, in g
     clear cf g       :=  no active runner stands on the target's cell;   rclear = rinv /\ clear
     target_ok cf     :=  the agent listed at rc_target is the TargetAgent
   The step with the repair of findings/C02-reach-dead-runner is the model; the tree as found is
   rs_step_prefix / reach_sim_prefix (C03_reach_dead_runner_prefix_refuted).
   ===================================================================================================== *)
From Abm Require Import Grid.ReachSim Proofs.ReachSim_proofs.
From Abm Require Grid.Done.

(* ReachTheTargetSim.step keeps the relaxed invariant: every action dictionary (any keys, any offsets,
   any attack arrays, duplicates, dead or finished agents, barriers), every oracle content *)
Theorem C03_reach_step_rinv : forall cf st acts,
  rinv (bs_grid st) -> rinv (bs_grid (rs_step cf st acts)).
Proof. exact rs_step_rinv. Qed.
Print Assumptions C03_reach_step_rinv.

(* the relaxed invariant in the property's words: cells hold exactly the active agents positioned
   there, inside the grid, no illegal overlap; health in [0,1], zero health -> inactive, active ->
   positive health, ammunition, orientation *)
Theorem C03_reach_rinv_readable : forall s, rinv s ->
  ov_sym (g_ov s) /\
  (forall p i, In i (cell_get (g_cells s) p) ->
     exists a, agent s i = Some a /\ a_active a = true /\ a_pos a = Some p) /\
  (forall p, NoDup (cell_get (g_cells s) p)) /\
  (forall i a p, agent s i = Some a -> a_active a = true -> a_pos a = Some p ->
     In i (cell_get (g_cells s) p) /\ inside s p = true) /\
  (forall p i j, In i (cell_get (g_cells s) p) -> In j (cell_get (g_cells s) p) -> i <> j ->
     ov_allowed (g_ov s) (enc_of s i) (enc_of s j) = true) /\
  (forall i a, agent s i = Some a ->
     0 <= a_health a <= HD /\ (a_health a = 0 -> a_active a = false) /\
     (a_active a = true -> 0 < a_health a) /\
     (forall m, a_ammo a = Some m -> 0 <= m) /\ (forall o, a_orient a = Some o -> 1 <= o <= 4)).
Proof. exact rinv_readable. Qed.
Print Assumptions C03_reach_rinv_readable.

(* the executable form used by the checker answers 0 on every state with rinv and every active agent
   placed *)
Theorem C03_reach_rinvb_complete : forall s, rinv s -> all_placed s -> rinvb s = 0.
Proof. exact rinvb_complete. Qed.
Print Assumptions C03_reach_rinvb_complete.

(* get_obs / get_reward, in any number and order, leave the grid and the start-state stream alone *)
Theorem C03_reach_getters_pure : forall cf s s',
  greach (reach_sim cf) s s' -> bs_grid s' = bs_grid s /\ bs_starts s' = bs_starts s.
Proof. exact r_greach_frame. Qed.
Print Assumptions C03_reach_getters_pure.

Theorem C03_reach_done_stable : forall cf, done_stable (reach_sim cf).
Proof. exact reach_done_stable. Qed.
Print Assumptions C03_reach_done_stable.

(* read-and-reset rewards: a read returns the accrued amount, leaves zero, touches nobody else *)
Theorem C03_reach_reward_read_once : forall cf st i x,
  is_learning cf i = true -> nth_error (bs_rew st) i = Some x ->
  fst (rs_reward cf st i) = x /\
  nth_error (bs_rew (snd (rs_reward cf st i))) i = Some 0 /\
  (forall j, j <> i -> nth_error (bs_rew (snd (rs_reward cf st i))) j = nth_error (bs_rew st) j) /\
  bs_bad (snd (rs_reward cf st i)) = bs_bad st.
Proof. exact rs_reward_read_once. Qed.
Print Assumptions C03_reach_reward_read_once.

(* the invariant holds in every simulation state any manager (all-step, turn-based, dynamic order, the
   pre-repair turn manager) reaches by ANY call list, in or out of protocol *)
Theorem C03_reach_rinv_reachable : forall cf k s0 cs,
  rinv (bs_grid s0) -> Forall rinv (bs_starts s0) ->
  rinv (bs_grid (m_sim (snd (run (reach_sim cf) k (init s0) cs)))) /\
  forall e, In e (trace (reach_sim cf) k (init s0) Fresh cs) ->
    rinv (bs_grid (m_sim (te_pre e))) /\ rinv (bs_grid (m_sim (te_post e))).
Proof. exact reach_rinv_reachable. Qed.
Print Assumptions C03_reach_rinv_reachable.

(* across a step no runner arrives on the target's cell and stays active: every action list *)
Theorem C03_reach_step_no_arrival : forall cf st acts,
  rinv (bs_grid st) -> is_runner cf (rc_target cf) = false ->
  arrival cf (bs_grid st) (bs_grid (rs_step cf st acts)).
Proof. exact rs_step_arrival. Qed.
Print Assumptions C03_reach_step_no_arrival.

(* hence, when no start state puts an active runner on the target's cell, none stands there in any
   state any manager reaches by any call list *)
Theorem C03_reach_clear_reachable : forall cf k s0 cs,
  is_runner cf (rc_target cf) = false ->
  rclear cf (bs_grid s0) -> Forall (rclear cf) (bs_starts s0) ->
  rclear cf (bs_grid (m_sim (snd (run (reach_sim cf) k (init s0) cs)))) /\
  forall e, In e (trace (reach_sim cf) k (init s0) Fresh cs) ->
    rclear cf (bs_grid (m_sim (te_pre e))) /\ rclear cf (bs_grid (m_sim (te_post e))).
Proof. exact reach_rclear_reachable. Qed.
Print Assumptions C03_reach_clear_reachable.

(* C01/C07 along in-protocol histories of the reach-the-target simulation; the barriers (not learning)
   are in done_agents from the first reset on *)
Theorem C03_reach_invariants_all : forall cf s0 cs,
  rinv (bs_grid s0) -> Forall rinv (bs_starts s0) ->
  in_protocol (trace (reach_sim cf) MAll (init s0) Fresh cs) ->
  forall e, In e (trace (reach_sim cf) MAll (init s0) Fresh cs) ->
    (te_ph e <> Fresh -> incl (nonlearning (reach_sim cf)) (m_done (te_pre e))) /\
    rinv (bs_grid (m_sim (te_pre e))) /\ rinv (bs_grid (m_sim (te_post e))) /\
    do_call (reach_sim cf) MAll (te_pre e) (te_call e) = (te_resp e, te_post e) /\
    NoDup (ep_dones (trace (reach_sim cf) MAll (init s0) Fresh cs) []).
Proof. exact reach_invariants_all. Qed.
Print Assumptions C03_reach_invariants_all.

Theorem C03_reach_invariants_turn : forall cf s0 cs,
  rinv (bs_grid s0) -> Forall rinv (bs_starts s0) ->
  in_protocol (trace (reach_sim cf) MTurn (init s0) Fresh cs) ->
  forall e, In e (trace (reach_sim cf) MTurn (init s0) Fresh cs) ->
    (te_ph e = Live -> tinv (reach_sim cf) (te_pre e)) /\
    rinv (bs_grid (m_sim (te_pre e))) /\ rinv (bs_grid (m_sim (te_post e))) /\
    do_call (reach_sim cf) MTurn (te_pre e) (te_call e) = (te_resp e, te_post e).
Proof. exact reach_invariants_turn. Qed.
Print Assumptions C03_reach_invariants_turn.

Theorem C03_reach_history_steps_turn : forall cf s0 cs,
  in_protocol (trace (reach_sim cf) MTurn (init s0) Fresh cs) ->
  forall e acts sh, In e (trace (reach_sim cf) MTurn (init s0) Fresh cs) -> te_call e = CStep acts sh ->
    match te_resp e with
    | ROut o =>
        wfo o /\ NoDup (keys o) /\ (forall a, In a (keys o) -> ~ In a (m_done (te_pre e))) /\
        ~ submits_done (m_done (te_pre e)) acts /\ incl (m_done (te_pre e)) (m_done (te_post e)) /\
        greach (reach_sim cf) (rs_step cf (m_sim (te_pre e)) acts) (m_sim (te_post e)) /\
        o_all o = rs_all cf (rs_step cf (m_sim (te_pre e)) acts)
                  || all_in (reach_sim cf) (m_done (te_post e)) /\
        (o_all o = false -> forall a, In (a, true) (o_done o) -> In a (m_done (te_post e)))
    | RObs _ => False
    | _ => te_post e = te_pre e
    end.
Proof. exact reach_steps_turn. Qed.
Print Assumptions C03_reach_history_steps_turn.

Theorem C03_reach_done_at_most_once_turn : forall cf s0 cs,
  in_protocol (trace (reach_sim cf) MTurn (init s0) Fresh cs) ->
  NoDup (ep_dones (trace (reach_sim cf) MTurn (init s0) Fresh cs) []).
Proof. exact reach_done_once_turn. Qed.
Print Assumptions C03_reach_done_at_most_once_turn.

(* manager o simulation: the done flag a manager reports for a runner is `not active, or on the
   target's cell` in the grid the call leaves behind; in a grid with rclear a reported-done runner is
   inactive and stands in no cell *)
Theorem C03_reach_done_entries_all : forall cf m acts sh o m',
  all_step (reach_sim cf) m acts sh = (ROut o, m') ->
  forall a b rec t, In (a, b) (o_done o) -> is_runner cf a = true -> a <> rc_target cf ->
    agent (bs_grid (m_sim m')) a = Some rec -> agent (bs_grid (m_sim m')) (rc_target cf) = Some t ->
    b = negb (a_active rec) || Done.pos_eqb (a_pos rec) (a_pos t) /\
    (b = true -> rclear cf (bs_grid (m_sim m')) ->
     a_active rec = false /\ forall p, ~ In a (cell_get (g_cells (bs_grid (m_sim m'))) p)).
Proof. exact reach_all_done_entries. Qed.
Print Assumptions C03_reach_done_entries_all.

Theorem C03_reach_done_entries_turn : forall cf m acts o m',
  tinv (reach_sim cf) m -> turn_step (reach_sim cf) m acts = (ROut o, m') ->
  rs_all cf (rs_step cf (m_sim m) acts) = false ->
  forall a b rec t, In (a, b) (o_done o) -> is_runner cf a = true -> a <> rc_target cf ->
    agent (bs_grid (m_sim m')) a = Some rec -> agent (bs_grid (m_sim m')) (rc_target cf) = Some t ->
    b = negb (a_active rec) || Done.pos_eqb (a_pos rec) (a_pos t) /\
    (b = true -> rclear cf (bs_grid (m_sim m')) ->
     a_active rec = false /\ forall p, ~ In a (cell_get (g_cells (bs_grid (m_sim m'))) p)).
Proof. exact reach_turn_done_entries. Qed.
Print Assumptions C03_reach_done_entries_turn.

(* C16 over the reach-the-target simulation: episode generation never acts for a finished agent *)
Theorem C03_reach_trainer_never_fails :
  forall PS cf pmap (pol_act : PS -> nat -> list (list Z) -> ract * PS) pol_reset shuf h k m ps,
  target_ok cf -> k = MAll \/ k = MTurn ->
  er_status (generate_episode (reach_sim cf) pmap pol_act pol_reset shuf h k m ps) = EOk /\
  exists obs, er_reset (generate_episode (reach_sim cf) pmap pol_act pol_reset shuf h k m ps) = RObs obs.
Proof. exact reach_trainer_never_fails. Qed.
Print Assumptions C03_reach_trainer_never_fails.

(* C08_episode_indistinguishable over the reach-the-target simulation: after reset the outputs of
   every later call list do not depend on the manager's past *)
Theorem C03_reach_episode_indistinguishable : forall cf k m1 m2 cs,
  target_ok cf -> k <> MTurnPrefix ->
  rs_reset cf (m_sim m1) = rs_reset cf (m_sim m2) ->
  fst (run (reach_sim cf) k m1 (CReset :: cs)) = fst (run (reach_sim cf) k m2 (CReset :: cs)).
Proof. exact reach_episode_indistinguishable. Qed.
Print Assumptions C03_reach_episode_indistinguishable.

(* the recorded run is the managers' run *)
Theorem C03_reach_run_snap_is_run : forall Sm k cs m,
  map fst (fst (rrun_snap Sm k m cs)) = fst (run Sm k m cs) /\
  snd (rrun_snap Sm k m cs) = snd (run Sm k m cs).
Proof. exact rrun_snap_run. Qed.
Print Assumptions C03_reach_run_snap_is_run.

(* the extracted checker of the component (rinvb on every recorded snapshot, no arrival across a step,
   flag clear) answers 1 on the extracted model's own output, for every decodable input whose start
   states are legal and on which the recorded draws were admissible *)
Theorem C03_reach_chk_model : forall xin i,
  dec_reach xin = Some i -> NoDup (map fst (ri_ov i)) ->
  is_runner (ri_cfg i) (rc_target (ri_cfg i)) = false ->
  Forall (fun g => rinv g /\ all_placed g) (bs_starts (ri_init i)) ->
  bs_bad (m_sim (snd (reach_records reach_sim i))) = false ->
  run_chk_reach (L [xin; run_reach xin]) = A 1.
Proof. exact run_chk_reach_model. Qed.
Print Assumptions C03_reach_chk_model.

(* the tree as found (findings/C02-reach-dead-runner): the second loop of ReachTheTargetSim.step tests
   "reached the target" also for a runner that is no longer active.  A runner that stands on the
   target's cell after reset and is shot dead by the target in the first loop of the first step is
   "rewarded" and removed from the grid a second time: Grid.remove raises KeyError.  The model of that
   code flags the step (clause 308 of the component's checker); the repaired step does not. *)
Theorem C03_reach_dead_runner_prefix_refuted :
  exists cf s0 acts,
    target_ok cf /\ rs_invP (rgood 3 3 [(2, [3])]) s0 /\ bs_bad s0 = false /\
    in_protocol (trace (reach_sim cf) MAll (init s0) Fresh [CReset; CStep acts acts]) /\
    bs_bad (m_sim (snd (run (reach_sim_prefix cf) MAll (init s0) [CReset; CStep acts acts]))) = true /\
    bs_bad (m_sim (snd (run (reach_sim cf) MAll (init s0) [CReset; CStep acts acts]))) = false /\
    fst (run (reach_sim cf) MAll (init s0) [CReset; CStep acts acts]) =
      [RObs [(0%nat, [[3]]); (1%nat, [[0; 0; 0]; [0; 2; 0]; [0; 0; 0]])];
       ROut {| o_obs := [(0%nat, [[2]]); (1%nat, [[0; 0; 0]; [0; 2; 0]; [0; 0; 0]])];
               o_rew := [(0%nat, -101); (1%nat, 100)]; o_done := [(0%nat, true); (1%nat, true)];
               o_info := [(0%nat, tt); (1%nat, tt)]; o_all := true |}].
Proof. exact dead_runner_prefix_refuted. Qed.
Print Assumptions C03_reach_dead_runner_prefix_refuted.

(* non-vacuity: legal start state (3x3: barrier, three runners, target in the middle); one all-step
   step in which runner 1 reaches the target (+1 - 0.01, removed from the grid, inactive with health 1),
   runner 2 is shot dead (-1 - 0.01, target +1) and runner 3 is refused by the barrier (-0.1 - 0.01) *)
Example C03_reach_nonvacuous :
  rs_invP (rgood 3 3 [(2, [3])]) r3_s0 /\ target_ok r3_cf /\ clear r3_cf r3_start /\
  (let r := rrun_snap (reach_sim r3_cf) MAll (init r3_s0) [CReset; CStep r3_acts r3_acts] in
   in_protocol (trace (reach_sim r3_cf) MAll (init r3_s0) Fresh [CReset; CStep r3_acts r3_acts]) /\
   map fst (fst r) = r3_out /\ bs_bad (m_sim (snd r)) = false /\ m_done (snd r) = [0%nat; 1%nat; 2%nat] /\
   map (fun rg => rinvb (snd rg)) (fst r) = [0; 0] /\
   option_map (fun a => (a_active a, a_health a, a_pos a)) (agent (bs_grid (m_sim (snd r))) 1) =
     Some (false, HD, Some (1, 1)) /\
   cell_get (g_cells (bs_grid (m_sim (snd r)))) (1, 1) = [4%nat] /\
   option_map (fun a => (a_active a, a_health a)) (agent (bs_grid (m_sim (snd r))) 2) = Some (false, 0) /\
   cell_get (g_cells (bs_grid (m_sim (snd r)))) (2, 2) = [] /\
   cell_get (g_cells (bs_grid (m_sim (snd r)))) (0, 1) = [3%nat]).
Proof. exact r3_nonvacuous. Qed.

(* =====================================================================================================
   Third end-to-end instance (supports C01, C03, C07, C08, C13, C16): MultiMazeNavigationSim of
   abmarl/examples/sim/multi_maze_navigation.py -- MazePlacementState + MoveActor +
   PositionCenteredEncodingObserver under its own reset / step / get_reward / get_done / get_all_done.
   Grid/MazeNavSim.v: `mazenav_sim cf : simulation nstate (list (list Z)) unit cell` (the navigating
   agents learn; the target and the barriers do not).  Its RESET IS COMPUTED: mn_reset applies the
   placement model of C13 (Place.reset, KMaze: generate_maze around the target, barrier-encoded agents
   on wall cells, free-encoded agents on passage cells) to the next recorded draws, on the grid the
   previous episode left.  Vocabulary:
     n_statics cf g   g is a grid state of configuration cf: dimensions, overlap table, and every agent
                      as configured apart from its position (encoding, blocking; this simulation has no
                      HealthState: no health / ammunition / orientation attribute, active)
     done_on cf g a   agent a and the target both have a position and it is the same cell (get_done)
     reward_ok cf g a r   r = 1 when done_on, otherwise r <= 0 (an accumulated amount)
     rew_nonpos st    no accumulated reward is positive (true of the new object, kept by everything)
     dinv cf m        every navigating agent the manager remembers as done stands on the target's cell
     has_nav cf       the configuration has a navigating agent (order <> [])
   ===================================================================================================== *)
From Abm Require Import Grid.MazeNavSim Proofs.MazeNavSim_proofs.
From Abm Require Grid.Maze Grid.Place Proofs.Maze_proofs Proofs.Place_proofs.

(* MultiMazeNavigationSim.step keeps the invariant: every action dictionary (any keys, any offsets,
   duplicates, agents that are done, the target, barriers), every state *)
Theorem C03_maze_step_ginv : forall cf st acts,
  ginv (ns_grid st) -> ginv (ns_grid (mn_step cf st acts)).
Proof. exact mn_step_ginv. Qed.
Print Assumptions C03_maze_step_ginv.

(* the object before its first reset is a state of its configuration and satisfies the invariant *)
Theorem C03_maze_blank : forall cf, wf_ncfg cf = true ->
  n_statics cf (n_blank cf) /\ ginv (n_blank cf).
Proof. exact (fun cf H => conj (n_blank_statics cf) (n_blank_ginv cf H)). Qed.
Print Assumptions C03_maze_blank.

(* EVERY reset that does not raise, from ANY previous state of the configuration (whatever the
   positions and cells were): it consumed the next recorded draws, cleared the rewards, and the grid
   it leaves satisfies the C03 invariant with every agent placed, is the one C13's placement model
   computes, and that placement is legal in the sense of C13 (C13_legal: inside the grid, initial
   positions and the target's start cell honoured, co-occupants may overlap, alone under
   no_overlap_at_reset, grid = positions = placements, every agent exactly once) *)
Theorem C03_maze_reset_fresh : forall cf st,
  wf_ncfg cf = true -> n_statics cf (ns_grid st) -> ns_bad (mn_reset cf st) = false ->
  exists d rest,
    ns_resets st = d :: rest /\ ns_resets (mn_reset cf st) = rest /\ ns_rew (mn_reset cf st) = n_zero cf /\
    n_position_reset cf d (ns_grid st) = Some (ns_grid (mn_reset cf st)) /\
    ginv (ns_grid (mn_reset cf st)) /\ n_statics cf (ns_grid (mn_reset cf st)) /\
    all_placed (ns_grid (mn_reset cf st)) /\
    Place_proofs.legal (nc_place cf) d (Place.outcome_of (nc_place cf) (n_placement cf d)) /\
    Place.o_kind (Place.outcome_of (nc_place cf) (n_placement cf d)) = Place.ROk /\
    map a_pos (g_agents (ns_grid (mn_reset cf st))) =
      map Some (Place.o_pos (Place.outcome_of (nc_place cf) (n_placement cf d))).
Proof. exact mn_reset_fresh. Qed.
Print Assumptions C03_maze_reset_fresh.

(* ... and it starts the episode in a maze: a grid-shaped 0/1 maze whose passages are all connected to
   the target's cell, the target on its start cell, every freely placed barrier-encoded agent on a wall
   cell and every freely placed free-encoded agent on a passage cell *)
Theorem C03_maze_reset_maze : forall cf d g s,
  wf_ncfg cf = true -> n_statics cf g -> n_position_reset cf d g = Some s ->
  exists m st,
    Place.o_maze (Place.outcome_of (nc_place cf) (n_placement cf d)) = Some m /\
    Place.spec_start (nc_place cf) d = Some st /\
    Maze.maze_shape_b m (Place.c_rows (nc_place cf)) (Place.c_cols (nc_place cf)) = true /\
    Maze.gget m st = 0 /\ (forall p, Maze.gget m p = 0 -> Maze_proofs.conn m st p) /\
    (forall t, agent s (n_target cf) = Some t -> a_pos t = Some st) /\
    forall i a p, agent s i = Some a -> a_pos a = Some p ->
      Place.prescribed (nc_place cf) (Place.spec_start (nc_place cf) d) i = None ->
      (memZ (Place.enc (nc_place cf) i) (Place.c_barrier (nc_place cf)) = true -> Maze.gget m p = 1) /\
      (memZ (Place.enc (nc_place cf) i) (Place.c_free (nc_place cf)) = true -> Maze.gget m p = 0).
Proof. exact n_position_reset_maze. Qed.
Print Assumptions C03_maze_reset_maze.

(* the reset does not depend on the previous state: two states of the configuration (any positions,
   any cells, any pending rewards) that hold the same draw streams and flag are reset to the same
   state; at the level of the grid, the outcome (new grid, or that it raises) is a function of
   configuration and draws *)
Theorem C03_maze_reset_indep : forall cf,
  (forall d g1 g2, n_statics cf g1 -> n_statics cf g2 ->
     n_position_reset cf d g1 = n_position_reset cf d g2) /\
  (forall st1 st2, n_statics cf (ns_grid st1) -> n_statics cf (ns_grid st2) ->
     ns_resets st1 = ns_resets st2 -> ns_obsorc st1 = ns_obsorc st2 -> ns_bad st1 = ns_bad st2 ->
     ns_bad (mn_reset cf st1) = false -> mn_reset cf st1 = mn_reset cf st2).
Proof. exact (fun cf => conj (n_position_reset_indep cf) (mn_reset_indep cf)). Qed.
Print Assumptions C03_maze_reset_indep.

(* get_obs / get_reward, in any number and order, leave the grid and the stream of reset draws alone
   (get_reward READS get_done and clears the accumulator; it never writes the grid) *)
Theorem C03_maze_getters_pure : forall cf s s',
  greach (mazenav_sim cf) s s' -> ns_grid s' = ns_grid s /\ ns_resets s' = ns_resets s.
Proof. exact n_greach_frame. Qed.
Print Assumptions C03_maze_getters_pure.

Theorem C03_maze_done_stable : forall cf, done_stable (mazenav_sim cf).
Proof. exact mazenav_done_stable. Qed.
Print Assumptions C03_maze_done_stable.

(* the invariant holds in every simulation state any manager (all-step, turn-based, dynamic order, the
   pre-repair turn manager) reaches from the new object by ANY call list, in or out of protocol, with
   every reset computed by the placement model from whatever draws the state holds *)
Theorem C03_maze_ginv_reachable : forall cf k s0 cs,
  wf_ncfg cf = true -> n_statics cf (ns_grid s0) -> ginv (ns_grid s0) ->
  ginv (ns_grid (m_sim (snd (run (mazenav_sim cf) k (init s0) cs)))) /\
  forall e, In e (trace (mazenav_sim cf) k (init s0) Fresh cs) ->
    ginv (ns_grid (m_sim (te_pre e))) /\ ginv (ns_grid (m_sim (te_post e))).
Proof. exact mazenav_ginv_reachable. Qed.
Print Assumptions C03_maze_ginv_reachable.

(* C01/C07 along in-protocol histories of the maze simulation; the target and the barriers (not
   learning) are in done_agents from the first reset on *)
Theorem C03_maze_invariants_all : forall cf s0 cs,
  wf_ncfg cf = true -> n_statics cf (ns_grid s0) -> ginv (ns_grid s0) ->
  in_protocol (trace (mazenav_sim cf) MAll (init s0) Fresh cs) ->
  forall e, In e (trace (mazenav_sim cf) MAll (init s0) Fresh cs) ->
    (te_ph e <> Fresh -> incl (nonlearning (mazenav_sim cf)) (m_done (te_pre e))) /\
    ginv (ns_grid (m_sim (te_pre e))) /\ ginv (ns_grid (m_sim (te_post e))) /\
    do_call (mazenav_sim cf) MAll (te_pre e) (te_call e) = (te_resp e, te_post e) /\
    NoDup (ep_dones (trace (mazenav_sim cf) MAll (init s0) Fresh cs) []).
Proof. exact mazenav_invariants_all. Qed.
Print Assumptions C03_maze_invariants_all.

Theorem C03_maze_invariants_turn : forall cf s0 cs,
  wf_ncfg cf = true -> n_statics cf (ns_grid s0) -> ginv (ns_grid s0) ->
  in_protocol (trace (mazenav_sim cf) MTurn (init s0) Fresh cs) ->
  forall e, In e (trace (mazenav_sim cf) MTurn (init s0) Fresh cs) ->
    (te_ph e = Live -> tinv (mazenav_sim cf) (te_pre e)) /\
    ginv (ns_grid (m_sim (te_pre e))) /\ ginv (ns_grid (m_sim (te_post e))) /\
    do_call (mazenav_sim cf) MTurn (te_pre e) (te_call e) = (te_resp e, te_post e).
Proof. exact mazenav_invariants_turn. Qed.
Print Assumptions C03_maze_invariants_turn.

Theorem C03_maze_history_steps_turn : forall cf s0 cs,
  in_protocol (trace (mazenav_sim cf) MTurn (init s0) Fresh cs) ->
  forall e acts sh, In e (trace (mazenav_sim cf) MTurn (init s0) Fresh cs) -> te_call e = CStep acts sh ->
    match te_resp e with
    | ROut o =>
        wfo o /\ NoDup (keys o) /\ (forall a, In a (keys o) -> ~ In a (m_done (te_pre e))) /\
        ~ submits_done (m_done (te_pre e)) acts /\ incl (m_done (te_pre e)) (m_done (te_post e)) /\
        greach (mazenav_sim cf) (mn_step cf (m_sim (te_pre e)) acts) (m_sim (te_post e)) /\
        o_all o = mn_all cf (mn_step cf (m_sim (te_pre e)) acts)
                  || all_in (mazenav_sim cf) (m_done (te_post e)) /\
        (o_all o = false -> forall a, In (a, true) (o_done o) -> In a (m_done (te_post e)))
    | RObs _ => False
    | _ => te_post e = te_pre e
    end.
Proof. exact mazenav_steps_turn. Qed.
Print Assumptions C03_maze_history_steps_turn.

Theorem C03_maze_done_at_most_once_turn : forall cf s0 cs,
  in_protocol (trace (mazenav_sim cf) MTurn (init s0) Fresh cs) ->
  NoDup (ep_dones (trace (mazenav_sim cf) MTurn (init s0) Fresh cs) []).
Proof. exact mazenav_done_once_turn. Qed.
Print Assumptions C03_maze_done_at_most_once_turn.

(* C16 over the maze simulation: episode generation never acts for a finished agent *)
Theorem C03_maze_trainer_never_fails :
  forall PS cf pmap (pol_act : PS -> nat -> list (list Z) -> cell * PS) pol_reset shuf h k m ps,
  has_nav cf -> k = MAll \/ k = MTurn ->
  er_status (generate_episode (mazenav_sim cf) pmap pol_act pol_reset shuf h k m ps) = EOk /\
  exists obs, er_reset (generate_episode (mazenav_sim cf) pmap pol_act pol_reset shuf h k m ps) = RObs obs.
Proof. exact mazenav_trainer_never_fails. Qed.
Print Assumptions C03_maze_trainer_never_fails.

(* C08 with the reset COMPUTED (as C08_battle_used_vs_fresh): all-step and turn-based manager, new
   object s0 (any draw streams), ANY history h and follow-up calls cs: once the used object's draw
   streams are those of the new one (n_reseed: seeding the generators before the follow-up reset), the
   follow-up reset and everything after it answer as on the new object.  Side conditions: the follow-up
   reset does not raise on the new object; the history did not leave the model's domain differently *)
Theorem C03_maze_used_vs_fresh : forall cf k s0 h cs,
  k = MAll \/ k = MTurn -> has_nav cf -> wf_ncfg cf = true ->
  n_statics cf (ns_grid s0) -> ginv (ns_grid s0) -> n_next_reset_ok cf s0 = true ->
  let used := snd (run (mazenav_sim cf) k (init s0) h) in
  ns_bad (m_sim used) = ns_bad s0 ->
  fst (run (mazenav_sim cf) k (n_reseed_m used s0) (CReset :: cs)) =
  fst (run (mazenav_sim cf) k (init s0) (CReset :: cs)).
Proof. exact mazenav_used_vs_fresh. Qed.
Print Assumptions C03_maze_used_vs_fresh.

Theorem C03_maze_episode_indistinguishable : forall cf k m1 m2 cs,
  has_nav cf -> k <> MTurnPrefix ->
  mn_reset cf (m_sim m1) = mn_reset cf (m_sim m2) ->
  fst (run (mazenav_sim cf) k m1 (CReset :: cs)) = fst (run (mazenav_sim cf) k m2 (CReset :: cs)).
Proof. exact mazenav_episode_indistinguishable. Qed.
Print Assumptions C03_maze_episode_indistinguishable.

(* manager o simulation, one accepted step of the all-step or the turn-based manager (any branch:
   plain, flush, turn search): every done flag in the output is `stands on the target's cell` in the
   grid the call leaves; every reward is 1 for such an agent and otherwise an accumulated, never
   positive amount; an agent newly remembered as done stands on the target's cell *)
Theorem C03_maze_step_entries : forall cf k m acts sh o m',
  k = MAll \/ k = MTurn -> rew_nonpos (m_sim m) ->
  do_call (mazenav_sim cf) k m (CStep acts sh) = (ROut o, m') ->
  (forall a b, In (a, b) (o_done o) -> b = done_on cf (ns_grid (m_sim m')) a) /\
  (forall a r, In (a, r) (o_rew o) -> reward_ok cf (ns_grid (m_sim m')) a r) /\
  (forall a, In a (m_done m') -> In a (m_done m) \/ done_on cf (ns_grid (m_sim m')) a = true) /\
  rew_nonpos (m_sim m').
Proof. exact mazenav_step_entries. Qed.
Print Assumptions C03_maze_step_entries.

(* get_done in words, for every id a manager can ask (navigating agent, target, barrier, unknown) *)
Theorem C03_maze_done_on_readable : forall cf g a, done_on cf g a = true <->
  exists rec t p, agent g a = Some rec /\ agent g (n_target cf) = Some t /\
                  a_pos rec = Some p /\ a_pos t = Some p.
Proof. exact done_on_spec. Qed.
Print Assumptions C03_maze_done_on_readable.

(* one manager step, accepted or not, all-step (the simulation receives keys of the submitted
   dictionary) or turn-based: an agent the manager remembers as done is not moved, nor is any agent
   that is not a navigating agent (the target, the barriers) *)
Theorem C03_maze_done_never_moved : forall cf k m acts sh r m' a,
  k = MAll \/ k = MTurn -> (k = MAll -> sh_ok acts sh) ->
  do_call (mazenav_sim cf) k m (CStep acts sh) = (r, m') ->
  In a (m_done m) \/ is_nav cf a = false ->
  agent (ns_grid (m_sim m')) a = agent (ns_grid (m_sim m)) a.
Proof. exact mazenav_step_frame. Qed.
Print Assumptions C03_maze_done_never_moved.

(* hence along EVERY call list (in or out of protocol) from a manager state with dinv (the new manager:
   nobody remembered): a navigating agent the manager remembers as done stands on the target's cell
   before and after every call, and no step moves an agent the manager remembers as done.  The target
   is a plain GridWorldAgent, as in the example *)
Theorem C03_maze_done_stay : forall cf k cs, k = MAll \/ k = MTurn -> is_nav cf (n_target cf) = false ->
  forall m ph, calls_ok k cs -> rew_nonpos (m_sim m) -> dinv cf m ->
  forall e, In e (trace (mazenav_sim cf) k m ph cs) ->
    dinv cf (te_pre e) /\ dinv cf (te_post e) /\
    (forall acts sh, te_call e = CStep acts sh -> forall a, In a (m_done (te_pre e)) ->
       agent (ns_grid (m_sim (te_post e))) a = agent (ns_grid (m_sim (te_pre e))) a).
Proof. exact mazenav_done_stay. Qed.
Print Assumptions C03_maze_done_stay.

(* the recorded run is the managers' run *)
Theorem C03_maze_run_snap_is_run : forall cf k cs m,
  map nr_resp (fst (mrun_snap cf k m cs)) = fst (run (mazenav_sim cf) k m cs) /\
  snd (mrun_snap cf k m cs) = snd (run (mazenav_sim cf) k m cs).
Proof. exact mrun_snap_run. Qed.
Print Assumptions C03_maze_run_snap_is_run.

(* the extracted checker of the component (ginvb and the statics on every recorded snapshot; C13's
   chk_reset on the reported outcome of every reset against the recorded draws, and the snapshot's
   positions are the outcome's; every reported done flag / reward consistent with the snapshot; flag
   clear) answers 1 on the extracted model's own output, for every decodable input (well-formed maze
   configuration, all-step or turn-based manager) with a navigating agent whose first call is a reset
   and on which the recorded draws were admissible and no reset raised *)
Theorem C03_maze_chk_model : forall xin i,
  dec_nav xin = Some i -> has_nav (mi_cfg i) -> (exists cs', mi_calls i = CReset :: cs') ->
  ns_bad (m_sim (snd (nav_records i))) = false ->
  run_chk_mazenav (L [xin; run_mazenav xin]) = A 1.
Proof. exact run_chk_mazenav_model. Qed.
Print Assumptions C03_maze_chk_model.

(* non-vacuity: a 3x3 maze generated around the target in the middle (walls at (0,0), (1,2), (2,0)),
   the barrier on the wall (1,2), the navigators on the passages (1,0) and (0,2); one all-step step in
   which navigator 2 steps onto the target's cell (reward 1, done, remembered) and navigator 3 walks
   into the barrier (refused: -0.1 - 0.01); the component's checker accepts the records *)
Example C03_maze_nonvacuous :
  wf_ncfg mz_cf = true /\ has_nav mz_cf /\ is_nav mz_cf (n_target mz_cf) = false /\
  n_next_reset_ok mz_cf mz_s0 = true /\ calls_ok MAll mz_calls /\
  in_protocol (trace (mazenav_sim mz_cf) MAll (init mz_s0) Fresh mz_calls) /\
  (let r := mrun_snap mz_cf MAll (init mz_s0) mz_calls in
   map nr_resp (fst r) = mz_out /\ ns_bad (m_sim (snd r)) = false /\
   m_done (snd r) = [0%nat; 1%nat; 2%nat] /\
   map (fun x => ginvb (nr_grid x)) (fst r) = [0; 0] /\
   option_map (fun o => (Place.o_maze o, Place.o_log o)) (mn_outcome mz_cf mz_s0) =
     Some (Some [[1; 0; 0]; [0; 0; 1]; [1; 0; 0]],
           [(0%nat, (1, 1)); (1%nat, (1, 2)); (2%nat, (1, 0)); (3%nat, (0, 2))]) /\
   map a_pos (g_agents (ns_grid (m_sim (snd r)))) = [Some (1, 1); Some (1, 2); Some (1, 1); Some (0, 2)] /\
   cell_get (g_cells (ns_grid (m_sim (snd r)))) (1, 1) = [0%nat; 2%nat] /\
   chk_nav_recs mz_cf [mz_d; mz_d] mz_calls (map enc_nrec (fst r)) = 0).
Proof. exact mz_nonvacuous. Qed.

(* =====================================================================================================
   Fifth end-to-end instance (supports C01, C03, C08, C12, C16): PacmanSimSimple of
   abmarl/examples/sim/pacman.py -- PositionState + OrientationState + HealthState, the
   AbsoluteEncodingObserver, the DriftMoveActor for pacman and for five baddies moved by a script inside
   `step`, the corridor teleportation (9,0) <-> (9,18) by Grid.remove / Grid.place, food eaten and pacman
   killed by overlap (health := 0, Grid.remove) outside any attack actor.
   Grid/PacmanSim.v: `pacman_sim cf : simulation pstate (list (list Z)) unit Z` (pacman and the baddies
   are learning agents; walls and food are not).  The model is the step with the repair of
   findings/C03-pacman-blocked-teleport; `pacman_sim_prefix` is the tree as found.  Vocabulary:
     ginv           the C03 invariant itself (pacman and eaten food have health 0, are inactive and in no cell)
     pac_ok cf      the agent listed as 'pacman' is a PacmanAgent
   ===================================================================================================== *)
From Abm Require Import Grid.PacmanSim Proofs.PacmanSim_proofs.

(* PacmanSimSimple.step keeps the invariant: every action dictionary (any keys, any move values, a dead
   pacman, missing baddies), every state, every arm including the ones that raise -- the drift moves, the
   teleports of pacman and of the baddies, the eaten food, the direct kill *)
Theorem C03_pacman_step_ginv : forall cf st acts,
  ginv (ps_grid st) -> ginv (ps_grid (pm_step cf st acts)).
Proof. exact pm_step_ginv. Qed.
Print Assumptions C03_pacman_step_ginv.

(* the repaired teleport alone *)
Theorem C03_pacman_teleport_ginv : forall g i, ginv g -> ginv (tres_grid (teleport true g i)).
Proof. exact teleport_inv. Qed.
Print Assumptions C03_pacman_teleport_ginv.

(* getters touch neither grid, start-state stream nor step_count *)
Theorem C03_pacman_getters_pure : forall f cf s s',
  greach (pacman_sim_gen f cf) s s' ->
  ps_grid s' = ps_grid s /\ ps_starts s' = ps_starts s /\ ps_count s' = ps_count s.
Proof. exact p_greach_frame. Qed.
Print Assumptions C03_pacman_getters_pure.

Theorem C03_pacman_done_stable : forall cf, done_stable (pacman_sim cf).
Proof. exact (pacman_done_stable true). Qed.
Print Assumptions C03_pacman_done_stable.

Theorem C03_pacman_reward_read_once : forall cf st i x,
  p_learning cf i = true -> nth_error (ps_rew st) i = Some x ->
  fst (pm_reward cf st i) = x /\
  nth_error (ps_rew (snd (pm_reward cf st i))) i = Some 0 /\
  (forall j, j <> i -> nth_error (ps_rew (snd (pm_reward cf st i))) j = nth_error (ps_rew st) j) /\
  ps_bad (snd (pm_reward cf st i)) = ps_bad st.
Proof. exact pm_reward_read_once. Qed.
Print Assumptions C03_pacman_reward_read_once.

(* the invariant holds in every simulation state any manager reaches by ANY call list, in or out of
   protocol (steps after pacman's death, without pacman's key, for walls ...) *)
Theorem C03_pacman_ginv_reachable : forall cf k s0 cs,
  ginv (ps_grid s0) -> Forall ginv (ps_starts s0) ->
  ginv (ps_grid (m_sim (snd (run (pacman_sim cf) k (init s0) cs)))) /\
  forall e, In e (trace (pacman_sim cf) k (init s0) Fresh cs) ->
    ginv (ps_grid (m_sim (te_pre e))) /\ ginv (ps_grid (m_sim (te_post e))).
Proof. exact pacman_ginv_reachable. Qed.
Print Assumptions C03_pacman_ginv_reachable.

(* C01 along in-protocol histories under the all-step manager; walls and food are in done_agents from
   the first reset on *)
Theorem C03_pacman_invariants_all : forall cf s0 cs,
  ginv (ps_grid s0) -> Forall ginv (ps_starts s0) ->
  in_protocol (trace (pacman_sim cf) MAll (init s0) Fresh cs) ->
  forall e, In e (trace (pacman_sim cf) MAll (init s0) Fresh cs) ->
    (te_ph e <> Fresh -> incl (nonlearning (pacman_sim cf)) (m_done (te_pre e))) /\
    ginv (ps_grid (m_sim (te_pre e))) /\ ginv (ps_grid (m_sim (te_post e))) /\
    do_call (pacman_sim cf) MAll (te_pre e) (te_call e) = (te_resp e, te_post e) /\
    NoDup (ep_dones (trace (pacman_sim cf) MAll (init s0) Fresh cs) []).
Proof. exact pacman_invariants_all. Qed.
Print Assumptions C03_pacman_invariants_all.

Theorem C03_pacman_done_at_most_once_turn : forall cf s0 cs,
  in_protocol (trace (pacman_sim cf) MTurn (init s0) Fresh cs) ->
  NoDup (ep_dones (trace (pacman_sim cf) MTurn (init s0) Fresh cs) []).
Proof. exact pacman_done_once_turn. Qed.
Print Assumptions C03_pacman_done_at_most_once_turn.

(* manager o simulation: every done flag of an accepted all-step step, and `__all__` unless everybody has
   been reported, is get_all_done of the state the call leaves: pacman inactive, or no FoodAgent listed *)
Theorem C03_pacman_done_entries_all : forall cf m acts sh o m',
  all_step (pacman_sim cf) m acts sh = (ROut o, m') ->
  (forall a b, In (a, b) (o_done o) -> b = pm_all cf (m_sim m')) /\
  o_all o = pm_all cf (m_sim m') || all_in (pacman_sim cf) (m_done m').
Proof. exact pacman_all_done_entries. Qed.
Print Assumptions C03_pacman_done_entries_all.

(* C16 and C08 over the pacman simulation *)
Theorem C03_pacman_trainer_never_fails :
  forall PS cf pmap (pol_act : PS -> nat -> list (list Z) -> Z * PS) pol_reset shuf h k m ps,
  pac_ok cf -> k = MAll \/ k = MTurn ->
  er_status (generate_episode (pacman_sim cf) pmap pol_act pol_reset shuf h k m ps) = EOk /\
  exists obs, er_reset (generate_episode (pacman_sim cf) pmap pol_act pol_reset shuf h k m ps) = RObs obs.
Proof. exact pacman_trainer_never_fails. Qed.
Print Assumptions C03_pacman_trainer_never_fails.

Theorem C03_pacman_episode_indistinguishable : forall cf k m1 m2 cs,
  pac_ok cf -> k <> MTurnPrefix ->
  pm_reset cf (m_sim m1) = pm_reset cf (m_sim m2) ->
  fst (run (pacman_sim cf) k m1 (CReset :: cs)) = fst (run (pacman_sim cf) k m2 (CReset :: cs)).
Proof. exact pacman_episode_indistinguishable. Qed.
Print Assumptions C03_pacman_episode_indistinguishable.

(* the recorded run is the managers' run *)
Theorem C03_pacman_run_snap_is_run : forall Sm k cs m,
  map fst (fst (prun_snap Sm k m cs)) = fst (run Sm k m cs) /\
  snd (prun_snap Sm k m cs) = snd (run Sm k m cs).
Proof. exact prun_snap_run. Qed.
Print Assumptions C03_pacman_run_snap_is_run.

(* the snapshot clauses (301-304) of the component's checker hold of every record of the model's run:
   every recorded grid satisfies ginv, for every manager kind and call list.  (A full chk_model -- also
   the step_count clauses 2612 / 2613 and the shared-cell clause 2611 lifted through the wire -- is not
   proved; those clauses are tied to the model by the runs.) *)
Theorem C03_pacman_chk_model_partial : forall cf k cs m,
  ginv (ps_grid (m_sim m)) -> Forall ginv (ps_starts (m_sim m)) ->
  Forall (fun rg => ginv (fst (snd rg))) (fst (prun_snap (pacman_sim cf) k m cs)).
Proof. intros cf k cs m H1 H2. apply prun_snap_inv. split; assumption. Qed.
Print Assumptions C03_pacman_chk_model_partial.

(* the step_count clauses (2612 / 2613) at the level of the simulation's own transitions, for every
   configuration, state and action dictionary (Proofs/PacmanCount_proofs.v): reset sets step_count to 0
   and the rewards to 0; a step that raised nothing either adds exactly one, or leaves step_count alone and
   then pacman is inactive in the resulting state (an overlap loop killed it and returned early); when the
   step counted, the last overlap loop ran to its end on pacman's cell and left pacman's record alone.
   (Still not proved: the converse "counted => pacman still active", which needs pacman's vitals framed
   through the baddies' moves and teleports; and the shared-cell clause 2611.) *)
From Abm Require Import Proofs.PacmanCount_proofs.
Theorem C03_pacman_reset_count : forall f cf st,
  ps_count (sim_reset (pacman_sim_gen f cf) st) = 0 /\
  ps_rew (sim_reset (pacman_sim_gen f cf) st) = repeat 0 (length (pc_kinds cf)).
Proof. intros f cf st. split; [exact (pm_reset_count cf st) | exact (pm_reset_rewards cf st)]. Qed.
Print Assumptions C03_pacman_reset_count.

Theorem C03_pacman_step_count : forall f cf st acts,
  ps_bad st = false -> ps_bad (sim_step (pacman_sim_gen f cf) st acts) = false ->
  ps_count (sim_step (pacman_sim_gen f cf) st acts) = ps_count st + 1 \/
  (ps_count (sim_step (pacman_sim_gen f cf) st acts) = ps_count st /\
   pac_active cf (ps_grid (sim_step (pacman_sim_gen f cf) st acts)) = false).
Proof. exact pacman_sim_step_count. Qed.
Print Assumptions C03_pacman_step_count.

Theorem C03_pacman_step_count_any : forall f cf st acts,
  ps_count (pm_step_gen f cf st acts) = ps_count st \/
  ps_count (pm_step_gen f cf st acts) = ps_count st + 1.
Proof. exact pm_step_count_cases. Qed.
Print Assumptions C03_pacman_step_count_any.

Theorem C03_pacman_counted_last_loop_frame : forall f cf st acts,
  ps_bad st = false -> ps_bad (pm_step_gen f cf st acts) = false ->
  ps_count (pm_step_gen f cf st acts) = ps_count st + 1 ->
  exists g4 p' r3,
    overlap_loop cf false (cell_get (g_cells g4) p') g4 r3
      = LGo (ps_grid (pm_step_gen f cf st acts)) (ps_rew (pm_step_gen f cf st acts)) /\
    pac_cell cf g4 = Some p' /\
    agent (ps_grid (pm_step_gen f cf st acts)) (pc_pac cf) = agent g4 (pc_pac cf).
Proof. exact pm_step_counted_last_loop_frame. Qed.
Print Assumptions C03_pacman_counted_last_loop_frame.

Theorem C03_pacman_overlap_loop_vitals : forall cf eat cands g r g' r',
  (overlap_loop cf eat cands g r = LDead g' r' -> pac_active cf g' = false) /\
  (overlap_loop cf eat cands g r = LGo g' r' -> agent g' (pc_pac cf) = agent g (pc_pac cf)).
Proof.
  intros cf eat cands g r g' r'. split;
    [apply overlap_loop_dead_inactive | apply overlap_loop_go_pacman].
Qed.
Print Assumptions C03_pacman_overlap_loop_vitals.

(* the baddies' turn (five scripted drift moves and teleports) never touches pacman's record, in either
   version of the teleport, as long as pacman is not itself listed as a baddie; hence in a step that
   counted, pacman's record at the end is the one it had after its own move, teleport and meal *)
Theorem C03_pacman_baddies_turn_frame : forall f cf moves k g, pac_not_baddie cf ->
  agent (tgrid (baddies_loop f cf k moves g)) (pc_pac cf) = agent g (pc_pac cf).
Proof. intros f cf moves k g. apply baddies_loop_frame. Qed.
Print Assumptions C03_pacman_baddies_turn_frame.

Theorem C03_pacman_counted_pacman_frame : forall f cf st acts,
  pac_not_baddie cf ->
  ps_bad st = false -> ps_bad (pm_step_gen f cf st acts) = false ->
  ps_count (pm_step_gen f cf st acts) = ps_count st + 1 ->
  exists ca b g1 g2 p g3 r3,
    assoc acts (pc_pac cf) = Some ca /\
    move_drift (ps_grid st) (pc_pac cf) ca = MOk b g1 /\
    teleport f g1 (pc_pac cf) = TOk g2 /\ pac_cell cf g2 = Some p /\
    overlap_loop cf true (cell_get (g_cells g2) p) g2
      (radd (ps_rew st) (pc_pac cf) (if b then pc_entropy cf else pc_bad_move cf)) = LGo g3 r3 /\
    agent (ps_grid (pm_step_gen f cf st acts)) (pc_pac cf) = agent g2 (pc_pac cf).
Proof. exact pm_step_counted_pacman_frame. Qed.
Print Assumptions C03_pacman_counted_pacman_frame.

(* clause 2612 of the component's checker, in full, at the level of the simulation's transitions: for
   every configuration in which pacman is not listed as a baddie, every state, every action dictionary and
   either teleport: a step that raised nothing and that pacman started alive ends with
   step_count = old + 1 if pacman is still active, old if it died.  (Moves, teleports and eating change
   positions, orientations and other agents' health only: `move_drift_act`, `teleport_act`.) *)
Theorem C03_pacman_clause_2612 : forall f cf st acts,
  pac_not_baddie cf ->
  ps_bad st = false -> ps_bad (pm_step_gen f cf st acts) = false ->
  pac_active cf (ps_grid st) = true ->
  ps_count (pm_step_gen f cf st acts)
    = if pac_active cf (ps_grid (pm_step_gen f cf st acts)) then ps_count st + 1 else ps_count st.
Proof. exact pm_step_clause_2612. Qed.
Print Assumptions C03_pacman_clause_2612.

Theorem C03_pacman_counted_active : forall f cf st acts,
  pac_not_baddie cf ->
  ps_bad st = false -> ps_bad (pm_step_gen f cf st acts) = false ->
  ps_count (pm_step_gen f cf st acts) = ps_count st + 1 ->
  pac_active cf (ps_grid (pm_step_gen f cf st acts)) = pac_active cf (ps_grid st).
Proof. exact pm_step_counted_active. Qed.
Print Assumptions C03_pacman_counted_active.

(* moves and teleports never change anybody's `active` flag *)
Theorem C03_move_teleport_keep_active : forall f s i ca j,
  match move_drift s i ca with MOk _ s' => act s' j = act s j | _ => True end /\
  act (tgrid (teleport f s i)) j = act s j.
Proof. intros f s i ca j. split; [apply move_drift_act | apply teleport_act]. Qed.
Print Assumptions C03_move_teleport_keep_active.

(* clause 2611: after a step that raised nothing pacman is never alive in a cell that also holds a
   baddie (the second overlap loop either found none or killed pacman) -- every configuration, state,
   action dictionary, either teleport *)
Theorem C03_pacman_clause_2611 : forall f cf st acts,
  ps_bad st = false -> ps_bad (pm_step_gen f cf st acts) = false ->
  shares_b cf (ps_grid (pm_step_gen f cf st acts)) = false.
Proof. exact pm_step_clause_2611. Qed.
Print Assumptions C03_pacman_clause_2611.

(* the per-record checker `chk_prec` of component 2602 accepts every transition of the model: given the
   snapshot clauses 301-304 on the new grid (C03_pacman_chk_model_partial / ginvb), a step record is accepted
   against the previous record's (active, step_count), and a reset record is accepted.  What is still not
   proved is only the lift through the wire (dec_start of the encoded snapshot, the managers' call loop). *)
Theorem C03_pacman_chk_prec_step : forall f cf st acts,
  pac_not_baddie cf ->
  ps_bad st = false -> ps_bad (pm_step_gen f cf st acts) = false ->
  ginvb (ps_grid (pm_step_gen f cf st acts)) = 0 ->
  chk_prec cf (Some (pac_active cf (ps_grid st), ps_count st)) 1
           (ps_grid (pm_step_gen f cf st acts)) (ps_count (pm_step_gen f cf st acts)) = 0.
Proof. exact pm_step_chk_prec. Qed.
Print Assumptions C03_pacman_chk_prec_step.

Theorem C03_pacman_chk_prec_reset : forall cf st prev,
  ginvb (ps_grid (pm_reset cf st)) = 0 ->
  chk_prec cf prev 0 (ps_grid (pm_reset cf st)) (ps_count (pm_reset cf st)) = 0.
Proof. exact pm_reset_chk_prec. Qed.
Print Assumptions C03_pacman_chk_prec_reset.

(* the same clauses for ONE MANAGER CALL -- any manager kind, any call (reset, step with any action
   dictionary, in or out of protocol), the getters the manager invokes included: if no exception was flagged,
   the call left grid and step_count alone, or it was a reset (step_count 0, the reset's grid), or it was a
   step and clauses 2611 and 2612 hold between the states before and after the call.  By induction over the
   call list this covers every record of `prun_snap`; what remains unproved is only the wire decode. *)
Theorem C03_pacman_call_clauses : forall f cf k m c r m',
  pac_not_baddie cf ->
  do_call (pacman_sim_gen f cf) k m c = (r, m') ->
  ps_bad (m_sim m) = false -> ps_bad (m_sim m') = false ->
  (ps_grid (m_sim m') = ps_grid (m_sim m) /\ ps_count (m_sim m') = ps_count (m_sim m)) \/
  (ps_grid (m_sim m') = ps_grid (pm_reset cf (m_sim m)) /\ ps_count (m_sim m') = 0) \/
  (exists l,
     ps_grid (m_sim m') = ps_grid (pm_step_gen f cf (m_sim m) l) /\
     shares_b cf (ps_grid (m_sim m')) = false /\
     (pac_active cf (ps_grid (m_sim m)) = true ->
      ps_count (m_sim m') = if pac_active cf (ps_grid (m_sim m')) then ps_count (m_sim m) + 1
                            else ps_count (m_sim m))).
Proof. exact pacman_call_clauses. Qed.
Print Assumptions C03_pacman_call_clauses.

(* ... and for EVERY RECORD of a recorded run: any manager kind, any call list, from any manager state:
   if the run ends without a flagged exception, each recorded (grid, step_count) relates to the one before it
   (the initial state for the first) by `rec_ok`: unchanged, or step_count = 0 (a reset), or clauses 2611 and
   2612 hold (a step).  These are the checker's clauses on the model's own records before the wire encoding. *)
Theorem C03_pacman_records_chain : forall f cf k cs m,
  pac_not_baddie cf ->
  ps_bad (m_sim (snd (prun_snap (pacman_sim_gen f cf) k m cs))) = false ->
  chain (rec_ok cf) (ps_grid (m_sim m), ps_count (m_sim m))
        (map snd (fst (prun_snap (pacman_sim_gen f cf) k m cs))).
Proof. intros f cf k cs m. apply prun_snap_chain. Qed.
Print Assumptions C03_pacman_records_chain.

(* the hypothesis holds of the packaged board's configuration *)
Example C03_pacman_not_baddie_nonvacuous : pac_not_baddie px_cf.
Proof.
  intros k b H. unfold px_cf in H |- *. cbn [pc_bad pc_pac] in *.
  do 5 (destruct k as [|k]; [cbn in H; inversion H; discriminate|]).
  destruct k; cbn in H; discriminate.
Qed.

(* the tree as found (findings/C03-pacman-blocked-teleport): the teleport ignores the result of Grid.place.
   A wall on the tunnel end (9,18), pacman walks from (9,1) to (9,0): removed from the grid, placed nowhere,
   still active (clause 303 of the invariant test on the snapshot), the next step raises; the repaired step
   leaves pacman on (9,0). *)
Theorem C03_pacman_blocked_teleport_prefix_refuted :
  exists cf s0 cs,
    pac_ok cf /\ ps_inv s0 /\ ps_bad s0 = false /\
    in_protocol (trace (pacman_sim cf) MAll (init s0) Fresh cs) /\
    (let m := snd (run (pacman_sim_prefix cf) MAll (init s0) cs) in
     ginvb (ps_grid (m_sim m)) = 303 /\ ps_bad (m_sim m) = false /\
     option_map (fun a => (a_pos a, a_active a)) (agent (ps_grid (m_sim m)) 0) = Some (Some (9, 0), true) /\
     cell_get (g_cells (ps_grid (m_sim m))) (9, 0) = [] /\
     ps_bad (m_sim (snd (run (pacman_sim_prefix cf) MAll (init s0) (cs ++ [px_step 0])))) = true) /\
    (let m := snd (run (pacman_sim cf) MAll (init s0) (cs ++ [px_step 0])) in
     ginvb (ps_grid (m_sim m)) = 0 /\ ps_bad (m_sim m) = false /\
     cell_get (g_cells (ps_grid (m_sim m))) (9, 0) = [0%nat]).
Proof. exact blocked_teleport_prefix_refuted. Qed.
Print Assumptions C03_pacman_blocked_teleport_prefix_refuted.

(* non-vacuity: a legal 10 x 19 start state; pacman eats a pellet (0.10 - 0.01), walks into the tunnel end
   (9,0) and comes out at (9,18), drifts into baddie_2 and is eaten (-1 - 0.01): inactive, health 0, in no
   cell, every agent reported done, step_count stays at 3; the eaten pellet has health 0 and is in no cell *)
Example C03_pacman_nonvacuous :
  let s0 := px_s0 (9, 3) (5, 5) [3; 4; 4] in
  ps_inv s0 /\ pac_ok px_cf /\
  in_protocol (trace (pacman_sim px_cf) MAll (init s0) Fresh px_calls) /\
  (let r := prun_snap (pacman_sim px_cf) MAll (init s0) px_calls in
   map (fun x => match fst x with
                 | ROut o => (assoc (o_rew o) 0, assoc (o_done o) 0, o_all o)
                 | _ => (None, None, false) end) (fst r)
     = [(None, None, false); (Some 9, Some false, false); (Some (-1), Some false, false);
        (Some (-1), Some false, false); (Some (-101), Some true, true)] /\
   map (fun x => (option_map (fun a => (a_pos a, a_active a, a_health a)) (agent (fst (snd x)) 0), snd (snd x)))
       (fst r)
     = [(Some (Some (9, 3), true, HD), 0); (Some (Some (9, 2), true, HD), 1); (Some (Some (9, 1), true, HD), 2);
        (Some (Some (9, 18), true, HD), 3); (Some (Some (9, 17), false, 0), 3)] /\
   map (fun x => ginvb (fst (snd x))) (fst r) = [0; 0; 0; 0; 0] /\
   ps_bad (m_sim (snd r)) = false /\
   option_map (fun a => (a_active a, a_health a)) (agent (ps_grid (m_sim (snd r))) 1) = Some (false, 0) /\
   cell_get (g_cells (ps_grid (m_sim (snd r)))) (9, 2) = [] /\
   cell_get (g_cells (ps_grid (m_sim (snd r)))) (9, 17) = [4%nat] /\
   length (m_done (snd r)) = 8%nat).
Proof. exact px_nonvacuous. Qed.
