(* C02 monitors (harness/gen_C02.py).  The three monitor components run the real code of /repo and
   return the list of violation records they found:
       record = (id  episode-seed  step  agent-index  kind  detail)
   The reference behaviour is "no violation" for every input, so the model side is the constant
   empty list, and the checker accepts exactly the empty list; otherwise it answers -(200 + kind)
   for the first record (kind 1 observation outside the declared space, 2 null observation outside,
   3 null action outside, 4 reset raised, 5 step raised, 6 construction raised, 7 an action of the
   declared space raised, 8 sample outside the space, 9 harness failure).  No proofs here. *)
From Coq Require Import ZArith List Bool.
From Abm Require Import Base.Sx.
Import ListNotations.
Open Scope Z_scope.

(* the behaviour every monitored run must have *)
Definition no_violation : sx := L [].

Definition run_mon_examples (x : sx) : sx := no_violation.
Definition run_mon_grid (x : sx) : sx := no_violation.
Definition run_mon_stacks (x : sx) : sx := no_violation.

Definition record_kind (r : sx) : option Z :=
  match r with
  | L (A _ :: A _ :: A _ :: A _ :: A k :: _) => if (1 <=? k) && (k <=? 9) then Some k else None
  | _ => None
  end.

(* (input behaviour) -> 1 | -(200 + kind of the first record) | -299 malformed *)
Definition chk_C02 (beh : sx) : Z :=
  match beh with
  | L [] => 1
  | L (r :: _) => match record_kind r with Some k => - (200 + k) | None => -299 end
  | A _ => -299
  end.

Definition run_chk_C02 (x : sx) : sx :=
  match x with
  | L [_; beh] => A (chk_C02 beh)
  | _ => A (-299)
  end.

(* DISPATCH: 201 => run_mon_examples *)
(* DISPATCH: 202 => run_mon_grid *)
(* DISPATCH: 203 => run_mon_stacks *)
(* DISPATCH: 204 => run_chk_C02 *)
