(* Model of abmarl/sim/wrappers/ravel_discrete_wrapper.py:
   _ravel_helper, _nested_dim_helper, ravel, unravel, ravel_space, check_space.
   No proofs here (see Proofs/Ravel_proofs.v). *)
From Coq Require Import ZArith List Bool.
From Abm Require Import Base.Sx Spaces.Space.
Import ListNotations.
Open Scope Z_scope.

Definition prod (l : list Z) : Z := fold_right Z.mul 1 l.

(* np.ravel_multi_index(digs, dims), C order: first index most significant *)
Fixpoint rmi (digs dims : list Z) : Z :=
  match digs, dims with
  | x :: xs, _ :: ds => x * prod ds + rmi xs ds
  | _, _ => 0
  end.

(* np.unravel_index(k, dims) *)
Fixpoint uri (k : Z) (dims : list Z) : list Z :=
  match dims with
  | [] => []
  | _ :: ds => let p := prod ds in (k / p) :: uri (k mod p) ds
  end.

Fixpoint map2 {X Y W} (f : X -> Y -> W) (l : list X) (m : list Y) : list W :=
  match l, m with
  | x :: l', y :: m' => f x y :: map2 f l' m'
  | _, _ => []
  end.

Definition box_dims (bs : list (Z * Z)) : list Z := map (fun b => snd b + 1 - fst b) bs.

(* _nested_dim_helper(space)[0] *)
Fixpoint size (s : space) : Z :=
  match s with
  | Discrete n => n
  | MultiBinary n => 2 ^ Z.of_nat n
  | MultiDiscrete nv => prod nv
  | BoxI bs => prod (box_dims bs)
  | BoxF _ => 0
  | Tuple ss | Dict ss => prod (map size ss)
  end.

(* _ravel_helper(space, point) = (value, dimension) *)
Fixpoint ravel_h (s : space) (p : point) {struct s} : Z * Z :=
  match s, p with
  | Discrete n, PI z => (z, n)
  | MultiBinary n, PV v => (rmi v (repeat 2 n), 2 ^ Z.of_nat n)
  | MultiDiscrete nv, PV v => (rmi v nv, prod nv)
  | BoxI bs, PV v =>
      let dims := box_dims bs in
      (rmi (map2 (fun x b => x - fst b) v bs) dims, prod dims)
  | Tuple ss, PT ps | Dict ss, PT ps =>
      let vd := (fix go (ss : list space) (ps : list point) : list (Z * Z) :=
                   match ss, ps with
                   | s :: ss', p :: ps' => ravel_h s p :: go ss' ps'
                   | _, _ => []
                   end) ss ps in
      (rmi (map fst vd) (map snd vd), prod (map snd vd))
  | _, _ => (0, 1)
  end.

Definition ravel (s : space) (p : point) : Z := fst (ravel_h s p).

Fixpoint unravel (s : space) (k : Z) {struct s} : point :=
  match s with
  | Discrete _ => PI k
  | MultiBinary n => PV (uri k (repeat 2 n))
  | MultiDiscrete nv => PV (uri k nv)
  | BoxI bs => PV (map2 (fun d b => d + fst b) (uri k (box_dims bs)) bs)
  | BoxF _ => PF []
  | Tuple ss | Dict ss =>
      PT ((fix go (ss : list space) (ds : list Z) : list point :=
             match ss, ds with
             | s :: ss', d :: ds' => unravel s d :: go ss' ds'
             | _, _ => []
             end) ss (uri k (map size ss)))
  end.

(* ravel_space(space) = Discrete(size space) *)
Definition ravel_space (s : space) : space := Discrete (size s).

(* check_space: only finite integer spaces *)
Fixpoint ravel_ok (s : space) : bool :=
  match s with
  | Discrete _ | MultiBinary _ | MultiDiscrete _ | BoxI _ => true
  | BoxF _ => false
  | Tuple ss | Dict ss =>
      (fix go (ss : list space) : bool :=
         match ss with [] => true | s :: ss' => ravel_ok s && go ss' end) ss
  end.

(* ---- property checker for C04 on one (space, point, k) observation -----
   behaviour = (ravel p, unravel k, ravel (unravel k), unravel (ravel p), n, check_space)
   as reported by whoever ran it (model or implementation).               *)
Definition chk_C04 (s : space) (p : point) (k : Z)
           (rp : Z) (uk : point) (ruk : Z) (urp : point) (n : Z) : bool :=
  (n =? size s) &&
  in_range 0 n rp &&
  member s uk &&
  (ruk =? k) &&
  sx_eqb (enc_point urp) (enc_point p).

(* ---- wire ---------------------------------------------------------------
   input  (space shapes point k)  with member space point and 0 <= k < size
   output (ravel_ok size ravel(point) unravel(k) ravel(unravel k) unravel(ravel point)) *)
Definition run_ravel (x : sx) : sx :=
  match x with
  | L [xs; _; xp; A k] =>   (* second field: Box shapes, used by the implementation side only *)
      match dec_space xs, dec_point xp with
      | Some s, Some p =>
          if negb (ravel_ok s) then L [A 0]
          else if negb (wf s && member s p && in_range 0 (size s) k) then sx_err
          else
            L [A 1; A (size s); A (ravel s p); enc_point (unravel s k);
               A (ravel s (unravel s k)); enc_point (unravel s (ravel s p))]
      | _, _ => sx_err
      end
  | _ => sx_err
  end.

(* input ((space point k) behaviour) -> 1/0 *)
Definition run_chk_C04 (x : sx) : sx :=
  match x with
  | L [L [xs; _; xp; A k]; L [A 1; A n; A rp; xuk; A ruk; xurp]] =>
      match dec_space xs, dec_point xp, dec_point xuk, dec_point xurp with
      | Some s, Some p, Some uk, Some urp => ofB (chk_C04 s p k rp uk ruk urp n)
      | _, _, _, _ => A 0
      end
  | L [L [xs; _; _; _]; L [A 0]] =>
      match dec_space xs with Some s => ofB (negb (ravel_ok s)) | None => A 0 end
  | _ => A 0
  end.

(* DISPATCH: 401 => run_ravel *)
(* DISPATCH: 402 => run_chk_C04 *)
