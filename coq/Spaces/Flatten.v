(* Model of abmarl/sim/wrappers/flatten_wrapper.py: flatdim, flatten, unflatten, flatten_space.
   A flattened vector is a list of numbers plus its numpy kind (false = integer, true = float);
   float values are in ticks of 1/1024, and numpy's upcast of integer parts when they are
   concatenated with float parts is multiplication by TICK.  No proofs here. *)
From Coq Require Import ZArith List Bool.
From Abm Require Import Base.Sx Spaces.Space Spaces.Ravel.
Import ListNotations.
Open Scope Z_scope.

Definition TICK : Z := 1024.

(* values of an unflattened point remember the numpy kind they came back with *)
Inductive upoint :=
| UI (z : Z) (f : bool)
| UV (v : list Z) (f : bool)
| UT (us : list upoint)
| UErr.

Definition upcast (v : list Z) : list Z := map (fun z => z * TICK) v.
(* bring a vector of kind k to kind f (only int -> float changes anything) *)
Definition castv (f k : bool) (v : list Z) : list Z := if f && negb k then upcast v else v.

Fixpoint flatdim (s : space) : nat :=
  match s with
  | Discrete _ => 1
  | MultiBinary n => n
  | MultiDiscrete nv => length nv
  | BoxI bs | BoxF bs => length bs
  | Tuple ss | Dict ss =>
      (fix go (ss : list space) : nat :=
         match ss with [] => 0 | s :: ss' => flatdim s + go ss' end)%nat ss
  end.

Definition concat_parts (parts : list (list Z * bool)) : list Z * bool :=
  let anyf := existsb snd parts in
  (concat (map (fun vk => castv anyf (snd vk) (fst vk)) parts), anyf).

Fixpoint flatten (s : space) (p : point) {struct s} : list Z * bool :=
  match s, p with
  | Discrete _, PI z => ([z], false)
  | MultiBinary _, PV v => (v, false)
  | MultiDiscrete _, PV v => (v, false)
  | BoxI _, PV v => (v, false)
  | BoxF _, PF v => (v, true)
  | Tuple ss, PT ps | Dict ss, PT ps =>
      concat_parts
        ((fix go (ss : list space) (ps : list point) : list (list Z * bool) :=
            match ss, ps with
            | s :: ss', p :: ps' => flatten s p :: go ss' ps'
            | _, _ => []
            end) ss ps)
  | _, _ => ([], false)
  end.

Fixpoint unflatten (s : space) (v : list Z) (f : bool) {struct s} : upoint :=
  match s with
  | Discrete _ => match v with z :: _ => UI z f | [] => UErr end          (* point[0] *)
  | MultiBinary _ | MultiDiscrete _ => UV v f                               (* returned as is *)
  | BoxI _ => UV (if f then map (fun z => Z.quot z TICK) v else v) false   (* asarray(dtype=int) *)
  | BoxF _ => UV (if f then v else upcast v) true
  | Tuple ss | Dict ss =>
      (* np.split(point, cumsum(dims)[:-1]) : the last part takes everything that is left *)
      UT ((fix go (ss : list space) (v : list Z) : list upoint :=
             match ss with
             | [] => []
             | s :: ss' =>
                 match ss' with
                 | [] => [unflatten s v f]
                 | _ => unflatten s (firstn (flatdim s) v) f :: go ss' (skipn (flatdim s) v)
                 end
             end) ss v)
  end.

Definition scale_bounds (bs : list (Z * Z)) : list (Z * Z) :=
  map (fun b => (fst b * TICK, snd b * TICK)) bs.

Definition concat_bounds (parts : list (list (Z * Z) * bool)) : list (Z * Z) * bool :=
  let anyf := existsb snd parts in
  (concat (map (fun bk => if anyf && negb (snd bk) then scale_bounds (fst bk) else fst bk) parts),
   anyf).

(* flatten_space: bounds of the flat Box and its kind (true = float) *)
Fixpoint flatten_space (s : space) : list (Z * Z) * bool :=
  match s with
  | Discrete n => ([(0, n - 1)], false)
  | MultiBinary n => (repeat (0, 1) n, false)
  | MultiDiscrete nv => (map (fun d => (0, d - 1)) nv, false)
  | BoxI bs => (bs, false)
  | BoxF bs => (bs, true)
  | Tuple ss | Dict ss =>
      concat_bounds
        ((fix go (ss : list space) : list (list (Z * Z) * bool) :=
            match ss with [] => [] | s :: ss' => flatten_space s :: go ss' end) ss)
  end.

(* membership of a flattened vector in the flattened Box: same kind, right length, in bounds *)
Definition box_member (b : list (Z * Z) * bool) (v : list Z * bool) : bool :=
  Bool.eqb (snd b) (snd v) && forall2b in_closed (fst b) (fst v).

(* "same structure and the same values": numeric equality up to the int/float kind *)
Fixpoint list_eqb (l m : list Z) : bool :=
  match l, m with
  | [], [] => true
  | a :: l', b :: m' => (a =? b) && list_eqb l' m'
  | _, _ => false
  end.

Fixpoint same_values (p : point) (u : upoint) {struct p} : bool :=
  match p, u with
  | PI z, UI z' f => (if f then z * TICK else z) =? z'
  | PV v, UV w f => list_eqb (if f then upcast v else v) w
  | PF v, UV w true => list_eqb v w
  | PT ps, UT us =>
      (fix go (ps : list point) (us : list upoint) : bool :=
         match ps, us with
         | [], [] => true
         | p :: ps', u :: us' => same_values p u && go ps' us'
         | _, _ => false
         end) ps us
  | _, _ => false
  end.

(* forget kinds when every leaf came back as an integer *)
Fixpoint to_point (s : space) (u : upoint) {struct s} : option point :=
  match s, u with
  | Discrete _, UI z false => Some (PI z)
  | MultiBinary _, UV v false | MultiDiscrete _, UV v false | BoxI _, UV v false => Some (PV v)
  | Tuple ss, UT us | Dict ss, UT us =>
      option_map PT
        ((fix go (ss : list space) (us : list upoint) : option (list point) :=
            match ss, us with
            | [], [] => Some []
            | s :: ss', u :: us' =>
                match to_point s u, go ss' us' with
                | Some p, Some ps => Some (p :: ps)
                | _, _ => None
                end
            | _, _ => None
            end) ss us)
  | _, _ => None
  end.

(* ---- wire ----------------------------------------------------------------- *)
Fixpoint enc_upoint (u : upoint) : sx :=
  match u with
  | UI z f => L [A 0; ofB f; A z]
  | UV v f => L (A 1 :: ofB f :: map A v)
  | UT us => L (A 3 :: (fix go (us : list upoint) : list sx :=
                          match us with [] => [] | u :: us' => enc_upoint u :: go us' end) us)
  | UErr => L [A 9]
  end.

Fixpoint dec_upoint (x : sx) : option upoint :=
  match x with
  | L [A 0; f; A z] => option_map (UI z) (sxB f)
  | L (A 1 :: f :: r) =>
      match sxB f, all_some (map sxZ r) with Some f', Some v => Some (UV v f') | _, _ => None end
  | L (A 3 :: r) =>
      option_map UT
        ((fix go (r : list sx) : option (list upoint) :=
            match r with
            | [] => Some []
            | a :: r' => match dec_upoint a, go r' with
                         | Some s, Some ss => Some (s :: ss) | _, _ => None end
            end) r)
  | L [A 9] => Some UErr
  | _ => None
  end.

Definition enc_fspace (b : list (Z * Z) * bool) : sx := L [ofB (snd b); ofPairs (fst b)].

(* behaviour of one (space, point) observation:
   (flatdim kind values in_box fspace unflattened member_of_original)
   member_of_original is reported only for all-integer spaces (otherwise 2 = not applicable) *)
Definition run_flatten (x : sx) : sx :=
  match x with
  | L [xs; _; xp] =>
      match dec_space xs, dec_point xp with
      | Some s, Some p =>
          if negb (wf s && member s p) then sx_err
          else
            let fl := flatten s p in
            let fs := flatten_space s in
            let u := unflatten s (fst fl) (snd fl) in
            L [ofNat (flatdim s); ofB (snd fl); ofZs (fst fl); ofB (box_member fs fl);
               enc_fspace fs; enc_upoint u;
               A (if has_float s then 2
                  else match to_point s u with
                       | Some q => if member s q then 1 else 0
                       | None => 0
                       end)]
      | _, _ => sx_err
      end
  | _ => sx_err
  end.

(* the property, evaluated on a reported behaviour *)
Definition chk_C05 (s : space) (p : point) (dim : nat) (k : bool) (v : list Z) (inbox : bool)
           (fs : list (Z * Z) * bool) (u : upoint) (mem : Z) : bool :=
  Nat.eqb dim (flatdim s) && Nat.eqb (length v) dim &&
  inbox && box_member fs (v, k) &&
  Nat.eqb (length (fst fs)) dim &&
  Bool.eqb (snd fs) (has_float s) &&
  same_values p u &&
  (if has_float s then true
   else (mem =? 1) && match to_point s u with
                      | Some q => sx_eqb (enc_point q) (enc_point p)
                      | None => false
                      end).

Definition run_chk_C05 (x : sx) : sx :=
  match x with
  | L [L [xs; _; xp]; L [xdim; xk; xv; xin; L [xfk; xfb]; xu; A mem]] =>
      match dec_space xs, dec_point xp, sxNat xdim, sxB xk, sxZs xv, sxB xin,
            sxB xfk, sxPairs xfb, dec_upoint xu with
      | Some s, Some p, Some dim, Some k, Some v, Some inb, Some fk, Some fb, Some u =>
          ofB (chk_C05 s p dim k v inb (fb, fk) u mem)
      | _, _, _, _, _, _, _, _, _ => A 0
      end
  | _ => A 0
  end.

(* DISPATCH: 501 => run_flatten *)
(* DISPATCH: 502 => run_chk_C05 *)
