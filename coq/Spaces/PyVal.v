(* A small universe of Python values: what configuration attributes and Box candidates can be
   handed to Abmarl's setters.  Shared by Spaces/BoxMem.v and Grid/Validate.v (C19).
   Floats are rationals; on the wire they are integers over 1024.  No proofs here.

   Strings are opaque codes: 0 = "" (the only falsy string), 1 = "FULL", 10..30 = the 21
   matplotlib marker strings accepted as render_shape, any other code = some other
   non-numeric string. *)
From Coq Require Import ZArith QArith List Bool.
From Abm Require Import Base.Sx.
Import ListNotations.
Open Scope Z_scope.

(* numpy dtypes: bool, intN, uintN, floatN, object/str (anything not numeric) *)
Inductive dtype := DBool | DInt (bits : Z) | DUInt (bits : Z) | DFloat (bits : Z) | DObj.

Inductive fspecial := FNaN | FPosInf | FNegInf.

Inductive pyval :=
| PNone
| PBool (b : bool)
| PInt (z : Z)
| PFloat (q : Q)
| PFloatX (s : fspecial)                            (* float('nan'), float('inf'), -inf *)
| PStr (code : Z)
| PNpInt (z : Z)                                    (* numpy.int64 scalar *)
| PNpFloat (q : Q)                                  (* numpy.float64 scalar *)
| PNpBool (b : bool)                                (* numpy.bool_ scalar *)
| PArr (dt : dtype) (shape : list Z) (vals : list Q) (* ndarray, values flattened in C order *)
| PList (l : list pyval)
| PTuple (l : list pyval)
| PSet (l : list pyval)
| PDict (l : list (pyval * pyval))
| PAgent (id : Z).                                  (* a PrincipleAgent whose id is the str [id] *)

Definition dtype_eqb (a b : dtype) : bool :=
  match a, b with
  | DBool, DBool | DObj, DObj => true
  | DInt m, DInt n | DUInt m, DUInt n | DFloat m, DFloat n => m =? n
  | _, _ => false
  end.

Definition is_int_dtype (d : dtype) : bool :=
  match d with DInt _ | DUInt _ => true | _ => false end.

(* np.can_cast(a, b) with the default 'safe' rule, transcribed from numpy's table *)
Definition can_cast (a b : dtype) : bool :=
  match a, b with
  | _, DObj => true
  | DObj, _ => false
  | DBool, _ => true
  | DInt m, DInt n => m <=? n
  | DInt m, DFloat n => (m <? n) || ((m =? 64) && (n =? 64))
  | DUInt m, DUInt n => m <=? n
  | DUInt m, DInt n => m <? n
  | DUInt m, DFloat n => (m <? n) || ((m =? 64) && (n =? 64))
  | DFloat m, DFloat n => m <=? n
  | _, _ => false
  end.

Fixpoint zlist_eqb (a b : list Z) : bool :=
  match a, b with
  | [], [] => true
  | x :: a', y :: b' => (x =? y) && zlist_eqb a' b'
  | _, _ => false
  end.

Definition Qtrunc (q : Q) : Z := Z.quot (Qnum q) (Zpos (Qden q)).   (* toward zero *)
Definition Qintegral (q : Q) : bool := Qeq_bool (inject_Z (Qtrunc q)) q.
Definition qb (b : bool) : Q := if b then 1%Q else 0%Q.

(* the value of a Python number as Python's ==, <, <= see it *)
Definition num_of (v : pyval) : option Q :=
  match v with
  | PBool b | PNpBool b => Some (qb b)
  | PInt z | PNpInt z => Some (inject_Z z)
  | PFloat q | PNpFloat q => Some q
  | _ => None
  end.

(* v == z for a Python int z, as used by `in range(..)`, `in set_of_ints`, `!=`:
   numbers compare by value, a one-element ndarray compares elementwise and is then
   asked for its truth value; everything else is unequal.  (Arrays with a number of
   elements other than one raise ValueError: see [arr_ambiguous].) *)
Definition py_eq_int (v : pyval) (z : Z) : bool :=
  match v with
  | PArr DObj _ _ => false
  | PArr _ _ [q] => Qeq_bool q (inject_Z z)
  | _ => match num_of v with Some q => Qeq_bool q (inject_Z z) | None => false end
  end.

(* bool(array) / bool(array == something) raises ValueError unless there is exactly one element *)
Definition arr_ambiguous (v : pyval) : bool :=
  match v with
  | PArr _ _ [_] => false
  | PArr _ _ _ => true
  | _ => false
  end.

(* Python truthiness; None = raises ValueError (ambiguous array) *)
Definition truthy (v : pyval) : option bool :=
  match v with
  | PNone => Some false
  | PBool b | PNpBool b => Some b
  | PInt z | PNpInt z => Some (negb (z =? 0))
  | PFloat q | PNpFloat q => Some (negb (Qeq_bool q 0))
  | PFloatX _ => Some true
  | PStr c => Some (negb (c =? 0))
  | PArr _ _ [q] => Some (negb (Qeq_bool q 0))
  | PArr _ _ _ => None
  | PList l | PTuple l | PSet l => Some (match l with [] => false | _ => true end)
  | PDict l => Some (match l with [] => false | _ => true end)
  | PAgent _ => Some true
  end.

(* ---- wire ---------------------------------------------------------------------------
   (0) None  (1 b) bool  (2 z) int  (3 n) float n/1024  (4 k) nan/+inf/-inf  (5 c) str
   (6 z) np.int64  (7 n) np.float64  (8 b) np.bool_
   (9 (kind bits) (d1 d2 ..) (n1 n2 ..)) ndarray, values over 1024
   (10 (v ..)) list  (11 (v ..)) tuple  (12 (v ..)) set  (13 ((k v) ..)) dict  (14 c) agent *)
Definition dec_dtype (x : sx) : option dtype :=
  match x with
  | L [A 0; A _] => Some DBool
  | L [A 1; A b] => Some (DInt b)
  | L [A 2; A b] => Some (DUInt b)
  | L [A 3; A b] => Some (DFloat b)
  | L [A 4; A _] => Some DObj
  | _ => None
  end.

Definition tick (n : Z) : Q := n # 1024.

Fixpoint dec_py (x : sx) : option pyval :=
  match x with
  | L [A 0] => Some PNone
  | L [A 1; A 0] => Some (PBool false)
  | L [A 1; A 1] => Some (PBool true)
  | L [A 2; A z] => Some (PInt z)
  | L [A 3; A n] => Some (PFloat (tick n))
  | L [A 4; A 0] => Some (PFloatX FNaN)
  | L [A 4; A 1] => Some (PFloatX FPosInf)
  | L [A 4; A 2] => Some (PFloatX FNegInf)
  | L [A 5; A c] => Some (PStr c)
  | L [A 6; A z] => Some (PNpInt z)
  | L [A 7; A n] => Some (PNpFloat (tick n))
  | L [A 8; A 0] => Some (PNpBool false)
  | L [A 8; A 1] => Some (PNpBool true)
  | L [A 9; xd; xs; xv] =>
      match dec_dtype xd, sxZs xs, sxZs xv with
      | Some d, Some sh, Some vs =>
          if (fold_right Z.mul 1 sh =? Z.of_nat (length vs)) && forallb (fun d => 0 <=? d) sh
          then Some (PArr d sh (map tick vs)) else None
      | _, _, _ => None
      end
  | L [A 10; L r] =>
      option_map PList
        ((fix go (r : list sx) : option (list pyval) :=
            match r with
            | [] => Some []
            | a :: r' => match dec_py a, go r' with
                         | Some v, Some vs => Some (v :: vs) | _, _ => None end
            end) r)
  | L [A 11; L r] =>
      option_map PTuple
        ((fix go (r : list sx) : option (list pyval) :=
            match r with
            | [] => Some []
            | a :: r' => match dec_py a, go r' with
                         | Some v, Some vs => Some (v :: vs) | _, _ => None end
            end) r)
  | L [A 12; L r] =>
      option_map PSet
        ((fix go (r : list sx) : option (list pyval) :=
            match r with
            | [] => Some []
            | a :: r' => match dec_py a, go r' with
                         | Some v, Some vs => Some (v :: vs) | _, _ => None end
            end) r)
  | L [A 13; L r] =>
      option_map PDict
        ((fix go (r : list sx) : option (list (pyval * pyval)) :=
            match r with
            | [] => Some []
            | L [k; v] :: r' => match dec_py k, dec_py v, go r' with
                                | Some k', Some v', Some kvs => Some ((k', v') :: kvs)
                                | _, _, _ => None end
            | _ => None
            end) r)
  | L [A 14; A c] => Some (PAgent c)
  | _ => None
  end.

(* outcome of a setter / constructor / finalize: accepted, or the kind of exception *)
Inductive outcome := Accept | Reject | RaiseValue | RaiseType | RaiseOther.

(* same small enum as harness/runner.py exc_code: AssertionError 1, other 3, ValueError 6,
   TypeError 7; 0 = no exception *)
Definition outcome_code (o : outcome) : Z :=
  match o with Accept => 0 | Reject => 1 | RaiseOther => 3 | RaiseValue => 6 | RaiseType => 7 end.

Definition accepted (o : outcome) : bool := match o with Accept => true | _ => false end.
Definition assert_ (b : bool) : outcome := if b then Accept else Reject.
